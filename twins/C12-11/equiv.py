import os, sys; sys.path.insert(0, os.getcwd())
import hashlib
import re
import warnings

import numpy as np

import magpylib as magpy

np.set_printoptions(precision=10, linewidth=200)


def clean(text):
    return re.sub(r"id=\d+", "id=N", str(text)).replace("\n", " | ")


def digest(tag, arr):
    arr = np.asarray(arr)
    kind = arr.dtype.kind
    arr = np.ascontiguousarray(arr.astype(float))
    h = hashlib.sha256(arr.tobytes()).hexdigest()[:16]
    print(tag, arr.shape, kind, h)
    print(np.array2string(arr.ravel()[:24], precision=10))


def attempt(tag, func):
    """run func, print result / exception and every warning text (no line numbers)"""
    with warnings.catch_warnings(record=True) as rec:
        warnings.simplefilter("always")
        try:
            res = func()
            if isinstance(res, np.ndarray):
                digest(tag, res)
            else:
                print(tag, "->", clean(repr(res)))
        except Exception as err:  # pylint: disable=broad-except
            print(tag, "EXC", type(err).__name__, clean(err)[:400])
    for w in rec:
        print("   WARN", w.category.__name__, clean(w.message)[:400])


cube_v = (
    np.array(
        [(0, 0, 0), (1, 0, 0), (1, 1, 0), (0, 1, 0), (0, 0, 1), (1, 0, 1), (1, 1, 1), (0, 1, 1)],
        dtype=float,
    )
    - 0.5
)
cube_f = np.array(
    [
        (0, 2, 1), (0, 3, 2), (4, 5, 6), (4, 6, 7), (0, 1, 5), (0, 5, 4),
        (2, 3, 7), (2, 7, 6), (1, 2, 6), (1, 6, 5), (0, 4, 7), (0, 7, 3),
    ]
)
tet_v = np.array([(0, 0, 0), (1, 0, 0), (0, 1, 0), (0, 0, 1)], dtype=float)
tet_f = np.array([(0, 2, 1), (0, 1, 3), (1, 2, 3), (0, 3, 2)])


def meshes(scale):
    two_v = np.concatenate([cube_v, tet_v + (3, 0.2, -0.1)]) * scale
    two_f = np.concatenate([cube_f, tet_f + len(cube_v)])
    # two interpenetrating tetrahedra -> self-intersecting + disconnected
    cross_v = np.concatenate([tet_v, tet_v * (1, 1, 1) + (0.2, 0.2, -0.5)]) * scale
    cross_f = np.concatenate([tet_f, tet_f + 4])
    return {
        "cube": (cube_v * scale, cube_f),
        "open": (cube_v * scale, cube_f[:-1]),
        "open2": (cube_v * scale, cube_f[:-3]),
        "two": (two_v, two_f),
        "cross": (cross_v, cross_f),
    }


def status(m):
    return (
        m.status_open,
        m.status_disconnected,
        m.status_selfintersecting,
        m.status_reoriented,
        None if m.status_open_data is None else m.status_open_data.tolist(),
        None if m.status_disconnected_data is None else [s.tolist() for s in m.status_disconnected_data],
        None if m.status_selfintersecting_data is None else m.status_selfintersecting_data.tolist(),
        m.faces.tolist(),
    )


MODES = ("warn", "raise", "ignore", "skip", True, False)

# 1) constructor with every mode of each check, several length units
for scale in (1.0, 1e-9, 1e-3, 1e6, 1e9):
    for name, (v, f) in meshes(scale).items():
        for mode in MODES:
            for which in ("check_open", "check_disconnected", "check_selfintersecting"):
                kw = {
                    "check_open": "ignore",
                    "check_disconnected": "ignore",
                    "check_selfintersecting": "ignore",
                    "reorient_faces": "ignore",
                }
                kw[which] = mode
                attempt(
                    f"ctor {name} s={scale:g} {which}={mode!r}",
                    lambda: status(
                        magpy.magnet.TriangularMesh(vertices=v, faces=f, polarization=(0.1, 0.2, 0.3), **kw)
                    ),
                )

# 2) direct method calls: return values, caching (second call silent), mode order
for scale in (1.0, 1e-9, 1e9):
    for name, (v, f) in meshes(scale).items():
        for which in ("check_open", "check_disconnected", "check_selfintersecting"):
            for first, second in (("skip", "warn"), ("warn", "raise"), ("raise", "warn"), ("ignore", "raise"), (False, True)):
                m = magpy.magnet.TriangularMesh(
                    vertices=v, faces=f, polarization=(0.1, 0.2, 0.3),
                    check_open="skip", check_disconnected="skip",
                    check_selfintersecting="skip", reorient_faces="skip",
                )
                attempt(f"call1 {name} s={scale:g} {which}({first!r})", lambda: getattr(m, which)(mode=first))
                attempt(f"call2 {name} s={scale:g} {which}({second!r})", lambda: getattr(m, which)(second))
                print("   status", status(m)[:4])

# 3) error paths: bad mode values (message contains the argument name)
v, f = meshes(1.0)["open"]
for which in ("check_open", "check_disconnected", "check_selfintersecting", "reorient_faces"):
    for bad in ("bad", None, 1, 0, "WARN", 2.5, ("warn",)):
        attempt(
            f"badmode ctor {which}={bad!r}",
            lambda: magpy.magnet.TriangularMesh(vertices=v, faces=f, polarization=(1, 0, 0), **{which: bad}),
        )
    m = magpy.magnet.TriangularMesh(
        vertices=v, faces=f, polarization=(1, 0, 0),
        check_open="skip", check_disconnected="skip", check_selfintersecting="skip", reorient_faces="skip",
    )
    for bad in ("bad", None, 3):
        attempt(f"badmode call {which}({bad!r})", lambda: getattr(m, which)(bad))
    print("   status", status(m)[:4])
attempt("ctor default open", lambda: status(magpy.magnet.TriangularMesh(vertices=v, faces=f, polarization=(1, 0, 0))))
attempt("ctor all raise open", lambda: magpy.magnet.TriangularMesh(
    vertices=v, faces=f, polarization=(1, 0, 0), check_open="raise", check_disconnected="raise",
    check_selfintersecting="raise", reorient_faces="raise"))
attempt("array mode", lambda: m.check_open(np.array(["warn", "raise"])))

# 4) field and in/out decision unchanged under a change of the length unit
obs = np.array([(0.1, 0.2, 0.3), (0.5, 0.5, 0.5), (0.5, 0.1, 0.2), (2, 0.1, 0.3), (0, 0, 0), (3.2, 0.4, 0.1)])
for scale in (1.0, 1e-9, 1e-3, 1e3, 1e9):
    for name in ("cube", "two"):
        v, f = meshes(scale)[name]
        for amp in (1e-12, 1.0, 1e12):
            def run():
                m = magpy.magnet.TriangularMesh(vertices=v, faces=f, polarization=(0.1 * amp, 0.2 * amp, 0.3 * amp))
                return np.concatenate([m.getB(obs * scale) / amp, m.getH(obs * scale) / amp * 1e-6])
            attempt(f"field {name} s={scale:g} amp={amp:g}", run)
