import os, sys; sys.path.insert(0, os.getcwd())
import hashlib
import warnings

import numpy as np

import magpylib as magpy
from magpylib._src.fields.field_BH_triangularmesh import BHJM_magnet_trimesh

warnings.simplefilter("ignore")


def dig(name, arr):
    arr = np.ascontiguousarray(np.asarray(arr, dtype=float))
    h = hashlib.sha256(arr.tobytes()).hexdigest()[:16]
    print(name, arr.shape, h, np.round(arr.ravel()[:4], 12).tolist())


def attempt(name, func):
    try:
        dig(name, func())
    except Exception as err:  # pylint: disable=broad-except
        print(name, "error", type(err).__name__)


def mesh_of(src):
    return np.array(src.mesh, dtype=float)


tetra = magpy.magnet.TriangularMesh(
    polarization=(0, 0, 1),
    vertices=[(0, 0, 0), (1, 0, 0), (0, 1, 0), (0, 0, 1)],
    faces=[(0, 2, 1), (0, 1, 3), (0, 3, 2), (1, 2, 3)],
    reorient_faces=True,
)
corners = np.array(
    [(x, y, z) for x in (-0.5, 0.5) for y in (-0.5, 0.5) for z in (-0.5, 0.5)]
)
cube = magpy.magnet.TriangularMesh.from_ConvexHull(polarization=(1, 0, 0), points=corners)
cube2 = magpy.magnet.TriangularMesh.from_ConvexHull(
    polarization=(0, 1, 0), points=corners * 2.0
)
m_t, m_c, m_c2 = mesh_of(tetra), mesh_of(cube), mesh_of(cube2)
print("faces", m_t.shape, m_c.shape, m_c2.shape)

obs = np.array(
    [
        (0.1, 0.1, 0.1),  # inside all
        (0.2, 0.2, 0.7),  # inside big cube only
        (3.0, 1.0, 2.0),  # outside
        (0.45, -0.45, 0.3),  # inside cubes
        (0.0, 0.0, 0.0),  # corner of tetra / centre of cubes
        (-0.9, 0.9, 0.9),  # inside big cube
        (5.0, 5.0, 5.0),
        (0.25, 0.25, 0.25),
    ]
)
pol = np.array([(0.1 * i, 0.2, -0.1 * i + 0.3) for i in range(1, 9)])

# uniform (4D array) input: runs of equal meshes c c | c2 c2 c2 | c | c2 c2
mesh_u = np.array([m_c, m_c, m_c2, m_c2, m_c2, m_c, m_c2, m_c2])
# ragged (object array) input: t | c c | t t | c2 | t | c
mesh_r = np.empty(8, dtype=object)
for i, m in enumerate([m_t, m_c, m_c, m_t, m_t, m_c2, m_t, m_c]):
    mesh_r[i] = m

for label, mesh in (("uni", mesh_u), ("rag", mesh_r)):
    for field in "BHJM":
        for in_out in ("auto", "inside", "outside"):
            out = BHJM_magnet_trimesh(
                field=field, observers=obs, mesh=mesh, polarization=pol, in_out=in_out
            )
            dig(f"{label}_{field}_{in_out}", out)

# each row depends on its own mesh/observer/polarization only
full = BHJM_magnet_trimesh("B", obs, mesh_r, pol)
single = []
for i in range(8):
    mm = np.empty(1, dtype=object)
    mm[0] = mesh_r[i]
    single.append(BHJM_magnet_trimesh("B", obs[i : i + 1], mm, pol[i : i + 1])[0])
print(
    "rows (ragged vs single) exact/close",
    bool(np.all(np.array(single) == full)),
    bool(np.allclose(np.array(single), full, rtol=1e-10, atol=1e-15)),
)
full = BHJM_magnet_trimesh("B", obs, mesh_u, pol)
single = [
    BHJM_magnet_trimesh("B", obs[i : i + 1], mesh_u[i : i + 1], pol[i : i + 1])[0]
    for i in range(8)
]
print("rows exact (uniform vs single)", bool(np.all(np.array(single) == full)))

# smallest case and input arrays are left untouched
o1, p1, m1 = obs[:1].copy(), pol[:1].copy(), mesh_u[:1].copy()
dig("single_row", BHJM_magnet_trimesh("B", o1, m1, p1))
print("inputs untouched", bool(np.all(o1 == obs[:1]) and np.all(p1 == pol[:1])))

# error / corner paths
attempt("field_X", lambda: BHJM_magnet_trimesh("X", obs, mesh_u, pol))
attempt("field_BH", lambda: BHJM_magnet_trimesh("BH", obs, mesh_u, pol))
attempt("field_empty", lambda: BHJM_magnet_trimesh("", obs, mesh_r, pol))
attempt("field_int", lambda: BHJM_magnet_trimesh(1, obs, mesh_u, pol))
attempt("in_out_other", lambda: BHJM_magnet_trimesh("J", obs, mesh_u, pol, in_out="x"))
attempt(
    "zero_rows_J",
    lambda: BHJM_magnet_trimesh("J", obs[:0], mesh_u[:0], pol[:0]),
)
attempt(
    "zero_rows_B",
    lambda: BHJM_magnet_trimesh("B", obs[:0], mesh_u[:0], pol[:0]),
)
attempt(
    "zero_rows_B_ragged",
    lambda: BHJM_magnet_trimesh("B", obs[:0], mesh_r[:0], pol[:0]),
)
attempt("mesh_0d", lambda: BHJM_magnet_trimesh("B", obs, np.array(1.0), pol))

# through the object oriented interface (path + pixels + several meshes)
tetra.position = [(0, 0, 0), (0.1, 0, 0), (0.2, 0, 0)]
cube2.rotate_from_angax(30, "z")
sens = magpy.Sensor(pixel=[(0.1, 0.1, 0.1), (2, 2, 2)], position=(0.05, 0.05, 0.05))
srcs = [tetra, cube, cube2, cube, tetra]
for field in "BHJM":
    for in_out in ("auto", "inside", "outside"):
        out = getattr(magpy, "get" + field)(
            srcs, [sens, [(0.2, 0.2, 0.2), (0.3, 0.1, 0.1)]], squeeze=False, in_out=in_out
        )
        dig(f"oo_{field}_{in_out}", out)
