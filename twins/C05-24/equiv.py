import os, sys; sys.path.insert(0, os.getcwd())
import hashlib
import re
import warnings

import numpy as np


def noid(txt):
    """object ids differ from run to run"""
    return re.sub(r"id=\d+", "id=#", re.sub(r"0x[0-9a-f]+", "0x#", txt))


def dig(x):
    """deterministic digest of an array / dataframe / anything"""
    try:
        import pandas as pd

        if isinstance(x, pd.DataFrame):
            return (
                f"df{x.shape} cols={list(x.columns)} "
                + hashlib.sha1(noid(x.to_csv()).encode()).hexdigest()[:12]
            )
    except ImportError:
        pass
    a = np.asarray(x)
    if a.dtype == object:
        return f"obj {a!r}"
    a = np.ascontiguousarray(a, dtype=float)
    return (
        f"{a.shape} sum={np.round(np.nansum(a), 12)!r} "
        + hashlib.sha1(a.tobytes()).hexdigest()[:12]
    )


def run(label, func, *args, **kwargs):
    """call and print digest or exception (type, first and last message line)"""
    with warnings.catch_warnings(record=True) as wlist:
        warnings.simplefilter("always")
        try:
            res = func(*args, **kwargs)
            out = dig(res)
        except BaseException as err:  # pylint: disable=broad-except
            msg = str(err).strip().splitlines() or [""]
            out = noid(f"!! {type(err).__name__}: {msg[0][:150]} || {msg[-1][:150]}")
            res = None
    wtxt = "".join(
        noid(f" [W {w.category.__name__}: {str(w.message)[:60]}]") for w in wlist
    )
    print(f"{label}: {out}{wtxt}")
    return res

import magpylib as magpy
from magpylib._src.obj_classes.class_Collection import BaseCollection

NAMES = {}


def name(o):
    if o is None:
        return "None"
    return NAMES.get(id(o), f"?{type(o).__name__}")


def world():
    """fresh objects: 3 sources, 2 sensors, 4 collections; registered by name"""
    NAMES.clear()
    objs = {
        "s1": magpy.magnet.Cuboid(polarization=(0.1, 0.2, 0.3), dimension=(1, 2, 3), position=(0.5, 0, 0)),
        "s2": magpy.current.Circle(current=3.0, diameter=2.0, position=[(0, 0, 0.1), (0, 0, 0.2)]),
        "s3": magpy.misc.Dipole(moment=(1, 2, 3), position=(-1, 0.3, 0)),
        "x1": magpy.Sensor(position=(0, 0, 2), pixel=[(0, 0, 0), (0.1, 0, 0)]),
        "x2": magpy.Sensor(position=(1, 1, 1), handedness="left").rotate_from_angax(40, "y"),
        "A": magpy.Collection(),
        "B": magpy.Collection(),
        "C": magpy.Collection(),
        "D": magpy.Collection(),
    }
    for k, o in objs.items():
        NAMES[id(o)] = k
        o.style.label = k
    return objs


def state(objs):
    """children / sources / sensors / collections of all collections, parents of all objects"""
    out = []
    for k, o in objs.items():
        if isinstance(o, magpy.Collection):
            out.append(
                f"{k}[ch={','.join(map(name, o._children))}|src={','.join(map(name, o._sources))}"
                f"|sens={','.join(map(name, o._sensors))}|col={','.join(map(name, o._collections))}"
                f"|all={','.join(map(name, o.children_all))}]"
            )
    out.append("parents " + " ".join(f"{k}>{name(o._parent)}" for k, o in objs.items()))
    return "\n     ".join(out)


def fields(objs):
    """B of every collection that has sources (entry = sum over its tree), at a fixed point and at x2"""
    out = []
    for k, o in objs.items():
        if isinstance(o, magpy.Collection) and o.sources_all:
            out.append(f"{k}:{dig(magpy.getB(o, (0.3, 0.2, 1.0)))}|{dig(magpy.getH([o, objs['s1']], objs['x2'], sumup=True))}")
    return " ".join(out)


def step(objs, label, func):
    with warnings.catch_warnings(record=True) as wlist:
        warnings.simplefilter("always")
        try:
            res = func()
            out = "ok" if res is None else ("ret=" + name(res) if id(res) in NAMES else f"ret {type(res).__name__}")
        except BaseException as err:  # pylint: disable=broad-except
            msg = str(err).strip().splitlines() or [""]
            out = noid(f"!! {type(err).__name__}: {msg[0][:160]} || {msg[-1][:100]}")
    print(f"-- {label}: {out} W={len(wlist)}")
    print("     " + state(objs))
    print("     " + fields(objs))


def scenario(title, build, actions):
    """every action runs on a freshly built world"""
    print(f"==== {title}")
    for label, act in actions:
        o = world()
        build(o)
        step(o, label, lambda: act(o))


def build0(o):
    """A(s1, x1, B(s2, C(s3))), D(x2)"""
    o["C"].add(o["s3"])
    o["B"].add(o["s2"], o["C"])
    o["A"].add(o["s1"], o["x1"], o["B"])
    o["D"].add(o["x2"])


o = world()
build0(o)
print("start\n     " + state(o) + "\n     " + fields(o))

ADD_ACTIONS = [
    ("A.add()", lambda o: o["A"].add()),
    ("D.add(s-free)", lambda o: o["D"].add(magpy.Sensor(style_label="free"))),
    ("D.add(s1) owned", lambda o: o["D"].add(o["s1"])),
    ("D.add(s1,override)", lambda o: o["D"].add(o["s1"], override_parent=True)),
    ("A.add(s1) own child", lambda o: o["A"].add(o["s1"])),
    ("A.add(s1,override) own child goes last", lambda o: o["A"].add(o["s1"], override_parent=True)),
    ("A.add(x1,s1,override) own children reordered", lambda o: o["A"].add(o["x1"], o["s1"], override_parent=True)),
    ("A.add(B,override) own collection goes last", lambda o: o["A"].add(o["B"], override_parent=True)),
    ("A.add(s3,override) grandchild pulled up", lambda o: o["A"].add(o["s3"], override_parent=True)),
    ("A.add(s2,s3,C,override)", lambda o: o["A"].add(o["s2"], o["s3"], o["C"], override_parent=True)),
    ("C.add(s1,x2,override)", lambda o: o["C"].add([o["s1"], o["x2"]], override_parent=True)),
    ("D.add((s1,s2),override) tuple", lambda o: o["D"].add((o["s1"], o["s2"]), override_parent=True)),
    ("D.add(s1,s1,override) twice", lambda o: o["D"].add(o["s1"], o["s1"], override_parent=True)),
    ("D.add(x2f,s1,x2f) twice not adjacent", lambda o: (lambda f: o["D"].add(f, o["s2"], f, override_parent=True))(magpy.Sensor())),
    ("D.add(free,s1) second owned: nothing added", lambda o: o["D"].add(magpy.Sensor(), o["s1"])),
    ("D.add(free,free2,free) dup after two", lambda o: (lambda f: o["D"].add(f, magpy.Sensor(), f))(magpy.Sensor())),
    ("A.add(A)", lambda o: o["A"].add(o["A"])),
    ("A.add(A,override)", lambda o: o["A"].add(o["A"], override_parent=True)),
    ("C.add(A) ancestor", lambda o: o["C"].add(o["A"])),
    ("C.add(A,override) ancestor", lambda o: o["C"].add(o["A"], override_parent=True)),
    ("C.add(B,override) parent", lambda o: o["C"].add(o["B"], override_parent=True)),
    ("B.add(D)", lambda o: o["B"].add(o["D"])),
    ("D.add(B) owned collection", lambda o: o["D"].add(o["B"])),
    ("D.add(B,override)", lambda o: o["D"].add(o["B"], override_parent=True)),
    ("D.add(C,B,override) child before its parent", lambda o: o["D"].add(o["C"], o["B"], override_parent=True)),
    ("D.add(free, A-as-self-ref later) rejected as a whole", lambda o: o["C"].add(magpy.Sensor(), o["A"], override_parent=True)),
    ("D.add(s1, owned-dup) order of checks: parent before dup", lambda o: o["D"].add(o["s1"], o["s1"])),
    ("D.add(D, D) self ref before dup", lambda o: o["D"].add(o["D"], o["D"], override_parent=True)),
    ("D.add(1)", lambda o: o["D"].add(1)),
    ("D.add(s-free, 'x')", lambda o: o["D"].add(magpy.Sensor(), "x")),
    ("D.add(None)", lambda o: o["D"].add(None)),
    ("D.add([[s1]])", lambda o: o["D"].add([[o["s1"]]], override_parent=True)),
    ("D.add([s1],[s2])", lambda o: o["D"].add([o["s1"]], [o["s2"]], override_parent=True)),
    ("D.add(s1, override=array) truth value", lambda o: o["D"].add(o["s1"], override_parent=np.array([1, 1]))),
    ("D.add(free, override=array) not evaluated", lambda o: o["D"].add(magpy.Sensor(), override_parent=np.array([1, 1]))),
    ("D.add(s1, override='yes')", lambda o: o["D"].add(o["s1"], override_parent="yes")),
    ("Collection(s1) owned", lambda o: magpy.Collection(o["s1"])),
    ("Collection(s1,override)", lambda o: magpy.Collection(o["s1"], override_parent=True)),
    ("A + s3? (BaseGeo.__add__)", lambda o: o["D"] + o["x1"]),
    ("s1 + s2", lambda o: o["s1"] + o["s2"]),
    ("A.children = [s3, s1]", lambda o: setattr(o["A"], "children", [o["s3"], o["s1"]])),
    ("A.sources = [s3, s1]", lambda o: setattr(o["A"], "sources", [o["s3"], o["s1"]])),
    ("A.sensors = [x2]", lambda o: setattr(o["A"], "sensors", [o["x2"]])),
    ("A.collections = [D, C]", lambda o: setattr(o["A"], "collections", [o["D"], o["C"]])),
    ("A.remove(s3)", lambda o: o["A"].remove(o["s3"])),
    ("A.remove(s3, recursive=False)", lambda o: o["A"].remove(o["s3"], recursive=False)),
    ("s1.copy(parent=D)", lambda o: o["s1"].copy(parent=o["D"])),
    ("s1.copy()", lambda o: o["s1"].copy()),
    ("B.copy()", lambda o: o["B"].copy()),
]

PARENT_ACTIONS = [
    ("s1.parent = D", lambda o: setattr(o["s1"], "parent", o["D"])),
    ("s1.parent = A (already its parent: goes last)", lambda o: setattr(o["s1"], "parent", o["A"])),
    ("x1.parent = A (already its parent)", lambda o: setattr(o["x1"], "parent", o["A"])),
    ("B.parent = A (already its parent)", lambda o: setattr(o["B"], "parent", o["A"])),
    ("s3.parent = A (grandchild)", lambda o: setattr(o["s3"], "parent", o["A"])),
    ("s3.parent = B", lambda o: setattr(o["s3"], "parent", o["B"])),
    ("s1.parent = None", lambda o: setattr(o["s1"], "parent", None)),
    ("s3.parent = None", lambda o: setattr(o["s3"], "parent", None)),
    ("B.parent = None", lambda o: setattr(o["B"], "parent", None)),
    ("A.parent = None (has none)", lambda o: setattr(o["A"], "parent", None)),
    ("free.parent = None", lambda o: setattr(magpy.Sensor(), "parent", None)),
    ("A.parent = A", lambda o: setattr(o["A"], "parent", o["A"])),
    ("A.parent = C (descendant)", lambda o: setattr(o["A"], "parent", o["C"])),
    ("B.parent = C (child)", lambda o: setattr(o["B"], "parent", o["C"])),
    ("C.parent = D", lambda o: setattr(o["C"], "parent", o["D"])),
    ("D.parent = C", lambda o: setattr(o["D"], "parent", o["C"])),
    ("s1.parent = 1", lambda o: setattr(o["s1"], "parent", 1)),
    ("s1.parent = 's'", lambda o: setattr(o["s1"], "parent", "s")),
    ("s1.parent = [D]", lambda o: setattr(o["s1"], "parent", [o["D"]])),
    ("s1.parent = s2", lambda o: setattr(o["s1"], "parent", o["s2"])),
    ("s1.parent = False", lambda o: setattr(o["s1"], "parent", False)),
    ("s1.parent = Collection class", lambda o: setattr(o["s1"], "parent", magpy.Collection)),
    ("s1.parent = BaseCollection()", lambda o: setattr(o["s1"], "parent", BaseCollection())),
    ("Sensor(parent=D)?", lambda o: magpy.Sensor(parent=o["D"])),
    ("del s1.parent", lambda o: delattr(o["s1"], "parent")),
]


def stale_parent(o):
    """_parent points to a collection that does not list the object (inconsistent on purpose)"""
    o["s1"]._parent = o["D"]


STALE_ACTIONS = [
    ("stale: s1.parent = None", lambda o: (stale_parent(o), setattr(o["s1"], "parent", None))[1]),
    ("stale: s1.parent = C", lambda o: (stale_parent(o), setattr(o["s1"], "parent", o["C"]))[1]),
    ("stale: C.add(s1, override)", lambda o: (stale_parent(o), o["C"].add(o["s1"], override_parent=True))[1]),
    ("stale: C.add(x2, s1, override) stops half way, lists updated", lambda o: (stale_parent(o), o["C"].add(o["x2"], o["s1"], override_parent=True))[1]),
]

scenario("add and friends", build0, ADD_ACTIONS)
scenario("parent setter", build0, PARENT_ACTIONS)
scenario("stale parent links", build0, STALE_ACTIONS)


class Hybrid(magpy.Sensor):
    """own remove hook to see who is asked to release the child"""


class LoudCollection(magpy.Collection):
    def remove(self, *children, **kwargs):
        print("     LoudCollection.remove called with", [name(c) for c in children], kwargs)
        return super().remove(*children, **kwargs)


print("==== which collection is asked to release a child, and how often")
o = world()
L = LoudCollection(o["s1"], o["x1"], style_label="L")
NAMES[id(L)] = "L"
o["L"] = L
step(o, "L.add(s1,override)", lambda: L.add(o["s1"], override_parent=True))
step(o, "s1.parent = L", lambda: setattr(o["s1"], "parent", L))
step(o, "x1.parent = None", lambda: setattr(o["x1"], "parent", None))
step(o, "x1.parent = None again", lambda: setattr(o["x1"], "parent", None))
step(o, "D.add(s1,override)", lambda: o["D"].add(o["s1"], override_parent=True))
step(o, "L.add(s2, s3)", lambda: L.add(o["s2"], o["s3"]))
step(o, "L.sources = [s3]", lambda: setattr(L, "sources", [o["s3"]]))
