import os, sys; sys.path.insert(0, os.getcwd())
# equivalence digest for twins5/1: BaseGeo.style getter (lazy style creation, pending style kwargs)
import hashlib
import re
import warnings

import numpy as np

import magpylib as magpy
from magpylib._src.style import BaseStyle, MagnetStyle, SensorStyle

warnings.simplefilter("ignore")


def h(a):
    a = np.ascontiguousarray(np.asarray(a, dtype=float))
    return hashlib.sha1(a.tobytes()).hexdigest()[:10] + str(a.shape)


def clean(txt):
    return re.sub(r"id=\d+", "id=#", str(txt))


def pending(obj):
    pk = obj.__dict__.get("_style_kwargs", "<absent>")
    return clean(repr(pk)) if not isinstance(pk, BaseStyle) else f"<{type(pk).__name__} obj>"


def sdig(obj):
    st = obj.__dict__.get("_style", "<absent>")
    if isinstance(st, BaseStyle):
        st = hashlib.sha1(repr(sorted(st.as_dict(flatten=True).items(), key=str)).encode()).hexdigest()[:10]
    return f"_style={st} pending={pending(obj)}"


def geo(obj):
    return f"pos={h(obj._position)} ori={h(obj._orientation.as_quat())} parent={clean(obj._parent)}"


def access(tag, obj, times=2):
    print(f"[{tag}] before: {sdig(obj)}")
    got = []
    for i in range(times):
        try:
            s = obj.style
            got.append(s)
            print(f"[{tag}] access{i}: ok type={type(s).__name__} label={s.label!r} same_as_first={s is got[0]}")
        except BaseException as e:  # noqa
            print(f"[{tag}] access{i}: {type(e).__name__}: {clean(e.args)} ctx={type(e.__context__).__name__} cause={type(e.__cause__).__name__}")
        print(f"[{tag}] after{i}: {sdig(obj)}")


# 1 plain objects: no style input
access("sensor-plain", magpy.Sensor())
access("cuboid-plain", magpy.magnet.Cuboid(polarization=(0, 0, 1), dimension=(1, 1, 1)))
access("collection-plain", magpy.Collection())

# 2 valid pending kwargs
access("sensor-label", magpy.Sensor(style_label="s1"))
access("cuboid-kw", magpy.magnet.Cuboid(polarization=(0, 0, 1), dimension=(1, 1, 1), style_label="c", style_color="red", style_magnetization_show=False))
access("circle-dict", magpy.current.Circle(current=1, diameter=1, style={"label": "loop", "arrow": {"show": False}}))
access("dipole-magic", magpy.misc.Dipole(moment=(1, 2, 3), style_label="d", style_color="blue", style_opacity=0.5))
access("poly-magic", magpy.current.Polyline(current=1, vertices=[(0, 0, 0), (1, 1, 1)], style={"label": "d", "color": "blue"}, style_opacity=0.5))
try:
    magpy.misc.Dipole(moment=(1, 2, 3), style={"label": "d"})
except BaseException as e:  # noqa
    print("[dipole-style-dict]", type(e).__name__, clean(e))
access("coll", magpy.Collection(magpy.Sensor(), style_label="col"))

# 3 invalid pending kwargs: every access reports again, pending kept
access("bad-key", magpy.Sensor(style_bad=1), times=3)
access("bad-nested", magpy.magnet.Sphere(polarization=(0, 0, 1), diameter=1, style_magnetization_foo=3))
access("bad-value", magpy.Sensor(style_opacity="bad"))
access("bad-value2", magpy.magnet.Cuboid(style_color=12345))
access("bad-mixed", magpy.Sensor(style_label="ok", style_size="xx"))

# 4 odd `style` inputs kept as pending
for tag, st in [("str", "hello"), ("int5", 5), ("int0", 0), ("emptydict", {}), ("list", [1, 2]), ("emptylist", []),
                ("tuple", (("label", "x"),)), ("styleobj", SensorStyle(label="obj")), ("wrongstyleobj", MagnetStyle(label="m"))]:
    try:
        o = magpy.Sensor(style=st)
    except BaseException as e:  # noqa
        print(f"[odd-{tag}] ctor {type(e).__name__}: {clean(e)}")
        continue
    access(f"odd-{tag}", o)

# 5 non-(AttributeError, ValueError) failures inside update: message untouched, pending kept, same instance re-raised
RAISE = {}


class FlakyStyle(SensorStyle):
    calls = 0

    def update(self, arg=None, **kw):
        FlakyStyle.calls += 1
        exc = RAISE.get(FlakyStyle.calls)
        if exc is not None:
            raise exc
        return super().update(arg, **kw)


class FlakySensor(magpy.Sensor):
    _style_class = FlakyStyle


excs = [KeyboardInterrupt("stop"), TypeError("tt"), AttributeError("aa"), ValueError("vv"), SystemExit(3), KeyError("k"),
        LookupError(), type("MyVal", (ValueError,), {})("sub"), StopIteration("si"), AttributeError()]
for exc in excs:
    FlakyStyle.calls = 0
    o = FlakySensor(style_label="flaky")
    FlakyStyle.calls = 0
    RAISE.clear()
    RAISE[1] = exc
    tag = "flaky-" + type(exc).__name__
    print(f"[{tag}] before: {sdig(o)}")
    try:
        o.style
        print(f"[{tag}] no error?")
    except BaseException as e:  # noqa
        print(f"[{tag}] {type(e).__name__} same_instance={e is exc} args={clean(e.args)}")
    print(f"[{tag}] after fail: {sdig(o)} calls={FlakyStyle.calls}")
    try:
        s = o.style  # second call of update succeeds
        print(f"[{tag}] retry ok label={s.label!r}")
    except BaseException as e:  # noqa
        print(f"[{tag}] retry {type(e).__name__} {clean(e.args)}")
    print(f"[{tag}] after retry: {sdig(o)} calls={FlakyStyle.calls}")

# 6 objects without the bookkeeping attribute
o = magpy.Sensor.__new__(magpy.Sensor)
try:
    o.style
except BaseException as e:  # noqa
    print("[new-only]", type(e).__name__, clean(e))
print("[new-only] _style in dict:", "_style" in o.__dict__, type(o.__dict__.get("_style")).__name__)

# 7 style object given explicitly beforehand + pending kwargs
o = magpy.Sensor(style_label="late")
o._style = SensorStyle(label="early", opacity=0.3)
access("preset", o)
o = magpy.Sensor(style_label="late")
o._style = None
access("preset-none", o)

# 8 field computation with pending (valid / invalid) style kwargs: only the dataframe output reads the style
src_ok = magpy.magnet.Cuboid(polarization=(0, 0, 1), dimension=(1, 1, 1), style_label="src")
src_bad = magpy.magnet.Cuboid(polarization=(0, 0, 1), dimension=(1, 1, 1), position=[(0, 0, 0), (1, 0, 0)], style_nope=1)
sens_bad = magpy.Sensor(position=(0, 0, 2), style_size="huge")
sens_ok = magpy.Sensor(position=(1, 1, 2), pixel=[(0, 0, 0), (0, 0, 1)], style_label="sens")
for tag, srcs, obs in [("ok", [src_ok], [sens_ok]), ("badsrc", [src_ok, src_bad], [sens_ok]), ("badsens", [src_ok], [sens_ok, sens_bad]), ("both", [src_bad], [sens_bad])]:
    for output in ("ndarray", "dataframe"):
        for rep in range(2):
            st0 = [geo(x) for x in srcs + obs]
            try:
                res = magpy.getB(srcs, obs, output=output, pixel_agg="mean")
                if output == "dataframe":
                    print(f"[field-{tag}-{output}-{rep}] ok", h(res[["Bx", "By", "Bz"]].to_numpy()), list(res["source"].unique()), list(res["sensor"].unique()))
                else:
                    print(f"[field-{tag}-{output}-{rep}] ok", h(res))
            except BaseException as e:  # noqa
                print(f"[field-{tag}-{output}-{rep}] {type(e).__name__}: {clean(e.args)}")
            print(f"[field-{tag}-{output}-{rep}] geo_unchanged={st0 == [geo(x) for x in srcs + obs]}", [sdig(x) for x in srcs + obs])

# 9 repr / describe / copy on objects with pending kwargs
o = magpy.Sensor(style_label="rp")
print("[repr]", clean(repr(o)), sdig(o))
o = magpy.Sensor(style_xx=1)
try:
    print("[repr-bad]", clean(repr(o)))
except BaseException as e:  # noqa
    print("[repr-bad]", type(e).__name__, clean(e.args))
print("[repr-bad]", sdig(o))
o = magpy.Sensor(style_label="cp")
c = o.copy()
print("[copy]", sdig(o), "|", sdig(c), c.style.label)
o = magpy.Sensor(style_xx=1)
try:
    o.copy()
except BaseException as e:  # noqa
    print("[copy-bad]", type(e).__name__, clean(e.args), sdig(o))
