import os, sys; sys.path.insert(0, os.getcwd())
import hashlib
import json
import re
import warnings

import numpy as np
from scipy.spatial.transform import Rotation as R

import magpylib as magpy
from magpylib._src.display.traces_generic import get_frames
from magpylib._src.display.traces_utility import DEFAULT_ROW_COL_PARAMS
from magpylib._src.display.traces_utility import process_show_input_objs

warnings.simplefilter("ignore")


def norm(o):
    """deterministic, JSON-able view of nested trace structures (keeps dict key order)"""
    if isinstance(o, dict):
        return ["dict", [[str(k), norm(v)] for k, v in o.items()]]
    if isinstance(o, (list, tuple)):
        return [type(o).__name__, [norm(v) for v in o]]
    if isinstance(o, np.ndarray):
        if o.dtype.kind in "fiu":
            return ["nd", str(o.dtype.kind), list(o.shape), np.round(o.astype(float), 9).tolist()]
        return ["nd", str(o.dtype.kind), list(o.shape), [norm(v) for v in o.ravel().tolist()]]
    if isinstance(o, (bool, np.bool_)):
        return bool(o)
    if isinstance(o, (float, np.floating)):
        return ["f", round(float(o), 9)]
    if isinstance(o, (int, np.integer)):
        return ["i", int(o)]
    if o is None:
        return None
    if isinstance(o, str):
        return re.sub(r"id=\d+|0x[0-9a-f]+", "#", o)
    if isinstance(o, R):
        return ["rot", np.round(o.as_quat(), 9).tolist()]
    return re.sub(r"id=\d+|0x[0-9a-f]+", "#", repr(o))


def digest(label, o):
    s = json.dumps(norm(o))
    print(f"{label}: {hashlib.sha256(s.encode()).hexdigest()[:16]} len={len(s)}")
    return s


def attempt(label, func):
    try:
        res = func()
    except Exception as err:  # pylint: disable=broad-except
        msg = re.sub(r"id=\d+|0x[0-9a-f]+", "#", str(err))
        print(f"{label}: EXC {type(err).__name__}: {msg}")
        return None
    digest(label, res)
    return res


def model(*objs, backend="plotly", colorgrad=True, **kw):
    objects, *_ = process_show_input_objs(
        objs, **{k: v for k, v in kw.items() if k in DEFAULT_ROW_COL_PARAMS})
    style_kw = {k: v for k, v in kw.items() if k.startswith("style")}
    kw = {k: v for k, v in kw.items() if k not in DEFAULT_ROW_COL_PARAMS and k not in style_kw}
    return get_frames(objects, backend=backend, supports_colorgradient=colorgrad,
                      style_kwargs=style_kw, **kw)


def state(objs):
    return json.dumps(norm([[o.style.as_dict(), o.position, o.orientation] for o in objs]
                           + [magpy.defaults.as_dict()]))

from magpylib._src.display import traces_base as tb
from magpylib.graphics import model3d as pub

rot = R.from_euler("xyz", (10, 20, 30), degrees=True)
BACKENDS = ("generic", "matplotlib", "plotly", "plotly-dict", "pyvista", "foo", None)

makers = {
    "Cuboid": (tb.make_Cuboid, {"dimension": (1, 2, 3)}),
    "Prism": (tb.make_Prism, {"base": 5, "diameter": 2, "height": 3}),
    "Ellipsoid": (tb.make_Ellipsoid, {"dimension": (1, 2, 3), "vert": 6}),
    "CylinderSegment": (tb.make_CylinderSegment, {"dimension": (1, 2, 3, 20, 250), "vert": 20}),
    "Pyramid": (tb.make_Pyramid, {"base": 4, "diameter": 2, "height": 3, "pivot": "tail"}),
    "Arrow": (tb.make_Arrow, {"base": 4, "diameter": 0.5, "height": 3, "pivot": "tip"}),
    "Tetrahedron": (tb.make_Tetrahedron, {"vertices": [(0, 0, 0), (1, 0, 0), (0, 1, 0), (0, 0, 1)]}),
    "TriangularMesh": (tb.make_TriangularMesh,
                       {"vertices": [(0, 0, 0), (1, 0, 0), (0, 1, 0), (0, 0, 1), (1, 1, 1)]}),
}
# --- every base maker x every backend, with placement and extra kwargs (incl. a `type` entry)
for name, (func, params) in makers.items():
    for backend in BACKENDS:
        attempt(f"{name} backend={backend!r}", lambda: func(
            backend, **params, position=(1, 2, 3), orientation=rot, show=False, scale=2,
            opacity=0.5, type="overridden"))
    attempt(f"{name} defaults", lambda: func(**params))
    res = func("matplotlib", **params, color="r")
    print(f"  {name} key order:", list(res), list(res["kwargs"]), len(res["args"]))
    res = func("plotly-dict", **params, color="r")
    print(f"  {name} plotly-dict key order:", list(res))

# --- pivots (Pyramid / Arrow), valid and invalid, heights of several types
for func in (tb.make_Pyramid, tb.make_Arrow):
    for pivot in ("tail", "middle", "tip", "Tail", "", None, 0, ("tail",)):
        for height in (1, 3.5, np.float64(2), 0, -2):
            attempt(f"{func.__name__} pivot={pivot!r} height={height!r}", lambda: func(
                "plotly-dict", base=3, diameter=0.4, height=height, pivot=pivot))
    attempt(f"{func.__name__} err height str", lambda: func("generic", height="1", pivot="tail"))
    attempt(f"{func.__name__} err height None", lambda: func("generic", height=None, pivot="bad"))
    attempt(f"{func.__name__} err pivot list", lambda: func("generic", pivot=["tail"]))
    attempt(f"{func.__name__} height array", lambda: func("generic", height=np.array(2.0), pivot="tip"))
attempt("Arrow err diameter str", lambda: tb.make_Arrow("generic", diameter="1", pivot="tail"))
attempt("validate_pivot direct", lambda: tb.validate_pivot("tip", {"tip": 7}))
attempt("validate_pivot err", lambda: tb.validate_pivot("x", {"tip": 7}))

# --- get_model directly: aliasing of the trace dict and in-place effects
for backend in BACKENDS:
    trace = {"type": "mesh3d", "x": [0, 1, 0], "y": [0, 0, 1], "z": [0, 0, 0], "i": [0], "j": [1], "k": [2]}
    kwargs = {"color": "blue", "x": [5, 6, 7]}
    out = tb.get_model(trace, backend=backend, show="shw", scale="scl", kwargs=kwargs)
    digest(f"get_model backend={backend!r}", [out, trace, kwargs])
    print("   kwargs is trace:", out.get("kwargs") is trace, "| out is trace:", out is trace,
          "| keys:", list(out))
attempt("get_model err no i", lambda: tb.get_model(
    {"x": [0], "y": [0], "z": [0]}, backend="matplotlib", show=True, scale=1, kwargs={}))
attempt("get_model err trace None mpl", lambda: tb.get_model(
    None, backend="matplotlib", show=True, scale=1, kwargs={}))
attempt("get_model err trace None", lambda: tb.get_model(
    None, backend="generic", show=True, scale=1, kwargs={}))
attempt("get_model err kwargs None", lambda: tb.get_model(
    {"x": 1}, backend="plotly-dict", show=True, scale=1, kwargs=None))
attempt("get_model err backend array", lambda: tb.get_model(
    {"x": 1}, backend=np.array(["matplotlib", "plotly-dict"]), show=True, scale=1, kwargs={}))
attempt("get_model err missing arg", lambda: tb.get_model({"x": 1}, backend="generic"))

# --- public API and full display models using the base makers
attempt("public make_Arrow", lambda: pub.make_Arrow("plotly", base=5, pivot="tail", height=2))
attempt("public make_Pyramid", lambda: pub.make_Pyramid("matplotlib", base=5, pivot="tip", height=2))


def scene():
    cube = magpy.magnet.Cuboid(polarization=(0, 0, 1), dimension=(1, 2, 3))
    cube.position = [(0, 0, 0), (1, 2, 3), (2, 4, 6)]
    cube.rotate_from_angax([0, 45, 90], (1, 1, 0), start=0)
    cube.style.model3d.add_trace(pub.make_Arrow("matplotlib", base=4, pivot="tail", height=2, color="k"))
    cube.style.model3d.add_trace(pub.make_Pyramid("plotly", base=4, pivot="tip", position=(0, 0, 3)))
    cube.style.model3d.add_trace(pub.make_Prism("generic", base=6, opacity=0.3))
    dip = magpy.misc.Dipole(moment=(1, 2, 3), position=(3, 0, 0), style_pivot="tail")
    dip2 = magpy.misc.Dipole(moment=(0, 0, -1), position=(-3, 0, 0), style_pivot="tip")
    tri = magpy.misc.Triangle(polarization=(0, 0, 1), vertices=[(0, 0, 0), (1, 0, 0), (0, 1, 1)],
                              style_orientation_symbol="arrow3d")
    tri2 = magpy.misc.Triangle(polarization=(0, 1, 1), vertices=[(0, 0, 2), (1, 0, 2), (0, 1, 2)],
                               style_orientation_symbol="cone")
    cyl = magpy.magnet.Cylinder(polarization=(1, 0, 0), dimension=(1, 2), position=(0, 4, 0))
    sens = magpy.Sensor(position=(0, 0, 4), pixel=[(0, 0, 0), (0, 0, 1)])
    return cube, dip, dip2, tri, tri2, cyl, sens


for backend, cg in (("plotly", True), ("matplotlib", False)):
    for units in ("auto", "cm"):
        objs = scene()
        before = state(objs)
        attempt(f"model backend={backend} units={units}", lambda: model(
            *objs, backend=backend, colorgrad=cg, units_length=units, style_path_frames=1))
        print("  unchanged:", before == state(objs))
attempt("show plotly", lambda: magpy.show(*scene(), backend="plotly", return_fig=True).to_dict()["data"])
