import os, sys; sys.path.insert(0, os.getcwd())
import hashlib
import warnings

import numpy as np
from scipy.spatial.transform import Rotation as R

import magpylib as magpy
from magpylib._src.fields.field_wrap_BH import getBH_dict_level2

warnings.simplefilter("ignore")


def dig(x):
    if x is None:
        return "None"
    x = np.asarray(x)
    return f"{x.shape} {x.dtype} {hashlib.sha1(np.ascontiguousarray(x).tobytes()).hexdigest()[:16]} {np.round(x.astype(float), 10).ravel()[:6].tolist()}"


def run(name, fn):
    try:
        print(name, "->", dig(fn()))
    except Exception as err:  # pylint: disable=broad-except
        print(name, "-> EXC", type(err).__name__, "|", str(err).replace("\n", " / ")[:200],
              "| cause:", type(err.__cause__).__name__)


obs1 = (0.1, 0.2, 0.3)
obs4 = [(0.1, 0.2, 0.3), (1, 2, 3), (-1, 0.5, 2), (0.3, -0.2, 0.7)]
rot4 = R.from_rotvec([(0, 0, 0.1), (0.2, 0, 0), (0, 0.3, 0), (0.1, 0.1, 0.1)])

cases = {
    "Cuboid": dict(polarization=(0.1, 0.2, 0.3), dimension=(1, 2, 3)),
    "Cylinder": dict(polarization=(0.1, 0.2, 0.3), dimension=(1, 2)),
    "CylinderSegment": dict(polarization=(0.1, 0.2, 0.3), dimension=(1, 2, 1, 10, 130)),
    "Sphere": dict(polarization=(0.1, 0.2, 0.3), diameter=1.5),
    "Dipole": dict(moment=(1, 2, 3)),
    "Circle": dict(current=3.0, diameter=2),
    "Polyline": dict(current=2, segment_start=(0, 0, 0), segment_end=(1, 1, 1)),
    "Triangle": dict(polarization=(0.1, 0.2, 0.3), vertices=[(0, 0, 0), (1, 0, 0), (0, 1, 0)]),
    "Tetrahedron": dict(polarization=(0.1, 0.2, 0.3),
                        vertices=[(0, 0, 0), (1, 0, 0), (0, 1, 0), (0, 0, 1)]),
}
for cls, kw in cases.items():
    for field in "BHJM":
        f = getattr(magpy, "get" + field)
        run(f"{cls}.{field}.single", lambda: f(cls, obs1, **kw))
        run(f"{cls}.{field}.tiled", lambda: f(cls, obs4, **kw))
        run(f"{cls}.{field}.tiled+pos+rot",
            lambda: f(cls, obs4, position=[(0, 0, 0), (1, 0, 0), (0, 1, 0), (0, 0, 1)],
                      orientation=rot4, **kw))
        run(f"{cls}.{field}.nosqueeze", lambda: f(cls, obs1, squeeze=False, **kw))

# per-instance arrays
run("Cuboid.n", lambda: magpy.getB("Cuboid", obs4, polarization=[(1, 0, 0), (0, 1, 0), (0, 0, 1), (1, 1, 1)],
                                   dimension=[(1, 1, 1), (1, 2, 3), (2, 2, 2), (3, 1, 1)]))
run("Circle.n", lambda: magpy.getH("Circle", obs4, current=(1, 2, 3, 4), diameter=(1, 2, 3, 4)))
run("Circle.len1", lambda: magpy.getH("Circle", obs4, current=[5], diameter=[[2]]))
run("Sphere.obs1xn", lambda: magpy.getB("Sphere", obs1, polarization=[(1, 0, 0), (0, 1, 0)], diameter=(1, 2)))
# Polyline with vertices (ndim 3) and ragged vertices
run("Polyline.vertices", lambda: magpy.getB("Polyline", obs1, current=1,
                                            vertices=[(0, 0, 0), (1, 1, 1), (2, 0, 1)]))
run("Polyline.vertices.n", lambda: magpy.getB(
    "Polyline", [obs1, obs1], current=(1, 2),
    vertices=[[(0, 0, 0), (1, 1, 1), (2, 0, 1)], [(0, 0, 0), (1, -1, 1), (2, 0, 3)]]))
run("Polyline.vertices.ragged", lambda: magpy.getB(
    "Polyline", [obs1, obs1], current=(1, 2),
    vertices=[[(0, 0, 0), (1, 1, 1), (2, 0, 1)], [(0, 0, 0), (1, -1, 1), (2, 0, 3), (4, 4, 4)]]))
run("in_out", lambda: magpy.getB("Tetrahedron", obs4, in_out="outside", **cases["Tetrahedron"]))
run("direct", lambda: getBH_dict_level2("Dipole", obs4, field="H", moment=(1, 2, 3), squeeze=False))

# error paths
run("err.badclass", lambda: magpy.getB("Cubo", obs1, polarization=(1, 2, 3), dimension=(1, 2, 3)))
run("err.lengths", lambda: magpy.getB("Circle", obs4, current=(1, 2, 3), diameter=(1, 2, 3, 4)))
run("err.lengths2", lambda: magpy.getB("Circle", obs4[:2], current=(1, 2, 3), diameter=1))
run("err.None", lambda: magpy.getB("Circle", obs1, current=None, diameter=1))
run("err.obsNone", lambda: magpy.getB("Circle", None, current=1, diameter=1))
run("err.empty", lambda: magpy.getB("Circle", obs1, current=[], diameter=1))
run("err.string", lambda: magpy.getB("Circle", obs1, current="abc", diameter=1))
run("err.dict", lambda: magpy.getB("Circle", obs1, current={"a": 1}, diameter=1))
run("err.ragged.str", lambda: magpy.getB("Polyline", obs1, current=1, vertices=[[(0, 0, 0), (1, 1, 1)], ["a", "b", "c"]]))
run("err.ragged.int", lambda: magpy.getB("Polyline", obs1, current=1, vertices=[[(0, 0, 0), (1, 1, 1)], [1, 2, 3]]))
run("err.missing", lambda: magpy.getB("Circle", obs1, current=1))
run("err.unknownkw", lambda: magpy.getB("Circle", obs1, current=1, diameter=1, foo=(1, 2)))
