import os, sys; sys.path.insert(0, os.getcwd())
import hashlib
import re
import warnings
from fractions import Fraction

import numpy as np

import magpylib as magpy
from magpylib._src import input_checks as ic

warnings.simplefilter("ignore")


def digest(name, arr):
    if arr is None:
        print(name, None)
        return
    if isinstance(arr, float):
        print(name, "float", repr(arr))
        return
    arr = np.asarray(arr)
    h = hashlib.sha256(np.ascontiguousarray(arr).tobytes()).hexdigest()[:16]
    print(name, arr.shape, arr.dtype, h, np.array2string(arr, precision=17).replace("\n", ""))


def scrub(msg):
    return re.sub(r"id=\d+", "id=#", str(msg)).replace("\n", " | ")


def attempt(label, fn):
    try:
        res = fn()
    except Exception as e:  # noqa: BLE001
        print(label, "EXC", type(e).__name__, scrub(e))
        return None
    digest(label, res)
    return res


class StrSub(str):
    pass


# --- check_field_input
for f in ("B", "H", "J", "M", StrSub("J"), "BH", "MJ", "", "b", "BHMJ", 5, None, ("B",), ["J"], b"J", np.str_("M"), 1.5, np.array(["B"])):
    attempt(f"check_field_input({f!r})", lambda: ic.check_field_input(f))

# --- check_array_shape
arrs = {
    "v3": np.array([1.0, 2.0, 3.0]),
    "m23": np.ones((2, 3)),
    "m32": np.ones((3, 2)),
    "s": np.array(1.0),
    "e0": np.zeros((0,)),
    "e03": np.zeros((0, 3)),
    "t": np.ones((2, 2, 3)),
}
for an, a in arrs.items():
    for dims in ((1,), (1, 2), (2,), (0,), (0, 1), ()):
        for shape_m1 in (3, 2, "any"):
            for length in (None, 2, 3):
                attempt(
                    f"check_array_shape {an} dims={dims} m1={shape_m1} len={length}",
                    lambda: ic.check_array_shape(a, dims=dims, shape_m1=shape_m1, length=length, msg="bad-shape-msg"),
                )

# --- check_format_input_scalar
for val in (1, -1, 0, -0.0, 2.5, -2.5, True, np.float32(1.5), np.int64(-3), Fraction(-1, 3), 1 + 2j, float("nan"), float("-inf"), None, "1", [1], (1,), np.array(1.0), np.array([1.0])):
    for allow_None in (False, True):
        for forbid_negative in (False, True):
            attempt(
                f"scalar({val!r}, allow_None={allow_None}, forbid_negative={forbid_negative})",
                lambda: ic.check_format_input_scalar(
                    val, sig_name="thing", sig_type="a number", allow_None=allow_None, forbid_negative=forbid_negative
                ),
            )

# --- check_format_input_vector
vals = [
    (1, 2, 3), [1, 2, 3], np.array([1, 2, 3]), np.array([1.0, -2.0, 0.0]), [[1, 2, 3], [4, 5, 6]],
    [1, 2], [], [[]], None, "abc", 5, 1.5, {1, 2, 3}, [1, "a", 3], ["1", "2", "3"], [[1, 2, 3], [4, 5]],
    [None, 1, 2], [np.nan, 1, 2], [0, 1, 2], [-1, 1, 2], np.ones((2, 2, 3)), np.array(3.0), (True, False, True),
    [1 + 1j, 2, 3],
]
configs = [
    dict(dims=(1,), shape_m1=3),
    dict(dims=(1,), shape_m1=3, allow_None=True),
    dict(dims=(1, 2), shape_m1=3, reshape=(-1, 3)),
    dict(dims=(1, 2), shape_m1=3, reshape=True),
    dict(dims=(1,), shape_m1=3, forbid_negative0=True),
    dict(dims=(1,), shape_m1=3, forbid_negative0=True, reshape=(3, 1)),
    dict(dims=(1, 2), shape_m1="any", length=2),
    dict(dims=(2,), shape_m1=3, length=2, allow_None=True, forbid_negative0=True),
    dict(dims=(0, 1), shape_m1="any"),
]
for v in vals:
    for cfg in configs:
        label = f"vector({v!r}, {cfg})".replace("\n", "")
        res = attempt(
            label,
            lambda: ic.check_format_input_vector(v, sig_name="vec", sig_type="array_like with shape (3,)", **cfg),
        )
        if isinstance(v, np.ndarray) and res is not None:
            print("   result is input object:", res is v, "shares memory:", np.shares_memory(res, v))

# --- through the object interface: J/M setters, current, dimension, position
cube = magpy.magnet.Cuboid(polarization=(0.1, 0.2, 0.3), dimension=(1, 2, 3))
for val in ((1, 2, 3), [1e6, 0, 0], None, "xyz", (1, 2), [[1, 2, 3]], np.array([1, 2, 3]), 7, ("a", 1, 2)):
    for attr in ("polarization", "magnetization"):
        def setit():
            setattr(cube, attr, val)
            return None
        attempt(f"cube.{attr} = {val!r}".replace("\n", ""), setit)
        digest("   J", cube.polarization)
        digest("   M", cube.magnetization)
for val in ((1, 2, 3), (0, 1, 1), (-1, 1, 1), None, (1, 2), "a", [np.nan, 1, 1]):
    def setdim():
        cube.dimension = val
    attempt(f"cube.dimension = {val!r}", setdim)
    digest("   dim", cube.dimension)
loop = magpy.current.Circle(current=1, diameter=1)
for val in (1, -2.5, None, "1", [1], True, 1j):
    def setcur():
        loop.current = val
    attempt(f"loop.current = {val!r}", setcur)
    print("   current", repr(loop.current))
for val in (1, -2.5, None, "1", 0):
    def setdia():
        loop.diameter = val
    attempt(f"loop.diameter = {val!r}", setdia)
    print("   diameter", repr(loop.diameter))
for val in ((1, 2, 3), [(1, 2, 3), (4, 5, 6)], None, (1, 2), "p"):
    def setpos():
        cube.position = val
    attempt(f"cube.position = {val!r}", setpos)
    digest("   pos", cube._position)

# --- every BHJM function with good / bad field
cube = magpy.magnet.Cuboid(polarization=(0.1, 0.2, 0.3), dimension=(1, 2, 3))
obs = np.array([[0.1, 0.2, 0.3], [2.0, 2.0, 2.0], [0.5, 1.0, 1.5]])
pol = np.tile([0.1, 0.2, 0.3], (3, 1))
calls = {
    "cuboid": lambda f: magpy.core.magnet_cuboid_Bfield if False else ic._src.fields.field_BH_cuboid.BHJM_magnet_cuboid(f, obs, np.tile([1.0, 2.0, 3.0], (3, 1)), pol),
    "cylinder": lambda f: ic._src.fields.field_BH_cylinder.BHJM_magnet_cylinder(f, obs, np.tile([1.0, 2.0], (3, 1)), pol),
    "sphere": lambda f: ic._src.fields.field_BH_sphere.BHJM_magnet_sphere(f, obs, np.ones(3), pol),
    "cylseg": lambda f: ic._src.fields.field_BH_cylinder_segment.BHJM_cylinder_segment(f, obs, np.tile([0.5, 1.0, 2.0, 0.0, 90.0], (3, 1)), pol),
    "dipole": lambda f: ic._src.fields.field_BH_dipole.BHJM_dipole(f, obs, pol),
    "circle": lambda f: ic._src.fields.field_BH_circle.BHJM_circle(f, obs, np.ones(3), np.ones(3)),
    "triangle": lambda f: ic._src.fields.field_BH_triangle.BHJM_triangle(f, obs, np.tile([[0, 0, 0], [1, 0, 0], [0, 1, 0.0]], (3, 1, 1)), pol),
    "tetra": lambda f: ic._src.fields.field_BH_tetrahedron.BHJM_magnet_tetrahedron(f, obs, np.tile([[0, 0, 0], [1, 0, 0], [0, 1, 0.0], [0, 0, 1]], (3, 1, 1)), pol),
}
import magpylib._src.fields.field_BH_cuboid, magpylib._src.fields.field_BH_cylinder, magpylib._src.fields.field_BH_sphere  # noqa: E401,E402
import magpylib._src.fields.field_BH_cylinder_segment, magpylib._src.fields.field_BH_dipole, magpylib._src.fields.field_BH_circle  # noqa: E401,E402
import magpylib._src.fields.field_BH_triangle, magpylib._src.fields.field_BH_tetrahedron  # noqa: E401,E402

for name, fn in calls.items():
    for f in ("B", "H", "J", "M", "MJ", "BH", "", 3, None):
        attempt(f"{name} field={f!r}", lambda: fn(f))
