import os, sys; sys.path.insert(0, os.getcwd())
import hashlib
import inspect
import re
import warnings

import numpy as np

import magpylib as magpy
from magpylib._src.obj_classes.class_BaseExcitations import BaseSource


def digest(name, arr):
    if arr is None:
        print(name, None)
        return
    if hasattr(arr, "to_csv"):  # DataFrame
        print(name, "DataFrame", arr.shape, list(arr.columns), hashlib.sha256(scrub(arr.to_csv(float_format="%.17g")).encode()).hexdigest()[:16])
        return
    arr = np.asarray(arr)
    h = hashlib.sha256(np.ascontiguousarray(arr).tobytes()).hexdigest()[:16]
    print(name, arr.shape, arr.dtype, h, np.array2string(arr, precision=17, threshold=30).replace("\n", ""))


def scrub(msg):
    msg = re.sub(r" at 0x[0-9a-f]+", " at 0x#", str(msg))
    return re.sub(r"id=\d+", "id=#", msg).replace("\n", " | ")


def attempt(label, fn):
    with warnings.catch_warnings(record=True) as rec:
        warnings.simplefilter("always")
        try:
            res = fn()
        except Exception as e:  # noqa: BLE001
            print(label, "EXC", type(e).__name__, scrub(e))
            res = None
        else:
            digest(label, res)
    for w in rec:
        print("   WARN", w.category.__name__, os.path.basename(w.filename), w.lineno, scrub(w.message)[:120])
    return res


def sources():
    return {
        "Cuboid": magpy.magnet.Cuboid(polarization=(0.1, 0.2, 0.3), dimension=(1, 2, 3)).rotate_from_angax(45, "z"),
        "Cylinder": magpy.magnet.Cylinder(magnetization=(1e5, 0, 2e5), dimension=(1, 2), position=[(0, 0, 0), (0.1, 0, 0)]),
        "CylinderSegment": magpy.magnet.CylinderSegment(polarization=(0.1, 0.2, 0.3), dimension=(0.5, 1, 2, 0, 90)),
        "Sphere": magpy.magnet.Sphere(polarization=(0.1, 0.2, 0.3), diameter=2),
        "Tetrahedron": magpy.magnet.Tetrahedron(polarization=(0.1, 0.2, 0.3), vertices=[(0, 0, 0), (1, 0, 0), (0, 1, 0), (0, 0, 1)]),
        "TriangularMesh": magpy.magnet.TriangularMesh.from_ConvexHull(polarization=(0.1, 0.2, 0.3), points=[(0, 0, 0), (1, 0, 0), (0, 1, 0), (0, 0, 1)]),
        "Triangle": magpy.misc.Triangle(polarization=(0.1, 0.2, 0.3), vertices=[(0, 0, 0), (1, 0, 0), (0, 1, 0)]),
        "Dipole": magpy.misc.Dipole(moment=(1, 2, 3)),
        "Circle": magpy.current.Circle(current=1, diameter=2),
        "Polyline": magpy.current.Polyline(current=1, vertices=[(0, 0, 0), (1, 0, 0), (1, 1, 0)]),
        "Custom": magpy.misc.CustomSource(field_func=lambda field, observers: np.array(observers) * 1.0 if field in "BJ" else None),
        "NoDim": magpy.magnet.Cuboid(polarization=(0.1, 0.2, 0.3)),
        "NoExc": magpy.magnet.Sphere(diameter=1),
    }


p_in, p_out = (0.1, 0.1, 0.1), (3, 3, 3)
sens = magpy.Sensor(pixel=[p_in, p_out], position=(0.01, 0, 0)).rotate_from_angax(20, "x", anchor=0)
sens_b = magpy.Sensor(pixel=[p_out, p_in])

for name, src in sources().items():
    for f in "BHJM":
        meth = getattr(src, "get" + f)
        lab = f"{name}.get{f}"
        attempt(lab + "(point)", lambda: meth(p_in))
        attempt(lab + "(two points as star args)", lambda: meth(p_in, p_out))
        attempt(lab + "(list of points)", lambda: meth([p_in, p_out]))
        attempt(lab + "(sens, sens_b, squeeze=False)", lambda: meth(sens, sens_b, squeeze=False))
        attempt(lab + "([sens, sens_b], pixel_agg='mean')", lambda: meth([sens, sens_b], pixel_agg="mean"))
        attempt(lab + "(no observers)", lambda: meth())
        attempt(lab + "(None)", lambda: meth(None))
        attempt(lab + "(in_out='inside')", lambda: meth(p_in, in_out="inside"))
        attempt(lab + "(in_out='outside')", lambda: meth(p_out, in_out="outside"))
        attempt(lab + "(output='dataframe')", lambda: meth(sens, output="dataframe"))
        attempt(lab + "(output='bad')", lambda: meth(sens, output="bad"))
        attempt(lab + "(pixel_agg='bad')", lambda: meth(sens, pixel_agg="bad"))
        attempt(lab + "(sumup=True) unexpected kw", lambda: meth(p_in, sumup=True))
        attempt(lab + "(field='H') unexpected kw", lambda: meth(p_in, field="H"))
        attempt(lab + "(observers=...) keyword", lambda: meth(observers=p_in))
        attempt(lab + "(a source as observer)", lambda: meth(src))
        # same result as the top level function
        top = attempt(lab + " top-level", lambda: getattr(magpy, "get" + f)(src, [sens, sens_b]))
        own = attempt(lab + " method", lambda: meth(sens, sens_b))
        if top is not None and own is not None:
            print("   method == top-level", np.array_equal(top, own, equal_nan=True))

# consistency on a magnet, via the methods
cube = sources()["Cuboid"]
B, H, J, M = cube.getB(sens), cube.getH(sens), cube.getJ(sens), cube.getM(sens)
print("B = mu0 H + J", bool(np.allclose(B, magpy.mu_0 * H + J, rtol=1e-12, atol=1e-15)), "J = mu0 M", bool(np.allclose(J, magpy.mu_0 * M, rtol=1e-14, atol=0)))

# public surface of the methods is unchanged
for f in "BHJM":
    m = getattr(BaseSource, "get" + f)
    print("signature", m.__name__, m.__qualname__, inspect.signature(m), hashlib.sha256((m.__doc__ or "").encode()).hexdigest()[:16])
print("public attrs of BaseSource", [a for a in dir(BaseSource) if not a.startswith("_")])
print("private attrs of BaseSource", [a for a in dir(BaseSource) if a.startswith("_") and not a.startswith("__")])
