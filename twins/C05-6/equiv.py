import os, sys; sys.path.insert(0, os.getcwd())
import builtins
import hashlib
import re
import warnings

import numpy as np

import magpylib as magpy
from magpylib._src.fields import field_wrap_BH as fw

warnings.simplefilter("ignore")
_print = builtins.print


def print(*args):  # deterministic: strip object ids / addresses
    txt = " ".join(str(a) for a in args)
    txt = re.sub(r"id=\d+", "id=#", txt)
    txt = re.sub(r"0x[0-9a-f]+", "0x#", txt)
    _print(txt)


def dig(name, arr):
    arr = np.asarray(arr)
    if arr.dtype == object:
        body = repr([np.asarray(a, dtype=float).round(12).tolist() for a in arr.ravel()[:4]])
        h = hashlib.sha256(repr([np.asarray(a, dtype=float).tolist() for a in arr.ravel()]).encode()).hexdigest()[:16]
        print(name, "object", arr.shape, h, body[:120])
        return
    h = hashlib.sha256(np.ascontiguousarray(arr).tobytes()).hexdigest()[:16]
    print(name, arr.dtype, arr.shape, h, np.round(arr.ravel()[:6].astype(float), 12).tolist())


def err(name, fn):
    try:
        fn()
        print(name, "no error")
    except Exception as e:  # pylint: disable=broad-except
        print(name, type(e).__name__, str(e).splitlines()[0][:100])


poso = np.array([(0.5, 4.0, 3.0), (-2.0, 1.5, 2.0), (6.0, 0.0, -1.0), (1, 1, 1)], dtype=float)


def show_dict(name, group, n_pix=2):
    n_pp = len(poso)
    d = fw.get_src_dict(group, n_pix, n_pp, poso)
    print(name, "keys", list(d))
    for k, v in d.items():
        if k == "orientation":
            dig(name + " " + k, v.as_quat())
        else:
            dig(name + " " + k, v)


# --- direct calls of get_src_dict for every kind of group -------------------------------
cub = [magpy.magnet.Cuboid(polarization=(0.1 * i, 0.2, -0.3), dimension=(1, 2 + i, 3), position=(i, 0, 0)) for i in range(3)]
show_dict("cuboids", cub)
show_dict("cuboid single", cub[:1])
circ = [magpy.current.Circle(current=1.5 * i - 1, diameter=1 + i) for i in range(3)]
show_dict("circles (scalar props)", circ)
circ_int = [magpy.current.Circle(current=2, diameter=1), magpy.current.Circle(current=3.5, diameter=2)]
show_dict("circles int/float", circ_int)
pl_same = [magpy.current.Polyline(current=i + 1, vertices=[(0, 0, i), (1, 1, i), (2, 0, i)]) for i in range(2)]
show_dict("polylines same shape", pl_same)
pl_rag = [
    magpy.current.Polyline(current=1.0, vertices=[(0, 0, 0), (1, 1, 0)]),
    magpy.current.Polyline(current=-2.0, vertices=[(0, 0, 1), (1, 1, 1), (2, 0, 1), (3, 3, 3)]),
    magpy.current.Polyline(current=0.5, vertices=[(0, 0, 2), (1, 1, 2), (2, 0, 2)]),
]
show_dict("polylines ragged", pl_rag)
show_dict("polylines ragged, first longest", pl_rag[1:] + pl_rag[:1])
dip = [magpy.misc.Dipole(moment=(1, 2, 3)), magpy.misc.Dipole(moment=(0, 0, -1), position=(1, 2, 3))]
dip[1].rotate_from_angax(40, "x")
show_dict("dipoles", dip)
sph = [magpy.magnet.Sphere(polarization=(0, 0, 1), diameter=1), magpy.magnet.Sphere(magnetization=(1e5, 0, 1), diameter=2.5)]
show_dict("spheres", sph)
tet = [magpy.magnet.Tetrahedron(polarization=(0.1, 0.2, 0.3), vertices=[(0, 0, 0), (1, 0, 0), (0, 1, 0), (0, 0, 1 + i)]) for i in range(2)]
show_dict("tetrahedra", tet)
tri = [magpy.misc.Triangle(polarization=(0.1, 0.2, 0.3), vertices=[(0, 0, 0), (1, 0, 0), (0, 1, i)]) for i in range(2)]
show_dict("triangles", tri)
cs = [magpy.misc.CustomSource(field_func=lambda field, observers: observers * 0.5)]
show_dict("custom (no extra props)", cs)
mesh1 = magpy.magnet.TriangularMesh.from_ConvexHull(polarization=(0, 0, 1), points=[(0, 0, 0), (1, 0, 0), (0, 1, 0), (0, 0, 1)])
mesh2 = magpy.magnet.TriangularMesh.from_ConvexHull(
    polarization=(0.2, 0, 1), points=[(0, 0, 0), (1, 0, 0), (0, 1, 0), (0, 0, 1), (1, 1, 1)], position=(3, 0, 0)
)
show_dict("meshes ragged", [mesh1, mesh2])
show_dict("meshes same", [mesh1, mesh1.copy(polarization=(1, 1, 1))])


# --- fake sources: declared props that do not exist / reserved names / bad values ---------
class Fake:
    _position = np.zeros((1, 3))
    _orientation = magpy.Sensor()._orientation
    _field_func_kwargs_ndim = {"missing": 1, "position": 2, "observers": 2, "foo": 1, "orientation": 2}
    position = "reserved - must be skipped"
    orientation = "reserved - must be skipped"

    def __init__(self, foo):
        self.foo = foo


show_dict("fake scalars", [Fake(1.0), Fake(2)])
show_dict("fake arrays", [Fake(np.arange(3.0)), Fake(np.arange(3.0) * 2)])
show_dict("fake ragged arrays", [Fake(np.arange(3.0)), Fake(np.arange(4.0))])
err("fake list value (no .shape)", lambda: fw.get_src_dict([Fake([1, 2]), Fake([3, 4])], 2, 4, poso))
err("fake mixed scalar first", lambda: show_dict("  mixed", [Fake(1.0), Fake(np.arange(3.0))]))
err("fake mixed array first", lambda: fw.get_src_dict([Fake(np.arange(3.0)), Fake(1.0)], 2, 4, poso))
err("empty group", lambda: fw.get_src_dict([], 2, 4, poso))
print("helper removed/kept:", hasattr(fw, "get_src_dict"))

# --- through the public interface: superposition and linearity in the excitation ------------
obs = poso[:3]
for field in "BHJM":
    getf = getattr(magpy, "get" + field)
    srcs = cub + circ + pl_rag + dip + sph + tet + tri + [mesh1, mesh2]
    full = getf(srcs, obs)
    dig(field + " all sources", full)
    dig(field + " sumup", getf(srcs, obs, sumup=True))
    col = magpy.Collection(*pl_rag, cub[0])
    dig(field + " collection with ragged group", getf([col, circ[1], magpy.Collection(mesh1, mesh2)], obs))
    for s in list(col.children):
        col.remove(s)
    mesh1.parent = None
    mesh2.parent = None
    singles = np.array([getf(s, obs) for s in srcs])
    print(field, "grouped == single evaluation:", bool(np.array_equal(full, singles)))

# linearity: scale the excitation of every source by the same factor
srcs = cub + circ + pl_rag + dip
B1 = magpy.getB(srcs, obs)
for s in cub:
    s.polarization = s.polarization * 2.0
for s in circ + pl_rag:
    s.current = s.current * 2.0
for s in dip:
    s.moment = s.moment * 2.0
B2 = magpy.getB(srcs, obs)
dig("B scaled by 2", B2)
print("max |B2 - 2 B1|:", float(np.round(np.max(np.abs(B2 - 2 * B1)), 15)))

# error paths of the caller: uninitialised excitation
err("current None", lambda: magpy.getB([circ[0], magpy.current.Circle(diameter=1)], obs))
err("polarization None", lambda: magpy.getB([cub[0], magpy.magnet.Cuboid(dimension=(1, 1, 1))], obs))
