import os, sys; sys.path.insert(0, os.getcwd())

# Exercises input_checks.check_format_input_obj directly and through its callers:
# children_all / sources_all / sensors_all / collections_all, add (self reference check),
# remove, and the same on copies of collection trees.
import re
import warnings

import numpy as np

import magpylib as magpy
from magpylib._src.input_checks import check_format_input_obj

warnings.simplefilter("ignore")


def clean(txt):
    return re.sub(r" at 0x[0-9a-f]+", " at 0x#", re.sub(r"id=\d+", "id=#", str(txt)))


def r(a):
    return np.round(np.asarray(a, dtype=float), 10).tolist()


def lab(o):
    try:
        return o.style.label
    except AttributeError:
        return clean(repr(o))


def labels(objs):
    return [lab(o) for o in objs]


def attempt(name, func):
    try:
        res = func()
        if isinstance(res, list):
            res = (type(res).__name__, labels(res))
        print(name, "ok", clean(res))
    except BaseException as err:  # pylint: disable=broad-except
        print(name, "ERR", type(err).__name__, clean(err).replace("\n", " | ")[:200])


ITER_LOG = []


class LoggingCollection(magpy.Collection):
    def __iter__(self):
        ITER_LOG.append(lab(self))
        return super().__iter__()


class Flag:
    """truth value that logs how often it is asked"""

    def __init__(self, value, name):
        self.value, self.name, self.asked = value, name, 0

    def __bool__(self):
        self.asked += 1
        return self.value


class Junk:
    def __repr__(self):
        return "Junk()"


def build(cls=magpy.Collection):
    o = {}
    o["s1"] = magpy.Sensor(style_label="s1", position=(0.1, 0.2, 0.3))
    o["d1"] = magpy.misc.Dipole(moment=(1, 2, 3), style_label="d1", position=(1, 1, 1))
    o["s2"] = magpy.Sensor(style_label="s2", position=(0.5, 0.5, 0.5))
    o["m2"] = magpy.magnet.Cuboid(polarization=(0, 0, 1), dimension=(1, 2, 3), style_label="m2", position=(3, 0, 0))
    o["d3"] = magpy.misc.Dipole(moment=(0, 0, 1), style_label="d3", position=(0, 2, 0))
    o["c3"] = cls(o["d3"], style_label="c3")
    o["e2"] = cls(style_label="e2")
    o["c2"] = cls(o["s2"], o["c3"], o["m2"], o["e2"], style_label="c2")
    o["c1"] = cls(o["s1"], o["c2"], o["d1"], style_label="c1")
    return o


o = build(LoggingCollection)
c1 = o["c1"]
ALLOWS = [
    "sources",
    "sensors",
    "collections",
    "sources+sensors",
    "sensors+sources+collections",
    "collections+sensors+sources",
    "collections+sources",
    "",
    "+",
    "source",
    "sources+",
    "Sources+sensors",
    "sources sensors",
    "sources+sensors+sources",
]

# 1. direct calls on a tree ---------------------------------------------------------------
for allow in ALLOWS:
    for recursive in (True, False):
        for typechecks in (False, True):
            ITER_LOG.clear()
            attempt(f"tree {allow!r} rec={recursive} tc={typechecks}", lambda: check_format_input_obj(c1, allow, recursive, typechecks))
            print("   iterated", ITER_LOG)

# 2. direct calls on sequences ---------------------------------------------------------------
inputs = {
    "empty list": [],
    "empty tuple": (),
    "flat list": [o["s1"], o["d1"]],
    "tuple with tree": (o["s1"], c1),
    "tree twice": [c1, c1],
    "subtrees": [o["c3"], o["c2"]],
    "junk first": [Junk(), o["s1"]],
    "junk last": [o["s1"], c1, Junk()],
    "None inside": [o["s1"], None],
    "list inside": [[o["s1"]]],
    "string": "ab",
    "generator": (x for x in [o["s1"], o["c3"]]),
    "array": np.array([1.0, 2.0]),
    "dict": {"a": o["s1"]},
    "single object": o["s1"],
    "None": None,
    "int": 3,
}
for key, inp in inputs.items():
    for allow in ("sources+sensors", "collections", "sensors+sources+collections"):
        for recursive, typechecks in ((True, False), (False, True), (True, True)):
            if key == "generator":
                inp = (x for x in [o["s1"], o["c3"]])
            attempt(f"seq {key} {allow!r} rec={recursive} tc={typechecks}", lambda: check_format_input_obj(inp, allow, recursive, typechecks))

# 3. junk deep inside a tree (private state), found by the type check of the right level --------
bad = build()
bad["c3"]._children.append(Junk())
attempt("deep junk no typecheck", lambda: check_format_input_obj(bad["c1"], "sources", True, False))
attempt("deep junk typecheck", lambda: check_format_input_obj(bad["c1"], "sources", True, True))
attempt("deep junk typecheck not recursive", lambda: check_format_input_obj(bad["c1"], "sources", False, True))
attempt("deep junk children_all", lambda: bad["c1"].children_all)

# 4. odd arguments -------------------------------------------------------------------------------
attempt("allow None", lambda: check_format_input_obj(c1, None))
attempt("allow list", lambda: check_format_input_obj(c1, ["sources"]))
attempt("allow bytes", lambda: check_format_input_obj(c1, b"sources"))
attempt("allow missing", lambda: check_format_input_obj(c1))
attempt("keywords", lambda: check_format_input_obj(inp=c1, allow="sensors", recursive=1, typechecks=0))
for val in (True, False):
    rec, tc = Flag(val, "recursive"), Flag(val, "typechecks")
    attempt(f"flag objects {val}", lambda: check_format_input_obj(c1, "sources+sensors", rec, tc))
    print("   asked", rec.asked, tc.asked)
attempt("recursive string", lambda: check_format_input_obj(c1, "sensors", "no", ""))
res1 = check_format_input_obj(c1, "collections+sensors+sources")
res2 = check_format_input_obj(c1, "collections+sensors+sources")
print("fresh lists", res1 is not res2, res1 == res2, res1 is not c1._children)
res1.clear()
print("tree untouched", labels(c1.children), labels(c1.children_all))

# 5. callers -------------------------------------------------------------------------------------
for key in ("c1", "c2", "c3", "e2"):
    col = o[key]
    print(key, labels(col.children_all), labels(col.sources_all), labels(col.sensors_all), labels(col.collections_all))
attempt("add ancestor", lambda: o["c3"].add(c1, override_parent=True))
attempt("add self", lambda: o["c2"].add(o["c2"]))
attempt("add sibling collection", lambda: o["e2"].add(o["c3"], override_parent=True))
print("c1 all", labels(c1.children_all), "e2 all", labels(o["e2"].children_all))
attempt("remove deep", lambda: c1.remove(o["d3"]))
attempt("remove deep non recursive", lambda: c1.remove(o["m2"], recursive=False))
attempt("remove junk", lambda: c1.remove(Junk()))
print("c1 all", labels(c1.children_all))
print("default description", [o[k].style.description.text for k in ("c1", "c2")], c1._default_style_description)

# 6. copies --------------------------------------------------------------------------------------
o = build()
c1 = o["c1"]
cc = c1.copy(style_label="cc")
c2c = o["c2"].copy()
print("copy all", labels(cc.children_all), labels(cc.sources_all), labels(cc.sensors_all), labels(cc.collections_all))
print("sub copy all", labels(c2c.children_all), lab(c2c), c2c.parent)
print("disjoint", not {id(x) for x in cc.children_all} & {id(x) for x in c1.children_all})
cc.children[1].children[1].add(magpy.Sensor(style_label="new"))
cc.remove(cc.children[0])
print("after mutation", labels(cc.children_all), labels(c1.children_all))
attempt("copy add original subtree", lambda: cc.add(o["c3"], override_parent=True))
print("after add", labels(cc.children_all), labels(c1.children_all))
print("field", r(magpy.getB(c1, (0.2, 0.2, 0.2))), r(magpy.getB(cc, (0.2, 0.2, 0.2))))
print("sensors", r(magpy.getB(o["d1"], c1)), r(magpy.getB(o["d1"], cc)))
