import os, sys; sys.path.insert(0, os.getcwd())
import hashlib
import json
import re
import warnings

import numpy as np
from scipy.spatial.transform import Rotation as R

import magpylib as magpy
from magpylib._src.display.traces_generic import get_frames
from magpylib._src.display.traces_utility import DEFAULT_ROW_COL_PARAMS
from magpylib._src.display.traces_utility import process_show_input_objs

warnings.simplefilter("ignore")


def norm(o):
    """deterministic, JSON-able view of nested trace structures (keeps dict key order)"""
    if isinstance(o, dict):
        return ["dict", [[str(k), norm(v)] for k, v in o.items()]]
    if isinstance(o, (list, tuple)):
        return [type(o).__name__, [norm(v) for v in o]]
    if isinstance(o, np.ndarray):
        if o.dtype.kind in "fiu":
            return ["nd", str(o.dtype.kind), list(o.shape), np.round(o.astype(float), 9).tolist()]
        return ["nd", str(o.dtype.kind), list(o.shape), [norm(v) for v in o.ravel().tolist()]]
    if isinstance(o, (bool, np.bool_)):
        return bool(o)
    if isinstance(o, (float, np.floating)):
        return ["f", round(float(o), 9)]
    if isinstance(o, (int, np.integer)):
        return ["i", int(o)]
    if o is None:
        return None
    if isinstance(o, str):
        return re.sub(r"id=\d+|0x[0-9a-f]+", "#", o)
    if isinstance(o, R):
        return ["rot", np.round(o.as_quat(), 9).tolist()]
    return re.sub(r"id=\d+|0x[0-9a-f]+", "#", repr(o))


def digest(label, o):
    s = json.dumps(norm(o))
    print(f"{label}: {hashlib.sha256(s.encode()).hexdigest()[:16]} len={len(s)}")
    return s


def attempt(label, func):
    try:
        res = func()
    except Exception as err:  # pylint: disable=broad-except
        msg = re.sub(r"id=\d+|0x[0-9a-f]+", "#", str(err))
        print(f"{label}: EXC {type(err).__name__}: {msg}")
        return None
    digest(label, res)
    return res


def model(*objs, backend="plotly", colorgrad=True, **kw):
    objects, *_ = process_show_input_objs(
        objs, **{k: v for k, v in kw.items() if k in DEFAULT_ROW_COL_PARAMS})
    style_kw = {k: v for k, v in kw.items() if k.startswith("style")}
    kw = {k: v for k, v in kw.items() if k not in DEFAULT_ROW_COL_PARAMS and k not in style_kw}
    return get_frames(objects, backend=backend, supports_colorgradient=colorgrad,
                      style_kwargs=style_kw, **kw)


def state(objs):
    return json.dumps(norm([[o.style.as_dict(), o.position, o.orientation] for o in objs]
                           + [magpy.defaults.as_dict()]))


# ---------------------------------------------------------------- twin4-5
from magpylib._src.display.traces_generic import extract_animation_properties, process_animation_kwargs


def eap(objs, time=3, fps=20, maxfps=30, maxframes=200, slider=False, output=None):
    with warnings.catch_warnings(record=True) as rec:
        warnings.simplefilter("always")
        try:
            res = extract_animation_properties(
                objs, animation_maxfps=maxfps, animation_time=time, animation_fps=fps,
                animation_maxframes=maxframes, animation_slider=slider, animation_output=output)
            out = [norm(list(res)), [type(r).__name__ for r in res], str(res[0].dtype)]
        except Exception as err:  # pylint: disable=broad-except
            out = f"EXC {type(err).__name__}: {err}"
        msgs = [f"{w.category.__name__}: {w.message}" for w in rec]
    return out, msgs


def show_eap(label, *args, **kw):
    out, msgs = eap(*args, **kw)
    s = json.dumps(out)
    print(f"{label}: {hashlib.sha256(s.encode()).hexdigest()[:12]} {s[:150]}")
    for m in msgs:
        print("    warn:", m)


def cub(n):
    c = magpy.magnet.Cuboid(polarization=(0, 0, 1), dimension=(1, 1, 1))
    if n > 1:
        c.position = [(i, 0, 0) for i in range(n)]
    return c


class NoPath:
    pass


class OddPath:
    def __init__(self, pos):
        self._position = pos


print("== extract_animation_properties: grid")
for n in (1, 2, 3, 7, 10, 59, 60, 61, 100, 199, 200, 201, 333, 1000):
    for time, fps, maxfps, maxframes in ((3, 20, 30, 200), (1, 10, 30, 200), (5, 50, 30, 200), (2, 30, 30, 50),
                                         (0.5, 7, 10, 5), (3, 20, 30, 2), (1.5, 3.5, 30, 200), (3, 30, 20.5, 1000),
                                         (10, 1, 30, 200), (3, 0.5, 30, 3)):
        show_eap(f"n={n} time={time} fps={fps} maxfps={maxfps} maxframes={maxframes}", [cub(n)],
                 time=time, fps=fps, maxfps=maxfps, maxframes=maxframes)

print("== object structures")
c5, c9, c2 = cub(5), cub(9), cub(2)
s4 = magpy.Sensor(position=[(0, 0, i) for i in range(4)])
inner = magpy.Collection(cub(50), s4.copy())
outer = magpy.Collection(cub(3), inner)
outer12 = magpy.Collection(cub(3), inner.copy())
outer12.position = [(0, 0, i) for i in range(12)]
structs = {
    "single": [c5],
    "several": [c2, c9, c5],
    "collection": [magpy.Collection(c2.copy(), c9.copy())],
    "collection with own path": [outer12],
    "nested: grandchildren not counted": [outer],
    "nested + grandchild given": [outer, inner],
    "empty collection": [magpy.Collection()],
    "empty collection + obj": [magpy.Collection(), c5],
    "no path attr": [NoPath()],
    "no path attr + short": [NoPath(), c2],
    "no path attr + long": [NoPath(), c9],
    "odd path 2d": [OddPath(np.zeros((6, 3)))],
    "odd path (4,)": [OddPath(np.zeros(4))],
    "tuple input": (c5, c2),
    "generator input": (c for c in (c5, c9)),
    "dict keys input": {c5: 1, c2: 2},
    "duplicates": [c5, c5],
}
for label, objs in structs.items():
    show_eap(label, objs)
    if not isinstance(objs, (list, tuple, dict)):
        continue
    show_eap(label + " (tight)", objs, time=1, fps=3, maxframes=4)

print("== errors")
show_eap("err empty", [])
show_eap("err None objs", None)
show_eap("err path list", [OddPath([(0, 0, 0)])])
show_eap("err path scalar", [OddPath(np.float64(3.0))])
show_eap("err path None", [OddPath(None)])
show_eap("err path list + maxfps None", [OddPath([(0, 0, 0)])], maxfps=None)
show_eap("err fps None", [c5], fps=None)
show_eap("err maxfps None", [c5], maxfps=None)
show_eap("err time None", [c5], time=None)
show_eap("err maxframes None", [c5], maxframes=None)
show_eap("err time str", [c5], time="a")
show_eap("err empty + fps None", [], fps=None)
show_eap("err maxpos 1 -> div zero", [c9], time=1, fps=1, maxframes=200)
show_eap("err maxframes 1 -> div zero", [c9], maxframes=1)
show_eap("maxpos 0", [c9], time=0, fps=1)
show_eap("err maxframes 0", [c9], maxframes=0)
show_eap("err time tiny -> frame_duration 0", [c9], time=0.001, fps=20000, maxfps=30000)
show_eap("time tiny + fps clamp", [c9], time=0.001, fps=20000, maxfps=30)
show_eap("negative fps", [c9], fps=-1)
show_eap("negative time", [c9], time=-1)
show_eap("fps array", [c9], fps=np.array(20))
show_eap("err fps array 2", [c9], fps=np.array([20, 40]))
show_eap("nan fps", [c9], fps=np.nan)
show_eap("inf maxframes", [c9], maxframes=np.inf)
show_eap("float maxframes", [cub(30)], maxframes=10.5)
show_eap("both warnings", [cub(300)], fps=60, maxfps=30, maxframes=100)

print("== through get_frames / show")
m1 = cub(25)
m2 = magpy.Sensor(pixel=[(0, 0, 0), (0, 0, 1)], position=[(0, 0, i) for i in range(7)])
coll = magpy.Collection(cub(4), m2.copy())
objs = [m1, m2, coll]
before = state(objs)


def anim(*o, **kw):
    with warnings.catch_warnings(record=True) as rec:
        warnings.simplefilter("always")
        res = model(*o, **kw)
        for w in rec:
            print("    warn:", w.category.__name__, str(w.message)[:160])
    return [res["frames"], res.get("path_indices"), res.get("frame_duration"), res["ranges"], res["labels"]]


for kw in ({"animation": True}, {"animation": 2}, {"animation": True, "animation_fps": 5, "animation_time": 1},
           {"animation": True, "animation_maxframes": 6}, {"animation": True, "animation_fps": 100},
           {"animation": True, "animation_maxframes": 6, "animation_fps": 100, "backend": "matplotlib"},
           {"animation": False}, {"animation": 0.5, "animation_slider": True}):
    attempt(f"get_frames {kw}", lambda: anim(*objs, **kw))
attempt("get_frames static objects", lambda: anim(cub(1), magpy.Sensor(), animation=True))
attempt("get_frames nested", lambda: anim(magpy.Collection(magpy.Collection(cub(6))), cub(2), animation=True))
print("objects/defaults unchanged:", before == state(objs))
fig = magpy.show(*objs, backend="plotly", animation=1, animation_maxframes=5, return_fig=True)
digest("plotly animation", [fig.to_dict()["data"], [f["name"] for f in fig.to_dict()["frames"]], [f["data"] for f in fig.to_dict()["frames"]]])
fig = magpy.show(*objs, backend="plotly", animation=True, animation_slider=True, return_fig=True)
d = fig.to_dict()
digest("plotly animation slider", [[f["name"] for f in d["frames"]], d["layout"].get("sliders"), d["layout"].get("updatemenus")])
print("objects/defaults unchanged:", before == state(objs))
