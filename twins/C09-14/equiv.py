import os, sys; sys.path.insert(0, os.getcwd())
# Equivalence digest for twins3/4 (BaseTransform.move / _rotate: children lookup
# in a helper, the child loop of _rotate unswitched on `parent_path is None`).
import warnings

import numpy as np
from scipy.spatial.transform import Rotation as R

import magpylib as magpy

warnings.simplefilter("ignore")


def dig(a):
    return (np.round(np.asarray(a, dtype=float), 9) + 0.0).tolist()


def state(obj):
    return dig(obj._position), dig(obj._orientation.as_quat())


def tree_state(obj):
    out = [state(obj)]
    for child in getattr(obj, "children", []):
        out.extend(tree_state(child))
    return out


def show(tag, fn):
    try:
        print(tag, "->", fn())
    except BaseException as err:  # pylint: disable=broad-except
        print(tag, "-> EXC", type(err).__name__, str(err)[:150])


def sensor(n, k=0):
    s = magpy.Sensor(position=[(1 + i + k, 2 * i - k, -i) for i in range(n)])
    s.rotate_from_angax([7 * (i + 1) + k for i in range(n)], (1, 1, 0), start=0)
    return s


def flat():
    return magpy.Collection(sensor(1), sensor(3, 1), position=[(0, 0, 1), (0, 1, 1)])


def nested():
    inner = magpy.Collection(sensor(2), position=[(0, 0, 1), (0, 1, 1), (1, 1, 1)])
    return magpy.Collection(inner, sensor(1, 2), position=(3, 2, 1))


def deep():
    c3 = magpy.Collection(sensor(2, 3), magpy.magnet.Cuboid(polarization=(0, 0, 1), dimension=(1, 1, 1)))
    c3.rotate_from_angax(33, "y", anchor=0)
    c2 = magpy.Collection(c3, sensor(4, 1), position=[(1, 1, 1)] * 2)
    c1 = magpy.Collection(c2, magpy.Collection(), position=[(0, 0, 0), (1, 0, 0), (2, 0, 0)])
    return magpy.Collection(c1, sensor(1))


def empty():
    return magpy.Collection(position=[(1, 2, 3), (4, 5, 6)])


MAKERS = {"sensor1": lambda: sensor(1), "sensor3": lambda: sensor(3), "empty": empty,
          "flat": flat, "nested": nested, "deep": deep}
STARTS = ("auto", -6, -2, -1, 0, 1, 4, np.int64(2))
DISPS = {"scalar": (1, 2, 3), "one": [(1, 2, 3)], "three": [(1, 0, 0), (0, 2, 0), (0, 0, 3)]}
ANCHORS = {"none": None, "zero": 0, "single": (1, -1, 2), "two": [(1, 0, 0), (0, 2, 0)]}
ROTS = {
    "scalar": R.from_rotvec((0.1, -0.2, 0.3)),
    "one": R.from_rotvec([(0.1, -0.2, 0.3)]),
    "three": R.from_rotvec([(0, 0, 0.25), (0, 0.5, 0), (0.75, 0, 0.1)]),
    "None": None,
}

# 1) move and rotate on every tree shape
for mk, make in MAKERS.items():
    for start in STARTS:
        for dk, disp in DISPS.items():
            obj = make()
            show(f"move {mk} d={dk} st={start!r}",
                 lambda obj=obj, disp=disp, start=start: obj.move(disp, start=start) is obj)
            print("   ", tree_state(obj))
        for rk, rot in ROTS.items():
            for ak, anc in ANCHORS.items():
                obj = make()
                show(f"rotate {mk} r={rk} a={ak} st={start!r}",
                     lambda obj=obj, rot=rot, anc=anc, start=start: (
                         obj.rotate(rot, anchor=anc, start=start) is obj))
                print("   ", tree_state(obj))

# 2) the private _rotate called directly, with and without parent_path
for mk, make in MAKERS.items():
    for plen in (None, 1, 2, 5):
        for rk in ("scalar", "three"):
            for ak in ("none", "single"):
                for start in ("auto", -4, 0, 2):
                    obj = make()
                    pp = None if plen is None else np.array(
                        [(0.5 * k, 1.0, -k) for k in range(plen)], dtype=float)
                    pp0 = None if pp is None else pp.copy()
                    show(f"_rotate {mk} plen={plen} r={rk} a={ak} st={start}",
                         lambda obj=obj, pp=pp, rk=rk, ak=ak, start=start: (
                             obj._rotate(ROTS[rk], anchor=ANCHORS[ak], start=start, parent_path=pp)
                             is obj))
                    print("   ", tree_state(obj),
                          "parent untouched", pp is None or np.array_equal(pp, pp0))
obj = nested()
show("_rotate positional", lambda: obj._rotate(ROTS["scalar"], (1, 0, 0), 1, np.ones((2, 3))) is obj)
print("   ", tree_state(obj))
obj = nested()
show("_rotate defaults", lambda: obj._rotate(ROTS["three"]) is obj)
print("   ", tree_state(obj))

# 3) top-level path of the parent is what children rotate about (it is read while
#    the parent itself has not been rotated yet), also after earlier operations
col = nested()
col.move([(1, 0, 0), (2, 0, 0)])
col.rotate_from_angax([10, 20, 30, 40], "z", start=1)
col.children[0].rotate_from_angax(45, "x")
col.rotate(R.from_rotvec([(0, 0, 0.5)] * 2), start=-7)
col.position = [(0, 0, 0)] * 3
col.rotate_from_angax(90, (1, 1, 1), start=2)
print("sequence", tree_state(col))

# 4) objects that are no Collections but have a `children` attribute of various kinds
for kind in ("list", "tuple", "iter", "empty tuple", "None", "int", "self-free dict"):
    top = sensor(2)
    kids = [sensor(1, 1), sensor(3, 2)]
    top.children = {
        "list": kids, "tuple": tuple(kids), "iter": iter(kids), "empty tuple": (),
        "None": None, "int": 3, "self-free dict": {kids[0]: 1, kids[1]: 2},
    }[kind]
    before = [state(top)] + [state(k) for k in kids]
    show(f"custom children {kind} move", lambda top=top: top.move((1, 1, 1)) is top)
    print("   ", [state(top)] + [state(k) for k in kids])
    if kind == "iter":
        top.children = iter(kids)
    show(f"custom children {kind} rotate", lambda top=top: (
        top.rotate(ROTS["three"], start=1) is top))
    print("   ", [state(top)] + [state(k) for k in kids])
    if kind == "iter":
        top.children = iter(kids)
    show(f"custom children {kind} _rotate pp", lambda top=top: (
        top._rotate(ROTS["scalar"], parent_path=np.ones((2, 3))) is top))
    print("   ", [state(top)] + [state(k) for k in kids])
top = sensor(2)
top.children = [sensor(1), object(), sensor(1)]
show("bad child move", lambda: top.move((1, 1, 1)))
print("   ", state(top), [state(k) for k in top.children if hasattr(k, "_position")])
show("bad child rotate", lambda: top.rotate(ROTS["scalar"]))
print("   ", state(top), [state(k) for k in top.children if hasattr(k, "_position")])
show("bad child _rotate pp", lambda: top._rotate(ROTS["scalar"], parent_path=np.ones((1, 3))))
print("   ", state(top), [state(k) for k in top.children if hasattr(k, "_position")])

# 5) rejected calls change nothing anywhere in the tree
for mk in ("flat", "nested", "deep", "empty", "sensor3"):
    obj = MAKERS[mk]()
    ref = tree_state(obj)
    for tag, fn in {
        "bad rot": lambda: obj.rotate((1, 2, 3)),
        "bad anchor str": lambda: obj.rotate(ROTS["scalar"], anchor="x"),
        "bad anchor shape": lambda: obj.rotate(ROTS["scalar"], anchor=(1, 2)),
        "bad start": lambda: obj.rotate(ROTS["scalar"], start=1.5),
        "bad start None": lambda: obj.rotate(ROTS["three"], start=None),
        "bad _rotate start": lambda: obj._rotate(ROTS["one"], start="x", parent_path=np.ones((2, 3))),
        "bad disp": lambda: obj.move("abc"),
        "bad disp shape": lambda: obj.move((1, 2)),
        "bad move start": lambda: obj.move((1, 2, 3), start="end"),
        "bad angax": lambda: obj.rotate_from_angax(10, (0, 0, 0)),
    }.items():
        show(f"{mk} {tag}", fn)
        print("    unchanged", tree_state(obj) == ref)
    # parent path of wrong width: children see it first
    show(f"{mk} bad parent_path", lambda: obj._rotate(ROTS["three"], parent_path=np.zeros((2, 2)), start=0))
    print("   ", tree_state(obj))
