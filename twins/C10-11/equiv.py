import os, sys; sys.path.insert(0, os.getcwd())
# Deterministic digest of the Collection transform machinery (C10).
# Output must be identical with and without the refactoring patch.
import hashlib
import warnings

import numpy as np
from scipy.spatial.transform import Rotation as R

import magpylib as magpy
from magpylib._src.obj_classes import class_BaseGeo as bg
from magpylib._src.obj_classes import class_BaseTransform as bt

warnings.simplefilter("ignore")
np.set_printoptions(precision=9, suppress=True, linewidth=200)

LINES = []


def emit(tag, *vals):
    parts = [tag]
    for v in vals:
        if isinstance(v, R):
            v = v.as_quat()
        if isinstance(v, np.ndarray):
            # exact bytes (bitwise equality expected) + rounded view for readability
            h = hashlib.sha1(np.ascontiguousarray(v).tobytes()).hexdigest()[:12]
            parts.append(f"{v.shape}{v.dtype}#{h}:{np.round(v, 9).tolist()}")
        else:
            parts.append(repr(v))
    LINES.append(" | ".join(parts))


def state(tag, *objs):
    for i, o in enumerate(objs):
        emit(f"{tag}[{i}]", o._position, o._orientation.as_quat())


def attempt(tag, fn):
    try:
        out = fn()
        LINES.append(f"{tag} -> ok {type(out).__name__}")
    except BaseException as err:  # pylint: disable=broad-except
        LINES.append(f"{tag} -> {type(err).__name__}: {str(err)[:160]!r}")


def tree(pathlen=1):
    """nested collection tree: top(c_in(cube, sens2), sphere, sens)"""
    cube = magpy.magnet.Cuboid(
        polarization=(0.1, 0.2, 0.3), dimension=(1, 2, 3), position=(1, 2, 3)
    )
    sph = magpy.magnet.Sphere(
        polarization=(0.3, 0, 0.1), diameter=1.5, position=(-2, 0.5, 1)
    )
    sens = magpy.Sensor(position=(0.3, -0.2, 4), pixel=[(0, 0, 0), (0.1, 0.2, 0.3)])
    sens2 = magpy.Sensor(position=(3, 3, -1), pixel=[(0, 0, 0.1), (0.2, 0, 0)])
    sens.rotate_from_angax(33, (1, 2, 3))
    cube.rotate_from_euler((10, 20, 30), "xyz")
    c_in = magpy.Collection(cube, sens2, position=(0.5, 0.5, 0.5))
    c_in.rotate_from_rotvec((5, 10, 15))
    top = magpy.Collection(c_in, sph, sens, position=(-1, 1, 0.25))
    if pathlen > 1:
        top.move(np.linspace((0, 0, 0), (1, 2, 3), pathlen)[1:], start=1)
    return top, c_in, cube, sph, sens, sens2


def allobjs(t):
    return t


# ---------------------------------------------------------------- module helpers
for start in ["auto", 0, 1, 3, 7, -1, -3, -7, np.int64(2), np.int64(-9)]:
    for scalar in (True, False):
        for lenop, lenip in [(1, 1), (4, 1), (4, 3), (2, 6)]:
            pad, st = bt.path_padding_param(scalar, lenop, lenip, start)
            emit("ppp", start, scalar, lenop, lenip, pad, type(pad).__name__, st)

s0 = magpy.Sensor(position=[(1, 2, 3), (2, 3, 4), (3, 4, 5)])
for inp, start in [
    (np.array([1.0, 1, 1]), "auto"),
    (np.array([[1.0, 1, 1]] * 2), "auto"),
    (np.array([[1.0, 1, 1]] * 2), 1),
    (np.array([[1.0, 1, 1]] * 5), -5),
    (np.array([1.0, 1, 1]), -6),
    (np.array([0.0, 0, 0, 1]), 2),
]:
    pp, op, st, en, padded = bt.path_padding(inp, start, s0)
    emit("pp", start, pp, op, st, en, padded)

p1 = np.arange(12.0).reshape(4, 3)
for p2 in [np.arange(6.0).reshape(2, 3), np.arange(18.0).reshape(6, 3), p1 + 1]:
    out = bg.pad_slice_path(p1, p2)
    emit("psp", out, out is p2, np.shares_memory(out, p2))

# ---------------------------------------------------------------- move on collections
for pathlen in (1, 4):
    for disp, start in [
        ((1, 2, 3), "auto"),
        ((1, 2, 3), 2),
        ((1, 2, 3), -2),
        ([(1, 2, 3), (2, 3, 4)], "auto"),
        ([(1, 2, 3), (2, 3, 4), (0, 0, 1)], 1),
        ([(1, 2, 3), (2, 3, 4), (0, 0, 1)], -6),
        (np.array([(0.5, 0, 0)] * 3), np.int64(3)),
    ]:
        t = tree(pathlen)
        t[0].move(disp, start=start)
        state(f"move top L{pathlen} {start}", *t)
        t = tree(pathlen)
        t[1].move(disp, start=start)
        state(f"move inner L{pathlen} {start}", *t)
        t = tree(pathlen)
        t[2].move(disp, start=start)
        state(f"move child L{pathlen} {start}", *t)

# ---------------------------------------------------------------- rotate on collections
ROTS = [
    ("rotate", lambda o, a, s: o.rotate(R.from_rotvec((0.2, -0.1, 0.4)), anchor=a, start=s)),
    ("rotateN", lambda o, a, s: o.rotate(None, anchor=a, start=s)),
    (
        "rotateV",
        lambda o, a, s: o.rotate(
            R.from_rotvec([(0.2, -0.1, 0.4), (0.1, 0.1, 0.1), (0, 0, 1)]), anchor=a, start=s
        ),
    ),
    ("angax", lambda o, a, s: o.rotate_from_angax(37, "y", anchor=a, start=s)),
    ("angaxV", lambda o, a, s: o.rotate_from_angax([10, 20, 30, 40], (1, 1, 0), anchor=a, start=s)),
    ("angaxR", lambda o, a, s: o.rotate_from_angax(0.3, (0, 2, 1), anchor=a, start=s, degrees=False)),
    ("angaxI", lambda o, a, s: o.rotate_from_angax(np.int64(45), [0, 0, 1], anchor=a, start=s)),
    ("rotvec", lambda o, a, s: o.rotate_from_rotvec([(10, 20, 30), (5, 5, 5)], anchor=a, start=s)),
    ("euler", lambda o, a, s: o.rotate_from_euler((15, 25), "zx", anchor=a, start=s)),
    ("matrix", lambda o, a, s: o.rotate_from_matrix([(0, -1, 0), (1, 0, 0), (0, 0, 1)], anchor=a, start=s)),
    ("mrp", lambda o, a, s: o.rotate_from_mrp((0.1, 0.2, 0.3), anchor=a, start=s)),
    ("quat", lambda o, a, s: o.rotate_from_quat([(0, 0, 1, 1), (1, 0, 0, 1)], anchor=a, start=s)),
]
ANCHORS = [
    None,
    0,
    (1, -2, 0.5),
    [(1, 0, 0), (0, 1, 0)],
    [(1, 0, 0), (0, 1, 0), (0, 0, 1), (1, 1, 1), (2, 2, 2)],
]
STARTS = ["auto", 0, 2, -1, -7, 5]
for pathlen in (1, 4):
    for name, op in ROTS:
        for anc in ANCHORS:
            for st in STARTS:
                for target in (0, 1, 2):
                    t = tree(pathlen)
                    op(t[target], anc, st)
                    h = hashlib.sha1()
                    for o in t:
                        h.update(np.ascontiguousarray(o._position).tobytes())
                        h.update(np.ascontiguousarray(o._orientation.as_quat()).tobytes())
                    LINES.append(
                        f"rot {name} L{pathlen} a={anc!r} s={st!r} t={target} "
                        f"lens={[len(o._position) for o in t]} #{h.hexdigest()[:16]}"
                    )
# a few in full
t = tree(4)
t[0].rotate_from_angax([10, 20, 30], "z", start=2)
state("full angax top", *t)
t = tree(4)
t[1].rotate_from_angax([10, 20, 30], "z", anchor=None, start=-6)
state("full angax inner", *t)
t = tree(1)
t[0].rotate_from_rotvec([(0, 0, 10), (0, 20, 0)], anchor=[(1, 1, 1)] * 4, start=1)
state("full rotvec top", *t)

# ---------------------------------------------------------------- setters / reset_path
for pathlen in (1, 4):
    for target in (0, 1, 2):
        t = tree(pathlen)
        t[target].position = (7, 8, 9)
        state(f"pos= scalar L{pathlen} t{target}", *t)
        t = tree(pathlen)
        t[target].position = [(7, 8, 9), (1, 1, 1)]
        state(f"pos= short L{pathlen} t{target}", *t)
        t = tree(pathlen)
        t[target].position = np.arange(18.0).reshape(6, 3)
        state(f"pos= long L{pathlen} t{target}", *t)
        t = tree(pathlen)
        t[target].orientation = R.from_rotvec((0.3, 0.2, 0.1))
        state(f"ori= scalar L{pathlen} t{target}", *t)
        t = tree(pathlen)
        t[target].orientation = R.from_rotvec([(0.3, 0.2, 0.1), (0, 0, 1)])
        state(f"ori= short L{pathlen} t{target}", *t)
        t = tree(pathlen)
        t[target].orientation = R.from_rotvec([(0.3, 0.2, 0.1)] * 6)
        state(f"ori= long L{pathlen} t{target}", *t)
        t = tree(pathlen)
        t[target].orientation = None
        state(f"ori= None L{pathlen} t{target}", *t)
        t = tree(pathlen)
        t[target].reset_path()
        state(f"reset L{pathlen} t{target}", *t)

# sequences + field invariance seen by own sensor
t = tree(3)
top = t[0]
B0 = top.getB()
top.move((1, 2, 3)).rotate_from_angax(40, (1, 2, 3), anchor=(1, 0, 0))
top.position = [(0, 0, 1), (0, 1, 0), (1, 0, 0)]
top.orientation = R.from_rotvec([(0.1, 0, 0), (0, 0.2, 0), (0, 0, 0.3)])
t[1].rotate_from_euler(12, "y").move((0.1, 0.1, 0.1))
state("seq", *t)
emit("seq B", top.getB())
t2 = tree(3)
B0 = t2[0].getB()
t2[0].move((1, 2, 3)).rotate_from_angax(40, (1, 2, 3), anchor=(1, 0, 0))
t2[0].position = [(0, 0, 1), (0, 1, 0), (1, 0, 0)]
t2[0].orientation = R.from_rotvec([(0.1, 0, 0), (0, 0.2, 0), (0, 0, 0.3)])
emit("seq invariance", bool(np.allclose(B0, t2[0].getB(), rtol=1e-10, atol=1e-14)))

# aliasing: anchor slice of parent path must not be modified, returns self
t = tree(2)
ppos = t[0]._position
pid = id(ppos)
ret = t[0].rotate_from_angax(10, "z")
emit("alias", ret is t[0], id(t[0]._position) == pid, t[0]._position)
ret = t[0].move((1, 1, 1))
emit("alias2", ret is t[0], id(t[0]._position) == pid)
user_anchor = np.array([(1.0, 2, 3), (4, 5, 6)])
user_disp = np.array([(1.0, 2, 3), (4, 5, 6)])
t[0].rotate_from_angax([10, 20, 30], "x", anchor=user_anchor)
t[0].move(user_disp)
emit("user inputs untouched", user_anchor, user_disp)

# ---------------------------------------------------------------- error paths
def fresh():
    return tree(2)[0]


attempt("err move str", lambda: fresh().move("abc"))
attempt("err move shape", lambda: fresh().move((1, 2)))
attempt("err move 3d", lambda: fresh().move(np.zeros((2, 2, 3))))
attempt("err move start", lambda: fresh().move((1, 2, 3), start=1.5))
attempt("err move start str", lambda: fresh().move((1, 2, 3), start="x"))
attempt("err rotate type", lambda: fresh().rotate((1, 2, 3)))
attempt("err rotate anchor", lambda: fresh().rotate(None, anchor=(1, 2)))
attempt("err rotate anchor1", lambda: fresh().rotate(None, anchor=1))
attempt("err rotate start", lambda: fresh().rotate(None, start=None))
attempt("err angax angle", lambda: fresh().rotate_from_angax("a", "z"))
attempt("err angax angle2d", lambda: fresh().rotate_from_angax([[1, 2]], "z"))
attempt("err angax axis", lambda: fresh().rotate_from_angax(10, "w"))
attempt("err angax axis0", lambda: fresh().rotate_from_angax(10, (0, 0, 0)))
attempt("err angax axis shape", lambda: fresh().rotate_from_angax(10, (0, 1)))
attempt("err angax start", lambda: fresh().rotate_from_angax(10, "z", start=0.5))
attempt("err angax degrees", lambda: fresh().rotate_from_angax(10, "z", degrees=1))
attempt("err angax anchor", lambda: fresh().rotate_from_angax(10, "z", anchor="a"))
attempt(
    "err anchor/rot mismatch",
    lambda: fresh().rotate(R.from_rotvec([(0, 0, 1)] * 3), anchor=[(0, 0, 0)] * 2),
)


def _setpos(v):
    f = fresh()
    f.position = v


def _setori(v):
    f = fresh()
    f.orientation = v


attempt("err pos=", lambda: _setpos((1, 2)))
attempt("err pos= str", lambda: _setpos("a"))
attempt("err ori=", lambda: _setori((1, 2, 3)))
# state after a rejected operation is unchanged
f = tree(2)
attempt("err keep", lambda: f[0].rotate_from_angax(10, "z", anchor=(1, 2)))
state("after rejected", *f)
attempt("err keep2", lambda: f[0].move((1, 2, 3), start=2.0))
state("after rejected2", *f)


# ---------------------------------------------------------------- twin3-1: input validators
from magpylib._src import input_checks as ic


def show(tag, fn):
    """result (with dtype/shape/bytes) or exception type + message"""
    try:
        out = fn()
    except BaseException as err:  # pylint: disable=broad-except
        LINES.append(f"{tag} -> {type(err).__name__}: {str(err)[:200]!r}")
        return None
    emit(tag + " ->", out)
    return out


# check_array_shape: full small grid incl. 0-d arrays, empty dims, length mismatch
ARRS = [
    np.zeros(3),
    np.zeros((2, 3)),
    np.zeros((2, 2, 3)),
    np.zeros((3, 2)),
    np.zeros(()),
    np.zeros((0, 3)),
    np.zeros(4),
    np.zeros((0,)),
]
for arr in ARRS:
    for dims in [(1,), (2,), (1, 2), (0,), (), [1, 2]]:
        for m1 in [3, "any", 2, 0, np.int64(3)]:
            for length in [None, 2, 3, 0, np.int64(2)]:
                show(
                    f"cas {arr.shape} {dims} {m1!r} {length!r}",
                    lambda: ic.check_array_shape(arr, dims, m1, length=length, msg="M"),
                )
show("cas default msg", lambda: ic.check_array_shape(np.zeros(2), (1,), 3))
show("cas kw", lambda: ic.check_array_shape(inp=np.zeros(3), dims=(1,), shape_m1=3))
show("cas no ndim", lambda: ic.check_array_shape([1, 2, 3], (1,), 3))

# check_format_input_vector
VEC_INPUTS = [
    None,
    (1, 2, 3),
    [(1, 2, 3), (4, 5, 6)],
    "abc",
    [1, "a", 3],
    np.array([1, 2, 3]),
    np.array([[-1, 0, 2]]),
    (1, 2),
    5,
    [[[1, 2, 3]]],
    [],
    [[1, 2, 3], [1, 2]],
    (0, 0, 0),
    {1, 2, 3},
]
for inp in VEC_INPUTS:
    for allow_none in (False, True, 1, 0):
        for reshape in (False, (-1, 3), True, (3, -1)):
            for fneg in (False, True):
                for length in (None, 2):
                    show(
                        f"cfiv {inp!r} an={allow_none!r} rs={reshape!r} fn={fneg} len={length}",
                        lambda: ic.check_format_input_vector(
                            inp,
                            dims=(1, 2),
                            shape_m1=3,
                            sig_name="sig",
                            sig_type="a sig type",
                            length=length,
                            reshape=reshape,
                            allow_None=allow_none,
                            forbid_negative0=fneg,
                        ),
                    )
show(
    "cfiv any",
    lambda: ic.check_format_input_vector(
        [1, 2, 3, 4, 5], dims=(1,), shape_m1="any", sig_name="angle", sig_type="t"
    ),
)
a_in = np.array([1.0, 2.0, 3.0])
a_out = ic.check_format_input_vector(a_in, dims=(1, 2), shape_m1=3, sig_name="s", sig_type="t")
emit("cfiv copy", a_out is a_in, bool(np.shares_memory(a_out, a_in)))

# check_format_input_anchor


class MyZero(float):
    """a Number subclass equal to zero"""


ANCHOR_INPUTS = [
    None,
    0,
    0.0,
    -0.0,
    False,
    True,
    np.int64(0),
    np.float64(0),
    np.float32(0),
    0j,
    MyZero(0),
    1,
    -1.5,
    np.nan,
    (1, 2, 3),
    [(1, 2, 3), (4, 5, 6)],
    (1, 2),
    "a",
    "0",
    np.zeros((2, 2, 3)),
    np.array(0),
    np.array([0]),
    [0],
    [0, 0, 0],
    np.arange(3),
    {},
]
for inp in ANCHOR_INPUTS:
    out1 = show(f"cfia {inp!r} {type(inp).__name__}", lambda: ic.check_format_input_anchor(inp))
    out2 = show(f"cfia2 {inp!r}", lambda: ic.check_format_input_anchor(inp))
    if out1 is not None:
        emit("cfia fresh", out1 is out2, out1.flags.writeable, out1.flags.owndata)
z = ic.check_format_input_anchor(0)
z += 1  # the returned zero anchor is a private, writable array
emit("cfia zero again", ic.check_format_input_anchor(0))
show("cfia kw", lambda: ic.check_format_input_anchor(inp=0))

# check_format_input_axis


class OddStr(str):
    """str subclass that counts comparisons"""

    log = []

    def __eq__(self, other):
        OddStr.log.append(other)
        return str.__eq__(self, other)

    __hash__ = None


AXIS_INPUTS = [
    "x",
    "y",
    "z",
    "w",
    "X",
    "",
    "xy",
    OddStr("y"),
    OddStr("q"),
    (1, 2, 3),
    (0, 0, 0),
    [0, 0, 1],
    (1, 2),
    np.array([1, 0, 0]),
    np.array([[1, 0, 0]]),
    None,
    5,
    b"x",
    (0.0, -0.0, 0.0),
]
for inp in AXIS_INPUTS:
    out1 = show(f"cfiax {inp!r} {type(inp).__name__}", lambda: ic.check_format_input_axis(inp))
    out2 = show(f"cfiax2 {inp!r}", lambda: ic.check_format_input_axis(inp))
    if out1 is not None:
        emit("cfiax fresh", out1 is out2, out1.flags.writeable)
LINES.append(f"cfiax oddstr comparisons {OddStr.log!r}")
ax = ic.check_format_input_axis("z")
ax += 5
emit("cfiax z again", ic.check_format_input_axis("z"))

# the same values through the public API on a nested tree
for anc in [None, 0, 0.0, False, np.int64(0), MyZero(0), (1, 2, 3), [(1, 2, 3), (3, 2, 1)]]:
    for axis in ["x", "y", "z", (1, 1, 0), np.array([0, 0, 2])]:
        for target in (0, 1, 2):
            t = tree(3)
            t[target].rotate_from_angax([10, 20], axis, anchor=anc, start=1)
            t[target].move([(1, 2, 3)], start=-1)
            state(f"api a={anc!r} ax={axis!r} t{target}", *t)
for bad_anchor in [True, 1, (1, 2), "a", np.zeros((2, 2, 3)), [0]]:
    t = tree(2)
    attempt(f"api bad anchor {bad_anchor!r}", lambda: t[0].rotate_from_angax(10, "z", anchor=bad_anchor))
    attempt(f"api bad anchor rot {bad_anchor!r}", lambda: t[1].rotate(None, anchor=bad_anchor))
    state("api after bad anchor", *t)
for bad_axis in ["w", "", (0, 0, 0), (1, 2), None, 5]:
    t = tree(2)
    attempt(f"api bad axis {bad_axis!r}", lambda: t[0].rotate_from_angax(10, bad_axis))
    state("api after bad axis", *t)
for bad in [(1, 2), "a", None, np.zeros((2, 2, 3)), [], 7]:
    t = tree(2)
    attempt(f"api bad move {bad!r}", lambda: t[0].move(bad))
    attempt(f"api bad pos {bad!r}", lambda: setattr(t[0], "position", bad))
    attempt(f"api bad ctor {bad!r}", lambda: magpy.Collection(position=bad))
    state("api after bad move/pos", *t)
# other users of check_format_input_vector with `length` / `forbid_negative0`
attempt("tetra ok", lambda: magpy.magnet.Tetrahedron(vertices=[(0, 0, 0), (1, 0, 0), (0, 1, 0), (0, 0, 1)]))
attempt("tetra len", lambda: magpy.magnet.Tetrahedron(vertices=[(0, 0, 0), (1, 0, 0), (0, 1, 0)]))
attempt("tri len", lambda: magpy.misc.Triangle(vertices=[(0, 0, 0), (1, 0, 0)]))
attempt("cuboid neg", lambda: magpy.magnet.Cuboid(dimension=(1, -1, 1)))
attempt("cuboid zero", lambda: magpy.magnet.Cuboid(dimension=(1, 0, 1)))
attempt("cuboid none", lambda: magpy.magnet.Cuboid(dimension=None))
digest = hashlib.sha256("\n".join(LINES).encode()).hexdigest()
for line in LINES:
    print(line)
print("N_LINES", len(LINES))
print("DIGEST", digest)
