import os, sys; sys.path.insert(0, os.getcwd())

# Exercises `update_nested_dict` and `magic_to_dict` (defaults_utility.py): directly
# on a grid of inputs (incl. aliasing of the inputs and error paths) and through
# style updates / `copy()` with style keyword overrides.
import copy
import itertools
import re
import collections.abc

import magpylib as magpy
from magpylib._src.defaults.defaults_utility import magic_to_dict
from magpylib._src.defaults.defaults_utility import update_nested_dict


def clean(txt):
    return re.sub(r"id=\d+", "id=#", str(txt))


def run(label, func):
    try:
        res = func()
    except BaseException as e:  # noqa: B036
        res = type(e).__name__ + ":" + clean(e).split("\n")[0][:110]
    print(label, res)


class Loud:
    """value that records deep copies"""

    log = []

    def __init__(self, name):
        self.name = name

    def __deepcopy__(self, memo):
        Loud.log.append(self.name)
        return Loud(self.name + "'")

    def __repr__(self):
        return f"Loud({self.name})"


class FrozenMap(collections.abc.Mapping):
    """a mapping that is not a dict"""

    def __init__(self, **kw):
        self._d = kw

    def __getitem__(self, key):
        return self._d[key]

    def __iter__(self):
        return iter(self._d)

    def __len__(self):
        return len(self._d)

    def copy(self):
        return dict(self._d)

    def __repr__(self):
        return f"FrozenMap({self._d})"


print("== magic_to_dict")
MAGIC = [
    {},
    {"a": 1},
    {"a_b": 1},
    {"a_b": 1, "a_c": 2},
    {"a_b_c": 1, "a_b_d": 2, "a_e": 3, "f": 4},
    {"a": {"x": 1}, "a_b": 2},
    {"a": 5, "a_b": 2},
    {"a_b": 2, "a": 5},
    {"a_b": 2, "a": {"x_y": 1}},
    {"a": {"b_c": 1, "b_d": {"e_f": 2}}},
    {"a__b": 1},
    {"_a": 1, "b_": 2, "_": 3},
    {"a_b": {"c_d": 1}, "a": {"b": {"c": {"e": 2}}}},
    {"a_b": [1, 2], "a_c": None},
    {"a.b": 1, "a.c_d": 2},
    {"a": {"b": 1}, "a_b_c": 2},
    {"a": FrozenMap(b=1), "a_c": 2},
    {"a_b": FrozenMap(c_d=1)},
    {"a_b": 1, "a_b_c": 2},
    {"a_b_c": 2, "a_b": 1},
    {1: 2},
    {"a_b": 1, 2: 3},
    {("a", "b"): 1},
]
for d, sep in itertools.product(MAGIC, ("_", ".", "__")):
    before = copy.deepcopy(d)
    nested_in = [v for v in d.values() if isinstance(v, dict)]

    def call(d=d, sep=sep):
        out = magic_to_dict(d, separator=sep)
        # the result must not be (or contain at top level) the caller's own dicts
        alias = out is d or any(v is w for v in out.values() for w in nested_in)
        return [out, list(out), type(out).__name__, alias]

    run(f"{d} {sep!r}", call)
    print("    input unchanged", d == before)
for bad_kw, bad_sep in ((0, "_"), ({"a": 1}, 0), ([("a", 1)], "_"), ({"a_b": 1}, ""), (None, "_"), ({"a": 1}, None)):
    run(f"bad {bad_kw} {bad_sep!r}", lambda: magic_to_dict(bad_kw, separator=bad_sep))
shared = {"x": 1}
out = magic_to_dict({"a": shared, "a_y": 2})
print(out, shared, out["a"] is shared)
out = magic_to_dict({"a": shared, "b": shared})
print(out, out["a"] is shared, out["a"] is out["b"])

print("== update_nested_dict")
D = [
    {},
    {"a": 1, "b": None},
    {"a": {"x": 1, "y": None}, "b": 2, "c": None},
    {"a": {"x": {"p": None, "q": 1}}, "b": {"z": None}},
    None,
    5,
    "txt",
    [1, 2],
]
U = [
    {},
    {"a": 2},
    {"b": 3, "d": 4},
    {"a": {"x": 5, "y": 6, "w": 7}, "c": 8},
    {"a": {"x": {"p": 9, "r": 10}}, "b": {"z": 11, "zz": {"deep": 12}}},
    {"a": None, "b": None},
    {"a": 7, "e": {"n": 1}},
    {"a": {}, "b": {}},
    FrozenMap(a=1, n={"m": 2}),
    {"a": FrozenMap(x=50, new=51)},
]
for d, u in itertools.product(D, U):
    for same, none_only in itertools.product((False, True), repeat=2):
        d0, u0 = copy.deepcopy(d), copy.deepcopy(dict(u))

        def call(d=d, u=u, same=same, none_only=none_only):
            out = update_nested_dict(d, u, same_keys_only=same, replace_None_only=none_only)
            return [out, list(out) if isinstance(out, dict) else None, type(out).__name__, out is d, out is u]

        run(f"{d} | {dict(u)} | {same} {none_only} ->", call)
        if d != d0 or dict(u) != u0:
            print("    INPUT CHANGED")
for d, u in ((1, 2), ({"a": 1}, 3), ({"a": 1}, None), (None, None), ({"a": 1}, [("a", 2)])):
    for none_only in (False, True):
        run(f"bad {d} {u} {none_only}", lambda: update_nested_dict(d, u, replace_None_only=none_only))

print("-- aliasing and deep copies")
Loud.log.clear()
inner_d, inner_u = {"k": Loud("d_in")}, {"k2": Loud("u_in")}
d = {"a": inner_d, "b": Loud("d_b"), "c": None}
u = {"a": inner_u, "b": Loud("u_b"), "c": [1, 2], "n": {"fresh": Loud("u_n")}}
out = update_nested_dict(d, u)
print(out, Loud.log)
print(out["a"] is inner_d, out["a"] is inner_u, out["b"] is u["b"], out["c"] is u["c"], out["n"] is u["n"],
      out["n"]["fresh"] is u["n"]["fresh"], d["a"] is inner_d, sorted(d), sorted(inner_d))
Loud.log.clear()
out = update_nested_dict(d, u, same_keys_only=True, replace_None_only=True)
print(out, Loud.log, out["c"] is u["c"])
Loud.log.clear()
out = update_nested_dict(None, u)
print(list(out), out is u, out["n"] is u["n"], Loud.log)

print("== through style objects and copy()")
src = magpy.magnet.Cuboid(polarization=(0, 0, 1), dimension=(1, 1, 1), style_label="c",
                          style_magnetization_color_north="r")
par = magpy.Collection(src)
cases = [
    {"style_color": "g"},
    {"style_magnetization_color_south": "b", "style_magnetization_show": False},
    {"style_magnetization": {"color": {"middle": "g"}}, "style_magnetization_color_mode": "bicolor"},
    {"style": {"path": {"line": {"width": 3}}, "path_marker_size": 4}, "style_path_line_style": "dashed"},
    {"style_label": "new", "style_description": "txt", "style_legend_show": False},
    {"style_path": {"frames": [1, 2]}, "style_opacity": 0.5},
    {"style_nokey": 1},
    {"style_magnetization_nokey": 1},
    {"style_path_line_width": -1},
    {"style_color": "nocolor"},
    {"style_magnetization": 5},
]
for kw in cases:
    def call(kw=kw):
        c = src.copy(**kw)
        flat = c.style.as_dict(flatten=True, separator="_")
        ref = src.style.as_dict(flatten=True, separator="_")
        return sorted((k, str(v)) for k, v in flat.items() if str(ref[k]) != str(v))
    run(f"copy {kw}", call)
    print("    orig", src.style.label, src.style.color, src.style.magnetization.color.north, src.parent is par, len(par))
st = src.style
run("update match", lambda: st.update({"path_line_width": 2}, opacity=0.3).as_dict(flatten=True)["path.line.width"])
run("update no match", lambda: st.update(nokey=3, _match_properties=False).opacity)
run("update none only", lambda: (st.update(opacity=0.9, color="y", _replace_None_only=True).opacity, st.color))
run("update bad", lambda: st.update(nokey=3))
arg = {"magnetization": {"color": {"north": "m"}}}
run("update nested arg", lambda: (st.update(arg).magnetization.color.north, arg))
