import os, sys; sys.path.insert(0, os.getcwd())
import re

import magpylib as magpy
from magpylib._src.defaults.defaults_utility import validate_property_class
from magpylib._src.defaults.defaults_utility import validate_style_keys
from magpylib._src.style import BaseStyle, Description, Line, Marker, Path


def run(label, func):
    try:
        res = func()
    except BaseException as e:  # deterministic digest of the error path
        msg = re.sub(r"id=\d+", "id=N", str(e))
        msg = re.sub(r" at 0x[0-9a-f]+", "", msg)
        res = f"EXC {type(e).__name__}: {msg!r}"
    print(f"{label}: {res}")


def flat(obj):
    d = obj.as_dict(flatten=True, separator="_")
    return type(obj).__name__, sorted((k, v) for k, v in d.items() if v is not None)


def _msg(func):
    try:
        func()
    except ValueError as e:
        return str(e)
    return ""


def one_invalid_col(col, kw):
    try:
        col.set_children_styles(kw)
    except ValueError as e:
        return str(e).split("\n\n Available")[0]
    return "no error"


class Parent:
    pass


# ---- validate_property_class ------------------------------------------------
parent = Parent()
run("None", lambda: flat(validate_property_class(None, "line", Line, parent)))
run("dict", lambda: flat(validate_property_class({"width": 3, "color": "r"}, "line", Line, parent)))
run("dict magic", lambda: flat(validate_property_class({"line_width": 3, "marker": {"size": 2}}, "path", Path, parent)))
run("empty dict", lambda: flat(validate_property_class({}, "marker", Marker, parent)))
line = Line(width=2)
run("instance is kept", lambda: validate_property_class(line, "line", Line, parent) is line)
run("subclass instance is kept", lambda: type(validate_property_class(magpy.defaults.display.style.current.arrow, "line", Line, parent)).__name__)
run("wrong class", lambda: validate_property_class(Marker(), "line", Line, parent))
run("string", lambda: validate_property_class("solid", "line", Line, parent))
run("list", lambda: validate_property_class([1, 2], "line", Line, parent))
run("zero", lambda: validate_property_class(0, "line", Line, parent))
run("False", lambda: validate_property_class(False, "line", Line, parent))
run("dict bad name", lambda: validate_property_class({"nope": 1}, "line", Line, parent))
run("dict bad value", lambda: validate_property_class({"width": -1}, "line", Line, parent))
run("dict non str key", lambda: validate_property_class({1: 1}, "line", Line, parent))
run("class_=dict, val None", lambda: validate_property_class(None, "x", dict, parent))
run("class_=dict, val dict", lambda: validate_property_class({"a": 1}, "x", dict, parent))
run("class_=int, val None", lambda: validate_property_class(None, "x", int, parent))
run("class_=int, val 3", lambda: validate_property_class(3, "x", int, parent))
run("class_=int, val str", lambda: validate_property_class("3", "x", int, parent))

# through setters of the style classes
st = BaseStyle()
run("path=None", lambda: (setattr(st, "path", None), flat(st.path))[1])
run("path=dict", lambda: (setattr(st, "path", {"line_width": 4}), flat(st.path))[1])
run("path=Line()", lambda: setattr(st, "path", Line()))
run("description=str", lambda: (setattr(st, "description", "abc"), flat(st.description))[1])
run("description=Description", lambda: (setattr(st, "description", Description(show=False)), flat(st.description))[1])
run("description=5", lambda: setattr(st, "description", 5))
run("defaults.display=5", lambda: setattr(magpy.defaults, "display", 5))
run("defaults.display.style.magnet='x'", lambda: setattr(magpy.defaults.display.style, "magnet", "x"))

# ---- validate_style_keys ----------------------------------------------------
def one_invalid(kw):
    """message with a single invalid key is deterministic up to the set of valid keys"""
    try:
        validate_style_keys(kw)
    except ValueError as e:
        head, tail = str(e).split("\n\n Available style properties are: `")
        return head, sorted(eval(tail.rstrip("`")))
    return "no error"


kw = {"color": "r", "path_line_width": 3, "magnetization_show": True, "pixel_size": 2}
run("valid -> same object", lambda: validate_style_keys(kw) is kw)
run("empty -> same object", lambda: (lambda d: validate_style_keys(d) is d)({}))
run("all level0 names", lambda: validate_style_keys({k: None for k in (
    "description legend color opacity path model3d magnetization arrow line size "
    "sizemode pixel arrows pivot orientation mesh marker").split()}) is not None)
run("one invalid", lambda: one_invalid({"color": "r", "colour_x": 1}))
run("one invalid, same first level twice (last spelling reported)", lambda: one_invalid({"bad_a": 1, "bad_b": 2, "opacity": 1}))
run("leading underscore", lambda: one_invalid({"_color": 1}))
run("several invalid", lambda: sorted(eval(re.search(r"properties: `(\{.*?\})`", _msg(lambda: validate_style_keys({"xx_1": 1, "yy": 2, "color": 3, "zz_a_b": 4}))).group(1))))
run("non str key", lambda: validate_style_keys({1: 2}))
run("list of names", lambda: validate_style_keys(["color", "path_show"]))
run("list with invalid", lambda: one_invalid(["color", "nope_show"]))
run("None", lambda: validate_style_keys(None))


# ---- Collection.set_children_styles (caller) --------------------------------
def make():
    c1 = magpy.magnet.Cuboid(polarization=(0, 0, 1), dimension=(1, 1, 1))
    s1 = magpy.Sensor()
    l1 = magpy.current.Circle(current=1, diameter=1)
    inner = magpy.Collection(l1, style_label="inner")
    return magpy.Collection(c1, s1, inner), (c1, s1, l1, inner)


def styles(objs):
    return [flat(o.style) for o in objs]


col, objs = make()
arg = {"color": "g", "magnetization_show": False}
run("dict", lambda: (col.set_children_styles(arg) is col, styles(objs)))
print("   caller dict untouched:", arg)
run("kwargs", lambda: (col.set_children_styles(opacity=0.5, arrow_width=3, size=2).__class__.__name__, styles(objs)))
run("dict + kwargs (kwargs win)", lambda: (col.set_children_styles({"color": "r", "opacity": 0.1}, color="b"), styles(objs))[1])
run("no argument", lambda: (col.set_children_styles(), styles(objs))[1])
run("not recursive", lambda: (col.set_children_styles(color="k", recursive=False), styles(objs))[1])
run("invalid name", lambda: one_invalid_col(col, {"color": "y", "nope_x": 1}))
print("   nothing applied:", styles(objs)[0][1][:1])
run("invalid value", lambda: col.set_children_styles(opacity=3))
run("arg not a dict", lambda: col.set_children_styles(5))
run("arg list", lambda: col.set_children_styles(["color"]))
run("_validate=False, unknown name ignored", lambda: (col.set_children_styles({"nope": 1, "color": "w"}, _validate=False), styles(objs))[1])


run("invalid name again", lambda: one_invalid_col(col, {"color": "y", "nope_x": 1}))
