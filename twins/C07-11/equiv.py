import os, sys; sys.path.insert(0, os.getcwd())
import hashlib
import re
import warnings

import numpy as np

import magpylib as magpy
from magpylib._src import input_checks
from magpylib._src.input_checks import check_dimensions
from magpylib._src.input_checks import check_excitations

warnings.simplefilter("ignore")


def h(x):
    x = np.ascontiguousarray(np.asarray(x))
    return f"{x.shape} {hashlib.sha1(x.tobytes()).hexdigest()[:16]}"


def clean(err):
    return re.sub(r"0x[0-9a-f]+|id=\d+", "ADDR", str(err).replace("\n", " / "))


def attempt(label, func, *args, **kwargs):
    try:
        res = func(*args, **kwargs)
    except Exception as err:  # pylint: disable=broad-except
        ctx = type(err.__context__).__name__
        cause = type(err.__cause__).__name__
        print(f"{label}: EXC {type(err).__name__} ctx={ctx} cause={cause}: {clean(err)}")
    else:
        print(f"{label}: {res if res is None or isinstance(res, str) else h(res)}")


# ---------------------------------------------------------------------------
# 1. duck-typed probes: which attributes are looked at, in which order
LOG = []


class Probe:
    """object with configurable attributes, logging every attribute access"""

    def __init__(self, name, **attrs):
        object.__setattr__(self, "_name", name)
        object.__setattr__(self, "_attrs", attrs)

    def __getattr__(self, key):
        LOG.append(f"{self._name}.{key}")
        attrs = object.__getattribute__(self, "_attrs")
        if key in attrs:
            val = attrs[key]
            if isinstance(val, Exception):
                raise val
            return val
        raise AttributeError(key)

    def __repr__(self):
        return f"Probe({self._name})"


def run_probe(label, func, probes):
    LOG.clear()
    attempt(label, func, probes)
    print("   access log:", " ".join(LOG))


probes = {
    "dim only": [Probe("a", dimension=(1, 2, 3))],
    "dim None": [Probe("a", dimension=None)],
    "dim None + diameter set": [Probe("a", dimension=None, diameter=2)],
    "dim set + diameter None": [Probe("a", dimension=1, diameter=None, vertices=None)],
    "diameter None + vertices set": [Probe("a", diameter=None, vertices=[1])],
    "vertices None": [Probe("a", vertices=None)],
    "no attribute": [Probe("a")],
    "second bad": [Probe("a", dimension=1), Probe("b"), Probe("c", vertices=None), Probe("d", dimension=None)],
    "falsy but set": [Probe("a", dimension=0, polarization=0), Probe("b", diameter=(), current=0.0)],
    "pol None": [Probe("a", polarization=None, current=1)],
    "pol set current None": [Probe("a", polarization=(1, 2, 3), current=None, moment=None)],
    "current None moment set": [Probe("a", current=None, moment=(1, 2, 3))],
    "moment None": [Probe("a", moment=None)],
    "hasattr raises ValueError": [Probe("a", dimension=ValueError("boom"), polarization=ValueError("bam"))],
    "hasattr raises on 2nd": [Probe("a", diameter=KeyError("k"), current=KeyError("c"))],
    "hasattr raises StopIteration": [Probe("a", diameter=StopIteration("s"), current=StopIteration("c"))],
    "empty": [],
    "tuple of sources": (Probe("a", dimension=1, polarization=1), Probe("b", diameter=None, moment=None)),
    "generator": (p for p in [Probe("a", dimension=1, moment=1), Probe("b", vertices=None, current=None)]),
}
for lab, prs in probes.items():
    if lab == "generator":
        run_probe(f"check_dimensions[{lab}]", check_dimensions, prs)
        prs = (p for p in [Probe("a", dimension=1, moment=1), Probe("b", vertices=None, current=None)])
        run_probe(f"check_excitations[{lab}]", check_excitations, prs)
        continue
    run_probe(f"check_dimensions[{lab}]", check_dimensions, prs)
    run_probe(f"check_excitations[{lab}]", check_excitations, prs)

attempt("check_dimensions[not iterable]", check_dimensions, 1)
attempt("check_excitations[not iterable]", check_excitations, None)
print("signatures:", check_dimensions.__name__, check_excitations.__name__,
      check_dimensions.__doc__, "|", check_excitations.__doc__)

# ---------------------------------------------------------------------------
# 2. real sources through all interfaces
obs = np.array([(0.2, 0.3, 0.4), (1, 2, 3)])
sens = magpy.Sensor(pixel=obs)


def make_all():
    verts = [(0, 0, 0), (1, 0, 0), (0, 1, 0), (0, 0, 1)]
    return {
        "Cuboid": magpy.magnet.Cuboid(polarization=(0.1, 0.2, 0.3), dimension=(1, 2, 3)),
        "Cylinder": magpy.magnet.Cylinder(polarization=(0.1, 0.2, 0.3), dimension=(1, 2)),
        "CylinderSegment": magpy.magnet.CylinderSegment(polarization=(0.1, 0.2, 0.3), dimension=(1, 2, 3, 10, 80)),
        "Sphere": magpy.magnet.Sphere(polarization=(0.1, 0.2, 0.3), diameter=1),
        "Tetrahedron": magpy.magnet.Tetrahedron(polarization=(0.1, 0.2, 0.3), vertices=verts),
        "TriangularMesh": magpy.magnet.TriangularMesh.from_ConvexHull(polarization=(0.1, 0.2, 0.3), points=verts),
        "Circle": magpy.current.Circle(current=1.5, diameter=2),
        "Polyline": magpy.current.Polyline(current=1.5, vertices=[(0, 0, 0), (1, 1, 1), (2, 0, 1)]),
        "Dipole": magpy.misc.Dipole(moment=(1, 2, 3)),
        "Triangle": magpy.misc.Triangle(polarization=(0.1, 0.2, 0.3), vertices=[(0, 0, 0), (1, 0, 0), (0, 1, 0)]),
        "CustomSource": magpy.misc.CustomSource(field_func=lambda field, observers: observers * 2.0),
    }


for name, src in make_all().items():
    for fld in "BHJM":
        attempt(f"ok {name}.get{fld}", getattr(src, f"get{fld}"), obs)
    attempt(f"ok getB({name}, sens)", magpy.getB, src, sens)
    attempt(f"ok sens.getH({name})", sens.getH, src)
    attempt(f"ok coll {name}", magpy.Collection(src).getB, sens)

# missing dimension-like parameter / missing excitation
missing = {
    "Cuboid no dim": lambda: magpy.magnet.Cuboid(polarization=(0.1, 0.2, 0.3)),
    "Cuboid no pol": lambda: magpy.magnet.Cuboid(dimension=(1, 2, 3)),
    "Cuboid nothing": lambda: magpy.magnet.Cuboid(),
    "Cylinder no dim": lambda: magpy.magnet.Cylinder(polarization=(0.1, 0.2, 0.3)),
    "Cylinder no pol": lambda: magpy.magnet.Cylinder(dimension=(1, 2)),
    "CylinderSegment no dim": lambda: magpy.magnet.CylinderSegment(polarization=(0.1, 0.2, 0.3)),
    "CylinderSegment no pol": lambda: magpy.magnet.CylinderSegment(dimension=(1, 2, 3, 10, 80)),
    "Sphere no diameter": lambda: magpy.magnet.Sphere(polarization=(0.1, 0.2, 0.3)),
    "Sphere no pol": lambda: magpy.magnet.Sphere(diameter=1),
    "Tetrahedron no vertices": lambda: magpy.magnet.Tetrahedron(polarization=(0.1, 0.2, 0.3)),
    "Tetrahedron no pol": lambda: magpy.magnet.Tetrahedron(vertices=[(0, 0, 0), (1, 0, 0), (0, 1, 0), (0, 0, 1)]),
    "TriangularMesh no pol": lambda: magpy.magnet.TriangularMesh.from_ConvexHull(
        points=[(0, 0, 0), (1, 0, 0), (0, 1, 0), (0, 0, 1)]
    ),
    "Circle no diameter": lambda: magpy.current.Circle(current=1),
    "Circle no current": lambda: magpy.current.Circle(diameter=1),
    "Circle nothing": lambda: magpy.current.Circle(),
    "Polyline no vertices": lambda: magpy.current.Polyline(current=1),
    "Polyline no current": lambda: magpy.current.Polyline(vertices=[(0, 0, 0), (1, 1, 1)]),
    "Dipole no moment": lambda: magpy.misc.Dipole(),
    "Triangle no vertices": lambda: magpy.misc.Triangle(polarization=(0.1, 0.2, 0.3)),
    "Triangle no pol": lambda: magpy.misc.Triangle(vertices=[(0, 0, 0), (1, 0, 0), (0, 1, 0)]),
}
good = make_all()["Cuboid"]
for lab, mk in missing.items():
    src = mk()
    attempt(f"missing [{lab}] src.getB", src.getB, obs)
    attempt(f"missing [{lab}] getH top", magpy.getH, src, obs)
    attempt(f"missing [{lab}] sens.getJ", sens.getJ, src)
    attempt(f"missing [{lab}] in list after good", magpy.getB, [good, src], obs)
    attempt(f"missing [{lab}] in collection", magpy.Collection(good.copy(), src).getM, obs)
    attempt(f"missing [{lab}] dataframe", magpy.getB, src, obs, output="dataframe")

# order of the two checks: first source lacks excitation, second lacks dimension
s1 = magpy.magnet.Cuboid(dimension=(1, 2, 3))
s2 = magpy.magnet.Sphere(polarization=(1, 2, 3))
attempt("order exc-then-dim", magpy.getB, [s1, s2], obs)
attempt("order dim-then-exc", magpy.getB, [s2, s1], obs)

# path state untouched after failing checks
s3 = magpy.magnet.Cuboid(dimension=(1, 2, 3), position=[(0, 0, 0), (1, 1, 1)])
sens_static = magpy.Sensor()
attempt("path: failing check", magpy.getB, s3, sens_static)
print("path state:", h(s3.position), h(s3.orientation.as_quat()), h(sens_static.position))
print("module names:", sorted(n for n in dir(input_checks) if n.startswith("check_dim") or n.startswith("check_exc")))
