import os, sys; sys.path.insert(0, os.getcwd())
# equivalence digest for twins5/2: BaseGeo.style setter (former _validate_style)
import hashlib
import re
import warnings

import numpy as np

import magpylib as magpy
from magpylib._src.style import BaseStyle, CurrentStyle, MagnetStyle, SensorStyle

warnings.simplefilter("ignore")


def clean(txt):
    return re.sub(r"id=\d+", "id=#", str(txt))


def h(a):
    a = np.ascontiguousarray(np.asarray(a, dtype=float))
    return hashlib.sha1(a.tobytes()).hexdigest()[:10] + str(a.shape)


def sdig(obj):
    st = obj.__dict__.get("_style", "<absent>")
    if isinstance(st, BaseStyle):
        st = hashlib.sha1(repr(sorted(st.as_dict(flatten=True).items(), key=str)).encode()).hexdigest()[:10]
    pk = obj.__dict__.get("_style_kwargs", "<absent>")
    return f"_style={st} pending={clean(repr(pk))}"


def makers():
    return {
        "sensor": lambda **kw: magpy.Sensor(**kw),
        "cuboid": lambda **kw: magpy.magnet.Cuboid(polarization=(0, 0, 1), dimension=(1, 1, 1), **kw),
        "circle": lambda **kw: magpy.current.Circle(current=1, diameter=1, **kw),
        "dipole": lambda **kw: magpy.misc.Dipole(moment=(1, 0, 0), **kw),
        "coll": lambda **kw: magpy.Collection(**kw),
        "custom": lambda **kw: magpy.misc.CustomSource(**kw),
    }


class Sub(SensorStyle):
    pass


class DictSub(dict):
    pass


user_dict = {"label": "user", "opacity": 0.4}
VALUES = [
    ("none", lambda: None),
    ("empty", lambda: {}),
    ("dict", lambda: user_dict),
    ("magic", lambda: {"label": "m", "path_line_width": 3}),
    ("nested", lambda: {"path": {"line": {"width": 2}}, "color": "g"}),
    ("dictsub", lambda: DictSub(label="ds")),
    ("badkey", lambda: {"label": "bk", "nokey": 1}),
    ("badval", lambda: {"color": 17}),
    ("badval2", lambda: {"opacity": 5}),
    ("sensorstyle", lambda: SensorStyle(label="ss")),
    ("magnetstyle", lambda: MagnetStyle(label="ms")),
    ("currentstyle", lambda: CurrentStyle(label="cs")),
    ("basestyle", lambda: BaseStyle(label="bs")),
    ("substyle", lambda: Sub(label="sub")),
    ("int", lambda: 3),
    ("zero", lambda: 0),
    ("str", lambda: "red"),
    ("list", lambda: [("label", "x")]),
    ("false", lambda: False),
    ("class", lambda: SensorStyle),
]

for oname, mk in makers().items():
    for pre in ("fresh", "accessed", "pending-ok", "pending-bad"):
        for vname, mv in VALUES:
            kw = {"style_label": "init"} if pre == "pending-ok" else ({"style_wrong": 1} if pre == "pending-bad" else {})
            obj = mk(**kw)
            if pre == "accessed":
                obj.style.label = "acc"
            prev = obj.__dict__.get("_style")
            val = mv()
            tag = f"{oname}/{pre}/{vname}"
            try:
                obj.style = val
                now = obj.__dict__.get("_style")
                print(f"[{tag}] ok kept_prev={prev is not None and now is prev} is_val={now is val} type={type(now).__name__}")
            except BaseException as e:  # noqa
                now = obj.__dict__.get("_style")
                print(f"[{tag}] {type(e).__name__}: {clean(e.args)[:160]} kept_prev={now is prev}")
            print(f"[{tag}] {sdig(obj)}")
print("user dict untouched:", user_dict)

# the setter inside a constructor-free flow: getB afterwards
src = magpy.magnet.Cuboid(polarization=(0, 0, 1), dimension=(1, 1, 1), position=[(0, 0, 0), (0, 0, 1)])
sens = magpy.Sensor(position=(1, 1, 1))
src.style = {"label": "S"}
sens.style = None
for out in ("ndarray", "dataframe"):
    r = magpy.getB(src, sens, output=out)
    print("[field]", out, h(r if out == "ndarray" else r[["Bx", "By", "Bz"]].to_numpy()), h(src._position), h(sens._position), sdig(src), sdig(sens))
try:
    src.style = 4
except ValueError as e:
    print("[field] setter error", clean(e))
print("[field] again", h(magpy.getB(src, sens)), sdig(src))
print("[attr] _validate_style on class:", hasattr(magpy.Sensor, "style"), isinstance(magpy.Sensor.style, property))
