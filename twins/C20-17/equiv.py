import os, sys; sys.path.insert(0, os.getcwd())

import magpylib as magpy
from magpylib._src.defaults.defaults_classes import Display
from magpylib._src.defaults.defaults_utility import color_validator
from magpylib._src.style import DisconnectedMesh, TriMesh, TriangularMeshStyle


def run(label, func):
    try:
        res = func()
    except BaseException as e:  # deterministic digest of the error path
        msg = str(e).split("\n\nThe 'color' property")[0][:250]
        cause = e.__cause__
        cause = None if cause is None else f"{type(cause).__name__}: {str(cause)[:80]!r}"
        res = f"EXC {type(e).__name__} (cause {cause}, suppress {e.__suppress_context__}): {msg!r}"
    print(f"{label}: {res}")


def set_get(obj, val):
    obj.colorsequence = val
    res = obj.colorsequence
    return type(res).__name__, res


class Odd:
    """iterable whose iteration fails with a TypeError of its own"""

    def __iter__(self):
        raise TypeError("odd iteration")

    def __repr__(self):
        return "Odd()"


class Logged:
    """iterable that records how often it is iterated"""

    log = []

    def __init__(self, items):
        self.items = items

    def __iter__(self):
        Logged.log.append("iter")
        for item in self.items:
            Logged.log.append(f"item {item!r}")
            yield item

    def __repr__(self):
        return f"Logged({self.items!r})"


def gen_colors():
    yield "r"
    yield (255, 0, 0)
    yield "#00ff00"


def gen_fail():
    yield "r"
    raise KeyError("inside generator")


class SubDisplay(Display):
    """the name of the concrete class is shown in the messages"""


class SubMesh(DisconnectedMesh):
    """the name of the concrete class is shown in the messages"""


INPUTS = [
    ("list", lambda: ["r", "g", "blue", ".5", (1.0, 0.0, 0.0), 0.25]),
    ("tuple", lambda: ("#123456", "rgb(1,2,3)", (1, 2, 3), (1, 2, 3, 4))),
    ("generator", gen_colors),
    ("empty", lambda: []),
    ("string (characters)", lambda: "rgb"),
    ("string (bad characters)", lambda: "red"),
    ("None", lambda: None),
    ("not iterable int", lambda: 5),
    ("not iterable float", lambda: 0.5),
    ("invalid color", lambda: ["r", "nocolor"]),
    ("None as a color", lambda: ["r", None]),
    ("unhashable color", lambda: ["r", [1, 2, 3]]),
    ("TypeError from the iterable", Odd),
    ("KeyError from the iterable", gen_fail),
    ("dict keys", lambda: {"r": 1, "b": 2}),
    ("set of one", lambda: {"magenta"}),
    ("False", lambda: False),
    ("0", lambda: 0),
    ("logged ok", lambda: Logged(["c", "m"])),
    ("logged bad", lambda: Logged(["c", "bad", "m"])),
    ("bytes", lambda: b"rg"),
]

for cls in (Display, SubDisplay, DisconnectedMesh, SubMesh):
    print("=====", cls.__name__)
    obj = cls()
    print("fresh:", obj.colorsequence)
    for label, make in INPUTS:
        obj.colorsequence = ["k", "w"]
        Logged.log.clear()
        run(label, lambda: set_get(obj, make()))
        print("   now:", obj.colorsequence, "| log:", Logged.log)
    run("via update", lambda: obj.update(colorsequence=("y", "m")).colorsequence)
    run("via update bad", lambda: obj.update(colorsequence=("y", "q")).colorsequence)
    print("   now:", obj.colorsequence)
    run("via init", lambda: cls(colorsequence=["c"]).colorsequence)
    run("via init None", lambda: cls(colorsequence=None).colorsequence)
    run("via init bad", lambda: cls(colorsequence=3))
    run("copy", lambda: (obj.copy().colorsequence, obj.copy() is not obj))

# the parent name is part of the cache key of the color validator
info = color_validator.cache_info()
print("cache:", info.maxsize, info.currsize > 0)

# ---- nested in their parents: TriMesh / object style / library defaults -------------
run("TriMesh dict", lambda: TriMesh(disconnected={"colorsequence": ["r", "b"]}).disconnected.colorsequence)
run("TriMesh magic", lambda: TriMesh(disconnected_colorsequence=("g",)).disconnected.colorsequence)
run("TriMesh bad", lambda: TriMesh(disconnected_colorsequence=1))
run("style", lambda: TriangularMeshStyle(mesh_disconnected_colorsequence=["y", (0, 0, 255)]).mesh.disconnected.colorsequence)

mesh = magpy.magnet.TriangularMesh.from_ConvexHull(
    polarization=(0, 0, 1),
    points=[(0, 0, 0), (1, 0, 0), (0, 1, 0), (0, 0, 1)],
    style_mesh_disconnected_colorsequence=["r", "g"],
)
print("object:", mesh.style.mesh.disconnected.colorsequence)
run("object bad", lambda: setattr(mesh.style.mesh.disconnected, "colorsequence", 7))
run("object bad update", lambda: mesh.style.update(mesh_disconnected_colorsequence=["x"]))
print("object kept:", mesh.style.mesh.disconnected.colorsequence)
mesh2 = mesh.copy()
mesh2.style.mesh.disconnected.colorsequence = ["b"]
print("copies independent:", mesh.style.mesh.disconnected.colorsequence, mesh2.style.mesh.disconnected.colorsequence)

dflt = magpy.defaults.display
print("defaults:", len(dflt.colorsequence), dflt.colorsequence[:3], dflt.style.triangularmesh.mesh.disconnected.colorsequence)
dflt.colorsequence = ["r", "g", "b"]
dflt.style.triangularmesh.mesh.disconnected.colorsequence = "kw"
print("changed:", dflt.colorsequence, dflt.style.triangularmesh.mesh.disconnected.colorsequence)
run("defaults bad", lambda: setattr(dflt, "colorsequence", 1))
run("defaults bad (update)", lambda: magpy.defaults.update(display_colorsequence=["r", 1.5]))
run("defaults bad mesh", lambda: magpy.defaults.update(display_style_triangularmesh_mesh_disconnected_colorsequence=2.5))
print("kept:", dflt.colorsequence, dflt.style.triangularmesh.mesh.disconnected.colorsequence)
magpy.defaults.reset()
print("old display object after reset:", dflt.colorsequence)
dflt = magpy.defaults.display
print("reset:", len(dflt.colorsequence), dflt.colorsequence[:3], dflt.style.triangularmesh.mesh.disconnected.colorsequence)
