import os, sys; sys.path.insert(0, os.getcwd())
import hashlib
import itertools
import warnings

import numpy as np

import magpylib as magpy
from magpylib._src.fields import field_BH_cuboid as mod
from magpylib._src.fields.field_BH_cuboid import BHJM_magnet_cuboid
from magpylib._src.fields.field_BH_cuboid import magnet_cuboid_Bfield

warnings.simplefilter("ignore")
np.set_printoptions(precision=10, linewidth=200)
assert os.path.abspath(mod.__file__).startswith(os.getcwd()), mod.__file__


def digest(tag, arr):
    arr = np.asarray(arr)
    kind = arr.dtype.kind
    flags = (arr.flags["C_CONTIGUOUS"], arr.flags["F_CONTIGUOUS"], arr.flags["OWNDATA"])
    raw = np.ascontiguousarray(arr.astype(float))
    h = hashlib.sha256(raw.tobytes()).hexdigest()[:16]
    print(tag, arr.shape, kind, flags, h)
    print(np.array2string(raw.ravel()[:18], precision=10))


def attempt(tag, func):
    try:
        digest(tag, func())
    except Exception as err:  # pylint: disable=broad-except
        print(tag, "EXC", type(err).__name__, str(err)[:160].replace("\n", " | "))


rng = np.random.default_rng(5504)

# observers in all 8 octants + on coordinate planes / axes (masks use strict < and >)
octants = np.array(list(itertools.product((-1.3, 0.0, 0.7), (-0.4, 0.0, 2.1), (-0.9, 0.0, 0.6))), dtype=float)
n_oct = len(octants)
dim_oct = np.tile((1.0, 2.0, 3.0), (n_oct, 1))
pol_oct = np.tile((0.3, -0.5, 0.8), (n_oct, 1))

# edge extensions / surfaces / edges / corners of a 2x2x2 cube (indeterminate forms)
special = np.array(
    [
        (1, 1, 3), (1, -1, 3), (-1, 1, -3), (1, 3, 1), (3, 1, 1), (-3, -1, 1),  # edge extensions
        (1, 0.2, 0.3), (0.2, -1, 0.3), (0.2, 0.3, 1),                            # faces
        (1, 1, 0.2), (1, -1, 0), (-1, 0.3, 1),                                   # edges
        (1, 1, 1), (-1, -1, -1), (1, -1, 1),                                     # corners
        (0, 0, 0), (0.5, -0.5, 0.25), (5, 6, -7),
    ],
    dtype=float,
)
dim_sp = np.tile((2.0, 2.0, 2.0), (len(special), 1))
pol_sp = np.tile((1.0, 2.0, -3.0), (len(special), 1))

n = 60
obs_r = rng.normal(size=(n, 3)) * 2
dim_r = rng.uniform(0.2, 3, size=(n, 3))
pol_r = rng.normal(size=(n, 3))

# 1) core field, all octants, unit / excitation scaling
for scale in (1.0, 1e-9, 1e-3, 1e3, 1e9):
    for amp in (1e-12, 1.0, 1e12):
        attempt(f"core oct s={scale:g} a={amp:g}", lambda: magnet_cuboid_Bfield(octants * scale, dim_oct * scale, pol_oct * amp))
        attempt(f"core special s={scale:g} a={amp:g}", lambda: magnet_cuboid_Bfield(special * scale, dim_sp * scale, pol_sp * amp))
        attempt(f"core random s={scale:g} a={amp:g}", lambda: magnet_cuboid_Bfield(observers=obs_r * scale, dimensions=dim_r * scale, polarizations=pol_r * amp))
for axis_pol in ((1, 0, 0), (0, 1, 0), (0, 0, 1)):
    attempt(f"core oct pol={axis_pol}", lambda: magnet_cuboid_Bfield(octants, dim_oct, np.tile(np.array(axis_pol, dtype=float), (n_oct, 1))))
attempt("core single", lambda: magnet_cuboid_Bfield(obs_r[:1], dim_r[:1], pol_r[:1]))
attempt("core empty", lambda: magnet_cuboid_Bfield(obs_r[:0], dim_r[:0], pol_r[:0]))
attempt("core int", lambda: magnet_cuboid_Bfield(np.array([(1, 1, 1), (-2, 2, 2)]), np.array([(1, 1, 1), (1, 2, 3)]), np.array([(0, 0, 1), (1, 1, 0)])))
attempt("core f32", lambda: magnet_cuboid_Bfield(obs_r.astype(np.float32), dim_r.astype(np.float32), pol_r.astype(np.float32)))
attempt("core neg dim", lambda: magnet_cuboid_Bfield(obs_r, -dim_r, pol_r))
attempt("core zero dim", lambda: magnet_cuboid_Bfield(obs_r[:4], dim_r[:4] * (1, 0, 1), pol_r[:4]))
attempt("core nan obs", lambda: magnet_cuboid_Bfield(obs_r[:3] * np.array([np.nan, 1, 1]), dim_r[:3], pol_r[:3]))
attempt("core Fortran obs", lambda: magnet_cuboid_Bfield(np.asfortranarray(obs_r), dim_r, pol_r))
attempt("core broadcast dim (1,3)", lambda: magnet_cuboid_Bfield(obs_r, dim_r[:1], pol_r))
o_in = octants.copy()
magnet_cuboid_Bfield(o_in, dim_oct, pol_oct)
print("observers untouched:", np.array_equal(o_in, octants))

# 2) BHJM level
for field in "BHJM":
    attempt(f"BHJM {field} oct", lambda: BHJM_magnet_cuboid(field, octants, dim_oct, pol_oct))
    attempt(f"BHJM {field} special", lambda: BHJM_magnet_cuboid(field=field, observers=special, dimension=dim_sp, polarization=pol_sp))
    attempt(f"BHJM {field} random", lambda: BHJM_magnet_cuboid(field, obs_r, dim_r, pol_r))

# 3) error paths of the core function
attempt("err obs 1D", lambda: magnet_cuboid_Bfield(obs_r[0], dim_r, pol_r))
attempt("err all 1D", lambda: magnet_cuboid_Bfield(obs_r[0], dim_r[0], pol_r[0]))
attempt("err obs+pol 1D", lambda: magnet_cuboid_Bfield(obs_r[0], dim_r, pol_r[0]))
attempt("err pol 1D", lambda: magnet_cuboid_Bfield(obs_r, dim_r, pol_r[0]))
attempt("err dim 1D", lambda: magnet_cuboid_Bfield(obs_r, dim_r[0], pol_r))
attempt("err pol short", lambda: magnet_cuboid_Bfield(obs_r, dim_r, pol_r[:7]))
attempt("err pol long", lambda: magnet_cuboid_Bfield(obs_r[:7], dim_r[:7], pol_r))
attempt("err dim short", lambda: magnet_cuboid_Bfield(obs_r, dim_r[:7], pol_r))
attempt("err obs short", lambda: magnet_cuboid_Bfield(obs_r[:7], dim_r, pol_r))
attempt("err obs short + pol short", lambda: magnet_cuboid_Bfield(obs_r[:7], dim_r, pol_r[:5]))
attempt("err obs (n,2)", lambda: magnet_cuboid_Bfield(obs_r[:, :2], dim_r, pol_r))
attempt("err obs (n,4)", lambda: magnet_cuboid_Bfield(np.concatenate([obs_r, obs_r[:, :1]], axis=1), dim_r, pol_r))
attempt("err pol (n,2)", lambda: magnet_cuboid_Bfield(obs_r, dim_r, pol_r[:, :2]))
attempt("err dim (n,2)", lambda: magnet_cuboid_Bfield(obs_r, dim_r[:, :2], pol_r))
attempt("err pol list", lambda: magnet_cuboid_Bfield(obs_r, dim_r, pol_r.tolist()))
attempt("err dim list", lambda: magnet_cuboid_Bfield(obs_r, dim_r.tolist(), pol_r))
attempt("err obs list", lambda: magnet_cuboid_Bfield(obs_r.tolist(), dim_r, pol_r))
attempt("err obs None", lambda: magnet_cuboid_Bfield(None, dim_r, pol_r))
attempt("err obs 3D", lambda: magnet_cuboid_Bfield(obs_r.reshape(-1, 2, 3), dim_r, pol_r))
attempt("err field", lambda: BHJM_magnet_cuboid("X", obs_r, dim_r, pol_r))

# 4) object interface at three length units
for scale in (1e-3, 1.0, 1e6):
    c = magpy.magnet.Cuboid(dimension=np.array((1, 2, 3)) * scale, polarization=(0.1, 0.2, 0.3), position=(0.1 * scale, 0, 0))
    c.rotate_from_angax(33, (1, 2, 3))
    for f in ("getB", "getH", "getJ", "getM"):
        attempt(f"obj {f} s={scale:g}", lambda: getattr(c, f)(octants * scale))
