import os, sys; sys.path.insert(0, os.getcwd())
import hashlib
import warnings

import numpy as np

import magpylib as magpy
from magpylib._src.fields.field_BH_polyline import BHJM_current_polyline
from magpylib._src.fields.field_BH_polyline import current_vertices_field

warnings.simplefilter("ignore")


def run(name, fn):
    try:
        arr = np.asarray(fn())
        h = hashlib.sha256(np.ascontiguousarray(arr).tobytes()).hexdigest()[:16]
        print(name, arr.dtype, arr.shape, h, np.round(arr.ravel()[:9], 12).tolist())
        return arr
    except BaseException as e:  # pylint: disable=broad-except
        print(name, "raised", type(e).__name__, "|", str(e)[:200].replace("\n", " / "))
        return None


rng = np.random.default_rng(5)
nan3 = (np.nan,) * 3

# (observer, start, end, current)
ROWS = {
    "general": ((0.3, 0.4, 0.5), (0, 0, 0), (1, 0, 0), 1.5),
    "general2": ((-1.0, 2.0, 0.5), (0.1, 0.2, 0.3), (1, -1, 2), -2.0),
    "on_segment": ((0.5, 0, 0), (0, 0, 0), (1, 0, 0), 1.5),
    "on_line_outside": ((3.0, 0, 0), (0, 0, 0), (1, 0, 0), 1.5),
    "zero_length": ((0.3, 0.4, 0.5), (1, 1, 1), (1, 1, 1), 1.5),
    "zero_length_at_obs": ((1, 1, 1), (1, 1, 1), (1, 1, 1), 1.5),
    "nan_start": ((0.3, 0.4, 0.5), nan3, (1, 0, 0), 1.5),
    "nan_end": ((0.3, 0.4, 0.5), (0, 0, 0), nan3, 1.5),
    "nan_both": ((0.3, 0.4, 0.5), nan3, nan3, 1.5),
    "partial_nan_start": ((0.3, 0.4, 0.5), (np.nan, 0, 0), (1, 0, 0), 1.5),
    "zero_current": ((0.3, 0.4, 0.5), (0, 0, 0), (0, 2, 0), 0.0),
    "nan_observer": (nan3, (0, 0, 0), (0, 2, 0), 1.0),
    "inf_current": ((0.3, 0.4, 0.5), (0, 0, 0), (0, 2, 0), np.inf),
}


def arrays(keys):
    cols = list(zip(*[ROWS[k] for k in keys]))
    return (
        np.array(cols[0], dtype=float),
        np.array(cols[1], dtype=float),
        np.array(cols[2], dtype=float),
        np.array(cols[3], dtype=float),
    )


def call(field, keys):
    obs, start, end, cur = arrays(keys)
    return BHJM_current_polyline(field, obs, start, end, cur)


print("==== every kind of row alone, all fields")
for key in ROWS:
    for field in "BHJM":
        run(f"{key} {field}", lambda: call(field, [key]))

print("==== batches: none / some / all degenerate")
BATCHES = {
    "all proper": ["general", "general2", "on_segment", "zero_current"],
    "all degenerate": ["zero_length", "nan_start", "nan_end", "nan_both", "zero_length_at_obs"],
    "degenerate first": ["zero_length", "general", "general2"],
    "degenerate last": ["general", "general2", "nan_end"],
    "alternating": ["nan_start", "general", "zero_length", "general2", "nan_both", "on_segment", "nan_end"],
    "everything": list(ROWS),
    "everything reversed": list(ROWS)[::-1],
}
for name, keys in BATCHES.items():
    for field in "BHJM":
        res = run(f"{name} {field}", lambda: call(field, keys))
    single = np.array([call("H", [k])[0] for k in keys])
    print("   H rows == single-row calls:", np.array_equal(call("H", keys), single, equal_nan=True))

print("==== random mixes, linearity in the current, inputs untouched")
keys = list(ROWS)
for trial in range(6):
    pick = [keys[i] for i in rng.integers(0, len(keys), 60)]
    obs, start, end, cur = arrays(pick)
    jitter = rng.random(60) < 0.5
    obs[jitter] += rng.normal(0, 0.3, (int(jitter.sum()), 3))
    saved = [a.copy() for a in (obs, start, end, cur)]
    h = run(f"mix{trial} H", lambda: BHJM_current_polyline("H", obs, start, end, cur))
    run(f"mix{trial} B", lambda: BHJM_current_polyline("B", obs, start, end, cur))
    h2 = BHJM_current_polyline("H", obs, start, end, 2 * cur)
    print("   H(2 i0) == 2 H(i0):", np.array_equal(h2, 2 * h, equal_nan=True))
    print("   inputs untouched:", all(np.array_equal(a, b, equal_nan=True) for a, b in zip(saved, (obs, start, end, cur))))

print("==== degenerate and error inputs")
e3, e1 = np.zeros((0, 3)), np.zeros(0)
for field in "BHJM":
    run(f"empty {field}", lambda: BHJM_current_polyline(field, e3, e3, e3, e1))
obs, start, end, cur = arrays(["general", "zero_length", "general2"])
run("bad field X", lambda: BHJM_current_polyline("X", obs, start, end, cur))
run("bad field None, all degenerate", lambda: BHJM_current_polyline(None, obs[:1], start[1:2], end[1:2], cur[:1]))
run("int inputs", lambda: BHJM_current_polyline("H", np.array([(1, 1, 1), (2, 2, 2), (1, 2, 3)]), np.array([(0, 0, 0)] * 3), np.array([(1, 0, 0), (0, 0, 0), (-1, 0, 0)]), np.array([100, 200, 300])))
run("start 1D", lambda: BHJM_current_polyline("H", obs, start[0], end, cur))
run("start None", lambda: BHJM_current_polyline("H", obs, None, end, cur))
run("start 2 columns", lambda: BHJM_current_polyline("H", obs, start[:, :2], end[:, :2], cur))
run("current None, with degenerate", lambda: BHJM_current_polyline("H", obs, start, end, None))
run("3D segments via dict interface", lambda: magpy.getH("Polyline", [(1, 1, 1)] * 3, current=[1, 2, 3], segment_start=np.zeros((3, 2, 3)), segment_end=np.ones((3, 2, 3))))
run("3D segments with degenerate via dict interface", lambda: magpy.getH("Polyline", [(1, 1, 1)] * 3, current=[1, 2, 3], segment_start=np.zeros((3, 2, 3)), segment_end=np.array([np.zeros((2, 3)), np.ones((2, 3)), np.ones((2, 3))])))
run("3D segments direct", lambda: BHJM_current_polyline("H", obs, np.zeros((3, 3, 3)), np.ones((3, 3, 3)), cur))
run("current list, all proper", lambda: BHJM_current_polyline("H", obs[:1], start[:1], end[:1], [1.0]))

print("==== vertices front end")
verts_same = np.array([[(0, 0, 0), (1, 0, 0), (1, 0, 0), (1, 1, 0)], [(0, 0, 0), (0, 0, 0), (0, 0, 1), (0, 1, 1)]], dtype=float)
verts_ragged = np.array([np.array([(0, 0, 0), (1, 0, 0), (1, 0, 0)], dtype=float), np.array([(0, 0, 0), (0, 0, 1), (0, 1, 1), (0, 1, 1), (2, 2, 2)], dtype=float)], dtype=object)
o2 = np.array([(0.3, 0.4, 0.5), (1.0, 1.0, 1.0)])
c2 = np.array([1.0, -2.0])
for field in "BHJM":
    run(f"vertices equal lengths {field}", lambda: current_vertices_field(field, o2, c2, vertices=verts_same))
    run(f"vertices ragged {field}", lambda: current_vertices_field(field, o2, c2, vertices=verts_ragged))
run("vertices None", lambda: current_vertices_field("H", o2, c2, segment_start=np.zeros((2, 3)), segment_end=np.array([(1.0, 0, 0), (0, 0, 0)])))

print("==== through the object interface")
lines = [
    magpy.current.Polyline(current=1.5, vertices=[(0, 0, 0), (1, 0, 0), (1, 0, 0), (1, 1, 0), (0, 0, 0)]),
    magpy.current.Polyline(current=-2, vertices=[(0, 0, 0), (0, 0, 0)], position=(0.1, 0, 0)),
    magpy.current.Polyline(current=3, vertices=[(-1, 0, 0), (1, 0, 0)], position=(0, 0, 0.3)),
    magpy.current.Polyline(current=0.5, vertices=[(0, 0, 1), (0, 0, 2), (0, 0, 2), (0, 0, 2), (1, 1, 2), (1, 1, 2)]),
]
lines[2].rotate_from_angax([0, 45, 90], "y")
OBS = [(0, 0, 0), (0.5, 0, 0), (0.3, 0.4, 0.5), (0, 0, 1.5), (1, 1, 2), (0, 0, 0.3)]
col = magpy.Collection(lines[0], magpy.Collection(lines[1], lines[2]))
for field in "BHJM":
    fn = getattr(magpy, "get" + field)
    lst = run(f"obj list {field}", lambda: fn(lines, OBS))
    tot = run(f"obj sumup {field}", lambda: fn(lines, OBS, sumup=True))
    print("   sumup == np.sum(list):", np.array_equal(tot, np.sum(lst, axis=0)))
    run(f"obj collection {field}", lambda: fn([col, lines[3]], OBS))
run("dict interface", lambda: magpy.getH("Polyline", OBS, current=[1, 2, 3, 4, 5, 6], segment_start=[(0, 0, 0)] * 6, segment_end=[(1, 0, 0), (0, 0, 0), (0, 1, 0), (0, 0, 0), (0, 0, 1), (1, 1, 1)]))
run("dict interface all degenerate", lambda: magpy.getB("Polyline", OBS, current=1, segment_start=(1, 2, 3), segment_end=(1, 2, 3)))
