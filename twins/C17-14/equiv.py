import os, sys; sys.path.insert(0, os.getcwd())
import re
import warnings
from fractions import Fraction

import numpy as np

import magpylib as magpy

warnings.simplefilter("ignore")


def dig(r):
    if isinstance(r, np.ndarray):
        return f"ARR {r.dtype} {r.shape} {r.tolist()}"
    return f"RET {type(r).__name__} {r!r}"


def run(f):
    try:
        out = dig(f())
    except Exception as e:  # pylint: disable=broad-except
        out = f"EXC {type(e).__name__}: {e} | cause={type(e.__cause__).__name__}"
    return re.sub(r"0x[0-9a-f]+|id=\d+", "ADDR", out)


def emit(*args):
    print(re.sub(r"0x[0-9a-f]+|id=\d+", "ADDR", " ".join(str(a) for a in args)))


class LoudFloat:
    def __float__(self):
        raise RuntimeError("no float for you")


values = [
    None, 0, 2, -1, 1.5, True, 3 + 1j, Fraction(1, 4), np.float64(2.5), "1", "abc", b"12",
    (), [], [[]], (1,), (1, 2), [1, 2], (1, 2, 3), [1, 2, 3], (1, 2, 3, 4), (0, 1), (0, 1, 2), (1, 0, 2), (-1, 2), (-1, 2, 3), (1, 2, -3),
    (0, 0, 0), (0.0, -0.0), (1e-300, 1e-300, 1e-300), (1e-300, 5), [(1, 2, 3)], [(1, 2)], [(1, 2, 3)] * 3, [(1, 2)] * 2, [[(1, 2, 3)]],
    (1, "a", 3), ("1", "2"), ("1", "2", "3"), (1, None, 3), (1, [2], 3), (1, LoudFloat()), (1, 2, LoudFloat()), (True, True), (True, False, True),
    {1, 2, 3}, {1, 2}, range(1, 3), range(1, 4), np.array([1, 2, 3]), np.array([1.0, 2.0]), np.array([1.0, 0.0, 2.0]), np.array([3, 4], dtype=np.int8),
    np.array([1, 2, 3], dtype=np.float32), np.array(5.0), np.array([]), np.zeros((0, 3)), np.array(["1", "2", "3"]), np.array([1, 2, 3], dtype=object),
    np.array([1, 2], dtype=complex), np.arange(1.0, 7.0)[::2], np.arange(1.0, 5.0)[::2], (np.inf, 1, 1), (np.inf, 1), (-np.inf, 1, 1),
    (1e400, 2, 3), (10**400, 2), np.ma.masked_array([1, 2, 3], mask=[0, 1, 0]),
]

specs = [
    (magpy.magnet.Cuboid, "dimension", (1, 2, 3), dict(polarization=(0.1, 0.2, 0.3))),
    (magpy.magnet.Cylinder, "dimension", (1, 2), dict(polarization=(0.1, 0.2, 0.3))),
    (magpy.misc.Dipole, "moment", (1, 2, 3), {}),
]

for cls, attr, good, extra in specs:
    for v in values:
        r_ctor = run(lambda: getattr(cls(**{attr: v}), attr))
        o1 = cls()
        r_set1 = run(lambda: setattr(o1, attr, v))
        o2 = cls(**{attr: good}, **extra)
        before = dig(getattr(o2, attr))
        r_set2 = run(lambda: setattr(o2, attr, v))
        after = dig(getattr(o2, attr))
        stored = getattr(o2, attr)
        shares = isinstance(v, np.ndarray) and stored is not None and np.shares_memory(stored, v)
        emit(cls.__name__, attr, repr(v)[:60].replace("\n", " "), "| ctor", r_ctor, "| set(None)", r_set1, dig(getattr(o1, attr)),
             "| set(valid)", r_set2, "UNCHANGED" if before == after else after, "| shares", shares,
             "| desc", run(lambda: o2._default_style_description),
             "| getB", run(lambda: np.round(o2.getB((2.3, 2.4, 2.5)), 14)))

# None accepted, reported only at field computation
for cls, attr, good, extra in specs:
    o = cls(**extra)
    emit(cls.__name__, "None ->", run(lambda: getattr(o, attr)), run(lambda: o.getB((1, 2, 3))), run(lambda: magpy.getH(o, (1, 2, 3))))

# caller-mutation independence, positional constructor, copy(), subclass
for cls, attr, good, extra in specs:
    arr = np.array(good, dtype=float)
    o = cls(**{attr: arr}, **extra)
    arr[0] = 77.0
    stored = getattr(o, attr)
    emit(cls.__name__, "independent", stored.tolist(), stored.flags.owndata, stored.dtype, stored.flags.writeable)
    emit(cls.__name__, "positional", run(lambda: getattr(cls((1, 1, 1), None, good), attr)), run(lambda: getattr(cls((1, 1, 1), None, good[:1]), attr)))
    emit(cls.__name__, "copy", run(lambda: getattr(o.copy(**{attr: good}), attr)), run(lambda: getattr(o.copy(**{attr: "x"}), attr)))

    class Sub(cls):
        """subclass: error text keeps the registered name"""

    emit(cls.__name__, "subclass", run(lambda: getattr(Sub(**{attr: (1,)}), attr)))

# other users of the generic vector check are not touched
emit("cylseg", run(lambda: magpy.magnet.CylinderSegment(dimension=(1, 2, 3, 0, 90)).dimension),
     run(lambda: magpy.magnet.CylinderSegment(dimension=(1, 2, 3)).dimension))
emit("pixel", run(lambda: magpy.Sensor(pixel=(1, 2, 3)).pixel), run(lambda: magpy.Sensor(pixel=(1, 2)).pixel))
emit("dict-style", run(lambda: np.round(magpy.getB("Cuboid", (1, 2, 3), dimension=(1, 2, 3), polarization=(0.1, 0.2, 0.3)), 14)))
emit("dict-style", run(lambda: np.round(magpy.getB("Dipole", (1, 2, 3), moment=(1, 2, 3)), 14)))
