import os, sys; sys.path.insert(0, os.getcwd())
import hashlib
import re
import warnings

import numpy as np

import magpylib as magpy


def h(x):
    x = np.ascontiguousarray(np.asarray(x))
    return f"{x.shape} {x.dtype} {hashlib.sha1(x.tobytes()).hexdigest()[:16]}"


def dig(x):
    if x is None:
        return "None"
    x = np.asarray(x)
    with np.errstate(all="ignore"):
        return f"{h(x)} {np.round(x.astype(float), 10).ravel()[:9].tolist()}"


def run(name, fn):
    """print digest of result, or exception type/message, plus ordered list of warnings"""
    with warnings.catch_warnings(record=True) as rec:
        warnings.simplefilter("always")
        try:
            res = "-> " + dig(fn())
        except Exception as err:  # pylint: disable=broad-except
            msg = re.sub(r"0x[0-9a-f]+", "ADDR", str(err).replace("\n", " / "))
            res = f"-> EXC {type(err).__name__} | {msg[:200]}"
    ws = [f"{w.category.__name__}:{str(w.message)[:50]}" for w in rec]
    print(name, res, "| warn:", ws)


from magpylib._src.fields.field_BH_circle import BHJM_circle

nan, inf = np.nan, np.inf
# observers: general, on axis, on axis at centre, on the wire (several), nearly on wire, in plane inside/outside
obs = np.array(
    [
        (0.3, 0.2, 0.7), (0, 0, 0.5), (0, 0, 0), (0, 0, -2.0), (1, 0, 0), (0, 1, 0), (-1, 0, 0),
        (0.6, 0.8, 0), (1 + 1e-15, 0, 0), (1 + 3e-15, 0, 0), (1, 0, 1e-10), (0.5, 0, 0), (2, 0, 0),
        (1e-200, 0, 0.1), (1e-170, 1e-170, 0.1), (3, -4, 5), (-0.0, 0.0, 1.0),
    ],
    dtype=float,
)
n = len(obs)
SETS = {
    "d2": (np.full(n, 2.0), np.linspace(-1, 2, n)),
    "d-2": (np.full(n, -2.0), np.full(n, 1.5)),
    "d0": (np.zeros(n), np.full(n, 1.0)),
    "dmix": (np.array([2.0, 0, 0, 2, 2, 0, 2, 2, 2, 2, 0, 1, 4, 2, 0, 10, 0]), np.arange(n) - 3.0),
    "dint": (np.full(n, 2), np.arange(n)),
    "cnan": (np.full(n, 2.0), np.array([nan, inf, nan, inf, nan, inf] + [1.0] * (n - 6))),
}
for name, (dia, cur) in SETS.items():
    for field in "BHJM":
        run(f"BHJM_circle {name} {field}", lambda: BHJM_circle(field, obs, dia, cur))
    # row by row: every special case alone (np.any guards with a single element)
    for i in range(n):
        run(f"  row{i} {name} H", lambda: BHJM_circle("H", obs[i : i + 1], dia[i : i + 1], cur[i : i + 1]))

# inputs are not modified
o2, d2, c2 = obs.copy(), SETS["dmix"][0].copy(), SETS["dmix"][1].copy()
BHJM_circle("B", o2, d2, c2)
print("inputs untouched", np.array_equal(o2, obs), np.array_equal(d2, SETS["dmix"][0]), np.array_equal(c2, SETS["dmix"][1]))

# empty input
run("empty", lambda: BHJM_circle("B", np.zeros((0, 3)), np.zeros(0), np.zeros(0)))

# error / odd paths
one = np.ones(n)
run("err field X", lambda: BHJM_circle("X", obs, 2 * one, one))
run("err field MJ", lambda: BHJM_circle("MJ", obs, 2 * one, one))
run("err field empty", lambda: BHJM_circle("", obs, 2 * one, one))
run("err field None", lambda: BHJM_circle(None, obs, 2 * one, one))
run("err dia shape", lambda: BHJM_circle("B", obs, np.ones(3), one))
run("err cur shape", lambda: BHJM_circle("B", obs, 2 * one, np.ones(3)))
run("err cur shape axis only", lambda: BHJM_circle("B", obs[1:4], 2 * np.ones(3), np.ones(2)))
run("err scalar dia", lambda: BHJM_circle("B", obs, 2.0, one))
run("err scalar dia0 ", lambda: BHJM_circle("B", obs, 0.0, one))
run("err scalar cur", lambda: BHJM_circle("B", obs, 2 * one, 1.0))
run("err scalar cur axis d0", lambda: BHJM_circle("H", obs[1:3], np.zeros(2), 1.0))
run("err scalar cur wire", lambda: BHJM_circle("H", obs[4:6], 2 * np.ones(2), 1.0))
run("err scalar both wire", lambda: BHJM_circle("H", obs[4:6], 2.0, 1.0))
run("err scalar both axis", lambda: BHJM_circle("H", obs[1:3], 2.0, 1.0))
run("err dia inf, scalar cur", lambda: BHJM_circle("H", obs[1:3], np.array([inf, inf]), 1.0))
run("err list obs", lambda: BHJM_circle("H", obs.tolist(), 2 * one, one))
run("M with bad shapes", lambda: BHJM_circle("M", obs, np.ones(3), None))
run("dia (n,1)", lambda: BHJM_circle("H", obs[:3], 2 * np.ones((3, 1)), np.ones(3)))

# core function + library interfaces
run("core", lambda: magpy.core.current_circle_Hfield(r0=np.array([1, 2.0]), r=np.array([1, 1.0]), z=np.array([1, 2.0]), i0=np.array([1, 3.0])))
for field in "BHJM":
    get = getattr(magpy, "get" + field)
    loop = magpy.current.Circle(diameter=2, current=1.5, position=(0.1, 0, 0)).rotate_from_angax(30, "y")
    loop0 = magpy.current.Circle(diameter=0, current=1.5)
    sens = magpy.Sensor(pixel=obs)
    run(f"top {field}", lambda: get([loop, loop0], sens))
    run(f"src {field}", lambda: getattr(loop, "get" + field)(obs))
    run(f"sens {field}", lambda: getattr(sens, "get" + field)(loop, loop0))
    run(f"coll {field}", lambda: getattr(magpy.Collection(loop, loop0), "get" + field)(obs))
    run(f"func {field}", lambda: get("Circle", obs, diameter=SETS["dmix"][0], current=SETS["dmix"][1]))
    run(f"func single {field}", lambda: get("Circle", obs, diameter=2, current=1.5))
    run(f"df {field}", lambda: get(loop, obs, output="dataframe")[[field + "x", field + "y", field + "z"]].to_numpy())
