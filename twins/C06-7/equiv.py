import os, sys; sys.path.insert(0, os.getcwd())
import hashlib
import re
import warnings

import numpy as np

import magpylib as magpy

warnings.simplefilter("ignore")


def dig(name, arr):
    arr = np.ascontiguousarray(np.asarray(arr, dtype=float))
    h = hashlib.sha256(arr.tobytes()).hexdigest()[:16]
    print(name, arr.shape, h, np.round(arr.ravel()[:4], 12).tolist())


def digdf(name, df):
    print(name, list(df.columns), df.shape)
    for col in ("source", "path", "sensor", "pixel"):
        vals = [re.sub(r'id=\d+', 'id=#', v) if isinstance(v, str) else v for v in df[col]]
        print("  ", col, vals[:3], vals[-1], len(set(vals)))
    dig("   values", df[list(df.columns[4:])].to_numpy())


cub = magpy.magnet.Cuboid(polarization=(0.1, 0.2, 0.3), dimension=(1, 2, 3))
cub.move([(0.1 * i, 0, 0) for i in range(1, 4)])  # path length 4
cub.style.label = "my cuboid"
cyl = magpy.magnet.Cylinder(polarization=(0.3, 0.2, 0.1), dimension=(1, 2))
cyl.position = (0, 3, 0)
circ = magpy.current.Circle(current=2.5, diameter=1.5, position=(0, 0, -2))
col = magpy.Collection(cyl, circ)
s1 = magpy.Sensor(pixel=[(0, 0, 0), (0.1, 0.2, 0.3)], position=(2, 2, 2))
s1.style.label = "sens one"
s2 = magpy.Sensor(pixel=[(0, 0, 1), (0.3, 0.2, 0.1)], position=(-2, 1, 1))
s2.rotate_from_angax([15, 30], "y")
s3 = magpy.Sensor(pixel=np.linspace(-1, 1, 18).reshape(2, 3, 3), position=(0, 0, 3))

srcs = [cub, col, circ]
sens = [s1, s2]

for fname, func in (("B", magpy.getB), ("H", magpy.getH)):
    for sumup in (False, True):
        for squeeze in (False, True):
            for agg in (None, "mean"):
                out = func(srcs, sens, sumup=sumup, squeeze=squeeze, pixel_agg=agg)
                dig(f"{fname} sumup={sumup} squeeze={squeeze} agg={agg}", out)

# different pixel shapes need the aggregator
for squeeze in (False, True):
    out = magpy.getB(srcs, [s1, s3, (1, 2, 3)], pixel_agg="min", squeeze=squeeze)
    dig(f"B mixed pixel squeeze={squeeze}", out)

# smallest cases
dig("one/one squeeze", magpy.getB(cyl, (1, 2, 3)))
dig("one/one no squeeze", magpy.getB(cyl, (1, 2, 3), squeeze=False))
dig("one/one sumup", magpy.getH(cyl, (1, 2, 3), squeeze=False, sumup=True))
dig("one/one agg", magpy.getB(cyl, s1, squeeze=False, pixel_agg="max"))
dig("one/one agg squeeze", magpy.getB(cyl, s1, squeeze=True, pixel_agg="max"))

# dataframe output
digdf("df plain", magpy.getB(srcs, sens, output="dataframe"))
digdf("df sumup", magpy.getH(srcs, sens, output="dataframe", sumup=True))
digdf("df sumup single", magpy.getB(cub, sens, output="dataframe", sumup=True))
digdf("df agg", magpy.getB(srcs, [s1, s3], output="dataframe", pixel_agg="mean"))
digdf("df squeeze ignored", magpy.getB(cyl, s3, output="dataframe", squeeze=False))
digdf("df J", magpy.getJ(srcs, sens, output="dataframe"))
digdf("df method", cub.getM(s1, s2, output="dataframe"))
digdf("df sensor method", s1.getB(cub, cyl, output="dataframe", sumup=True))

# error paths: bad output type is only detected after the computation
for kw in (
    dict(sources=srcs, observers=sens, output="nope"),
    dict(sources=srcs, observers=sens, output=None),
    dict(sources=srcs, observers=sens, output=["ndarray"]),
    dict(sources=srcs, observers=[s1, s3], output="nope"),  # shape error comes first
    dict(sources=[magpy.magnet.Cuboid()], observers=sens, output="nope"),
    dict(sources=[magpy.misc.CustomSource()], observers=sens, output="nope"),
    dict(sources=srcs, observers=sens, output="dataframe", pixel_agg="nope"),
    dict(sources="Cuboid", observers=(1, 2, 3), output="nope", squeeze=False,
         dimension=(1, 1, 1), polarization=(1, 0, 0)),
):
    try:
        res = magpy.getB(**kw)
        print("no error", type(res).__name__, np.shape(res))
    except Exception as err:  # pylint: disable=broad-except
        print(type(err).__name__, re.sub(r'id=\d+', 'id=#', str(err))[:70].replace("\n", " "))

print([len(o._position) for o in (cub, cyl, circ, s1, s2, s3)])
