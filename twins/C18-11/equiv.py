import os, sys; sys.path.insert(0, os.getcwd())

# Exercises BaseCollection._update_src_and_sens through every caller: constructor,
# add, remove (also recursive), the four setters, copy() of collection trees with
# keyword overrides, and later mutations of copy and original.
import re

import numpy as np

import magpylib as magpy
from magpylib._src.exceptions import MagpylibBadUserInput


def clean(txt):
    return re.sub(r"id=\d+", "id=#", str(txt))


def r(a):
    return np.round(np.asarray(a, dtype=float), 10).tolist()


def labels(objs):
    return [o.style.label for o in objs]


def links_ok(c):
    ok = True
    for ch in c.children:
        ok = ok and ch._parent is c
        if isinstance(ch, magpy.Collection):
            ok = ok and links_ok(ch)
    return ok


def state(c):
    return [
        labels(c.children),
        labels(c.sources),
        labels(c.sensors),
        labels(c.collections),
        labels(c.children_all),
        links_ok(c),
    ]


LOG = []


class LoggingCollection(magpy.Collection):
    """records the order in which the private lists are (re)bound"""

    def __setattr__(self, name, value):
        if name in ("_sources", "_sensors", "_collections", "_children"):
            LOG.append((name, [type(v).__name__ for v in value]))
        super().__setattr__(name, value)


class BadKind:
    pass


def build(cls=magpy.Collection):
    o = {
        "s1": magpy.Sensor(position=(0.3, 0.2, 2.1), style_label="s1"),
        "s2": magpy.Sensor(position=(2.2, 0.1, -0.4), style_label="s2", pixel=[(0, 0, 0), (0, 0, 1)]),
        "d1": magpy.misc.Dipole(moment=(1, 2, 3), style_label="d1"),
        "m1": magpy.magnet.Cuboid(
            polarization=(0, 0, 1), dimension=(1, 2, 3), position=(1, 0, 0), style_label="m1"
        ),
        "c1": magpy.current.Circle(current=1, diameter=2, style_label="c1"),
        "sub_s": magpy.Sensor(position=(0.1, 2.3, 0.2), style_label="sub_s"),
        "sub_d": magpy.misc.Dipole(moment=(0, 0, 1), style_label="sub_d"),
        "subsub_d": magpy.misc.Dipole(moment=(0, 1, 0), style_label="subsub_d"),
    }
    o["subsub"] = magpy.Collection(o["subsub_d"], style_label="subsub")
    o["sub"] = magpy.Collection(o["sub_s"], o["sub_d"], o["subsub"], style_label="sub")
    o["empty"] = magpy.Collection(style_label="empty")
    o["col"] = cls(
        o["s1"], o["d1"], o["sub"], o["m1"], o["s2"], o["empty"], o["c1"], style_label="col"
    )
    o["xs"] = magpy.Sensor(style_label="xs")
    o["xd"] = magpy.misc.Dipole(moment=(1, 1, 1), style_label="xd")
    o["xc"] = magpy.Collection(magpy.Sensor(style_label="xc_s"), style_label="xc")
    return o


def attempt(name, func):
    try:
        res = func()
        print(name, "ok", clean(res) if not isinstance(res, list) else res)
    except Exception as err:  # pylint: disable=broad-except
        print(name, "ERR", type(err).__name__, clean(err).split("\n")[0])


# 1. constructor / add / remove ------------------------------------------------
o = build()
print("init", state(o["col"]))
print("sub", state(o["sub"]))
print("empty", state(o["empty"]))
attempt("add xs", lambda: o["col"].add(o["xs"]))
print(state(o["col"]))
attempt("add list", lambda: o["col"].add([o["xd"], o["xc"]]))
print(state(o["col"]))
attempt("add bad", lambda: o["col"].add(o["xd"], BadKind()))
print(state(o["col"]))
attempt("add owned", lambda: o["xc"].add(o["s1"]))
print(state(o["col"]), state(o["xc"]))
attempt("add owned override", lambda: o["xc"].add(o["s1"], override_parent=True))
print(state(o["col"]), state(o["xc"]))
attempt("add self", lambda: o["sub"].add(o["col"]))
attempt("remove deep", lambda: o["col"].remove(o["subsub_d"]))
print(state(o["col"]), state(o["sub"]), state(o["subsub"]))
attempt("remove non recursive", lambda: o["col"].remove(o["sub_d"], recursive=False))
attempt("remove ignore", lambda: o["col"].remove(o["sub_d"], recursive=False, errors="ignore"))
attempt("remove bad errors", lambda: o["col"].remove(o["sub_d"], recursive=False, errors="x"))
attempt("remove several", lambda: o["col"].remove(o["sub"], o["m1"]))
print(state(o["col"]), state(o["sub"]))
attempt("remove gone", lambda: o["col"].remove(o["m1"]))
print(state(o["col"]))

# 2. setters -------------------------------------------------------------------
for kind, pick in [
    ("children", lambda o: [o["xd"], o["xs"], o["xc"]]),
    ("children", lambda o: []),
    ("children", lambda o: [o["sub_d"], o["s1"]]),
    ("children", lambda o: [o["xd"], 3]),
    ("sources", lambda o: [o["xd"]]),
    ("sources", lambda o: []),
    ("sensors", lambda o: [o["xs"], o["sub_s"]]),
    ("sensors", lambda o: [o["xd"]]),
    ("collections", lambda o: [o["xc"]]),
    ("collections", lambda o: []),
    ("collections", lambda o: "bad"),
]:
    o = build()
    attempt(f"set {kind}", lambda: setattr(o["col"], kind, pick(o)))
    print("  ", state(o["col"]), state(o["sub"]), state(o["xc"]))
    print("  ", {k: (None if v._parent is None else v._parent.style.label) for k, v in o.items()})

# 3. order of the private rebinding ---------------------------------------------
o = build(LoggingCollection)
print("log init", LOG)
del LOG[:]
o["col"].add(o["xs"])
o["col"].remove(o["d1"])
o["col"].sensors = [o["xs"]]
print("log ops", LOG)
del LOG[:]
cp = o["col"].copy()
print("log copy", LOG)
del LOG[:]
cp = o["col"].copy(children=[o["xd"].copy()], style_label="cp")
print("log copy children", LOG, state(cp))
del LOG[:]

# 4. copy of trees, then mutations on both sides ----------------------------------
o = build()
top = magpy.Collection(o["col"], style_label="top")
for name, kw in [
    ("plain", {}),
    ("pos", {"position": (1, 2, 3)}),
    ("sources", {"sources": [o["xd"].copy()]}),
    ("sensors", {"sensors": []}),
    ("collections", {"collections": [o["xc"].copy()]}),
    ("children", {"children": []}),
    ("parent", {"parent": o["xc"]}),
    ("bad child", {"children": [1]}),
    ("bad parent", {"parent": 1}),
]:
    try:
        cp = o["col"].copy(**kw)
    except Exception as err:  # pylint: disable=broad-except
        print("copy", name, "ERR", type(err).__name__, clean(err).split("\n")[0])
        print("   orig", state(o["col"]), o["col"].parent is top, state(top))
        continue
    print("copy", name, type(cp).__name__, state(cp))
    print("   parent", None if cp.parent is None else cp.parent.style.label)
    print("   orig", state(o["col"]), o["col"].parent is top, state(top), state(o["xc"]))
    print("   shared", [a is b for a, b in zip(cp.children_all, o["col"].children_all)])
    if cp.sources and cp.sensors:
        print("   B", r(cp.getB(pixel_agg="mean")), r(o["col"].getB(pixel_agg="mean")))
    # mutate the copy, original must not change and vice versa
    if cp.children:
        cp.remove(cp.children[0])
    cp.add(magpy.Sensor(style_label="new_in_copy"))
    cp.move((1, 1, 1))
    print("   after copy mutation", state(cp), state(o["col"]), r(o["col"].position), r(o["s1"].position))
    o["col"].add(magpy.Sensor(style_label="new_in_orig"))
    o["col"].remove(o["col"].children[-1])
    o["col"].rotate_from_angax(90, "z")
    o["col"].rotate_from_angax(-90, "z")
    print("   after orig mutation", state(cp), state(o["col"]), r(cp.position))
    if cp.parent is not None:
        cp.parent = None

# 5. direct call on odd private states ---------------------------------------------
o = build()
col = o["col"]
col._children.append(BadKind())
col._update_src_and_sens()
print("odd", [type(c).__name__ for c in col._children], labels(col._sources), labels(col._sensors), labels(col._collections))
col._children = None
try:
    col._update_src_and_sens()
except Exception as err:  # pylint: disable=broad-except
    print("none children", type(err).__name__, err)
print("after failure", labels(col._sources), labels(col._sensors), labels(col._collections))
