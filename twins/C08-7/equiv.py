import os, sys; sys.path.insert(0, os.getcwd())
# Twin2-2: tile_group_property inlined into get_src_dict
import hashlib
import re
import warnings

import numpy as np
from scipy.spatial.transform import Rotation as R

import magpylib as magpy
from magpylib._src.fields.field_wrap_BH import get_src_dict

warnings.simplefilter("ignore")


def h(a):
    a = np.asarray(a)
    if a.dtype == object:
        return "obj[" + ",".join(h(x) for x in a) + "]"
    a = np.ascontiguousarray(a)
    return hashlib.sha1(a.tobytes()).hexdigest()[:10] + str(a.dtype) + str(a.shape)


def clean(msg):
    msg = re.sub(r"0x[0-9a-f]+", "0x?", re.sub(r"id=\d+", "id=?", str(msg)))
    return msg[:100].replace("\n", " ")


def attr_arrays(src):
    out = []
    for name, val in vars(src).items():
        if isinstance(val, np.ndarray):
            out.append((name, val))
    return out


def show_dict(tag, group, n_pix, n_pp, poso):
    before = [[(n, h(v)) for n, v in attr_arrays(s)] for s in group]
    try:
        dic = get_src_dict(group, n_pix, n_pp, poso)
    except Exception as err:  # pylint: disable=broad-except
        print(tag, "raised", type(err).__name__, clean(err))
        return
    print(tag, "keys:", list(dic))
    for key, val in dic.items():
        if isinstance(val, R):
            print("   ", key, "Rotation", h(val.as_quat()))
            continue
        shares = any(
            isinstance(val, np.ndarray) and val.dtype != object and np.shares_memory(val, arr)
            for s in group
            for _, arr in attr_arrays(s)
        ) or np.shares_memory(val, poso) if val.dtype != object else any(
            np.shares_memory(x, arr) for x in val for s in group for _, arr in attr_arrays(s)
        )
        print("   ", key, type(val).__name__, h(val), "owndata/writeable:", val.flags.owndata, val.flags.writeable, "aliases-object:", shares)
    after = [[(n, h(v)) for n, v in attr_arrays(s)] for s in group]
    print("    objects unchanged:", before == after)


poso = np.array([(1.0, 2, 3), (0.1, 0.2, 0.3), (-1, 0, 2), (3, 3, 3)])
LH = [(0, 0, 0), (1, 0, 0), (0, 0, 1), (0, 1, 0)]  # left-handed
RH = [(0, 0, 0), (1, 0, 0), (0, 1, 0), (0, 0, 1)]

mesh_a = magpy.magnet.TriangularMesh.from_ConvexHull(
    polarization=(0.1, 0.2, 0.3), points=[(0, 0, 0), (1, 0, 0), (0, 1, 0), (0, 0, 1)]
)
mesh_b = magpy.magnet.TriangularMesh.from_ConvexHull(
    polarization=(0.3, 0.2, 0.1),
    points=[(0, 0, 0), (1, 0, 0), (0, 1, 0), (0, 0, 1), (1, 1, 1)],
)

groups = {
    "cuboid": [
        magpy.magnet.Cuboid(polarization=(1, 2, 3), dimension=(1, 2, 3), position=(1, 0, 0)),
        magpy.magnet.Cuboid(polarization=(3, 2, 1), dimension=(3, 2, 1)).rotate_from_angax(30, "z"),
    ],
    "cylinder": [magpy.magnet.Cylinder(polarization=(1, 2, 3), dimension=(1, 2))],
    "cylseg": [magpy.magnet.CylinderSegment(polarization=(1, 2, 3), dimension=(1, 2, 1, 0, 90))],
    "sphere": [
        magpy.magnet.Sphere(polarization=(1, 2, 3), diameter=1),
        magpy.magnet.Sphere(polarization=(0, 2, 3), diameter=2.5),
    ],
    "circle": [magpy.current.Circle(current=1, diameter=2), magpy.current.Circle(current=-3, diameter=4)],
    "dipole": [magpy.misc.Dipole(moment=(1, 2, 3)), magpy.misc.Dipole(moment=(0, 0, 1), position=(1, 1, 1))],
    "polyline-same": [
        magpy.current.Polyline(current=1, vertices=[(0, 0, 0), (1, 1, 1), (2, 0, 0)]),
        magpy.current.Polyline(current=2, vertices=[(0, 0, 0), (1, 0, 1), (2, 2, 0)]),
    ],
    "polyline-ragged": [
        magpy.current.Polyline(current=1, vertices=[(0, 0, 0), (1, 1, 1), (2, 0, 0)]),
        magpy.current.Polyline(current=2, vertices=[(0, 0, 0), (1, 0, 1)]),
    ],
    "triangle": [magpy.misc.Triangle(polarization=(1, 2, 3), vertices=[(0, 0, 0), (1, 0, 0), (0, 1, 0)])],
    "tetra": [
        magpy.magnet.Tetrahedron(polarization=(1, 2, 3), vertices=LH),
        magpy.magnet.Tetrahedron(polarization=(3, 2, 1), vertices=RH, position=(0.5, 0, 0)),
    ],
    "mesh-same": [mesh_a, mesh_a.copy(position=(1, 1, 1))],
    "mesh-ragged": [mesh_a, mesh_b],
    "custom": [magpy.misc.CustomSource(field_func=lambda field, observers: observers * 1.0)],
}

for name, group in groups.items():
    show_dict(name, group, n_pix=4, n_pp=4, poso=poso)

# sources with a path of length 2 (n_pp = 2 * n_pix)
for name in ("cuboid", "tetra", "polyline-ragged"):
    grp = [s.copy() for s in groups[name]]
    for s in grp:
        s.position = [s.position, s.position + 1]
    show_dict(name + "-path2", grp, n_pix=2, n_pp=4, poso=poso)

# error paths: uninitialised attribute reaches the tiling (check_dimensions bypassed)
show_dict("err-none-dim", [magpy.magnet.Cuboid(polarization=(1, 2, 3))], 4, 4, poso)
show_dict(
    "err-none-second",
    [magpy.magnet.Cuboid(polarization=(1, 2, 3), dimension=(1, 1, 1)), magpy.magnet.Cuboid(polarization=(1, 2, 3))],
    4,
    4,
    poso,
)
show_dict("err-none-scalar", [magpy.current.Circle(diameter=1)], 4, 4, poso)
show_dict("err-empty-group", [], 4, 4, poso)
show_dict("err-bad-npp", groups["cuboid"], 4, -1, poso)

# through the public interface, incl. the in-place vertex reordering acting on copies only
for name, group in groups.items():
    for field in "BHJM":
        state = [[(n, h(v)) for n, v in attr_arrays(s)] for s in group]
        for rep in range(2):
            try:
                res = getattr(magpy, "get" + field)(group, poso, sumup=(rep == 1))
                out = h(res)
            except Exception as err:  # pylint: disable=broad-except
                out = "raised " + type(err).__name__ + " " + clean(err)
            print(name, field, rep, out, "unchanged:", state == [[(n, h(v)) for n, v in attr_arrays(s)] for s in group])

mixed = [g[0] for g in groups.values()] + [groups["tetra"][1], groups["mesh-ragged"][1]]
sens = magpy.Sensor(pixel=poso.reshape(2, 2, 3)).rotate_from_angax([10, 20, 30], "x")
for field in "BHJM":
    try:
        print("mixed", field, h(getattr(magpy, "get" + field)(mixed, sens)))
    except Exception as err:  # pylint: disable=broad-except
        print("mixed", field, "raised", type(err).__name__, clean(err))
print("LH vertices still left-handed order:", groups["tetra"][0].vertices.tolist() == [list(map(float, v)) for v in LH])
print("helper still importable:", hasattr(magpy._src.fields.field_wrap_BH, "get_src_dict"))
