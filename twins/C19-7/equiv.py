import os, sys; sys.path.insert(0, os.getcwd())
import hashlib
import json
import re
import warnings

import numpy as np
from scipy.spatial.transform import Rotation as R

import magpylib as magpy
from magpylib._src.display.traces_generic import get_frames
from magpylib._src.display.traces_utility import DEFAULT_ROW_COL_PARAMS
from magpylib._src.display.traces_utility import process_show_input_objs

warnings.simplefilter("ignore")


def norm(o):
    """deterministic, JSON-able view of nested trace structures"""
    if isinstance(o, dict):
        return {str(k): norm(v) for k, v in sorted(o.items(), key=lambda kv: str(kv[0]))}
    if isinstance(o, (list, tuple)):
        return [type(o).__name__, [norm(v) for v in o]]
    if isinstance(o, np.ndarray):
        if o.dtype.kind in "fiu":
            return ["nd", list(o.shape), np.round(o.astype(float), 9).tolist()]
        return ["nd", list(o.shape), [norm(v) for v in o.ravel().tolist()]]
    if isinstance(o, (float, np.floating)):
        return round(float(o), 9)
    if isinstance(o, (int, np.integer, bool, type(None))):
        return o
    if isinstance(o, str):
        return re.sub(r"id=\d+|0x[0-9a-f]+", "#", o)
    if isinstance(o, R):
        return ["rot", np.round(o.as_quat(), 9).tolist()]
    return re.sub(r"id=\d+|0x[0-9a-f]+", "#", repr(o))


def digest(label, o):
    s = json.dumps(norm(o), sort_keys=True)
    print(f"{label}: {hashlib.sha256(s.encode()).hexdigest()[:16]} len={len(s)}")
    return s


def attempt(label, func):
    try:
        res = func()
    except Exception as err:  # pylint: disable=broad-except
        print(f"{label}: EXC {type(err).__name__}: {err}")
        return None
    digest(label, res)
    return res


def model(*objs, backend="plotly", colorgrad=True, **kw):
    objects, *_ = process_show_input_objs(
        objs, **{k: v for k, v in kw.items() if k in DEFAULT_ROW_COL_PARAMS})
    style_kw = {k: v for k, v in kw.items() if k.startswith("style")}
    kw = {k: v for k, v in kw.items() if k not in DEFAULT_ROW_COL_PARAMS and k not in style_kw}
    return get_frames(objects, backend=backend, supports_colorgradient=colorgrad,
                      style_kwargs=style_kw, **kw)


from magpylib._src.display.traces_core import make_Circle


def snapshot(objs):
    return json.dumps(norm([[o.style.as_dict(), o.position, o.orientation, o.diameter, o.current]
                            for o in objs] + [magpy.defaults.as_dict()]))


FULL_STYLE = {"arrow_show": True, "line_show": True, "arrow_sizemode": "scaled", "arrow_offset": 0.5,
              "arrow_size": 1, "arrow_width": 2, "line_width": 2, "line_style": "solid",
              "arrow_style": "solid", "color": "red"}


def circle(current=1.0, diameter=2.0, full=True, **style):
    """Circle with a path; `full` sets all style properties read by make_Circle explicitly"""
    c = magpy.current.Circle(current=current, diameter=diameter)
    c.position = [(0, 0, 0), (1, 2, 3), (2, 4, 6)]
    c.rotate_from_angax([0, 45, 90], (1, 0, 1), start=0)
    c.style.update(**{**(FULL_STYLE if full else {}), **style})
    return c


# --- make_Circle directly: all combinations of arrow/line visibility, size modes, offsets, colors
n = 0
for current in (1.5, -2, 0, None):
    for diameter in (2.0, 1e-3, None):
        for arrow_show in (True, False):
            for line_show in (True, False):
                for sizemode in ("scaled", "absolute"):
                    for offset in (0.0, 0.37, 1.0):
                        c = circle(current, diameter, arrow_show=arrow_show, line_show=line_show,
                                   arrow_sizemode=sizemode, arrow_offset=offset, arrow_size=1.5,
                                   arrow_color="blue" if line_show else None, color="red",
                                   line_width=3, line_style="dashed")
                        before = snapshot([c])
                        n += 1
                        attempt(f"circle {n} I={current} d={diameter} a={arrow_show} l={line_show} "
                                f"{sizemode} off={offset}",
                                lambda: make_Circle(c, legendgroup="LG", name="nm"))
                        if snapshot([c]) != before:
                            print("  OBJECT CHANGED")
c = circle()
for base in (72, 3, 10, 1, 0):
    attempt(f"base={base}", lambda: make_Circle(c, base=base))
attempt("kwargs override", lambda: make_Circle(c, x=[1], line_color="k", type="other"))
attempt("get_trace", lambda: c.get_trace(opacity=0.3))
attempt("unresolved style (nothing shown)", lambda: make_Circle(circle(full=False)))
res = make_Circle(c)
print("kinds order:", [len(t["x"]) for t in res], [t["line_dash"] for t in res])

# --- error paths
attempt("err base=-1", lambda: make_Circle(c, base=-1))
attempt("err base=-1 arrow only", lambda: make_Circle(circle(line_show=False), base=-1))
attempt("err base str", lambda: make_Circle(c, base="a"))
attempt("err base None line hidden", lambda: make_Circle(circle(line_show=False), base=None))
attempt("err no style", lambda: make_Circle(object()))


class Fake:
    """object with a diameter but an incomplete style"""
    diameter = 1.0
    current = 1.0

    class style:  # pylint: disable=invalid-name
        color = "k"

        class arrow:  # pylint: disable=invalid-name
            show = False

attempt("err fake without line style", lambda: make_Circle(Fake()))

# --- full model: the current line passes through the conductor points at every shown path index
for frames in (None, 1, [0, 2]):
    for backend, cg in (("plotly", True), ("matplotlib", False)):
        for units in ("auto", "mm"):
            objs = [circle(full=False), circle(-1, 0.5, full=False, arrow_sizemode="absolute"),
                    circle(1, None, full=False)]
            coll = magpy.Collection(objs[1], objs[2], position=(0, 0, 5))
            before = snapshot(objs)
            kw = {} if frames is None else {"style_path_frames": frames}
            attempt(f"model frames={frames} backend={backend} units={units}", lambda: model(
                objs[0], coll, backend=backend, colorgrad=cg, units_length=units, **kw))
            print("  unchanged:", snapshot(objs) == before)
attempt("show plotly", lambda: magpy.show(
    circle(full=False), circle(-1, 0.5, full=False), backend="plotly", return_fig=True).to_dict()["data"])
