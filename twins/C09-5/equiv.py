import os, sys; sys.path.insert(0, os.getcwd())
# Equivalence digest for twin 5 (input_checks used by move/rotate/setters).
import warnings

import numpy as np
from scipy.spatial.transform import Rotation as R

import magpylib as magpy
from magpylib._src import input_checks as ic

warnings.simplefilter("ignore")


def dig(a):
    return (np.round(np.asarray(a, dtype=float), 9) + 0.0).tolist()


def desc(x):
    """deterministic description of a returned value incl. type/dtype/shape"""
    if isinstance(x, np.ndarray):
        return ("ndarray", str(x.dtype), x.shape, dig(x))
    if isinstance(x, R):
        return ("Rotation", bool(x.single), dig(x.as_quat()))
    if isinstance(x, tuple):
        return tuple(desc(v) for v in x)
    return (type(x).__name__, repr(x))


def state(obj):
    return dig(obj._position), dig(obj._orientation.as_quat())


def show(tag, fn):
    try:
        print(tag, "->", desc(fn()))
    except BaseException as err:  # pylint: disable=broad-except
        print(tag, "-> EXC", type(err).__name__, str(err)[:300].replace("\n", " | "))


class MyStr(str):
    pass


# 1) check_start_type
for v in ("auto", MyStr("auto"), "Auto", "", 0, -3, 7, True, False, np.int8(-1), np.uint64(3),
          np.bool_(True), 1.0, 2.5, np.float64(1), None, [1], (0,), np.array(1), np.array([1]), 1j,
          b"auto"):
    show(f"start {v!r}", lambda v=v: ic.check_start_type(v))

# 2) check_degree_type
for v in (True, False, 1, 0, "True", None, np.bool_(True)):
    show(f"degrees {v!r}", lambda v=v: ic.check_degree_type(v))

# 3) check_format_input_orientation
rot_inputs = {
    "None": None,
    "scalar": R.from_rotvec((0.1, 0.2, 0.3)),
    "len1": R.from_rotvec([(0.1, 0.2, 0.3)]),
    "len3": R.from_rotvec([(0.1, 0.2, 0.3), (0, 0, 1), (1, 0, 0)]),
    "quat tuple": (0, 0, 0, 1),
    "str": "None",
    "array": np.array((0, 0, 0, 1.0)),
    "zero": 0,
    "type": R,
}
for k, v in rot_inputs.items():
    show(f"ori {k} init_format=False", lambda v=v: ic.check_format_input_orientation(v))
    show(f"ori {k} init_format=True", lambda v=v: ic.check_format_input_orientation(v, init_format=True))
    show(f"ori {k} init_format=1", lambda v=v: ic.check_format_input_orientation(v, 1))
r_in = rot_inputs["len3"]
print("ori passes the same object", ic.check_format_input_orientation(r_in)[0] is r_in)

# 4) check_format_input_axis
for v in ("x", "y", "z", MyStr("y"), "X", "xy", "", (1, 2, 3), [0, 0, 1], np.array([0.0, 2, 0]),
          (0, 0, 0), [0.0, -0.0, 0], (1, 2), [(1, 2, 3)], None, 1, ("a", "b", "c"), np.array([1, 0, 0])):
    show(f"axis {v!r}", lambda v=v: ic.check_format_input_axis(v))
a1, a2 = ic.check_format_input_axis("x"), ic.check_format_input_axis("x")
a1[0] = 5
print("axis fresh array per call", a1 is not a2, a2.tolist(), ic.check_format_input_axis("x").tolist())

# 5) check_format_input_anchor / angle
for v in (None, 0, 0.0, False, 0j, np.int64(0), 1, True, (1, 2, 3), [(1, 2, 3), (4, 5, 6)],
          np.zeros((0, 3)), (1, 2), "0", [0], np.zeros((1, 1, 3))):
    show(f"anchor {v!r}", lambda v=v: ic.check_format_input_anchor(v))
for v in (1, 2.5, True, np.float32(3), [1, 2], (1,), [], [[1, 2]], None, "1", np.array(3.0), 1j):
    show(f"angle {v!r}", lambda v=v: ic.check_format_input_angle(v))

# 6) check_array_shape / check_format_input_vector with all option combinations
arrs = {
    "(3,)": np.arange(3.0), "(2,3)": np.ones((2, 3)), "(2,)": np.ones(2), "(0,)": np.ones(0),
    "(2,2,3)": np.ones((2, 2, 3)), "()": np.array(1.0), "(3,2)": np.ones((3, 2)), "(0,3)": np.ones((0, 3)),
}
for ak, a in arrs.items():
    for dims in ((1,), (1, 2), (2,), (0, 1), [1, 2, 3]):
        for sm1 in (3, 2, "any"):
            for length in (None, 2, 3):
                show(
                    f"shape {ak} dims={dims} m1={sm1} len={length}",
                    lambda: ic.check_array_shape(a, dims=dims, shape_m1=sm1, length=length, msg="MSG"),
                )
vec_inputs = {
    "None": None, "tuple": (1, 2, 3), "neg": (1, -2, 3), "zero": (1, 0, 3), "list2d": [(1, 2, 3), (4, 5, 6)],
    "arr int": np.array([1, 2, 3]), "str": "abc", "ragged": [(1, 2), (3,)], "texts": ("a", "b", "c"),
    "2vec": (1, 2), "number": 5, "empty": [], "nan": (np.nan, 1, 2), "bools": (True, False, True),
}
for k, v in vec_inputs.items():
    for allow_None in (False, True, 0, "yes"):
        for forbid in (False, True):
            for reshape in (False, (-1, 3), True, (3, -1)):
                show(
                    f"vec {k} allow_None={allow_None!r} forbid={forbid} reshape={reshape}",
                    lambda: ic.check_format_input_vector(
                        v, dims=(1, 2), shape_m1=3, sig_name="NAME", sig_type="TYPE",
                        reshape=reshape, allow_None=allow_None, forbid_negative0=forbid,
                    ),
                )
src = np.array([1.0, 2.0, 3.0])
out = ic.check_format_input_vector(src, dims=(1,), shape_m1=3, sig_name="n", sig_type="t")
print("vector input copied", out is not src, np.shares_memory(out, src))

# 7) through the public API, incl. rejected calls that must change nothing
s = magpy.Sensor(position=[(1, 2, 3), (4, 5, 6)])
for kw in (
    dict(angle=30, axis="x"), dict(angle=[10, 20], axis="y", start=1), dict(angle=0.5, axis="z", degrees=False),
    dict(angle=(5, 6, 7), axis=(1, 1, 0), anchor=0, start=-1), dict(angle=45, axis=[0, 0, 2], anchor=(1, 1, 1), start=np.int64(1)),
):
    show(f"angax {kw}", lambda kw=kw: s.rotate_from_angax(**kw) is s)
    print("   ", state(s))
ref = state(s)
for kw in (
    dict(angle=30, axis="w"), dict(angle=30, axis=(0, 0, 0)), dict(angle="30", axis="x"), dict(angle=[[1]], axis="x"),
    dict(angle=30, axis="x", start=1.0), dict(angle=30, axis="x", start="AUTO"), dict(angle=30, axis="x", degrees=1),
    dict(angle=30, axis="x", degrees=None), dict(angle=30, axis="x", anchor=1), dict(angle=30, axis="x", anchor="0"),
    dict(angle=30, axis=(1, 2)), dict(angle=None, axis="x"),
):
    show(f"angax bad {kw}", lambda kw=kw: s.rotate_from_angax(**kw))
    print("    unchanged", state(s) == ref)
for call in (
    lambda: s.move((1, 2), start=0), lambda: s.move("abc"), lambda: s.move((1, 2, 3), start=None),
    lambda: s.move(None), lambda: s.rotate((1, 2, 3)), lambda: s.rotate(None, start="x"),
    lambda: setattr(s, "orientation", (0, 0, 0, 1)), lambda: setattr(s, "position", (1, 2)),
    lambda: magpy.Sensor(orientation="x"), lambda: magpy.Sensor(position=None),
):
    show("api bad", call)
    print("    unchanged", state(s) == ref)
s.rotate(None)
s.move((0, 0, 1), start=True)
s.orientation = None
print("final", state(s))
