import os, sys; sys.path.insert(0, os.getcwd())
# twins5/4: getBH_level2 - bookkeeping of the tiled paths (what the `finally` clause resets) kept in
#           one dict {object: (original path length, original orientation object)}
import hashlib
import re
import warnings

import numpy as np
from scipy.spatial.transform import Rotation as R

import magpylib as magpy

warnings.simplefilter("ignore")


def h(a):
    a = np.ascontiguousarray(a)
    return hashlib.sha1(a.tobytes()).hexdigest()[:12] + str(a.shape) + str(a.dtype)


def clean(msg):
    msg = re.sub(r"0x[0-9a-f]+", "0x?", re.sub(r"id=\d+", "id=?", str(msg)))
    return msg.replace("\n", " | ")[:150]


def snap(objs):
    return [
        (
            h(o._position),
            h(o._orientation.as_quat()),
            None if getattr(o, "_pixel", None) is None else h(o._pixel),
            None if o._parent is None else id(o._parent),
            [id(c) for c in getattr(o, "_children", [])],
        )
        for o in objs
    ]


def run(tag, fn, objs):
    before = snap(objs)
    orients = [o._orientation for o in objs]
    for rep in range(2):
        try:
            res = fn()
            print(f"{tag}[{rep}] -> {h(res)} {np.round(np.ravel(res)[:3], 12).tolist()}")
        except BaseException as err:  # pylint: disable=broad-except
            ctx = type(err.__context__).__name__ if err.__context__ is not None else None
            print(f"{tag}[{rep}] raised {type(err).__name__} ctx={ctx} :: {clean(err)}")
        print(
            "    state-same=%s orient-identity=%s lens=%s owndata=%s"
            % (
                before == snap(objs),
                all(o._orientation is r for o, r in zip(objs, orients)),
                [(len(o._position), len(o._orientation)) for o in objs],
                [bool(o._position.flags.owndata) for o in objs],
            )
        )


def mk_objects():
    rot5 = R.from_rotvec(np.linspace((0, 0, 0.1), (0.3, 0.2, 1.5), 5))
    rot3 = R.from_euler("xyz", [(10, 20, 30), (40, 50, 60), (70, 80, 90)], degrees=True)
    cub = magpy.magnet.Cuboid(polarization=(0.1, 0.2, 0.3), dimension=(1, 2, 3))
    cyl = magpy.magnet.Cylinder(
        polarization=(0.3, 0.1, -0.2),
        dimension=(1, 2),
        position=np.linspace((0, 0, 0), (1, 2, 3), 5),
        orientation=rot5,
    )
    sph = magpy.magnet.Sphere(
        polarization=(0, 0.4, 0.1),
        diameter=1.5,
        position=[(1, 1, 1), (2, 2, 2), (3, 3, 3)],
        orientation=rot3,
    )
    loop = magpy.current.Circle(current=12.0, diameter=2.5, position=(0.2, -0.3, 0.4))
    loop.rotate_from_angax(33, (1, 2, 3))
    dip = magpy.misc.Dipole(moment=(1, 2, 3), position=[(4, 4, 4), (5, 5, 5)])
    tet = magpy.magnet.Tetrahedron(
        polarization=(0.2, 0.3, 0.4),
        vertices=[(0, 0, 0), (1, 0, 0), (0, 0, 1), (0, 1, 0)],  # left handed
        position=(0.5, 0.5, -3),
    )
    s0 = magpy.Sensor(position=(3, 3, 3))
    s1 = magpy.Sensor(
        position=np.linspace((2, 2, 2), (3, 3, 3), 4),
        pixel=[(0, 0, 0), (0.1, 0.2, 0.3)],
        orientation=R.from_rotvec(np.linspace((0, 0, 0), (0.5, 0.4, 0.3), 4)),
    )
    s2 = magpy.Sensor(position=(-3, 2, 1), pixel=[(0.1, 0, 0), (0, 0.1, 0)], handedness="left")
    s2.rotate_from_angax(77, "y")
    s3 = magpy.Sensor(
        position=[(6, 0, 0), (7, 0, 0)],
        pixel=np.arange(12.0).reshape(2, 2, 3) / 10,
    )
    return dict(cub=cub, cyl=cyl, sph=sph, loop=loop, dip=dip, tet=tet, s0=s0, s1=s1, s2=s2, s3=s3)


O = mk_objects()
ALL = list(O.values())
col = magpy.Collection(O["dip"], O["loop"])
col.position = [(0, 0, 1), (0, 0, 2), (0, 0, 3), (0, 0, 4), (0, 0, 5), (0, 0, 6)]
ALL.append(col)

print("== successful calls, mixed path lengths")
for fname in ("getB", "getH", "getJ", "getM"):
    f = getattr(magpy, fname)
    run(f"{fname} all/pos", lambda f=f: f([O["cub"], O["cyl"], O["sph"], O["loop"], O["tet"]], (1, 2, 3)), ALL)
    run(f"{fname} all/s1s2", lambda f=f: f([O["cub"], O["sph"], O["tet"]], [O["s1"], O["s2"]]), ALL)
    run(f"{fname} col/s0s1", lambda f=f: f([col, O["cyl"]], [O["s0"], O["s1"]], pixel_agg="mean"), ALL)
    run(f"{fname} sumup", lambda f=f: f([O["cub"], O["cyl"], col], [O["s3"], O["s3"]], sumup=True, squeeze=False), ALL)
run("static only", lambda: magpy.getB([O["cub"], O["loop"]], [O["s0"], O["s2"]], pixel_agg="max"), ALL)
run("same obj twice", lambda: magpy.getB([O["cub"], O["cub"], O["sph"]], [O["s1"], O["s1"]]), ALL)
run("src method", lambda: O["cub"].getH(O["s1"], O["s3"], pixel_agg="min"), ALL)
run("sens method", lambda: O["s1"].getB(O["cyl"], O["dip"], col), ALL)
run("col method", lambda: col.getB(O["s1"]), ALL)
run("dataframe", lambda: magpy.getB([O["cub"], O["cyl"]], [O["s0"], O["s1"]], output="dataframe", pixel_agg="mean").to_numpy()[:, 4:].astype(float), ALL)

print("== the tiled state as seen from inside the computation")
seen = []


def probe(field, observers):
    seen.append(
        [
            (len(o._position), len(o._orientation), h(o._position), h(o._orientation.as_quat()))
            for o in ALL
        ]
    )
    return np.zeros_like(observers) + (1.0 if field == "B" else 2.0)


cust = magpy.misc.CustomSource(field_func=probe, position=[(0, 0, 0), (1, 1, 1)])
seen.clear()
run("probe", lambda: magpy.getB([O["cub"], cust, O["cyl"]], [O["s0"], O["s1"]], pixel_agg="mean"), ALL + [cust])
for i, rec in enumerate(seen):
    print("  seen", i, rec)

print("== failing calls")


class Boom(Exception):
    pass


def mk_failing(kind, nth):
    count = [0]

    def ff(field, observers):
        count[0] += 1
        if count[0] >= nth:
            if kind == "raise":
                raise Boom(f"call {count[0]}")
            if kind == "kbd":
                raise KeyboardInterrupt()
            if kind == "none":
                return None
            if kind == "shape":
                return np.zeros((len(observers) + 1, 3))
            if kind == "scalar":
                return 1.0
        return np.ones_like(observers)

    return ff


for kind in ("raise", "kbd", "none", "shape", "scalar"):
    src = magpy.misc.CustomSource(position=[(0, 0, 0), (1, 0, 0), (2, 0, 0)])
    src._field_func = mk_failing(kind, 1)
    run(f"custom {kind}", lambda src=src: magpy.getB([O["cub"], src, O["cyl"]], [O["s0"], O["s1"]], pixel_agg="mean"), ALL + [src])
    run(f"custom {kind} via sensor", lambda src=src: O["s1"].getH(O["sph"], src), ALL + [src])

only_b = magpy.misc.CustomSource(field_func=lambda field, observers: np.ones_like(observers) if field == "B" else None)
run("unsupported H", lambda: magpy.getH([O["cyl"], only_b], O["s1"]), ALL + [only_b])
run("no field_func", lambda: magpy.getB([O["cyl"], magpy.misc.CustomSource()], O["s1"]), ALL)
run("missing dim", lambda: magpy.getB([O["cyl"], magpy.magnet.Cuboid(polarization=(1, 2, 3))], O["s1"]), ALL)
run("missing exc", lambda: magpy.getB([O["cyl"], magpy.magnet.Cuboid(dimension=(1, 2, 3))], O["s1"]), ALL)
run("bad pixel_agg", lambda: magpy.getB(O["cyl"], O["s1"], pixel_agg="nonsense"), ALL)
run("bad output", lambda: magpy.getB(O["cyl"], O["s1"], output="table"), ALL)
run("pixel shapes", lambda: magpy.getB(O["cyl"], [O["s1"], O["s3"]]), ALL)
run("bad in_out", lambda: magpy.getB([O["cyl"], O["tet"]], O["s1"], in_out="sideways"), ALL)
run("bad observers", lambda: magpy.getB(O["cyl"], "nope"), ALL)

print("== caller arrays")
pos_in = np.linspace((0, 0, 0), (1, 1, 1), 3)
pix_in = np.array([(0.0, 0, 0), (0, 0, 1)])
obs_in = np.array([(1.0, 2, 3), (2, 3, 4)])
hs = (h(pos_in), h(pix_in), h(obs_in))
c2 = magpy.magnet.Cuboid(polarization=(1, 2, 3), dimension=(1, 1, 1), position=pos_in)
s9 = magpy.Sensor(pixel=pix_in)
print(h(magpy.getB(c2, s9)), h(magpy.getB(c2, obs_in)), hs == (h(pos_in), h(pix_in), h(obs_in)))


print("== nothing to tile / everything equal")
a = magpy.magnet.Cuboid(polarization=(1, 2, 3), dimension=(1, 1, 1), position=[(0, 0, 0), (1, 0, 0), (2, 0, 0)])
b = magpy.Sensor(position=[(0, 0, 3), (1, 0, 3), (2, 0, 3)])
run("equal lengths", lambda: magpy.getB(a, b), [a, b])
a1 = magpy.magnet.Cuboid(polarization=(1, 2, 3), dimension=(1, 1, 1))
b1 = magpy.Sensor(position=(0, 0, 3))
run("all static", lambda: magpy.getH([a1, a1], [b1, b1, (1, 2, 3)]), [a1, b1])
run("static + pos_vec only", lambda: magpy.getB(a, [(1, 2, 3), (4, 5, 6)]), [a, a1])

print("== failure while the paths are being tiled")


class NoQuat:
    def __len__(self):
        return 1


victims = [magpy.magnet.Sphere(polarization=(0, 0, 1), diameter=1, position=(i, 0, 0)) for i in range(6)]
broken = victims[3]
good_orient = broken._orientation
broken._orientation = NoQuat()
long_sens = magpy.Sensor(position=np.linspace((0, 0, 2), (1, 1, 2), 4))
ok = [v for v in victims if v is not broken] + [long_sens]
before = snap(ok)
orients = [o._orientation for o in ok]
bpos = broken._position
for rep in range(2):
    try:
        magpy.getB(victims, long_sens)
        print("tile failure: no error")
    except BaseException as err:  # pylint: disable=broad-except
        print(f"tile failure[{rep}] raised {type(err).__name__} :: {clean(err)}")
    print(
        "    others same=%s orient-identity=%s broken: len=%s pos=%s orient-is-stub=%s"
        % (
            before == snap(ok),
            all(o._orientation is r for o, r in zip(ok, orients)),
            len(broken._position),
            h(broken._position),
            type(broken._orientation).__name__,
        )
    )
broken._orientation = good_orient
run("after repair", lambda: magpy.getB(victims, long_sens), victims + [long_sens])

print("== many objects, sources that are also children of two collections levels")
inner = magpy.Collection(victims[0], victims[1])
outer = magpy.Collection(inner, victims[2], position=[(0, 0, 0), (0, 0, 1)])
run("nested", lambda: magpy.getB([outer, victims[4]], [long_sens, b1]), victims + [inner, outer, long_sens, b1])
run("nested fail", lambda: magpy.getB([outer, magpy.misc.CustomSource(field_func=lambda field, observers: None)], [long_sens, b1]), victims + [inner, outer, long_sens, b1])
