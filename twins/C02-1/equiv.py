import os, sys; sys.path.insert(0, os.getcwd())
import hashlib
import warnings

import numpy as np

import magpylib as magpy
from magpylib._src.fields.field_BH_sphere import BHJM_magnet_sphere

warnings.simplefilter("ignore")


def digest(name, arr):
    arr = np.asarray(arr)
    h = hashlib.sha256(np.ascontiguousarray(arr).tobytes()).hexdigest()[:16]
    print(name, arr.shape, arr.dtype, h)
    with np.printoptions(precision=10, linewidth=200):
        print(np.round(arr, 12))


rng = np.random.default_rng(1)
obs = rng.uniform(-2, 2, (12, 3))
# add special observers: centre, exactly on the surface, NaN, inf-ish
obs[0] = (0, 0, 0)
obs[1] = (0.5, 0, 0)
obs[2] = (0, 0, -0.5)
obs[3] = (np.nan, 0, 0)
obs[4] = (1e200, 0, 0)
dia = np.array([1.0, 1, 1, 1, 1, 2, -2, 3, 0.5, 0, 1, 4])
pol = rng.uniform(-1, 1, (12, 3))
pol[5] = 0
pol_int = np.array([(1, 2, 3)] * 12)  # integer dtype input

for field in "BHJM":
    digest(f"core-{field}", BHJM_magnet_sphere(field, obs, dia, pol))
    digest(f"core-int-{field}", BHJM_magnet_sphere(field, obs, dia, pol_int))

# inputs must not be modified / outputs must not alias inputs
o2, d2, p2 = obs.copy(), dia.copy(), pol.copy()
for field in "BHJM":
    res = BHJM_magnet_sphere(field, o2, d2, p2)
    print(field, "alias", np.shares_memory(res, p2), np.shares_memory(res, o2))
print("inputs unchanged", np.array_equal(o2, obs, equal_nan=True), np.array_equal(d2, dia), np.array_equal(p2, pol))

# B = mu0*H + J through the object interface
sph = magpy.magnet.Sphere(diameter=1.3, polarization=(0.1, -0.2, 0.3))
sph.rotate_from_angax(33, (1, 2, 3)).move((0.1, 0.2, -0.1))
pts = rng.uniform(-1, 1, (20, 3))
B, H, J, M = (getattr(sph, f"get{f}")(pts) for f in "BHJM")
digest("obj-B", B)
digest("obj-H", H)
digest("obj-J", J)
digest("obj-M", M)
print("BHJ", np.allclose(B, magpy.mu_0 * H + J, rtol=1e-12, atol=1e-15))

# error paths
for bad in ("X", "BH", 5, None):
    try:
        BHJM_magnet_sphere(bad, obs, dia, pol)
        print("no error", bad)
    except Exception as e:  # noqa: BLE001
        print(repr(bad), type(e).__name__, str(e).replace("\n", " | "))
try:
    BHJM_magnet_sphere("B", obs, dia[:3], pol)
except Exception as e:  # noqa: BLE001
    print("shape", type(e).__name__)
