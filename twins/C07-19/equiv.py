import os, sys; sys.path.insert(0, os.getcwd())
import hashlib
import re
import warnings

import numpy as np
from scipy.spatial.transform import Rotation as R

import magpylib as magpy

warnings.simplefilter("ignore")


def h(x):
    x = np.asarray(x)
    flags = "C" if x.flags.c_contiguous else "nonC"
    own = "own" if x.flags.owndata else "view"
    x = np.ascontiguousarray(x)
    return f"{x.dtype}{x.shape}{flags}/{own} {hashlib.sha1(x.tobytes()).hexdigest()[:16]}"


def clean(err):
    return re.sub(r"0x[0-9a-f]+|id=\d+", "ADDR", str(err).replace("\n", " / "))


def flaky(field, observers):
    """passes the validation at construction (2 observers), fails in real computations"""
    if len(observers) > 2:
        raise RuntimeError("field function failed")
    return observers * 1.0


def attempt(label, func, *args, **kwargs):
    try:
        res = func(*args, **kwargs)
    except Exception as err:  # pylint: disable=broad-except
        print(f"{label}: EXC {type(err).__name__}: {clean(err)[:150]}")
        return None
    if hasattr(res, "columns"):
        print(f"{label}: df{res.shape} {h(res.iloc[:, -3:].to_numpy())} pixels={sorted(res['pixel'].unique())[-1]} "
              f"sensors={len(res['sensor'].unique())}")
    else:
        print(f"{label}: {type(res).__name__} {h(res)} {np.round(np.asarray(res, dtype=float).ravel()[:3], 10).tolist()}")
    return res


def state(objs):
    return " ".join(h(o._position)[-6:] + "/" + h(o._orientation.as_quat())[-6:] for o in objs)


rot3 = R.from_euler("xyz", [(10, 20, 30), (40, 50, 60), (70, 80, 90)], degrees=True)
pos3 = [(1, 2, 3), (2, 3, 4), (3, 4, 5)]
pix1 = (0.1, 0.2, 0.3)
pix13 = [(0.1, 0.2, 0.3)]
pix2 = [(0.1, 0.2, 0.3), (0.4, 0.5, 0.6)]
pix23 = np.arange(18).reshape(2, 3, 3) / 10.0
pix1213 = np.arange(6).reshape(1, 2, 1, 3) / 3.0
pix2213 = np.arange(12).reshape(2, 2, 1, 3) / 7.0

SENS = {
    "nopix": magpy.Sensor(position=(1, 2, 3)),
    "nopix path": magpy.Sensor(position=pos3, orientation=rot3),
    "(3,)": magpy.Sensor(pixel=pix1, orientation=rot3[0]),
    "(1,3)": magpy.Sensor(pixel=pix13, position=pos3),
    "(2,3)": magpy.Sensor(pixel=pix2, position=(0.3, 0.2, 0.1), orientation=rot3[1]),
    "(2,3) path left": magpy.Sensor(pixel=pix2, position=pos3, orientation=rot3, handedness="left"),
    "(2,3,3)": magpy.Sensor(pixel=pix23, position=pos3[:2], orientation=rot3[:2]),
    "(1,2,1,3)": magpy.Sensor(pixel=pix1213),
    "(2,2,1,3)": magpy.Sensor(pixel=pix2213, position=pos3),
}

cub = magpy.magnet.Cuboid(polarization=(0.1, 0.2, 0.3), dimension=(1, 2, 3), position=(0.5, 0.1, -0.2))
cub.rotate_from_angax([10, 20, 30, 40], "y", start=0)
circ = magpy.current.Circle(current=2, diameter=3, position=(0, 0, -1))
dip = magpy.misc.Dipole(moment=(1, 2, 3), position=(3, 3, 3))
coll = magpy.Collection(circ.copy(), dip.copy())
SOURCES = {"cub": cub, "circ": circ, "[cub, circ]": [cub, circ], "[circ, coll, dip]": [circ, coll, dip]}
AGGS = (None, "mean", "max", "min", "sum", "std", "median", "ptp", "prod", "amax")

print("== one sensor: every pixel shape x pixel_agg x squeeze x source list")
for sname, sens in SENS.items():
    before = state([sens, cub, circ, dip])
    for srcname, src in SOURCES.items():
        for agg in AGGS:
            for squeeze in (True, False):
                attempt(f"[{sname}] {srcname} agg={agg} squeeze={squeeze}", magpy.getB, src, sens, pixel_agg=agg,
                        squeeze=squeeze)
        attempt(f"[{sname}] {srcname} sumup nosqueeze", magpy.getH, src, sens, sumup=True, squeeze=False)
        attempt(f"[{sname}] {srcname} sumup agg nosqueeze", magpy.getH, src, sens, sumup=True, squeeze=False, pixel_agg="mean")
        attempt(f"[{sname}] {srcname} dataframe", magpy.getB, src, sens, output="dataframe")
        attempt(f"[{sname}] {srcname} dataframe agg", magpy.getJ, src, sens, output="dataframe", pixel_agg="max")
        attempt(f"[{sname}] {srcname} dataframe nosqueeze", magpy.getM, src, sens, output="dataframe", squeeze=False)
    attempt(f"[{sname}] sens.getB(cub)", sens.getB, cub)
    attempt(f"[{sname}] sens.getB(cub, agg)", sens.getB, cub, circ, pixel_agg="mean", squeeze=False)
    attempt(f"[{sname}] cub.getH(sens)", cub.getH, sens, squeeze=False)
    print("     state unchanged:", before == state([sens, cub, circ, dip]))

print("== position vectors")
for shape in ((3,), (1, 3), (2, 3), (2, 2, 3), (1, 1, 1, 3), (4, 1, 3)):
    o = (np.arange(int(np.prod(shape))).reshape(shape) + 1) / 7.0
    for agg in (None, "mean"):
        for squeeze in (True, False):
            attempt(f"posvec{shape} agg={agg} squeeze={squeeze}", magpy.getB, [cub, circ], o, pixel_agg=agg, squeeze=squeeze)
    attempt(f"posvec{shape} dataframe", cub.getB, o, output="dataframe")

print("== several sensors with the same pixel shape")
same = {
    "two (2,3)": [SENS["(2,3)"], SENS["(2,3) path left"]],
    "three one-pixel": [SENS["nopix"], SENS["(3,)"], SENS["(1,3)"], SENS["nopix path"]],
    "(2,3) + posvec": [SENS["(2,3)"], np.array(pix2) + 1],
    "duplicates": [SENS["(2,3,3)"], SENS["(2,3,3)"]],
}
for name, group in same.items():
    for agg in (None, "mean", "std"):
        for squeeze in (True, False):
            attempt(f"[{name}] agg={agg} squeeze={squeeze}", magpy.getB, [cub, coll], group, pixel_agg=agg, squeeze=squeeze)
    attempt(f"[{name}] dataframe", magpy.getH, cub, group, output="dataframe")
    attempt(f"[{name}] dataframe agg", magpy.getH, cub, group, output="dataframe", pixel_agg="min")
    attempt(f"[{name}] sumup", magpy.getH, [cub, circ], group, sumup=True)
    sens_objs = [s.copy() for s in group if isinstance(s, magpy.Sensor)]
    scol = magpy.Collection(*sens_objs)
    attempt(f"[{name}] sensor collection", scol.getB, cub, pixel_agg=None)
    attempt(f"[{name}] sensor collection agg", scol.getB, cub, pixel_agg="mean", squeeze=False)

print("== sensors with different pixel shapes (only with pixel_agg)")
mixed = {
    "nopix + (2,3)": [SENS["nopix"], SENS["(2,3)"]],
    "(2,3) + (2,3,3) + (1,2,1,3)": [SENS["(2,3)"], SENS["(2,3,3)"], SENS["(1,2,1,3)"]],
    "all": list(SENS.values()),
    "(3,) + posvec(4,3)": [SENS["(3,)"], np.ones((4, 3))],
    "(1,3) + (3,)": [SENS["(1,3)"], SENS["(3,)"]],  # both count as (1,3)
}
for name, group in mixed.items():
    for agg in AGGS:
        for squeeze in (True, False):
            attempt(f"[{name}] agg={agg} squeeze={squeeze}", magpy.getB, [cub, coll], group, pixel_agg=agg, squeeze=squeeze)
    attempt(f"[{name}] dataframe agg", magpy.getH, cub, group, output="dataframe", pixel_agg="mean")
    attempt(f"[{name}] sumup agg", magpy.getH, [cub, circ], group, sumup=True, pixel_agg="mean", squeeze=False)
    attempt(f"[{name}] cub.getB(*group)", cub.getB, *group, pixel_agg="max")

print("== error paths")
attempt("pixel_agg not a numpy function", magpy.getB, cub, SENS["(2,3)"], pixel_agg="nope")
attempt("pixel_agg does not reduce", magpy.getB, cub, SENS["(2,3)"], pixel_agg="array")
attempt("pixel_agg cumsum (does not reduce)", magpy.getB, cub, SENS["(2,3)"], pixel_agg="cumsum")
attempt("pixel_agg not a str", magpy.getB, cub, SENS["(2,3)"], pixel_agg=np.mean)
attempt("pixel_agg argmax (int result)", magpy.getB, cub, [SENS["(2,3)"], SENS["nopix"]], pixel_agg="argmax")
attempt("pixel_agg argmax same shapes", magpy.getB, cub, SENS["(2,3)"], pixel_agg="argmax")
attempt("pixel_agg all (bool result)", magpy.getB, cub, [SENS["(2,3)"], SENS["nopix"]], pixel_agg="all", squeeze=False)
attempt("bad output", magpy.getB, cub, SENS["(2,3)"], output="nope")
attempt("failing field function", magpy.getB, magpy.misc.CustomSource(field_func=flaky),
        [SENS["(2,3)"], SENS["nopix path"]], pixel_agg="mean")
print("     state after errors:", state(list(SENS.values()) + [cub, circ, dip]))
