import os, sys; sys.path.insert(0, os.getcwd())

# Exercises the path padding behind move() / rotate() (used for every later path
# operation on an original or a copy, and by the `orientation` setter of a collection,
# which rotates the children with start=0): the pure parameter function on a grid of
# inputs (values AND types), then move / rotate on objects, collections and copies.
import itertools
import warnings

import numpy as np
from scipy.spatial.transform import Rotation as R

import magpylib as magpy
from magpylib._src.obj_classes.class_BaseTransform import path_padding
from magpylib._src.obj_classes.class_BaseTransform import path_padding_param

warnings.simplefilter("ignore")


def r(a):
    return (np.round(np.asarray(a, dtype=float), 9) + 0.0).tolist()


def typed(x):
    if isinstance(x, (tuple, list)):
        return type(x).__name__, [typed(v) for v in x]
    return type(x).__name__, x if isinstance(x, str) else int(x)


def attempt(label, func):
    try:
        print(label, "->", func())
    except BaseException as err:  # noqa
        print(label, "-> raised", type(err).__name__, "|", str(err).replace("\n", " / "))


# 1. the parameter function
starts = ["auto", 0, 1, 2, 3, 5, 8, -1, -2, -3, -4, -7, np.int64(2), np.int64(-5), np.int32(0), True]
for scalar, lenop, lenip, start in itertools.product([True, False], [1, 3], [1, 2, 4], starts):
    attempt(
        f"param {scalar} {lenop} {lenip} {start!r}",
        lambda: typed(path_padding_param(scalar, lenop, lenip, start)),
    )
attempt("param bad start", lambda: path_padding_param(True, 3, 1, "other"))
attempt("param None start", lambda: path_padding_param(False, 3, 2, None))

# 2. path_padding on an object
for inpath, start in itertools.product(
    [np.array([1.0, 2.0, 3.0]), np.array([[1.0, 2.0, 3.0]]), np.arange(9.0).reshape(3, 3)],
    ["auto", 0, 1, 4, -1, -6],
):
    obj = magpy.Sensor(position=[(1, 1, 1), (2, 2, 2)])
    ppath, opath, st, end, padded = path_padding(inpath, start, obj)
    print(
        "padding", inpath.shape, start, r(ppath), r(opath), typed(st), typed(end), padded,
        ppath is obj._position,
    )


# 3. move / rotate on objects, collections and copies
def state(o):
    out = [type(o).__name__, r(o._position), r(o._orientation.as_quat())]
    if isinstance(o, magpy.Collection):
        out.append([state(c) for c in o.children])
    return out


def make_tree():
    s1 = magpy.magnet.Cuboid(
        polarization=(0, 0, 1), dimension=(1, 2, 3), position=[(1, 0, 0), (2, 0, 0), (3, 0, 0)]
    )
    x1 = magpy.Sensor(position=(0, 0, 2))
    inner = magpy.Collection(x1, position=(0.5, 0.5, 0.5))
    outer = magpy.Collection(s1, inner, position=[(0, 0, 0), (0, 0, 1)])
    return outer, inner, s1, x1


for start in ["auto", 0, 2, 5, -1, -7]:
    for disp in [(0, 0, 1), [(0, 0, 1), (0, 0, 2)]]:
        outer, inner, s1, x1 = make_tree()
        before = state(outer)
        cp = outer.copy()
        cp.move(disp, start=start)
        print("move copy", start, np.shape(disp), state(cp), state(outer) == before)
        s1.move(disp, start=start)
        print("move child", start, np.shape(disp), state(outer))
    for ang in [30, [10, 20, 30]]:
        for anchor in [None, 0, (1, 1, 1)]:
            outer, inner, s1, x1 = make_tree()
            before = state(outer)
            cp = outer.copy()
            cp.rotate_from_angax(ang, "z", anchor=anchor, start=start)
            print("rot copy", start, ang, anchor, state(cp), state(outer) == before)
            inner.rotate_from_angax(ang, "y", anchor=anchor, start=start)
            print("rot inner", start, ang, anchor, state(outer))
outer, inner, s1, x1 = make_tree()
outer.orientation = R.from_rotvec([(0, 0, 0.1), (0, 0, 0.2), (0, 0, 0.3), (0, 0, 0.4)])
print("orientation setter on tree", state(outer))
before = state(outer)
for bad in ["first", 1.5, None, (1,)]:
    attempt(f"move bad start {bad!r}", lambda: outer.move((1, 1, 1), start=bad))
    attempt(f"rotate bad start {bad!r}", lambda: outer.rotate_from_angax(10, "x", start=bad))
    print("   unchanged", state(outer) == before)
