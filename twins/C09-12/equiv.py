import os, sys; sys.path.insert(0, os.getcwd())
# Equivalence digest for twins3/2 (path_padding returns a NamedTuple record,
# apply_move / apply_rotation read its fields).
import warnings

import numpy as np
from scipy.spatial.transform import Rotation as R

import magpylib as magpy
from magpylib._src.obj_classes import class_BaseTransform as bt

warnings.simplefilter("ignore")


def dig(a):
    return (np.round(np.asarray(a, dtype=float), 9) + 0.0).tolist()


def state(obj):
    return dig(obj._position), dig(obj._orientation.as_quat())


def tree_state(obj):
    out = [state(obj)]
    for child in getattr(obj, "children", []):
        out.extend(tree_state(child))
    return out


def show(tag, fn):
    try:
        print(tag, "->", fn())
    except BaseException as err:  # pylint: disable=broad-except
        print(tag, "-> EXC", type(err).__name__, str(err)[:150])


def sensor(n):
    s = magpy.Sensor(position=[(1 + i, 2 * i, -i) for i in range(n)])
    s.rotate_from_angax([7 * (i + 1) for i in range(n)], (1, 1, 0), start=0)
    return s


def tree():
    inner = magpy.Collection(sensor(2), position=[(0, 0, 1), (0, 1, 1), (1, 1, 1)])
    return magpy.Collection(inner, sensor(1), position=(3, 2, 1))


STARTS = ("auto", -7, -4, -2, -1, 0, 1, 2, 5, np.int64(-3), np.int32(3), True, False)
INPUTS = {
    "s3": np.array((1.0, 2.0, 3.0)),
    "v1": np.array([(1.0, 2.0, 3.0)]),
    "v2": np.array([(1.0, 0, 0), (0, 2.0, 0)]),
    "v4": np.arange(12.0).reshape(4, 3),
    "q": np.array((0.0, 0, 0, 1)),
    "q3": np.array([(0.0, 0, 0, 1)] * 3),
    "v0": np.zeros((0, 3)),
}

# 1) path_padding called directly: result used as a 5-tuple (unpacking, indexing)
for n in (1, 2, 4):
    for ik, inp in INPUTS.items():
        for start in STARTS:
            s = sensor(n)

            def run(s=s, inp=inp, start=start):
                res = bt.path_padding(inp, start, s)
                ppath, opath, newstart, end, padded = res
                return (
                    isinstance(res, tuple), len(res), dig(ppath), dig(opath),
                    repr(newstart), type(newstart).__name__, repr(end), type(end).__name__,
                    padded, type(padded).__name__, res[0] is ppath, res[-1] is padded,
                    "same_pos", ppath is s._position,
                    "base_pos", ppath.base is s._position,
                )

            show(f"pp n={n} in={ik} st={start!r}", run)
            print("   ", state(s))
show("pp 0-d", lambda: bt.path_padding(np.float64(1.0), 0, sensor(1)))
show("pp bad start", lambda: bt.path_padding(INPUTS["v2"], "x", sensor(1)))
show("pp None start", lambda: bt.path_padding(INPUTS["v2"], None, sensor(1)))
show("pp float start", lambda: tuple(map(repr, bt.path_padding(INPUTS["v2"], 1.0, sensor(1))[2:])))
show("pp no object", lambda: bt.path_padding(INPUTS["v2"], 0, object()))

DISPS = {
    "scalar": (1, 2, 3),
    "one": [(1, 2, 3)],
    "two": [(1, 0, 0), (0, 2, 0)],
    "four": [(1, 0, 0), (0, 2, 0), (0, 0, 3), (4, 4, 4)],
}
ANCHORS = {
    "none": None,
    "zero": 0,
    "single": (1, -1, 2),
    "two": [(1, 0, 0), (0, 2, 0)],
    "three": [(1, 0, 0), (0, 2, 0), (0, 0, 3)],
}
ROTS = {
    "scalar": R.from_rotvec((0.1, -0.2, 0.3)),
    "one": R.from_rotvec([(0.1, -0.2, 0.3)]),
    "two": R.from_euler("xy", [(10, 20), (30, 40)], degrees=True),
    "three": R.from_rotvec([(0, 0, 0.25), (0, 0.5, 0), (0.75, 0, 0.1)]),
    "None": None,
}

# 2) move: displacement x start x path length, identity of the stored arrays
for n in (1, 2, 3):
    for dk, disp in DISPS.items():
        for start in STARTS:
            for direct in (False, True):
                s = sensor(n)
                pos0, ori0 = s._position, s._orientation
                if direct:
                    fn = lambda s=s, disp=disp, start=start: bt.apply_move(s, disp, start) is s
                else:
                    fn = lambda s=s, disp=disp, start=start: s.move(disp, start=start) is s
                show(f"move n={n} d={dk} st={start!r} direct={direct}", fn)
                print(
                    "   ", state(s), "same_pos", s._position is pos0,
                    "same_ori", s._orientation is ori0, dig(pos0),
                )

# 3) rotate: rotation x anchor x start x path length
for n in (1, 3):
    for rk, rot in ROTS.items():
        for ak, anc in ANCHORS.items():
            for start in STARTS:
                s = sensor(n)
                pos0, ori0 = s._position, s._orientation
                show(
                    f"rot n={n} r={rk} a={ak} st={start!r}",
                    lambda s=s, rot=rot, anc=anc, start=start: (
                        s.rotate(rot, anchor=anc, start=start) is s
                    ),
                )
                print(
                    "   ", state(s), "same_pos", s._position is pos0,
                    "same_ori", s._orientation is ori0, dig(pos0),
                )

# 4) apply_rotation with an explicit parent_path (compound anchor)
for n in (1, 2, 4):
    for rk, rot in ROTS.items():
        for plen in (1, 2, 5):
            for start in ("auto", -6, -1, 0, 2, 5):
                s = sensor(n)
                pp = np.array([(0.5 * k, 1.0, -k) for k in range(plen)], dtype=float)
                pp0 = pp.copy()
                show(
                    f"apply n={n} r={rk} plen={plen} st={start}",
                    lambda s=s, rot=rot, pp=pp, start=start: bt.apply_rotation(
                        s, rot, anchor=None, start=start, parent_path=pp
                    )
                    is s,
                )
                print("   ", state(s), "parent untouched", np.array_equal(pp, pp0))

# 5) Collections
for start in ("auto", -4, -1, 0, 1, 3):
    for rk, rot in ROTS.items():
        for ak in ("none", "zero", "single", "two"):
            col = tree()
            show(
                f"coll r={rk} a={ak} st={start}",
                lambda col=col, rot=rot, ak=ak, start=start: (
                    col.rotate(rot, anchor=ANCHORS[ak], start=start) is col
                ),
            )
            print("   ", tree_state(col))
    for dk, disp in DISPS.items():
        col = tree()
        show(
            f"coll move d={dk} st={start}",
            lambda col=col, disp=disp, start=start: col.move(disp, start=start) is col,
        )
        print("   ", tree_state(col))

# 6) a sequence of operations
s = magpy.Sensor()
s.move([(1, 0, 0), (2, 0, 0)]).rotate_from_angax([10, 20, 30], "z", anchor=0, start=1)
s.move((0, 0, 1), start=-2).rotate_from_rotvec((0, 0.2, 0), degrees=False, start=-9)
s.move([(1, 1, 1)] * 3, start=-8).rotate(R.from_quat([(0, 0, 1, 1)] * 2), anchor=[(1, 0, 0)] * 4)
s.position = [(0, 0, 0)] * 2
s.move([(1, 2, 3)] * 3, start=1)
print("sequence", state(s))

# 7) rejected calls change nothing
for make in (lambda: sensor(2), tree):
    obj = make()
    ref = tree_state(obj)
    for tag, kw in {
        "bad rot": dict(rotation=(1, 2, 3)),
        "bad anchor str": dict(rotation=ROTS["scalar"], anchor="x"),
        "bad anchor shape": dict(rotation=ROTS["scalar"], anchor=(1, 2)),
        "bad anchor 1": dict(rotation=ROTS["scalar"], anchor=1),
        "bad start": dict(rotation=ROTS["scalar"], start=1.5),
        "bad start str": dict(rotation=ROTS["scalar"], start="end"),
        "bad start None": dict(rotation=ROTS["two"], start=None),
    }.items():
        show(tag, lambda kw=kw, obj=obj: obj.rotate(**kw) is obj)
        print("    unchanged", tree_state(obj) == ref)
    for tag, kw in {
        "bad disp str": dict(displacement="abc"),
        "bad disp shape": dict(displacement=(1, 2)),
        "bad disp 3d": dict(displacement=np.zeros((2, 2, 3))),
        "bad disp None": dict(displacement=None),
        "bad start": dict(displacement=(1, 2, 3), start=1.5),
        "bad start str": dict(displacement=[(1, 2, 3)], start="end"),
        "bad both": dict(displacement=(1, 2), start="end"),
    }.items():
        show(tag, lambda kw=kw, obj=obj: obj.move(**kw) is obj)
        print("    unchanged", tree_state(obj) == ref)
s = sensor(2)
show("empty disp", lambda: s.move(np.zeros((0, 3))) is s)
print("    state", state(s))
show("empty disp start", lambda: s.move(np.zeros((0, 3)), start=-5) is s)
print("    state", state(s))
show("empty anchor", lambda: s.rotate(ROTS["two"], anchor=np.zeros((0, 3)), start=0))
print("    state", state(s))
show("0-d displacement direct", lambda: bt.apply_move(s, np.float64(3.0)))
print("    state", state(s))
show("no path move", lambda: bt.apply_move(object(), (1, 2, 3)))
show("no path rot", lambda: bt.apply_rotation(object(), ROTS["scalar"]))
