import os, sys; sys.path.insert(0, os.getcwd())
# equivalence digest for twins5/5: check_dimensions / check_excitations (input_checks.py)
import hashlib
import re
import warnings

import numpy as np

import magpylib as magpy
from magpylib._src.input_checks import check_dimensions, check_excitations

warnings.simplefilter("ignore")
LOG = []


def clean(txt):
    return re.sub(r"id=\d+|0x[0-9a-f]+", "#", str(txt))


def h(a):
    a = np.ascontiguousarray(np.asarray(a, dtype=float))
    return hashlib.sha1(a.tobytes()).hexdigest()[:10] + str(a.shape)


def make_duck(name, **props):
    """object whose attributes are logged properties; value `RAISE:<exc>` raises, `MISSING` means AttributeError"""
    ns = {"__repr__": lambda self: f"Duck({name})"}
    for attr, val in props.items():
        def getter(self, attr=attr, val=val):
            LOG.append(f"{name}.{attr}")
            if isinstance(val, BaseException):
                raise val
            return val
        ns[attr] = property(getter)
    return type("Duck", (), ns)()


def run(tag, func, arg):
    LOG.clear()
    try:
        res = func(arg)
        print(f"[{tag}] -> {res!r} log={LOG}")
    except BaseException as e:  # noqa
        print(f"[{tag}] {type(e).__name__}: {clean(e.args)} ctx={type(e.__context__).__name__} cause={type(e.__cause__).__name__} log={LOG}")


class StrFails:
    dimension = None
    polarization = None

    def __str__(self):
        raise RuntimeError("no str")


ducks = {
    "empty": [],
    "tuple-empty": (),
    "plain-object": [object()],
    "all-set": [make_duck("a", dimension=1, diameter=None, vertices=None, polarization=2, current=None, moment=None)],
    "second-attr": [make_duck("b", diameter=None, vertices=3, current=None, moment=3)],
    "third-attr": [make_duck("c", vertices=None, moment=None)],
    "first-none": [make_duck("d", dimension=None, diameter=5, polarization=None, current=5)],
    "zero-values": [make_duck("e", dimension=0, polarization=0.0), make_duck("f", diameter=False, current=False), make_duck("g", vertices=(), moment="")],
    "array-values": [make_duck("h", dimension=np.zeros(3), polarization=np.zeros(3))],
    "two-sources-second-bad": [make_duck("i", dimension=1, polarization=1), make_duck("j", dimension=None, polarization=None), make_duck("k", dimension=None, polarization=None)],
    "attrerror-prop": [make_duck("l", dimension=AttributeError("hidden"), diameter=None, polarization=AttributeError("hidden"), current=None)],
    "valueerror-prop": [make_duck("m", dimension=ValueError("boom"), polarization=ValueError("boom"))],
    "stopiteration-prop": [make_duck("n", diameter=StopIteration("si"), current=StopIteration("si"))],
    "kbd-prop": [make_duck("o", vertices=KeyboardInterrupt(), moment=KeyboardInterrupt())],
    "generator": (x for x in [make_duck("p", dimension=1, polarization=1), make_duck("q", diameter=None, current=None)]),
    "str-fails": [StrFails()],
    "not-iterable": 5,
    "none": None,
    "string": "ab",
    "dict": {"dimension": None},
}
for name, arg in ducks.items():
    if name == "generator":
        run(f"dim/{name}", check_dimensions, arg)
        arg2 = (x for x in [make_duck("p", dimension=1, polarization=1), make_duck("q", diameter=None, current=None)])
        run(f"exc/{name}", check_excitations, arg2)
        continue
    run(f"dim/{name}", check_dimensions, arg)
    run(f"exc/{name}", check_excitations, arg)


# flaky property: different value on each read (number of reads matters)
class Flaky:
    def __init__(self):
        self.reads = 0

    @property
    def dimension(self):
        self.reads += 1
        return None if self.reads % 2 == 0 else 1.0

    @property
    def current(self):
        self.reads += 1
        return None if self.reads % 3 == 0 else 1.0

    def __repr__(self):
        return "Flaky"


fl = Flaky()
for i in range(4):
    run(f"flaky-dim-{i}", check_dimensions, [fl])
    run(f"flaky-exc-{i}", check_excitations, [fl])
    print("   reads:", fl.reads)

# real sources
M = magpy.magnet
mesh_args = dict(vertices=[(0, 0, 0), (1, 0, 0), (0, 1, 0), (0, 0, 1)], faces=[(0, 1, 2), (0, 1, 3), (0, 2, 3), (1, 2, 3)])
SRC = {
    "cuboid": (M.Cuboid, dict(polarization=(0, 0, 1)), dict(dimension=(1, 1, 1))),
    "cylinder": (M.Cylinder, dict(polarization=(0, 0, 1)), dict(dimension=(1, 1))),
    "cylseg": (M.CylinderSegment, dict(polarization=(0, 0, 1)), dict(dimension=(1, 2, 1, 0, 90))),
    "sphere": (M.Sphere, dict(polarization=(0, 0, 1)), dict(diameter=1)),
    "tetra": (M.Tetrahedron, dict(polarization=(0, 0, 1)), dict(vertices=[(0, 0, 0), (1, 0, 0), (0, 1, 0), (0, 0, 1)])),
    "circle": (magpy.current.Circle, dict(current=1), dict(diameter=1)),
    "polyline": (magpy.current.Polyline, dict(current=1), dict(vertices=[(0, 0, 0), (1, 1, 1)])),
    "triangle": (magpy.misc.Triangle, dict(polarization=(0, 0, 1)), dict(vertices=[(0, 0, 0), (1, 0, 0), (0, 1, 0)])),
    "dipole": (magpy.misc.Dipole, dict(moment=(1, 0, 0)), dict()),
    "custom": (magpy.misc.CustomSource, dict(), dict()),
}
sens = magpy.Sensor(position=[(0, 0, 3), (0, 0, 4)], pixel=[(0, 0, 0), (0, 0, 1)])
good = M.Cuboid(polarization=(1, 0, 0), dimension=(1, 2, 3), position=(1, 1, 1))


def geo(o):
    return (h(o._position), h(o._orientation.as_quat()), id(o._orientation), id(o._parent))


for name, (cls, exc, dim) in SRC.items():
    for variant, kw in (("full", {**exc, **dim}), ("no-dim", exc), ("no-exc", dim), ("nothing", {})):
        try:
            src = cls(**kw)
        except BaseException as e:  # noqa
            print(f"[real/{name}/{variant}] ctor {type(e).__name__}: {clean(e)}")
            continue
        run(f"real/{name}/{variant}/dim", check_dimensions, [good, src])
        run(f"real/{name}/{variant}/exc", check_excitations, [good, src])
        for fname in ("getB", "getH"):
            st = [geo(o) for o in (good, src, sens)]
            for rep in range(2):
                try:
                    r = getattr(magpy, fname)([good, src], sens)
                    print(f"[real/{name}/{variant}/{fname}{rep}] ok {h(r)}")
                except BaseException as e:  # noqa
                    print(f"[real/{name}/{variant}/{fname}{rep}] {type(e).__name__}: {clean(e.args)}")
            print(f"[real/{name}/{variant}/{fname}] state_same={st == [geo(o) for o in (good, src, sens)]}")

# triangular mesh + collection + order of the two checks
try:
    tm = M.TriangularMesh(**mesh_args)
    run("real/mesh/no-exc/dim", check_dimensions, [tm])
    run("real/mesh/no-exc/exc", check_excitations, [tm])
    try:
        magpy.getB(tm, sens)
    except BaseException as e:  # noqa
        print("[real/mesh/getB]", type(e).__name__, clean(e.args))
except BaseException as e:  # noqa
    print("[real/mesh] ctor", type(e).__name__, clean(e))
no_dim = M.Cuboid(polarization=(0, 0, 1))
no_exc = M.Sphere(diameter=1)
neither = M.Cylinder()
for tag, srcs in (("exc-first-in-list", [no_exc, no_dim]), ("neither", [neither]), ("in-collection", [magpy.Collection(good, magpy.Collection(no_exc)), no_dim]), ("late", [good] * 5 + [no_exc])):
    for fname in ("getB", "getH", "getJ", "getM"):
        try:
            getattr(magpy, fname)(srcs, sens)
            print(f"[order/{tag}/{fname}] ok")
        except BaseException as e:  # noqa
            print(f"[order/{tag}/{fname}] {type(e).__name__}: {clean(e.args)}")
print("[order] sensor state", h(sens._position), h(sens._pixel), len(sens._orientation))
try:
    no_dim.getB(sens)
except BaseException as e:  # noqa
    print("[method]", type(e).__name__, clean(e.args))
try:
    sens.getH(no_exc, good)
except BaseException as e:  # noqa
    print("[method]", type(e).__name__, clean(e.args))
