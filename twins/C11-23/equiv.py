import os, sys; sys.path.insert(0, os.getcwd())
# Deterministic digest of collection-tree behaviour (labels only, ids stripped).
import re

import magpylib as magpy

VIEWS = (
    "children",
    "sources",
    "sensors",
    "collections",
    "children_all",
    "sources_all",
    "sensors_all",
    "collections_all",
)


def lab(o):
    if o is None:
        return None
    try:
        return o.style.label
    except Exception:  # not a magpylib object
        return repr(o)


def make():
    objs = {}
    for n in ("s1", "s2", "s3"):
        objs[n] = magpy.magnet.Sphere(
            polarization=(0, 0, 1), diameter=1, style_label=n
        )
    objs["c1"] = magpy.current.Circle(current=1, diameter=1, style_label="c1")
    for n in ("x1", "x2"):
        objs[n] = magpy.Sensor(style_label=n)
    for n in ("A", "B", "C", "D"):
        objs[n] = magpy.Collection(style_label=n)
    return objs


def dump(objs, extra=()):
    for n, o in list(objs.items()) + list(extra):
        line = f"    {n}: parent={lab(o.parent)}"
        if isinstance(o, magpy.Collection):
            for attr in VIEWS:
                line += f" {attr}={[lab(c) for c in getattr(o, attr)]}"
            line += f" len={len(o)} iter={[lab(c) for c in o]}"
        print(line)


def attempt(name, fn, objs=None, extra=()):
    try:
        res = fn()
        print(f"{name}: ok -> {type(res).__name__} {lab(res) if hasattr(res, 'style') else res!r}")
    except BaseException as e:  # pylint: disable=broad-except
        msg = re.sub(r"id=\d+", "id=#", str(e))
        msg = re.sub(r"0x[0-9a-f]+", "0x#", msg)
        print(f"{name}: EXC {type(e).__name__}: {msg!r}")
    if objs is not None:
        dump(objs, extra)


def base_tree():
    """A[s1, x1, B[s2, x2, C[s3]], c1], D[]"""
    o = make()
    o["C"].add(o["s3"])
    o["B"].add(o["s2"], o["x2"], o["C"])
    o["A"].add(o["s1"], o["x1"], o["B"], o["c1"])
    return o


def setattr_(obj, name, val):
    setattr(obj, name, val)
    return None


print("== build")
o = base_tree()
dump(o)

print("== add: flat list / tuple / star / nested-list / empty")
o = make()
attempt("add list", lambda: o["A"].add([o["s1"], o["x1"]]), o)
attempt("add tuple", lambda: o["A"].add((o["s2"], o["B"])), o)
attempt("add star", lambda: o["A"].add(o["s3"], o["x2"]), o)
attempt("add nothing", lambda: o["A"].add(), o)
attempt("add empty list", lambda: o["A"].add([]), o)
attempt("add nested list", lambda: o["D"].add([[o["c1"]]]), o)
attempt("add two lists", lambda: o["D"].add([o["c1"]], [o["C"]]), o)
attempt("add str", lambda: o["D"].add("abc"), o)
attempt("add int", lambda: o["D"].add(1), o)
attempt("add None", lambda: o["D"].add(None), o)
attempt("add good then bad type", lambda: o["D"].add(o["c1"], 7), o)

print("== add: rejections (self reference, parent, duplicates, part-way)")
o = base_tree()
attempt("add self", lambda: o["A"].add(o["A"]), o)
attempt("add ancestor", lambda: o["C"].add(o["A"]), o)
attempt("add ancestor override", lambda: o["C"].add(o["A"], override_parent=True), o)
attempt("add has parent", lambda: o["D"].add(o["s3"]), o)
attempt("add partway parent", lambda: o["D"].add(magpy.Sensor(style_label="tmp"), o["s3"]), o)
attempt("add dup", lambda: o["D"].add(o["D"].__class__(style_label="E"), o["s3"], o["s3"], override_parent=True), o)
attempt("add own child again", lambda: o["A"].add(o["s1"]), o)
attempt("add own child override", lambda: o["A"].add(o["s1"], override_parent=True), o)
attempt("add override move", lambda: o["D"].add(o["s3"], o["B"], override_parent=True), o)
attempt("add self+parented, no override", lambda: o["D"].add(o["x1"], o["D"]), o)
attempt("add cycle + dup", lambda: o["C"].add(o["c1"], o["c1"], o["A"], override_parent=True), o)

print("== constructor / __add__")
o = base_tree()
attempt("Collection(parented)", lambda: magpy.Collection(o["s1"], style_label="N"), o)
attempt("Collection(parented, override)", lambda: magpy.Collection(o["s1"], override_parent=True, style_label="N"), o)
attempt("s2 + x1", lambda: o["s2"] + o["x1"], o)
o = make()
r = {}
attempt("free +", lambda: r.setdefault("sum", o["s1"] + o["x1"] + o["A"]), o)
dump({}, [("sum", r["sum"]), ("sum[0]", r["sum"][0])])

print("== remove")
o = base_tree()
attempt("remove deep recursive", lambda: o["A"].remove(o["s3"]), o)
attempt("remove deep again raise", lambda: o["A"].remove(o["s3"]), o)
attempt("remove deep again ignore", lambda: o["A"].remove(o["s3"], errors="ignore"), o)
attempt("remove bad errors arg", lambda: o["A"].remove(o["s3"], errors="nope"), o)
attempt("remove bad errors arg but found", lambda: o["A"].remove(o["s1"], errors="nope"), o)
attempt("remove non-recursive deep", lambda: o["A"].remove(o["s2"], recursive=False), o)
attempt("remove non-recursive deep ignore", lambda: o["A"].remove(o["s2"], recursive=False, errors="ignore"), o)
attempt("remove list", lambda: o["A"].remove([o["x1"], o["x2"]]), o)
attempt("remove tuple partway", lambda: o["A"].remove((o["c1"], o["s3"], o["s2"])), o)
attempt("remove parent then child", lambda: o["A"].remove(o["B"], o["s2"], errors="ignore"), o)
attempt("remove bad type", lambda: o["A"].remove(3), o)
attempt("remove nothing", lambda: o["A"].remove(), o)
attempt("remove self", lambda: o["A"].remove(o["A"]), o)
o = base_tree()
attempt("remove parent then child raise", lambda: o["A"].remove(o["B"], o["s2"]), o)
attempt("remove same twice", lambda: o["B"].remove(o["s2"], o["s2"]), o)
attempt("remove nested list", lambda: o["B"].remove([[o["s2"]]]), o)

print("== parent setter")
o = base_tree()
attempt("parent=None", lambda: setattr_(o["s3"], "parent", None), o)
attempt("parent=None again", lambda: setattr_(o["s3"], "parent", None), o)
attempt("parent=D", lambda: setattr_(o["s3"], "parent", o["D"]), o)
attempt("parent=same", lambda: setattr_(o["s3"], "parent", o["D"]), o)
attempt("parent=other", lambda: setattr_(o["s3"], "parent", o["A"]), o)
attempt("parent=str", lambda: setattr_(o["s3"], "parent", "A"), o)
attempt("parent=0", lambda: setattr_(o["s3"], "parent", 0), o)
attempt("parent=sensor", lambda: setattr_(o["s3"], "parent", o["x1"]), o)
attempt("coll parent=self", lambda: setattr_(o["A"], "parent", o["A"]), o)
attempt("coll parent=descendant", lambda: setattr_(o["A"], "parent", o["C"]), o)
attempt("coll parent=None", lambda: setattr_(o["B"], "parent", None), o)
attempt("coll parent=D", lambda: setattr_(o["B"], "parent", o["D"]), o)
attempt("getter", lambda: lab(o["x2"].parent))

print("== typed setters")
o = base_tree()
attempt("A.sources=[s3]", lambda: setattr_(o["A"], "sources", [o["s3"]]), o)
attempt("A.sources=C (flattened)", lambda: setattr_(o["A"], "sources", o["B"]), o)
attempt("A.sources=bad", lambda: setattr_(o["A"], "sources", 5), o)
attempt("A.sources=[x1] (filtered)", lambda: setattr_(o["A"], "sources", [o["x1"]]), o)
attempt("A.sensors=[x2, x1]", lambda: setattr_(o["A"], "sensors", [o["x2"], o["x1"]]), o)
attempt("A.sensors=x2 dup", lambda: setattr_(o["A"], "sensors", [o["x2"], o["x2"]]), o)
attempt("A.sensors=()", lambda: setattr_(o["A"], "sensors", ()), o)
attempt("A.sensors=bad", lambda: setattr_(o["A"], "sensors", "q"), o)
o = base_tree()
attempt("A.collections=[D, C]", lambda: setattr_(o["A"], "collections", [o["D"], o["C"]]), o)
attempt("A.collections=[A]", lambda: setattr_(o["A"], "collections", [o["A"]]), o)
attempt("B.collections=[A]", lambda: setattr_(o["D"], "collections", [o["D"], o["B"]]), o)
attempt("A.collections=bad", lambda: setattr_(o["A"], "collections", [1]), o)
attempt("A.collections=[s1]", lambda: setattr_(o["A"], "collections", [o["s1"]]), o)
attempt("A.children=[x1, B, s1]", lambda: setattr_(o["A"], "children", [o["x1"], o["B"], o["s1"]]), o)
attempt("A.children=[A]", lambda: setattr_(o["A"], "children", [o["A"]]), o)
attempt("A.children=[s1, 4]", lambda: setattr_(o["A"], "children", [o["s1"], 4]), o)
attempt("A.children=[]", lambda: setattr_(o["A"], "children", []), o)
attempt("A.children=gen", lambda: setattr_(o["A"], "children", (c for c in (o["s1"], o["x1"]))), o)
attempt("view identity", lambda: (o["A"].sources is o["A"]._sources, o["A"].children is o["A"]._children))

print("== copy")
o = base_tree()
r = {}
attempt("copy leaf", lambda: r.setdefault("s3c", o["s3"].copy()), o, )
dump({}, [("s3c", r["s3c"])])
attempt("copy coll", lambda: r.setdefault("Bc", o["B"].copy()), o)
dump({}, [("Bc", r["Bc"]), ("Bc[2]", r["Bc"][2]), ("Bc[2][0]", r["Bc"][2][0])])
print("    copy distinct:", r["Bc"][0] is not o["s2"], r["Bc"][2][0].parent is r["Bc"][2], r["Bc"][2].parent is r["Bc"])
attempt("copy parent=D", lambda: r.setdefault("x2c", o["x2"].copy(parent=o["D"], position=(1, 2, 3))), o)
dump({}, [("x2c", r["x2c"])])
print("    pos", r["x2c"].position.tolist())
attempt("copy parent=None", lambda: r.setdefault("x2d", o["x2"].copy(parent=None)), o)
attempt("copy parent=bad", lambda: o["x2"].copy(parent="bad"), o)
attempt("copy coll parent=self", lambda: r.setdefault("Ac", o["A"].copy(parent=o["A"])), o)
attempt("copy bad kwarg", lambda: o["s1"].copy(style_bad=1), o)
attempt("copy free", lambda: r.setdefault("Dc", o["D"].copy(style_label="DD")), o)
nolabel = magpy.Sensor()
attempt("copy nolabel", lambda: nolabel.copy())
print("    nolabel:", nolabel._style_kwargs, getattr(nolabel, "_style", None))


class Boom(magpy.Sensor):
    def __deepcopy__(self, memo):
        raise RuntimeError("boom")


b = Boom(style_label="boom")
o["D"].add(b)
attempt("copy raising deepcopy (parented)", b.copy)
print("    parent restored:", lab(b.parent), [lab(c) for c in o["D"].children])
b2 = Boom(style_label="boom2")
attempt("copy raising deepcopy (free)", b2.copy)
print("    parent:", lab(b2.parent))

print("== describe / repr")
o = base_tree()
print(o["A"].describe(format="label+type", return_string=True))
print(re.sub(r"id=\d+", "id=#", repr(o["A"])))

print("== extra (twin5 3): remove and the unlisting walk behind it (public API only)")
import types

from magpylib._src.obj_classes.class_Collection import BaseCollection

NAMES = ("s1", "s2", "s3", "c1", "x1", "x2", "A", "B", "C", "D")

# every object of the base tree removed from every collection, recursive on/off, errors raise/ignore
for root in "ABCD":
    for name in NAMES:
        for rec in (True, False):
            for err in ("raise", "ignore"):
                o = base_tree()
                attempt(
                    f"{root}.remove({name}, recursive={rec}, errors={err})",
                    lambda: o[root].remove(o[name], recursive=rec, errors=err),
                    None,
                )
                print(
                    "   ",
                    {n: lab(o[n].parent) for n in NAMES},
                    {k: [lab(c) for c in o[k].children] for k in "ABCD"},
                    {k: [lab(c) for c in o[k].sources + o[k].sensors + o[k].collections] for k in "ABCD"},
                )

# several children in one call: found / missing mixes, parent before child, child before parent
CALLS = [
    ("s1, s3, x2", ("s1", "s3", "x2")),
    ("s3, s3", ("s3", "s3")),
    ("B, s2", ("B", "s2")),
    ("s2, B", ("s2", "B")),
    ("C, B, s3", ("C", "B", "s3")),
    ("x1, D, c1", ("x1", "D", "c1")),
    ("D, x1", ("D", "x1")),
]
for text, names in CALLS:
    for err in ("raise", "ignore", "nope", None, 0):
        o = base_tree()
        attempt(f"A.remove({text}, errors={err!r})", lambda: o["A"].remove(*[o[n] for n in names], errors=err), o)
        o = base_tree()
        attempt(f"A.remove([{text}], recursive=False, errors={err!r})", lambda: o["A"].remove([o[n] for n in names], recursive=False, errors=err), o)

# list identity: holder gets new views, its children list is edited in place; other collections untouched
o = base_tree()
before = {k: {n: getattr(o[k], n) for n in ("children", "sources", "sensors", "collections")} for k in "ABC"}
attempt("A.remove(x2)", lambda: o["A"].remove(o["x2"]), None)
print("    same list objects:", {k: {n: getattr(o[k], n) is v for n, v in d.items()} for k, d in before.items()})
print("    old lists:", {k: {n: [lab(c) for c in v] for n, v in d.items()} for k, d in before.items()})

# children lists edited behind the back: doubled entry, child listed in two collections, link without listing
o = base_tree()
o["A"]._children.append(o["s1"])
o["A"]._update_src_and_sens()
attempt("doubled entry: A.remove(s1)", lambda: o["A"].remove(o["s1"]), o)
attempt("doubled entry: A.remove(s1) again", lambda: o["A"].remove(o["s1"]), o)
attempt("doubled entry: A.remove(s1) third", lambda: o["A"].remove(o["s1"]), o)
o = base_tree()
o["A"]._children.append(o["s3"])
o["A"]._update_src_and_sens()
attempt("listed twice in the tree: A.remove(s3)", lambda: o["A"].remove(o["s3"]), o)
attempt("listed twice in the tree: A.remove(s3) again", lambda: o["A"].remove(o["s3"]), o)
o = base_tree()
o["D"]._children.append(o["s3"])
o["D"]._update_src_and_sens()
attempt("listed in D, linked to C: D.remove(s3)", lambda: o["D"].remove(o["s3"]), o)
o = base_tree()
o["s3"]._parent = o["D"]
attempt("linked to D, listed in C: parent=None", lambda: setattr_(o["s3"], "parent", None), o)
attempt("linked to D, listed in C: A.remove(s3)", lambda: o["A"].remove(o["s3"]), o)
o = base_tree()
o["A"]._children.insert(0, 5)
o["B"]._children.insert(1, "txt")
attempt("foreign entries on the way: A.remove(s3)", lambda: o["A"].remove(o["s3"]), None)
print("    raw:", {k: [lab(c) for c in o[k]._children] for k in "ABC"}, lab(o["s3"].parent))
attempt("foreign entries on the way: A.remove(D) missing", lambda: o["A"].remove(o["D"]), None)
print("    raw:", {k: [lab(c) for c in o[k]._children] for k in "ABC"})

# the ways into remove: parent setter, add with override, typed setters, copy(parent=)
o = base_tree()
attempt("s3.parent = None", lambda: setattr_(o["s3"], "parent", None), o)
attempt("B.parent = D", lambda: setattr_(o["B"], "parent", o["D"]), o)
attempt("A.add(C, x2, override)", lambda: o["A"].add(o["C"], o["x2"], override_parent=True), o)
attempt("A.add(s1, override) own child", lambda: o["A"].add(o["s1"], override_parent=True), o)
attempt("D.sensors = [x1, x2]", lambda: setattr_(o["D"], "sensors", [o["x1"], o["x2"]]), o)
attempt("A.children = [B, s2]", lambda: setattr_(o["A"], "children", [o["B"], o["s2"]]), o)

# bare BaseCollection root, reversed iteration order
o = base_tree()
bc = BaseCollection(o["A"], o["D"])
bc.style = types.SimpleNamespace(label="bare")
attempt("bare.remove(s3)", lambda: bc.remove(o["s3"]), o)
attempt("bare.remove(s3) again", lambda: bc.remove(o["s3"]), o)
attempt("bare.remove(D, A)", lambda: bc.remove(o["D"], o["A"]), o)
print("    bare:", {n: [lab(c) for c in getattr(bc, n)] for n in VIEWS})


class Backwards(magpy.Collection):
    def __iter__(self):
        yield from reversed(self._children)


o = base_tree()
bw = Backwards(o["A"], o["D"], style_label="bw")
o["D"]._children.append(o["x2"])  # x2 is listed in B (below A) and in D; D is visited first
o["D"]._update_src_and_sens()
attempt("backwards.remove(x2)", lambda: bw.remove(o["x2"]), o, [("bw", bw)])
attempt("backwards.remove(x2) again", lambda: bw.remove(o["x2"]), o, [("bw", bw)])


class Touchy(magpy.Sensor):
    """comparison with other objects is logged, with a marked one it fails"""

    log = []

    def __eq__(self, other):
        Touchy.log.append((lab(self), lab(other)))
        if getattr(other, "bad", False) or getattr(self, "bad", False):
            raise ZeroDivisionError("eq")
        return self is other

    __hash__ = magpy.Sensor.__hash__


for bad in (False, True):
    for target in ("t1", "t2", "s3", "x2", "D"):
        o = base_tree()
        t1, t2 = Touchy(style_label="t1"), Touchy(style_label="t2")
        t2.bad = bad
        o["A"].add(t1)
        o["C"].add(t2)
        o.update(t1=t1, t2=t2)
        Touchy.log.clear()
        attempt(f"logged comparisons bad={bad}: A.remove({target})", lambda: o["A"].remove(o[target]), o)
        print("    comparisons:", Touchy.log)

# a cyclic, corrupted tree: the walk does not end
o = base_tree()
o["C"]._children.append(o["A"])
o["C"]._update_src_and_sens()
try:
    o["A"].remove(o["D"], errors="ignore")
    print("cyclic: returned")
except RecursionError:
    print("cyclic: RecursionError")
