import os, sys; sys.path.insert(0, os.getcwd())
# Twin3-1: utility.format_src_inputs (guard clauses / single fall-through raise) and
#          utility.check_static_sensor_orient (per-sensor helper + comprehension)
import hashlib
import re
import warnings

import numpy as np
from scipy.spatial.transform import Rotation as R

import magpylib as magpy
from magpylib._src.utility import check_static_sensor_orient
from magpylib._src.utility import format_src_inputs

warnings.simplefilter("ignore")


def h(a):
    a = np.ascontiguousarray(a)
    return hashlib.sha1(a.tobytes()).hexdigest()[:12] + str(a.shape)


def clean(msg):
    msg = re.sub(r"0x[0-9a-f]+", "0x?", re.sub(r"id=\d+", "id=?", str(msg)))
    return msg.replace("\n", " | ")[-160:]


def err_line(err):
    ctx = type(err.__context__).__name__ if err.__context__ is not None else None
    cause = type(err.__cause__).__name__ if err.__cause__ is not None else None
    return f"raised {type(err).__name__} ctx={ctx} cause={cause} :: {clean(err)}"


def snap(objs):
    return [
        (
            h(o._position),
            h(o._orientation.as_quat()),
            None if getattr(o, "_pixel", None) is None else h(o._pixel),
            None if o._parent is None else id(o._parent),
            [id(c) for c in getattr(o, "_children", [])],
        )
        for o in objs
    ]


cub = magpy.magnet.Cuboid(polarization=(0.1, 0.2, 0.3), dimension=(1, 2, 3), style_label="cub")
cyl = magpy.magnet.Cylinder(polarization=(0.3, 0.2, 0.1), dimension=(1, 2), position=(1, 1, 1))
cyl.move(np.linspace((0, 0, 0), (1, 0.5, 0.2), 3), start=0)
loop = magpy.current.Circle(current=3, diameter=2, position=(0, 0, -2))
dip = magpy.misc.Dipole(moment=(1, 2, 3), position=(3, 3, 3))
cust = magpy.misc.CustomSource(field_func=lambda field, observers: observers * 2.0)
s_static = magpy.Sensor(position=(2, 2, 2))
s_col = magpy.Sensor(position=(2, 2, 3))
col_src = magpy.Collection(loop, cyl)
col_nested = magpy.Collection(dip, magpy.Collection(cust, s_col))
col_empty = magpy.Collection()
col_sens_only = magpy.Collection(magpy.Sensor())
col_nested_empty = magpy.Collection(magpy.Collection())
pool = [cub, cyl, loop, dip, cust, s_static, s_col, col_src, col_nested, col_empty, col_sens_only]
names = {id(o): n for n, o in zip(
    "cub cyl loop dip cust s_static s_col col_src col_nested col_empty col_sens_only".split(), pool)}


def nm(o):
    return names.get(id(o), type(o).__name__)


class MyList(list):
    pass


print("== format_src_inputs")
cases = {
    "bare source": cub,
    "bare custom": cust,
    "bare collection": col_src,
    "list": [cub, cyl, loop],
    "tuple": (dip, cub),
    "list subclass": MyList([cub, dip]),
    "same twice": [cub, cub, col_src, col_src],
    "list + collection": [cub, col_src, dip],
    "nested collection": [col_nested, cub],
    "empty list": [],
    "empty tuple": (),
    "None": None,
    "sensor": s_static,
    "[sensor]": [s_static],
    "[src, sensor]": [cub, s_static],
    "empty collection": col_empty,
    "[src, empty collection]": [cub, col_empty],
    "collection of sensors": [col_sens_only],
    "collection of empty collection": col_nested_empty,
    "string in list": [cub, "Cuboid"],
    "int": 3,
    "[src, None]": [cub, None],
    "nested list": [[cub, cyl]],
    "[src, (src,)]": [cub, (cyl,)],
    "ndarray of sources": np.array([cub, cyl], dtype=object),
    "generator": (s for s in [cub]),
    "dict": {"a": cub},
    "set": {cub},
    "class not instance": magpy.magnet.Cuboid,
}
for tag, inp in cases.items():
    before = snap(pool)
    try:
        sources, src_list = format_src_inputs(inp)
        print(
            f"{tag}: sources={type(sources).__name__}{[nm(o) for o in sources]}"
            f" src_list={type(src_list).__name__}{[nm(o) for o in src_list]}"
            f" fresh={sources is not inp}"
        )
    except Exception as err:  # pylint: disable=broad-except
        print(f"{tag}: {err_line(err)}")
    print("   state-same:", before == snap(pool))

print("== check_static_sensor_orient")


def sensors():
    out = {}
    out["static"] = magpy.Sensor(position=(1, 2, 3))
    out["static rotated"] = magpy.Sensor(position=(1, 2, 3)).rotate_from_angax(33, "z")
    s = magpy.Sensor().move([(1, 0, 0), (2, 0, 0), (3, 0, 0)])
    out["translation path"] = s
    s = magpy.Sensor(pixel=[(0, 0, 0), (1, 1, 1)]).rotate_from_angax(40, (1, 2, 3))
    s.move([(1, 0, 0), (2, 0, 0)])
    out["translation path rotated"] = s
    out["rotation path"] = magpy.Sensor().rotate_from_angax([10, 20, 30], "x")
    s = magpy.Sensor().rotate_from_angax([0, 0, 90], "x", start=0)
    out["rotation only in last step"] = s
    s = magpy.Sensor().rotate_from_angax([90, 0, 0], "x", start=0)
    out["rotation only in first step"] = s
    s = magpy.Sensor().rotate_from_angax([360, 360], "y", start=0)
    out["full turns"] = s
    s = magpy.Sensor(position=[(0, 0, 0)] * 2, orientation=R.from_quat([(0, 0, 0, 1), (0, 0, 0, -1)]))
    out["q and -q"] = s
    s = magpy.Sensor(position=[(0, 0, 0)] * 2)
    s._orientation = R.from_quat([(0, 0, 0, 1)])  # inconsistent private state
    out["path 2 / orient 1"] = s
    return out


sd = sensors()
for tag, s in sd.items():
    before = snap([s])
    try:
        res = check_static_sensor_orient([s])
        print(f"{tag}: {res} types={[type(r).__name__ for r in res]}")
    except Exception as err:  # pylint: disable=broad-except
        print(f"{tag}: {err_line(err)}")
    print("   state-same:", before == snap([s]))
allres = check_static_sensor_orient(list(sd.values())[:-1])
print("all:", type(allres).__name__, allres, [type(r).__name__ for r in allres])
print("empty:", check_static_sensor_orient([]), "tuple input:", check_static_sensor_orient((sd["static"],)))
print("generator input:", check_static_sensor_orient(s for s in (sd["static"], sd["rotation path"])))
for bad in (None, 3, [None], [cub], ["x"]):
    try:
        print("bad", clean(repr(bad))[:30], "->", check_static_sensor_orient(bad))
    except Exception as err:  # pylint: disable=broad-except
        print("bad", clean(repr(bad))[:30], "->", err_line(err))

print("== through the public interface")


def run(tag, fn, objs):
    before = snap(objs)
    orients = [o._orientation for o in objs]
    for rep in range(2):
        try:
            res = fn()
            print(f"{tag}[{rep}] ->", h(res), np.round(np.ravel(res)[:3], 12).tolist())
        except Exception as err:  # pylint: disable=broad-except
            print(f"{tag}[{rep}] {err_line(err)}")
        print(
            "   state-same=%s orient-identity=%s"
            % (before == snap(objs), all(o._orientation is r for o, r in zip(objs, orients)))
        )


sens_all = list(sd.values())[:-1]
sens_same = [s for s in sens_all if s.pixel is None]
objs = pool + sens_all
for field in "BHJM":
    f = getattr(magpy, "get" + field)
    run(f"get{field} list/all sensors", lambda f=f: f([cub, col_src, dip, col_nested], sens_all, pixel_agg="mean"), objs)
    run(f"get{field} same-shape sensors", lambda f=f: f([col_src, cub], sens_same), objs)
    run(f"get{field} sumup", lambda f=f: f([cub, col_src], sens_same[2:6], sumup=True), objs)
run("getB bare", lambda: magpy.getB(cub, (1, 2, 3)), objs)
run("getB tuple", lambda: magpy.getB((cub, cyl), sd["rotation path"]), objs)
run("getH collection w/ sensor child", lambda: magpy.getH(col_nested, s_static), objs)
run("cub.getB", lambda: cub.getB(sd["translation path"], sd["rotation only in last step"]), objs)
run("col.getH", lambda: col_src.getH(sd["q and -q"]), objs)
run("sens.getB", lambda: sd["rotation path"].getB(cub, col_src), objs)
run("getB empty list", lambda: magpy.getB([], (1, 2, 3)), objs)
run("getB None", lambda: magpy.getB(None, (1, 2, 3)), objs)
run("getB sensor as source", lambda: magpy.getB([cub, s_static], (1, 2, 3)), objs)
run("getB empty collection", lambda: magpy.getB([cyl, col_empty], sd["rotation path"]), objs)
run("getB sensor-only collection", lambda: magpy.getB([cyl, col_sens_only], sd["rotation path"]), objs)
run("getB nested list", lambda: magpy.getB([[cub, cyl]], (1, 2, 3)), objs)
run("getB bad late", lambda: magpy.getB([cyl, cub, 7], sd["rotation path"]), objs)
run("getB inconsistent sensor", lambda: magpy.getB(cyl, sd["path 2 / orient 1"]), objs + [sd["path 2 / orient 1"]])
