import os, sys; sys.path.insert(0, os.getcwd())
import re
from itertools import cycle

import magpylib as magpy
from magpylib._src.display.traces_utility import get_flatten_objects_properties_recursive as flatten


def norm(txt):
    return re.sub(r"id=\d+", "id=N", str(txt))


def run(label, func):
    try:
        res = func()
    except BaseException as e:  # deterministic digest of the error path
        msg = norm(str(e).split("`{")[0])[:110]
        res = f"EXC {type(e).__name__}: {msg!r}"
    print(f"{label}: {res}")


def cub(**kw):
    return magpy.magnet.Cuboid(polarization=(0, 0, 1), dimension=(1, 1, 1), **kw)


def digest(flat, names):
    rows = []
    for obj, props in flat.items():
        st = props["style"]
        rows.append(
            (names[obj], norm(props["legendgroup"]), props["legendtext"], props["showlegend"],
             st.label, st.color, st.opacity, st.path.line.width, st.legend.show, type(st).__name__)
        )
    return rows


def scene():
    names = {}
    a = cub(style_label="a")
    b = cub(style_color="yellow")
    s1 = magpy.Sensor(style_label="s1", style_legend_text="custom legend")
    s2 = magpy.Sensor(style_description_text="descr")
    loop = magpy.current.Circle(current=1, diameter=1, style_description_show=False)
    dip = magpy.misc.Dipole(moment=(1, 0, 0))
    inner = magpy.Collection(s2, loop, style_label="inner")
    inner_colored = magpy.Collection(dip, style_color="magenta", style_legend_show=False)
    outer = magpy.Collection(a, inner, inner_colored, style_label="outer")
    empty = magpy.Collection()
    for k, v in dict(a=a, b=b, s1=s1, s2=s2, loop=loop, dip=dip, inner=inner,
                     inner_colored=inner_colored, outer=outer, empty=empty).items():
        names[v] = k
    return names, (b, outer, s1, empty, b, s1)  # duplicates are dropped, order kept


seq = ("red", "green", "blue")
names, objs = scene()
own_before = {n: o.style.as_dict(flatten=True) for o, n in names.items()}

for row in digest(flatten(*objs, colorsequence=seq), names):
    print("plain:", row)
for row in digest(flatten(*objs, colorsequence=seq, style_kwargs={}), names):
    print("empty kwargs:", row)
kw = {"style_opacity": 0.5, "style": {"path_line_width": 4}, "style_color": None, "style_pixel_size": 2, "style_arrow_size": 3}
for row in digest(flatten(*objs, colorsequence=seq, style_kwargs=kw), names):
    print("kwargs:", row)
print("kwargs dict after:", kw)
for row in digest(flatten(*objs, colorsequence=seq, style_kwargs={"style_color": "black", "style_description_text": "all", "style_legend_show": True}), names):
    print("kwargs win:", row)
for row in digest(flatten(*objs, colorsequence=seq, parent_color="orange", parent_label="PL", parent_legendgroup="PG", parent_showlegend=False), names):
    print("parent args:", row)
for row in digest(flatten(*objs, colorsequence=seq, parent_color="orange", parent_label="", parent_legendgroup=""), names):
    print("falsy parent args:", row)
shared = cycle(["c1".replace("c1", "cyan"), "pink"])
for row in digest(flatten(*objs, colorsequence=None, color_cycle=shared), names):
    print("given cycle:", row)
print("cycle position:", next(shared))
print("own styles untouched:", all(o.style.as_dict(flatten=True) == own_before[n] for o, n in names.items()))
print("no objects:", flatten(colorsequence=seq), flatten(colorsequence=None, color_cycle=shared, style_kwargs=None))

# defaults changed -> reflected, reset -> gone
magpy.defaults.display.style.base.color = "grey"
magpy.defaults.display.style.sensor.size = 7
magpy.defaults.display.style.base.legend.show = False
for row in digest(flatten(*objs, colorsequence=seq), names):
    print("defaults changed:", row)
magpy.defaults.reset()
for row in digest(flatten(*objs, colorsequence=seq), names)[:3]:
    print("after reset:", row)

# error paths
run("no colorsequence", lambda: flatten(*objs))
run("exhausted cycle", lambda: flatten(*objs, color_cycle=iter(["red"])))
run("bad color in sequence", lambda: flatten(*objs, colorsequence=["nocolor"]))
run("bad style kwarg", lambda: flatten(*objs, colorsequence=seq, style_kwargs={"style_nope": 1}))
run("bad style value", lambda: flatten(*objs, colorsequence=seq, style_kwargs={"style_opacity": 7}))
run("bad style kwarg, no objects", lambda: flatten(colorsequence=seq, style_kwargs={"style_nope": 1}))
run("kwargs not a dict", lambda: flatten(*objs, colorsequence=seq, style_kwargs=[("style_color", "r")]))
run("object without style", lambda: flatten(object(), colorsequence=seq))
run("bad pending style in child", lambda: flatten(magpy.Collection(magpy.Sensor(style_nope=1)), colorsequence=seq))

# end to end through show()
names, objs = scene()
fig = magpy.show(*objs[:3], backend="plotly", return_fig=True, style_path_line_width=3)
for tr in fig.data:
    col = getattr(tr, "color", None) or getattr(getattr(tr, "line", None), "color", None)
    print("trace:", tr.type, tr.name, norm(tr.legendgroup), tr.showlegend, col if isinstance(col, str) else None)
