import os, sys; sys.path.insert(0, os.getcwd())
import itertools
import warnings
import numpy as np
import magpylib as magpy
from magpylib._src.input_checks import check_format_input_cylinder_segment

inf = float("inf")


def run(f):
    with warnings.catch_warnings(record=True) as w:
        warnings.simplefilter("always")
        try:
            r = f()
        except Exception as e:
            res = f"EXC {type(e).__name__}: {e}"
        else:
            if isinstance(r, np.ndarray):
                res = f"ARR {r.dtype} {r.shape} {r.tolist()}"
            else:
                res = f"RET {r!r}"
    return res + " | warns=" + repr(sorted((x.category.__name__, str(x.message)) for x in w))


# validator directly: grid over geometry incl. boundaries, infinities, nan
r1s = [-1, 0, 1, 2, inf]
r2s = [-1, 0, 1, 2, inf]
hs = [-1, 0, 1]
phis = [(-10, 10), (10, -10), (0, 360), (0, 360.0001), (-360, 0), (-180, 181), (5, 5), (-inf, inf), (inf, inf), (float("nan"), 0)]
for r1, r2, h, (p1, p2) in itertools.product(r1s, r2s, hs, phis):
    print((r1, r2, h, p1, p2), run(lambda: check_format_input_cylinder_segment((r1, r2, h, p1, p2))))

others = [None, (1, 2, 3), (1, 2, 3, 4), [(1, 2, 3, 4, 5)], "abcde", 5, (1, 2, 3, "a", 5), np.array([1, 2, 3, 4, 5]), [1, 2, 3, 4, None], (), [[]]]
for v in others:
    print(repr(v), run(lambda: check_format_input_cylinder_segment(v)))

# through the class: constructor and setter, object unchanged after rejection, independent copy
good = np.array([1, 2, 3, 0, 90])
for v in [None, good, (2, 1, 3, 0, 90), (1, 2, 3, 90, 0), (1, 2, 3, 0, 361), (1, 2, -3, 0, 90), (0, 2, 3, -360, 0), "x", (1, 2, 3)]:
    print("ctor", repr(v), run(lambda: magpy.magnet.CylinderSegment(polarization=(0, 0, 1), dimension=v).dimension))
    src = magpy.magnet.CylinderSegment(polarization=(0, 0, 1), dimension=(0.5, 1, 1, 10, 20))

    def setit():
        src.dimension = v
        return src.dimension

    print("set ", repr(v), run(setit), "after:", None if src.dimension is None else src.dimension.tolist())
src = magpy.magnet.CylinderSegment(polarization=(0, 0, 1), dimension=good)
print("alias", src.dimension is good, np.shares_memory(src.dimension, good), src.dimension.dtype)
print("B", np.round(src.getB((3, 3, 3)), 12).tolist())
print("bary", np.round(src.barycenter, 12).tolist())
