import os, sys; sys.path.insert(0, os.getcwd())
import hashlib
import re
import warnings

import numpy as np
from scipy.spatial.transform import Rotation as R

import magpylib as magpy

warnings.simplefilter("ignore")


def sha(*arrays):
    h = hashlib.sha256()
    for a in arrays:
        a = np.ascontiguousarray(a)
        h.update(str(a.shape).encode())
        h.update(a.tobytes())
    return h.hexdigest()[:16]


def state(objs):
    """bit-exact digest of the paths of all objects"""
    return " ".join(
        f"{len(o._position)}/{len(o._orientation)}:{sha(o._position, o._orientation.as_quat())}" for o in objs
    )


def exc(err):
    msg = re.sub(r"id=\d+|0x[0-9a-f]+", "#", str(err))
    return f"EXC {type(err).__name__}: {msg[:100]!r}"


def build(path_len_col, path_len_child):
    """nested collection: col(cub, sens, sub(dip, circ), empty)"""
    cub = magpy.magnet.Cuboid(polarization=(0.1, 0.2, 0.3), dimension=(1, 2, 3), position=(1, 0.5, -0.3))
    cub.rotate_from_angax(33, (1, 2, 3))
    sens = magpy.Sensor(pixel=[(0, 0, 0), (0.1, 0.2, 0.3)], position=(3, 3, 3))
    dip = magpy.misc.Dipole(moment=(1, 2, 3), position=(-2, 1, 1))
    circ = magpy.current.Circle(current=5, diameter=2, position=(0, -3, 0.5)).rotate_from_angax(70, "x")
    sub = magpy.Collection(dip, circ, position=(0, 0, 1))
    empty = magpy.Collection(position=(9, 9, 9))
    col = magpy.Collection(cub, sens, sub, empty, position=(0.5, 0.5, 0.5))
    if path_len_child > 1:
        cub.move([(0.1 * k, 0, 0) for k in range(1, path_len_child)])
        circ.rotate_from_angax([5 * k for k in range(1, path_len_child)], "z", anchor=0)
    if path_len_col > 1:
        col.rotate_from_angax([7 * k for k in range(1, path_len_col)], (1, 1, 0), anchor=(1, 0, 0))
        sub.move([(0, 0.1 * k, 0) for k in range(1, path_len_col)], start=1)
    return col, [col, cub, sens, sub, dip, circ, empty]


new_orients = {
    "None": None,
    "single": R.from_rotvec((0.3, -0.2, 0.5)),
    "len1": R.from_rotvec([(0.3, -0.2, 0.5)]),
    "len2": R.from_rotvec([(0.3, -0.2, 0.5), (1.0, 0.1, 0.0)]),
    "len4": R.from_rotvec([(0.3, -0.2, 0.5), (1.0, 0.1, 0.0), (0, 0, 2.5), (0.1, 0.1, 0.1)]),
    "identity3": R.from_quat([(0, 0, 0, 1)] * 3),
    "bad-tuple": (0, 0, 0, 1),
    "bad-str": "z",
}
obs = [(4, 4, 4), (-3, 2, 5)]

for plc in (1, 3):
    for plch in (1, 2, 5):
        for on, ori in new_orients.items():
            col, objs = build(plc, plch)
            tag = f"col{plc} child{plch} ori={on}"
            try:
                col.orientation = ori
                print(f"{tag}: ok   {state(objs)}")
            except Exception as err:  # pylint: disable=broad-except
                print(f"{tag}: {exc(err)} {state(objs)}")
            B = magpy.getB(col, obs)
            print(f"   B {B.shape} {sha(B)}  after getB {sha(*[o._position for o in objs])}")
            # setting the orientation of an inner collection, a leaf and an empty collection
            try:
                objs[3].orientation = ori
                objs[1].orientation = ori
                objs[6].orientation = ori
                print(f"   inner/leaf/empty ok   {state(objs)}")
            except Exception as err:  # pylint: disable=broad-except
                print(f"   inner/leaf/empty {exc(err)} {state(objs)}")
            H = magpy.getH(col, objs[2], sumup=True)
            print(f"   H {H.shape} {sha(H)}")

# the setter returns nothing and the Rotation handed in is neither kept nor modified
col, objs = build(2, 3)
rot_in = R.from_rotvec([(0.3, -0.2, 0.5), (1.0, 0.1, 0.0)])
q0 = rot_in.as_quat().copy()
res = type(col).orientation.fset(col, rot_in)
print("fset returns", res, "input untouched", np.array_equal(q0, rot_in.as_quat()),
      "not aliased", all(o._orientation is not rot_in for o in objs))
res = type(objs[1]).orientation.fset(objs[1], rot_in)
print("fset leaf returns", res, state(objs))

# reset_path and rotate/move on collections use the setter / same machinery
col, objs = build(3, 2)
col.reset_path()
print("reset_path", state(objs))
objs[3].reset_path()
print("reset_path sub", state(objs))
col.orientation = R.from_euler("zyx", [(10, 20, 30), (40, 50, 60)], degrees=True)
col.position = [(1, 2, 3)] * 4
print("ori then pos", state(objs))
col.orientation = R.from_euler("x", 90, degrees=True)
print("ori single on path", state(objs))

# failure inside the child loop: second child is broken, first child has been updated already
col, objs = build(1, 2)
objs[2]._position = None
try:
    col.orientation = R.from_rotvec((0.3, -0.2, 0.5))
    print("broken child: ok")
except Exception as err:  # pylint: disable=broad-except
    print("broken child:", exc(err))
print("   ", state([objs[0], objs[1], objs[3], objs[4], objs[5], objs[6]]))

# failure before the loop / in the first child
col, objs = build(1, 1)
objs[1]._position = "abc"
try:
    col.orientation = None
    print("broken first child: ok")
except Exception as err:  # pylint: disable=broad-except
    print("broken first child:", exc(err))
print("   ", state([objs[0], objs[2], objs[3], objs[4], objs[5], objs[6]]))


# ---- additions for twins5/4: what the children see, in which order ---------------------
LOG = []


class NoisySensor(magpy.Sensor):
    """logs the calls the orientation setter of the parent makes"""

    @property
    def position(self):
        return magpy.Sensor.position.fget(self)

    @position.setter
    def position(self, inp):
        LOG.append(("position", self.style.label, sha(np.asarray(inp, dtype=float))))
        magpy.Sensor.position.fset(self, inp)

    def rotate(self, rotation, anchor=None, start="auto"):
        LOG.append(("rotate", self.style.label, rotation.single, sha(rotation.as_quat()),
                    sha(np.asarray(anchor, dtype=float)), start))
        return super().rotate(rotation, anchor=anchor, start=start)


class NoisyCollection(magpy.Collection):
    @property
    def children(self):
        LOG.append(("children read", self.style.label))
        return magpy.Collection.children.fget(self)

    @property
    def orientation(self):
        LOG.append(("orientation read", self.style.label))
        return magpy.Collection.orientation.fget(self)

    @orientation.setter
    def orientation(self, inp):
        magpy.Collection.orientation.fset(self, inp)


for on, ori in new_orients.items():
    for plc in (1, 3):
        LOG.clear()
        s1 = NoisySensor(position=(1, 2, 3), style_label="s1")
        s2 = NoisySensor(position=[(0, 0, k) for k in range(4)], style_label="s2")
        inner = NoisyCollection(s2, position=(0, 1, 0), style_label="inner")
        outer = NoisyCollection(s1, inner, position=(1, 1, 1), style_label="outer")
        if plc > 1:
            outer.move([(k, 0, 0) for k in range(1, plc)])
        LOG.clear()
        try:
            outer.orientation = ori
            print(f"noisy ori={on} plc={plc}: ok   {state([outer, s1, inner, s2])}")
        except Exception as err:  # pylint: disable=broad-except
            print(f"noisy ori={on} plc={plc}: {exc(err)} {state([outer, s1, inner, s2])}")
        for entry in LOG:
            print("    ", entry)

# an object that is no Collection but has children (duck typing through getattr)
LOG.clear()
host = magpy.Sensor(position=(1, 1, 1))
host.children = [NoisySensor(position=(2, 2, 2), style_label="guest")]
host.orientation = R.from_rotvec([(0, 0, 0.5), (0, 0.5, 0)])
print("duck host", state([host, host.children[0]]), LOG)
host.children = ()
host.orientation = None
print("duck host empty tuple", state([host]))
host.children = None
try:
    host.orientation = None
    print("duck host None: ok")
except Exception as err:  # pylint: disable=broad-except
    print("duck host None:", exc(err), state([host]))

# C03: a collection placed by the setter is the rotated setup
cub = magpy.magnet.Cuboid(polarization=(0.1, 0.2, 0.3), dimension=(1, 2, 3), position=(1, 0.5, -0.3))
cyl = magpy.magnet.Cylinder(polarization=(0.3, 0.1, 0.2), dimension=(1, 2), position=(-1, 0, 2)).rotate_from_angax(40, "y")
col = magpy.Collection(cub, cyl)
pts = np.array([(4, 4, 4), (-3, 2, 5.0)])
B0 = col.getB(pts)
G = R.from_rotvec((0.3, -1.1, 0.7))
col.orientation = G
B1 = col.getB(G.apply(pts))
print("c03", sha(B0), sha(B1), np.allclose(G.apply(B0), B1, rtol=1e-10, atol=1e-14))
