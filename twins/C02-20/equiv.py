import os, sys; sys.path.insert(0, os.getcwd())
import hashlib
import warnings

import numpy as np

import magpylib as magpy
from magpylib._src.fields.field_BH_cylinder_segment import BHJM_cylinder_segment
from magpylib._src.fields.field_BH_cylinder_segment import BHJM_cylinder_segment_internal

warnings.simplefilter("ignore")
np.seterr(all="ignore")


def digest(name, arr):
    arr = np.asarray(arr)
    h = hashlib.sha256(np.ascontiguousarray(arr).tobytes()).hexdigest()[:16]
    print(name, arr.shape, arr.dtype, h)
    with np.printoptions(precision=10, linewidth=200):
        print(np.round(arr, 12))


def attempt(name, fn):
    try:
        digest(name, fn())
    except Exception as e:  # noqa: BLE001
        print(name, type(e).__name__, str(e).replace("\n", " | ")[:160])


def cyl(r, phi_deg, z):
    p = np.deg2rad(phi_deg)
    return (r * np.cos(p), r * np.sin(p), z)


rng = np.random.default_rng(3)
n = 18
obs = rng.uniform(-2, 2, (n, 3))
dim = np.tile((0.5, 1.5, 1.0, 30.0, 250.0), (n, 1))
pol = rng.uniform(-1, 1, (n, 3))
obs[0] = cyl(1.0, 100, 0.1)  # inside
obs[1] = cyl(1.0, 100, 0.5)  # on top
obs[2] = cyl(1.0, 100, -0.5)  # on bottom
obs[3] = cyl(0.5, 100, 0.1)  # on inner shell
obs[4] = cyl(1.5, 100, 0.1)  # on outer shell
obs[5] = cyl(1.0, 30, 0.1)  # on phi1 face
obs[6] = cyl(1.0, 250, 0.2)  # on phi2 face (250 deg -> -110 deg)
obs[7] = cyl(1.5, 30, 0.5)  # corner
obs[8] = cyl(1.0, 10, 0.0)  # outside in angle
obs[9] = cyl(3.0, 100, 0.0)  # outside in r
obs[10] = (0, 0, 0)  # on axis
obs[11] = (np.nan, 1, 0)
dim[12] = (-0.5, 1.5, -1.0, -100.0, 20.0)  # negative r1/h are taken as abs
obs[12] = cyl(1.0, -50, 0.2)
dim[13] = (0.0, 1.0, 2.0, 0.0, 90.0)
obs[13] = cyl(0.5, 45, 0.0)
dim[14] = (0.0, 1.0, 2.0, 0.0, 90.0)
obs[14] = (0, 0, 0.3)  # on the edge r=0
pol[15] = 0
obs[15] = cyl(1.0, 120, 0.0)
pol[16] = (0, 0, 1)
obs[16] = cyl(1.2, 200, -0.3)
dim[17] = (0.5, 1.5, 1.0, 300.0, 420.0)  # angles beyond 360
obs[17] = cyl(1.0, 0, 0.0)

for field in "BHJM":
    attempt(f"core-{field}", lambda: BHJM_cylinder_segment(field, obs, dim, pol))
    attempt(
        f"internal-{field}",
        lambda: BHJM_cylinder_segment_internal(field, obs, pol, dim),
    )
    # only surface points -> early return of zeros for B and H
    attempt(
        f"allsurf-{field}",
        lambda: BHJM_cylinder_segment(field, obs[1:8], dim[1:8], pol[1:8]),
    )
    attempt(
        f"int-{field}",
        lambda: BHJM_cylinder_segment(
            field,
            np.array([(0, 1, 0), (0, 2, 0), (3, 3, 3)]),
            np.array([(0, 2, 2, 0, 180)] * 3),
            np.array([(1, 2, 3)] * 3),
        ),
    )
    attempt(f"empty-{field}", lambda: BHJM_cylinder_segment(field, obs[:0], dim[:0], pol[:0]))

B, H, J, M = (BHJM_cylinder_segment(f, obs, dim, pol) for f in "BHJM")
ok = np.isfinite(B).all(axis=1) & np.isfinite(H).all(axis=1)
print("BHJ core", np.allclose(B[ok], magpy.mu_0 * H[ok] + J[ok], rtol=1e-10, atol=1e-14))
print("JM core", np.array_equal(J / magpy.mu_0, M))

o2, d2, p2 = obs.copy(), dim.copy(), pol.copy()
for field in "BHJM":
    res = BHJM_cylinder_segment(field, o2, d2, p2)
    print(field, "alias", np.shares_memory(res, p2), np.shares_memory(res, o2), np.shares_memory(res, d2))
print(
    "inputs unchanged",
    np.array_equal(o2, obs, equal_nan=True),
    np.array_equal(d2, dim),
    np.array_equal(p2, pol),
)

seg = magpy.magnet.CylinderSegment(dimension=(0.3, 1, 0.8, -40, 130), polarization=(0.1, -0.2, 0.3))
seg.rotate_from_angax([10, 33, 77], (1, 2, 3)).move((0.1, 0.2, -0.1))
pts = rng.uniform(-1, 1, (20, 3))
for f in "BHJM":
    digest(f"obj-{f}", getattr(seg, f"get{f}")(pts))
print("BHJ obj", np.allclose(seg.getB(pts), magpy.mu_0 * seg.getH(pts) + seg.getJ(pts), rtol=1e-10, atol=1e-14))

for bad in ("X", "BH", "", 5, None):
    attempt(f"bad-{bad!r}", lambda: BHJM_cylinder_segment(bad, obs, dim, pol))
for f in "BJ":
    attempt(f"dim-4col-{f}", lambda: BHJM_cylinder_segment(f, obs, dim[:, :4], pol))
    attempt(f"dim-list-{f}", lambda: BHJM_cylinder_segment(f, obs, dim.tolist(), pol))
    attempt(f"pol-list-{f}", lambda: BHJM_cylinder_segment(f, obs, dim[:, :4], pol.tolist()))
    attempt(f"shape-dim-{f}", lambda: BHJM_cylinder_segment(f, obs, dim[:3], pol))
    attempt(f"shape-pol-{f}", lambda: BHJM_cylinder_segment(f, obs, dim, pol[:3]))
    attempt(f"shape-obs-{f}", lambda: BHJM_cylinder_segment(f, obs[:5], dim, pol))
    attempt(f"obs-4col-{f}", lambda: BHJM_cylinder_segment(f, np.ones((n, 4)), dim, pol))


# --- additions for batch 4: the shared coordinate helpers and their other callers
from magpylib._src.fields.field_BH_circle import BHJM_circle
from magpylib._src.fields.field_BH_cylinder import BHJM_magnet_cylinder
from magpylib._src.utility import cart_to_cyl_coordinates, cyl_field_to_cart


def attempt_w(name, fn):
    """like attempt, but floating point warnings are switched on, recorded and printed"""
    with warnings.catch_warnings(record=True) as rec, np.errstate(all="warn"):
        warnings.simplefilter("always")
        try:
            res = fn()
            for k, part in enumerate(res if isinstance(res, tuple) else (res,)):
                digest(f"{name}[{k}]", part)
        except Exception as e:  # noqa: BLE001
            print(name, type(e).__name__, str(e).replace("\n", " | ")[:160])
    for w in rec:
        print("   warning", w.category.__name__, str(w.message)[:80])


rng5 = np.random.default_rng(55)
P = rng5.uniform(-2, 2, (14, 3))
P[0] = (0, 0, 0)
P[1] = (-0.0, 0.0, 1)
P[2] = (0.0, -0.0, 1)
P[3] = (-1, 0.0, 1)
P[4] = (-1, -0.0, 1)
P[5] = (np.nan, 1, 1)
P[6] = (np.inf, 1, 1)
P[7] = (np.inf, -np.inf, 1)
P[8] = (1e200, 1e200, 0)
P[9] = (1e-200, 1e-200, 0)
P[10] = (3, 4, np.nan)
attempt_w("cart2cyl", lambda: cart_to_cyl_coordinates(P))
attempt_w("cart2cyl-int", lambda: cart_to_cyl_coordinates(np.array([(3, 4, 5), (0, 0, 1), (-1, 0, 0)])))
attempt_w("cart2cyl-empty", lambda: cart_to_cyl_coordinates(np.zeros((0, 3))))
attempt_w("cart2cyl-1d", lambda: cart_to_cyl_coordinates(np.array((3.0, 4.0, 5.0))))
attempt_w("cart2cyl-3d", lambda: cart_to_cyl_coordinates(rng5.uniform(-1, 1, (2, 4, 3))))
attempt_w("cart2cyl-fortran", lambda: cart_to_cyl_coordinates(np.asfortranarray(P)))
r_, phi_, z_ = cart_to_cyl_coordinates(P)
print("z is a view of the input", np.shares_memory(z_, P), np.shares_memory(r_, P), np.shares_memory(phi_, P))
for label, arg in {"2col": P[:, :2], "4col": np.zeros((3, 4)), "list": P.tolist(), "none": None, "str": np.array([("a", "b", "c")]), "0d": np.float64(1.0), "complex": P * (1 + 0j)}.items():
    attempt_w("cart2cyl-bad-" + label, lambda: cart_to_cyl_coordinates(arg))

PHI = np.concatenate((phi_, [np.pi, -np.pi, np.inf, -np.inf, 1e300, 0.0, -0.0]))
BR = rng5.uniform(-1, 1, len(PHI))
BP = rng5.uniform(-1, 1, len(PHI))
BR[3], BP[4] = np.inf, np.nan
BR[6], BP[6] = 1e308, 1e308
attempt_w("cyl2cart-both", lambda: cyl_field_to_cart(PHI, BR, BP))
attempt_w("cyl2cart-radial-only", lambda: cyl_field_to_cart(PHI, BR))
attempt_w("cyl2cart-radial-only-kw", lambda: cyl_field_to_cart(PHI, BR, Bphi=None))
attempt_w("cyl2cart-kw", lambda: cyl_field_to_cart(phi=PHI, Br=BR, Bphi=BP))
attempt_w("cyl2cart-zero-bphi", lambda: cyl_field_to_cart(PHI, BR, np.zeros(len(PHI))))
attempt_w("cyl2cart-scalar-bphi", lambda: cyl_field_to_cart(PHI, BR, 0.5))
attempt_w("cyl2cart-scalar-zero-bphi", lambda: cyl_field_to_cart(PHI, BR, 0))
attempt_w("cyl2cart-scalars", lambda: cyl_field_to_cart(0.3, 2.0, -1.0))
attempt_w("cyl2cart-int", lambda: cyl_field_to_cart(np.array([0, 1, 2]), np.array([1, 2, 3]), np.array([3, 2, 1])))
attempt_w("cyl2cart-2d", lambda: cyl_field_to_cart(PHI[:6].reshape(2, 3), BR[:6].reshape(2, 3), BP[:3]))
attempt_w("cyl2cart-empty", lambda: cyl_field_to_cart(np.zeros(0), np.zeros(0), np.zeros(0)))
# aliasing as used by the callers: outputs are new arrays, column views are only overwritten afterwards
F = rng5.uniform(-1, 1, (len(PHI), 3))
F0 = F.copy()
bx, by = cyl_field_to_cart(PHI, F[:, 0], F[:, 1])
print("no in-place", np.array_equal(F, F0), np.shares_memory(bx, F), np.shares_memory(by, F))
F[:, 0], F[:, 1] = cyl_field_to_cart(PHI, F[:, 0], F[:, 1])
digest("cyl2cart-column-update", F)
for label, args in {
    "phi-short": (PHI[:5], BR, BP),
    "br-short": (PHI, BR[:5], BP),
    "bphi-short": (PHI, BR, BP[:5]),
    "br-and-bphi-short": (PHI, BR[:5], BP[:4]),
    "phi-none": (None, BR, BP),
    "phi-str": ("abc", BR, BP),
    "br-none": (PHI, None, BP),
    "br-none-bphi-none": (PHI, None, None),
    "br-str": (PHI, "abc", BP),
    "bphi-str": (PHI, BR, "abc"),
    "bphi-list": (PHI[:3], BR[:3], [1.0, 2.0, 3.0]),
    "br-list": (PHI[:3], [1.0, 2.0, 3.0], BP[:3]),
    "bphi-list-short": (PHI[:3], BR[:3], [1.0, 2.0]),
}.items():
    attempt_w("cyl2cart-bad-" + label, lambda: cyl_field_to_cart(*args))

# the other two callers of the helpers: Cylinder (both components) and Circle (radial only)
m = len(P)
dimc = np.tile((2.0, 2.0), (m, 1))
polc = rng5.uniform(-1, 1, (m, 3))
for field in "BHJM":
    attempt(f"cylinder-{field}", lambda: BHJM_magnet_cylinder(field, P, dimc, polc))
    attempt(f"circle-{field}", lambda: BHJM_circle(field, P, np.full(m, 2.0), np.linspace(-1, 1, m)))
cyl_obj = magpy.magnet.Cylinder(dimension=(1.3, 0.7), polarization=(0.1, -0.2, 0.3))
cyl_obj.rotate_from_angax([10, 33, 77], (1, 2, 3)).move((0.1, 0.2, -0.1))
loop = magpy.current.Circle(diameter=1.5, current=2.5).rotate_from_angax(33, "x")
seg360 = magpy.magnet.CylinderSegment(dimension=(0.2, 1, 1, 0, 360), magnetization=(1e5, 2e5, -3e5))
seg_path = magpy.magnet.CylinderSegment(dimension=(0.3, 1, 0.8, -40, 130), polarization=(0.1, -0.2, 0.3))
seg_path.rotate_from_angax(np.linspace(0, 300, 7), "z", anchor=(0.5, 0, 0), start=0)
sens = magpy.Sensor(pixel=pts[:4], position=(0.1, 0.1, 0.1)).rotate_from_angax(25, (1, 1, 0))
for nme, src in (("cylinder", cyl_obj), ("circle", loop), ("seg360", seg360), ("segpath", seg_path)):
    res = {f: getattr(magpy, f"get{f}")(src, sens) for f in "BHJM"}
    for f in "BHJM":
        digest(f"obj-{nme}-{f}", res[f])
    print("BHJ", nme, np.allclose(res["B"], magpy.mu_0 * res["H"] + res["J"], rtol=1e-10, atol=1e-14), "JM", np.allclose(res["J"], magpy.mu_0 * res["M"], rtol=1e-14, atol=0))
for f in "BHJM":
    attempt(f"dict-seg-{f}", lambda: getattr(magpy, f"get{f}")("CylinderSegment", pts, dimension=(0.3, 1, 0.8, -40, 130), polarization=(0.1, -0.2, 0.3)))
# segment errors raised at / after the coordinate transform
for f in "BHJ":
    attempt(f"seg-obs-2col-{f}", lambda: BHJM_cylinder_segment(f, obs[:, :2], dim, pol))
    attempt(f"seg-obs-1d-{f}", lambda: BHJM_cylinder_segment(f, obs[0], dim[:1], pol[:1]))
    attempt(f"seg-obs-list-{f}", lambda: BHJM_cylinder_segment(f, obs.tolist(), dim, pol))
    attempt(f"seg-obs-str-{f}", lambda: BHJM_cylinder_segment(f, np.array([("a", "b", "c")] * n), dim, pol))
    attempt(f"seg-obs-int-{f}", lambda: BHJM_cylinder_segment(f, (obs[12:18] * 3).astype(int), dim[12:18], pol[12:18]))
