import os, sys; sys.path.insert(0, os.getcwd())
import hashlib
import re
import warnings

import numpy as np
from scipy.spatial.transform import Rotation as R

import magpylib as magpy
from magpylib._src.fields import field_wrap_BH
from magpylib._src.fields.field_wrap_BH import get_src_dict

warnings.simplefilter("ignore")


def h(x):
    if isinstance(x, R):
        return "Rot " + h(x.as_quat())
    if x is None or isinstance(x, (int, float, str)):
        return repr(x)
    x = np.asarray(x)
    if x.dtype == object:
        return f"obj{x.shape}[" + ",".join(h(e) for e in x.ravel()[:40]) + "]"
    x = np.ascontiguousarray(x)
    return f"{x.dtype}{x.shape} {hashlib.sha1(x.tobytes()).hexdigest()[:12]}"


def clean(err):
    return re.sub(r"0x[0-9a-f]+|id=\d+", "ADDR", str(err).replace("\n", " / "))


def attempt(label, func, *args, **kwargs):
    try:
        res = func(*args, **kwargs)
    except Exception as err:  # pylint: disable=broad-except
        ctx = type(err.__context__).__name__
        print(f"{label}: EXC {type(err).__name__} ctx={ctx}: {clean(err)[:200]}")
        return None
    if isinstance(res, dict):
        print(f"{label}: keys={list(res)}")
        for k, v in res.items():
            print(f"    {k}: {type(v).__name__} {h(v)}")
    else:
        print(f"{label}: {h(res)}")
    return res


rot = R.from_euler("xyz", [(10, 20, 30), (40, 50, 60)], degrees=True)
verts4 = np.array([(0, 0, 0), (1, 0, 0), (0, 1, 0), (0, 0, 1)], dtype=float)
pts8 = np.array([(x, y, z) for x in (0, 1) for y in (0, 1) for z in (0, 1.5)], dtype=float)


def two(make):
    """two instances with a path of length 2 each"""
    a, b = make(0), make(1)
    for i, o in enumerate((a, b)):
        o.position = [(0.1 * i, 0.2, 0.3), (0.4, 0.5 * i, 0.6)]
        o.orientation = rot
    return [a, b]


GROUPS = {
    "Cuboid": two(lambda i: magpy.magnet.Cuboid(polarization=(0.1 + i, 0.2, 0.3), dimension=(1, 2 + i, 3))),
    "Cylinder": two(lambda i: magpy.magnet.Cylinder(polarization=(0.1, 0.2 + i, 0.3), dimension=(1 + i, 2))),
    "CylinderSegment": two(
        lambda i: magpy.magnet.CylinderSegment(polarization=(0.1, 0.2, 0.3 + i), dimension=(1, 2 + i, 3, 10, 80))
    ),
    "Sphere": two(lambda i: magpy.magnet.Sphere(polarization=(0.1, 0.2 * i, 0.3), diameter=1 + i)),
    "Tetrahedron": two(lambda i: magpy.magnet.Tetrahedron(polarization=(0.1, 0.2, 0.3), vertices=verts4 * (1 + i))),
    "TriangularMesh same": two(
        lambda i: magpy.magnet.TriangularMesh.from_ConvexHull(polarization=(0.1, 0.2, 0.3), points=verts4 * (1 + i))
    ),
    "TriangularMesh ragged": two(
        lambda i: magpy.magnet.TriangularMesh.from_ConvexHull(
            polarization=(0.1, 0.2, 0.3), points=(verts4, pts8)[i]
        )
    ),
    "Circle int current": two(lambda i: magpy.current.Circle(current=1 + i, diameter=2 + i)),
    "Circle float current": two(lambda i: magpy.current.Circle(current=1.5 + i, diameter=2)),
    "Polyline same": two(lambda i: magpy.current.Polyline(current=1.5, vertices=[(0, 0, 0), (1, 1, 1 + i), (2, 0, 1)])),
    "Polyline ragged": two(
        lambda i: magpy.current.Polyline(current=2, vertices=[(0, 0, 0), (1, 1, 1), (2, 0, 1), (3, 3, 3)][: 2 + 2 * i])
    ),
    "Dipole": two(lambda i: magpy.misc.Dipole(moment=(1, 2 + i, 3))),
    "Triangle": two(
        lambda i: magpy.misc.Triangle(polarization=(0.1, 0.2, 0.3), vertices=[(0, 0, 0), (1 + i, 0, 0), (0, 1, 0)])
    ),
    "CustomSource": two(lambda i: magpy.misc.CustomSource(field_func=lambda field, observers: observers * 2.0)),
}

n_path, n_pix = 2, 3
poso = np.arange(n_path * n_pix * 3, dtype=float).reshape(-1, 3) / 7
n_pp = len(poso)

print("== get_src_dict directly")
for name, grp in GROUPS.items():
    attempt(f"group {name} (2)", get_src_dict, grp, n_pix, n_pp, poso)
    attempt(f"group {name} (1)", get_src_dict, grp[1:], n_pix, n_pp, poso)
    attempt(f"group {name} (3, dup)", get_src_dict, grp + grp[:1], n_pix, n_pp, poso)


# user class whose table names keys that must be skipped / attributes that do not exist
class Odd(magpy.misc.CustomSource):
    _field_func_kwargs_ndim = {"observers": 2, "foo": 1, "position": 2, "missing": 2, "bar": 2, "orientation": 2}

    def __init__(self, foo, bar, **kw):
        super().__init__(**kw)
        self.foo = foo
        self.bar = bar


def odd_ff(field, observers, foo=None, bar=None):
    if foo is None:  # validation call
        return observers * 1.0
    return observers * foo[:, None] + bar


odds = [Odd(1.5, np.array([1.0, 2, 3]), field_func=odd_ff), Odd(2.5, np.array([3.0, 2, 1]), field_func=odd_ff)]
attempt("group Odd", get_src_dict, odds, n_pix, n_pp, poso)
odds_path = [o.copy() for o in odds]
for o in odds_path:
    o.position = [(0, 0, 0), (1, 1, 1)]
attempt("group Odd path", get_src_dict, odds_path, n_pix, n_pp, poso)

# error paths of the direct call
attempt("err: empty group", get_src_dict, [], n_pix, n_pp, poso)
attempt("err: uninitialised diameter", get_src_dict, [magpy.magnet.Sphere(polarization=(1, 2, 3))], 1, 1, poso[:1])
attempt("err: one of two uninitialised", get_src_dict,
        [magpy.magnet.Sphere(polarization=(1, 2, 3), diameter=1), magpy.magnet.Sphere(polarization=(1, 2, 3))], 1, 1, poso[:1])
attempt("err: mixed path lengths", get_src_dict, [GROUPS["Cuboid"][0], magpy.magnet.Cuboid(polarization=(1, 2, 3), dimension=(1, 1, 1))],
        n_pix, n_pp, poso)
attempt("err: not a source", get_src_dict, [1], n_pix, n_pp, poso)

print("names:", [n for n in ("get_src_dict", "getBH_level1", "getBH_level2") if hasattr(field_wrap_BH, n)])

print("== through the interfaces")
obs = np.array([(0.2, 0.3, 0.4), (1, 2, 3), (-1, 0.5, 2)])
sens = magpy.Sensor(pixel=obs, position=[(0, 0, 0), (0.1, 0.1, 0.1)])
everything = [s for grp in GROUPS.values() for s in grp] + odds
for fld in "BHJM":
    attempt(f"get{fld} all sources", getattr(magpy, f"get{fld}"), everything, sens)
    attempt(f"get{fld} sumup", getattr(magpy, f"get{fld}"), everything, obs, sumup=True)
    attempt(f"sens.get{fld}", getattr(sens, f"get{fld}"), *everything)
for name, grp in GROUPS.items():
    attempt(f"src.getB {name}", grp[0].getB, obs)
    attempt(f"coll.getH {name}", magpy.Collection(*[g.copy() for g in grp]).getH, sens)
df = magpy.getB(everything[:6], sens, output="dataframe")
print("dataframe", df.shape, h(df[["Bx", "By", "Bz"]].to_numpy()), list(df["source"][:1]) and len(set(df["source"])))

# functional interface equals the object interface (property text)
B1 = magpy.getB("Cuboid", obs, polarization=[(0.1, 0.2, 0.3), (1.1, 0.2, 0.3), (1, 1, 1)], dimension=(1, 2, 3))
print("functional Cuboid", h(B1))
attempt("err: missing excitation via interface", magpy.getB, [GROUPS["Sphere"][0], magpy.magnet.Sphere(diameter=1)], obs)
