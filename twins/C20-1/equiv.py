import os, sys; sys.path.insert(0, os.getcwd())
import collections
from types import MappingProxyType

from magpylib._src.defaults.defaults_utility import magic_to_dict, update_nested_dict
from magpylib._src.style import BaseStyle, MagnetStyle


def run(label, func):
    try:
        res = func()
    except BaseException as e:  # deterministic digest of the error path
        res = f"EXC {type(e).__name__}: {str(e)[:80]!r}"
    print(f"{label}: {res!r}")


# ---- magic_to_dict ---------------------------------------------------------
cases = [
    {},
    {"a": 1},
    {"a_b": 1},
    {"a_b_c": 1, "a_b_d": 2, "a_e": 3, "f": 4},
    {"a_b": 1, "a": {"c": 2}},
    {"a": {"c": 2}, "a_b": 1},
    {"a": 1, "a_b": 2},
    {"a_b": 2, "a": 1},
    {"a": {"b_c": 1}, "a_b_d": 2},
    {"a_b_d": 2, "a": {"b_c": 1}},
    {"_a": 1, "b_": 2, "c__d": 3, "_": 4, "": 5},
    {"path_line_width": 2, "path": {"line_color": "red"}, "path_marker": {"size": 3}},
    {"z_y": 1, "b_a": 2, "z_x": 3},
]
for i, c in enumerate(cases):
    run(f"m2d[{i}]", lambda c=c: magic_to_dict(c))
    run(f"m2d[{i}] order", lambda c=c: list(magic_to_dict(c).items()))
run("m2d sep.", lambda: magic_to_dict({"a.b_c": 1, "a.d": 2, "e_f": 3}, separator="."))
run("m2d sep__", lambda: magic_to_dict({"a__b_c": 1, "a__d__e": 2}, separator="__"))

# aliasing / input preservation
inner = {"c_d": 2}
src = {"a": inner, "a_b": 1}
out = magic_to_dict(src)
print("alias:", src, inner, out, out["a"] is inner)
inner2 = {"c": {"d": 5}}
src2 = {"a": inner2}
out2 = magic_to_dict(src2)
print("alias2:", out2, out2 is src2, out2["a"] is inner2, out2["a"]["c"] is inner2["c"])
lst = [1, 2]
out3 = magic_to_dict({"a_b": lst})
print("alias3:", out3["a"]["b"] is lst)

# error paths
run("err notdict", lambda: magic_to_dict([("a", 1)]))
run("err sep type", lambda: magic_to_dict({"a": 1}, separator=1))
run("err empty sep", lambda: magic_to_dict({"a": 1}, separator=""))
run("err int key", lambda: magic_to_dict({1: 2}))
run("err nested int key", lambda: magic_to_dict({"a": {1: 2}}))
run("ordered dict", lambda: magic_to_dict(collections.OrderedDict(a_b=1, a_c=2)))

# ---- update_nested_dict ----------------------------------------------------
d0 = {"a": 1, "b": None, "c": {"d": None, "e": 5, "f": {"g": None}}, "h": {"i": 1}}
u0 = {"a": 10, "b": 20, "c": {"d": 30, "e": 50, "f": {"g": 70, "x": 1}, "y": 2}, "h": 7, "z": {"zz": 1}, "w": 3}
for sk in (False, True):
    for rn in (False, True):
        import copy
        d, u = copy.deepcopy(d0), copy.deepcopy(u0)
        run(f"und sk={sk} rn={rn}", lambda: update_nested_dict(d, u, same_keys_only=sk, replace_None_only=rn))
        run(f"und sk={sk} rn={rn} order", lambda: list(update_nested_dict(d, u, same_keys_only=sk, replace_None_only=rn)))
        print("   inputs untouched:", d == d0, u == u0)
        for dd in (None, 5, "s", [1]):
            run(f"und nonmap d={dd!r} sk={sk} rn={rn}", lambda: update_nested_dict(dd, {"q": {"r": 1}}, same_keys_only=sk, replace_None_only=rn))
# positional flags, falsy / truthy non-bools
run("und positional", lambda: update_nested_dict({"a": None, "b": 1}, {"a": 2, "b": 3, "c": 4}, 1, "yes"))
run("und zero flags", lambda: update_nested_dict({"a": None, "b": 1}, {"a": 2, "b": 3, "c": 4}, 0, ""))
# mapping (non dict) values in u and d
run("und mappingproxy u-value", lambda: update_nested_dict({"a": {"b": 1}}, {"a": MappingProxyType({"b": 2, "c": 3})}))
run("und mappingproxy d-value", lambda: update_nested_dict({"a": 5, "n": None}, {"a": {"b": 2}, "n": {"k": 1}}, replace_None_only=True))
run("und d-value dict, u-value leaf", lambda: update_nested_dict({"a": {"b": 1}}, {"a": 3}, replace_None_only=True))
# aliasing of leaves / copies
leaf = [1, 2, 3]
sub = {"k": leaf}
d = {"a": {"x": [9]}, "n": None}
u = {"a": {"y": leaf}, "n": sub, "m": sub}
res = update_nested_dict(d, u)
print("alias:", res["a"]["y"] is leaf, res["a"]["x"] is d["a"]["x"], res["n"] is sub, res["n"] == sub, res["m"] is sub, res["m"]["k"] is leaf)
res = update_nested_dict(None, u)
print("alias none:", res is u, res == u, res["n"] is sub)
res = update_nested_dict(7, u, replace_None_only=True)
print("alias nonmap:", res)
# error paths
run("err u not mapping", lambda: update_nested_dict({"a": 1}, 5))
run("err u not mapping, d None", lambda: update_nested_dict(None, 5))
run("err u list", lambda: update_nested_dict({"a": 1}, [("a", 2)]))
run("err nested leaf vs mapping", lambda: update_nested_dict({"a": {"b": 1}}, {"a": {"b": {"c": 1}}}, same_keys_only=True, replace_None_only=True))

# ---- through the style classes --------------------------------------------
s = BaseStyle(path_line_width=2, path={"marker_size": 3}, color="r")
print(s.as_dict(flatten=True))
s.update({"path_line": {"style": "--"}}, path_marker_symbol="x", opacity=0.5)
s.update(path_line_width=None, _replace_None_only=True, color="blue", label="L")
print(s.as_dict(flatten=True))
s.update(bad_key=1, path_bad=2, label="M", _match_properties=False)
print(s.as_dict(flatten=True))
run("style bad key", lambda: s.update(bad_key=1))
run("style bad nested key", lambda: s.update(path_bad=1))
run("style bad init", lambda: MagnetStyle(magnetization_nope=1))
m = MagnetStyle(magnetization_color_north="r", magnetization={"color": {"south": "g"}, "show": False})
print(m.as_dict(flatten=True, separator="_"))

# several invalid names at once: exactly one of them is reported
import re
from magpylib._src.style import Path
for kw in ({"zzz": 1, "yyy_a": 2, "line_width": 1}, {"q": 1}):
    try:
        Path(**kw)
    except AttributeError as e:
        name = re.match(r"Path has no property '(\w+)'", str(e)).group(1)
        print("multi bad:", name in {k.split("_")[0] for k in kw} - {"line"}, str(e).split("\n")[1])
p = Path()
print(p.as_dict(), Path(line_width=3, marker={"size": 2}).as_dict(flatten=True))
