import os, sys; sys.path.insert(0, os.getcwd())
import re
import warnings
import numpy as np
import magpylib as magpy

CLASSES = [
    (magpy.magnet.Cuboid, dict(dimension=(1, 2, 3))),
    (magpy.magnet.Cylinder, dict(dimension=(1, 2))),
    (magpy.magnet.CylinderSegment, dict(dimension=(1, 2, 3, 0, 90))),
    (magpy.magnet.Sphere, dict(diameter=1)),
    (magpy.magnet.Tetrahedron, dict(vertices=[(0, 0, 0), (1, 0, 0), (0, 1, 0), (0, 0, 1)])),
    (magpy.misc.Triangle, dict(vertices=[(0, 0, 0), (1, 0, 0), (0, 1, 0)])),
    (magpy.magnet.TriangularMesh, dict(vertices=[(0, 0, 0), (1, 0, 0), (0, 1, 0), (0, 0, 1)], faces=[(0, 1, 2), (0, 1, 3), (0, 2, 3), (1, 2, 3)])),
]


def dig(r):
    if isinstance(r, np.ndarray):
        return f"ARR {r.dtype} {r.shape} {[x.hex() for x in r.tolist()]}"  # bit-exact
    return f"RET {r!r}"


def state(o):
    return "J=" + dig(o.polarization) + " M=" + dig(o.magnetization)


def run(f):
    with warnings.catch_warnings(record=True) as w:
        warnings.simplefilter("always")
        try:
            res = f()
        except Exception as e:
            res = f"EXC {type(e).__name__}: {e}"
    res = re.sub(r"id=\d+", "id=#", res)  # object ids are not deterministic
    ws = sorted((x.category.__name__, os.path.basename(x.filename), str(x.message).split(" received")[-1][:40]) for x in w)
    return f"{res} | warns={ws}"


values = [
    None, (0, 0, 0), (1, 2, 3), (0.1, -0.2, 1e6), (1999, 0, 0), (2000, 0, 0), (0, 0, 2000.0000001), [1e-3, 1e-3, 1e-3],
    np.array([1, 2, 3]), np.array([1.5, 2.5, 3.5], dtype=np.float32), (float("inf"), 0, 0),
    (1, 2), (1, 2, 3, 4), [(1, 2, 3)], 1, "abc", ("a", "b", "c"), [], (1, None, 3), {1, 2, 3},
]

for cls, geo in CLASSES:
    name = cls.__name__
    for v in values:
        for attr in ("polarization", "magnetization"):
            print(name, attr, "ctor", repr(v), run(lambda: state(cls(**geo, **{attr: v}))))
            obj = cls(**geo, polarization=(0.25, 0.5, 0.75))
            before = state(obj)

            def setit():
                setattr(obj, attr, v)
                return state(obj)

            r = run(setit)
            print(name, attr, "set ", repr(v), r, "| unchanged_on_err:", (not r.startswith("EXC")) or state(obj) == before)
            if isinstance(v, np.ndarray):
                a = getattr(obj, attr)
                print("   alias:", a is v, np.shares_memory(a, v), np.shares_memory(obj.polarization, obj.magnetization))
    # both given / order of checks in the constructor
    for m, p in [((1e6, 0, 0), (1, 0, 0)), ((1, 0, 0), (1, 0, 0)), ("bad", (1, 0, 0)), ((1e6, 0, 0), "bad"), (None, "bad"), ("bad", None), ((1, 2), (1, 2))]:
        print(name, "both", repr(m), repr(p), run(lambda: state(cls(**geo, magnetization=m, polarization=p))))
    # reset to None and back, field evaluation
    obj = cls(**geo, magnetization=(1e5, 2e5, 3e5))
    print(name, "B", dig(np.round(obj.getB((2, 3, 4)), 15)))
    obj.polarization = None
    print(name, "after None", state(obj), run(lambda: obj.getB((2, 3, 4))))
    obj.polarization = (0.1, 0.2, 0.3)
    print(name, "H", dig(np.round(obj.getH((2, 3, 4)), 9)), state(obj))
