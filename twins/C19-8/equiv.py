import os, sys; sys.path.insert(0, os.getcwd())
import hashlib
import json
import re
import warnings

import numpy as np
from scipy.spatial.transform import Rotation as R

import magpylib as magpy
from magpylib._src.display.traces_generic import get_frames
from magpylib._src.display.traces_utility import DEFAULT_ROW_COL_PARAMS
from magpylib._src.display.traces_utility import process_show_input_objs

warnings.simplefilter("ignore")


def norm(o):
    """deterministic, JSON-able view of nested trace structures"""
    if isinstance(o, dict):
        return {str(k): norm(v) for k, v in sorted(o.items(), key=lambda kv: str(kv[0]))}
    if isinstance(o, (list, tuple)):
        return [type(o).__name__, [norm(v) for v in o]]
    if isinstance(o, np.ndarray):
        if o.dtype.kind in "fiu":
            return ["nd", list(o.shape), np.round(o.astype(float), 9).tolist()]
        return ["nd", list(o.shape), [norm(v) for v in o.ravel().tolist()]]
    if isinstance(o, (float, np.floating)):
        return round(float(o), 9)
    if isinstance(o, (int, np.integer, bool, type(None))):
        return o
    if isinstance(o, str):
        return re.sub(r"id=\d+|0x[0-9a-f]+", "#", o)
    if isinstance(o, R):
        return ["rot", np.round(o.as_quat(), 9).tolist()]
    return re.sub(r"id=\d+|0x[0-9a-f]+", "#", repr(o))


def digest(label, o):
    s = json.dumps(norm(o), sort_keys=True)
    print(f"{label}: {hashlib.sha256(s.encode()).hexdigest()[:16]} len={len(s)}")
    return s


def attempt(label, func):
    try:
        res = func()
    except Exception as err:  # pylint: disable=broad-except
        print(f"{label}: EXC {type(err).__name__}: {err}")
        return None
    digest(label, res)
    return res


def model(*objs, backend="plotly", colorgrad=True, **kw):
    objects, *_ = process_show_input_objs(
        objs, **{k: v for k, v in kw.items() if k in DEFAULT_ROW_COL_PARAMS})
    style_kw = {k: v for k, v in kw.items() if k.startswith("style")}
    kw = {k: v for k, v in kw.items() if k not in DEFAULT_ROW_COL_PARAMS and k not in style_kw}
    return get_frames(objects, backend=backend, supports_colorgradient=colorgrad,
                      style_kwargs=style_kw, **kw)


from magpylib._src.defaults.defaults_classes import default_settings
from magpylib._src.display.traces_generic import MagpyMarkers
from magpylib._src.display.traces_generic import get_traces_3D
from magpylib._src.display.traces_utility import get_flatten_objects_properties_recursive


def with_path(obj):
    obj.position = [(0, 0, 0), (1, 2, 3), (2, 4, 6), (3, 6, 9)]
    obj.rotate_from_angax([0, 30, 60, 90], (1, 1, 0), start=0)
    return obj


def scene():
    cube = with_path(magpy.magnet.Cuboid(polarization=(0, 0, 1), dimension=(1, 2, 3)))
    cube.style.model3d.add_trace(backend="matplotlib", constructor="plot", kwargs={"ls": "--"},
                                 args=([0, 1], [0, 1], [0, 2]))
    cube.style.model3d.add_trace(backend="generic", constructor="scatter3d",
                                 kwargs={"x": [0, 1], "y": [0, 0], "z": [0, 0], "mode": "lines"})
    objs = {
        "cube": cube,
        "cyl": with_path(magpy.magnet.Cylinder(polarization=(1, 0, 0), dimension=(1, 2))),
        "loop": with_path(magpy.current.Circle(current=1, diameter=2)),
        "sensor": with_path(magpy.Sensor(pixel=[(0, 0, 0), (0, 0, 1)])),
        "dipole": with_path(magpy.misc.Dipole(moment=(1, 1, 1))),
        "static": magpy.magnet.Sphere(polarization=(0, 0, 1), diameter=1, position=(1, 1, 1)),
    }
    coll = magpy.Collection(objs["cube"], magpy.Collection(objs["loop"], objs["sensor"]))
    return objs, [coll, objs["cyl"], objs["dipole"], objs["static"]]


def snapshot(objs):
    return json.dumps(norm([[o.style.as_dict(), o.position, o.orientation] for o in objs.values()]
                           + [magpy.defaults.as_dict()]))


def props(top, **style_kwargs):
    return get_flatten_objects_properties_recursive(
        *top, style_kwargs=style_kwargs, colorsequence=default_settings.display.colorsequence)


def keyed(res):
    traces_dict, extra = res
    return [[(type(k).__name__, v) for k, v in traces_dict.items()], extra]


for autosize in (None, 0.5):
    for extra in (False, "matplotlib", "plotly"):
        for frames in (None, [0, 2]):
            objs, top = scene()
            before = snapshot(objs)  # also creates the lazily built style objects
            styles = {k: o._style for k, o in objs.items()}
            skw = {} if frames is None else {"style_path_frames": frames}
            attempt(f"get_traces_3D autosize={autosize} extra={extra} frames={frames}",
                    lambda: keyed(get_traces_3D(props(top, **skw), extra_backend=extra, autosize=autosize,
                                                supports_colorgradient=not extra, row=2, col=1)))
            print("  unchanged:", snapshot(objs) == before,
                  "same style objects:", all(o._style is styles[k] for k, o in objs.items()))

# props without a "style" entry (object keeps its own style object while drawing), markers
objs, top = scene()
flat = {objs[k]: {"legendgroup": "lg", "legendtext": None, "showlegend": None}
        for k in ("cube", "cyl", "loop", "static")}
markers = MagpyMarkers((1, 2, 3), (2, 3, 4))
marker_style = markers._style
for o in objs.values():
    o.style.color = "blue"
before = snapshot(objs)
attempt("no style in props", lambda: keyed(get_traces_3D(flat, autosize=2, extra_backend="matplotlib")))
print("  unchanged:", snapshot(objs) == before)
attempt("err markers without style in props", lambda: get_traces_3D({**flat, markers: {"legendgroup": "mk"}}))
print("  unchanged:", snapshot(objs) == before, markers._style is marker_style)
attempt("markers with style in props", lambda: keyed(get_traces_3D({markers: {"style": marker_style}})))
print("  marker style restored:", markers._style is marker_style)
attempt("err unresolved sensor style", lambda: get_traces_3D({objs["sensor"]: {}}, autosize=2))
print("  unchanged:", snapshot(objs) == before)
attempt("empty", lambda: keyed(get_traces_3D({})))


# --- error paths: the object style must be restored, traces of earlier objects are lost
class Boom(magpy.magnet.Cuboid):
    def get_trace(self, **kwargs):
        raise RuntimeError("cannot draw")


objs, top = scene()
boom = Boom(polarization=(0, 0, 1), dimension=(1, 1, 1))
orig_style = boom.style
attempt("err get_trace raises", lambda: get_traces_3D(props([objs["cube"], boom, objs["cyl"]])))
print("  style restored:", boom._style is orig_style, objs["cube"]._style is not None)
bad = with_path(magpy.magnet.Cuboid(polarization=(0, 0, 1), dimension=(1, 1, 1)))
bad.style.model3d.add_trace(backend="matplotlib", constructor="plot", kwargs={"xs": [0, 1]})
orig_style = bad._style
attempt("err extra trace not placeable", lambda: get_traces_3D(props([bad]), extra_backend="matplotlib"))
print("  style restored:", bad._style is orig_style)
attempt("ok extra trace other backend", lambda: keyed(get_traces_3D(props([bad]), extra_backend="plotly")))
attempt("err unexpected kwarg", lambda: get_traces_3D(props([bad]), style="x"))
print("  style restored:", bad._style is orig_style)
attempt("err props not a dict", lambda: get_traces_3D({bad: None}))

# --- full model through show machinery
for backend, cg in (("plotly", True), ("matplotlib", False)):
    for units in ("auto", "cm"):
        objs, top = scene()
        before = snapshot(objs)
        attempt(f"model backend={backend} units={units}", lambda: model(
            *top, backend=backend, colorgrad=cg, units_length=units, style_path_frames=2))
        print("  unchanged:", snapshot(objs) == before)
objs, top = scene()
attempt("model subplots", lambda: model(
    {"objects": top, "col": 1}, {"objects": top[1:], "col": 2, "units_length": "mm"}, backend="plotly"))
attempt("show plotly anim", lambda: magpy.show(
    *top, backend="plotly", return_fig=True, animation=True).to_dict()["frames"])
