import os, sys; sys.path.insert(0, os.getcwd())
import hashlib
import warnings

import numpy as np

import magpylib as magpy
from magpylib._src.fields.special_cel import cel
from magpylib._src.fields.special_cel import cel0
from magpylib._src.fields.special_cel import celv

warnings.simplefilter("ignore")
np.seterr(all="ignore")


def dig(name, arr):
    arr = np.ascontiguousarray(np.asarray(arr, dtype=float))
    h = hashlib.sha256(arr.tobytes()).hexdigest()[:16]
    print(name, arr.shape, arr.dtype, h, np.round(arr.ravel()[:4], 12).tolist())


def attempt(name, func):
    try:
        dig(name, func())
    except Exception as err:  # pylint: disable=broad-except
        print(name, "error", type(err).__name__, str(err)[:40])


def inputs(n, seed, p_sign="mixed"):
    rng = np.random.default_rng(seed)
    kc = rng.uniform(0.05, 2.0, n) * rng.choice([-1.0, 1.0], n)
    p = rng.uniform(0.1, 3.0, n)
    if p_sign == "mixed":
        p = p * rng.choice([-1.0, 1.0], n)
    elif p_sign == "neg":
        p = -p
    c = rng.uniform(-2.0, 2.0, n)
    s = rng.uniform(-2.0, 2.0, n)
    return kc, p, c, s


# dispatch sizes around the scalar/vectorised threshold, all p-sign mixes
for n in (0, 1, 2, 9, 10, 11, 15, 64):
    for p_sign in ("pos", "neg", "mixed"):
        args = inputs(n, 100 + n, p_sign)
        saved = [a.copy() for a in args]
        attempt(f"cel_n{n}_{p_sign}", lambda: cel(*args))
        print("   inputs untouched", all(bool(np.all(a == b)) for a, b in zip(args, saved)))

# celv directly also for small n (never reached through cel) and scalar vs vectorised agreement
for n in (1, 3, 9, 12, 40):
    args = inputs(n, 7 * n, "mixed")
    v = celv(*args)
    dig(f"celv_n{n}", v)
    sc = np.array([cel0(*a) for a in zip(*args)])
    print("   scalar vs vector close", bool(np.allclose(v, sc, rtol=1e-10, atol=0)))

# every element only depends on its own inputs (prefix / permutation of a batch)
args = inputs(30, 5, "mixed")
full = cel(*args)
perm = np.random.default_rng(1).permutation(30)
print("perm exact", bool(np.all(cel(*[a[perm] for a in args]) == full[perm])))
print("prefix 12 exact", bool(np.all(cel(*[a[:12] for a in args]) == full[:12])))
print(
    "prefix 5 close",
    bool(np.allclose(cel(*[a[:5] for a in args]), full[:5], rtol=1e-10, atol=0)),
)

# aliased inputs as used by the cylinder field (p and c are the same array)
k = np.linspace(0.1, 0.9, 14)
one = np.ones(14)
dig("aliased_vec", cel(k, one, one, -one))
dig("aliased_small", cel(k[:4], one[:4], one[:4], -one[:4]))
dig("aliased_all", cel(k, k, k, k))
print("aliased inputs untouched", bool(np.all(one == 1.0)), np.round(k[:3], 6).tolist())

# special values / dtypes / error paths
attempt("p_zero_vec", lambda: cel(k, np.zeros(14), one, one))
attempt("p_zero_small", lambda: cel(k[:3], np.zeros(3), one[:3], one[:3]))
# (kc == 0 with n >= 10 never converges in celv, with and without the patch - not exercised)
attempt("kc_zero_small", lambda: cel(np.zeros(3), np.ones(3), np.ones(3), np.ones(3)))
attempt("nan_vec", lambda: cel(np.full(11, 0.5), np.full(11, np.nan), np.ones(11), np.ones(11)))
attempt("p_one_vec", lambda: cel(np.full(11, 0.5), np.full(11, -3.0), np.ones(11), np.ones(11)))
ints = np.arange(1, 13)
attempt("int_vec", lambda: cel(ints, ints, ints, ints))
attempt("int_neg_p_vec", lambda: cel(ints, -ints, ints, ints))
attempt("int_small", lambda: cel(ints[:5], ints[:5], ints[:5], ints[:5]))
attempt("float32_vec", lambda: cel(*[a.astype(np.float32) for a in inputs(12, 3)]))
attempt("len_mismatch_vec", lambda: cel(k, one[:12], one, one))
attempt("len_mismatch_vec_c", lambda: cel(k, -one, one[:12], one))
attempt("len_mismatch_small", lambda: cel(k[:5], one[:3], one[:5], one[:5]))
attempt("list_small", lambda: cel([0.5, 0.6], [1.0, -2.0], [1.0, 1.0], [1.0, 0.3]))
attempt("list_vec", lambda: cel([0.5] * 10, [1.0] * 10, [1.0] * 10, [1.0] * 10))
attempt("two_dim_small", lambda: cel(np.full((2, 2), 0.5), np.ones((2, 2)), np.ones((2, 2)), np.ones((2, 2))))
attempt("scalar_input", lambda: cel(0.5, 1.0, 1.0, 1.0))

# through the library: cylinder (cel), cylinder segment (el3 -> cel), circle
cyl = magpy.magnet.Cylinder(polarization=(0.1, 0.2, 0.3), dimension=(1, 2))
seg = magpy.magnet.CylinderSegment(
    polarization=(0.3, 0.2, 0.1), dimension=(0.5, 1.5, 1, 10, 200), position=(0, 0, 3)
)
circ = magpy.current.Circle(current=1.0, diameter=2.0, position=(0, 0, -2))
rng = np.random.default_rng(42)
pts = rng.uniform(-3, 3, (40, 3))
for n in (1, 2, 9, 10, 11, 40):
    for src, name in ((cyl, "cyl"), (seg, "seg"), (circ, "circ")):
        dig(f"{name}_B_n{n}", magpy.getB(src, pts[:n], squeeze=False))
dig("joint_H", magpy.getH([cyl, seg, circ, cyl], pts[:12], squeeze=False))
dig(
    "core_cyl",
    magpy.core.magnet_cylinder_axial_Bfield(
        z0=np.array([2, 2, 2.0]), r=np.array([1, 2, 3.0]), z=np.array([1, 2, 3.0])
    ),
)
