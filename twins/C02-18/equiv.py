import os, sys; sys.path.insert(0, os.getcwd())
import hashlib
import warnings

import numpy as np

import magpylib as magpy
from magpylib._src.fields.field_BH_triangularmesh import BHJM_magnet_trimesh

warnings.simplefilter("ignore")


def digest(name, arr):
    arr = np.asarray(arr)
    h = hashlib.sha256(np.ascontiguousarray(arr).tobytes()).hexdigest()[:16]
    print(name, arr.shape, arr.dtype, h)
    with np.printoptions(precision=10, linewidth=200):
        print(arr.astype(int) if arr.dtype == bool else np.round(arr, 12))


def attempt(label, fn):
    try:
        digest(label, fn())
    except Exception as e:  # noqa: BLE001
        print(label, "EXC", type(e).__name__, str(e)[:100].replace("\n", " | "))


def tetra_faces(v):
    v = np.asarray(v, dtype=float)
    return np.array([v[[0, 2, 1]], v[[0, 1, 3]], v[[1, 2, 3]], v[[0, 3, 2]]])


def cube_faces(a=1.0, c=(0, 0, 0)):
    cube = magpy.magnet.TriangularMesh.from_ConvexHull(
        points=[
            (x, y, z) for x in (-a / 2, a / 2) for y in (-a / 2, a / 2) for z in (-a / 2, a / 2)
        ],
        polarization=(0, 0, 1),
    )
    return cube.mesh + np.array(c, dtype=float)


rng = np.random.default_rng(5)
T1 = tetra_faces([(0, 0, 0), (1, 0, 0), (0, 1, 0), (0, 0, 1)])
T2 = tetra_faces([(0, 0, 0), (2, 0, 0), (0, 2, 0), (0, 0, 2)])
C1 = cube_faces(1.0)

# uniform mesh input (ndim 4) with runs of identical meshes: T1 T1 T1 T2 T2 T1 T2 T2
order = [T1, T1, T1, T2, T2, T1, T2, T2]
mesh_u = np.array(order)
n = len(order)
obs = rng.uniform(-0.2, 0.8, (n, 3))
obs[0] = (0.1, 0.1, 0.1)
obs[1] = (0.3, 0.3, 0.3)
obs[2] = (1.5, 1.5, 1.5)
obs[3] = (0.5, 0.5, 0.5)
obs[5] = (0.25, 0.25, 0.0)  # on a face
pol = rng.uniform(-1, 1, (n, 3))
pol[4] = 0

for in_out in ("auto", "inside", "outside", "bla"):
    for field in "BHJM":
        attempt(f"uniform-{in_out}-{field}", lambda: BHJM_magnet_trimesh(field, obs, mesh_u, pol, in_out=in_out))

# ragged mesh input (ndim 1, object array): T1 T1 C1 C1 C1 T2 C1 T1
order_r = [T1, T1, C1, C1, C1, T2, C1, T1]
mesh_r = np.empty(len(order_r), dtype=object)
for i, m in enumerate(order_r):
    mesh_r[i] = m
for in_out in ("auto", "inside", "outside"):
    for field in "BHJM":
        attempt(f"ragged-{in_out}-{field}", lambda: BHJM_magnet_trimesh(field, obs, mesh_r, pol, in_out=in_out))

# single element, integer polarization, default in_out
pol_int = np.array([(1, -2, 3)] * n)
for field in "BHJM":
    attempt(f"single-{field}", lambda: BHJM_magnet_trimesh(field, obs[:1], mesh_u[:1], pol[:1]))
    attempt(f"int-{field}", lambda: BHJM_magnet_trimesh(field, obs, mesh_u, pol_int))

# inputs unchanged / no aliasing
o2, m2, p2 = obs.copy(), mesh_u.copy(), pol.copy()
for field in "BHJM":
    res = BHJM_magnet_trimesh(field, o2, m2, p2)
    print(field, "alias", np.shares_memory(res, p2), np.shares_memory(res, o2))
print("inputs unchanged", np.array_equal(o2, obs), np.array_equal(m2, mesh_u), np.array_equal(p2, pol))

# object interface: two different meshes in one call (ragged), path, rotated
m1 = magpy.magnet.TriangularMesh.from_ConvexHull(
    points=[(0, 0, 0), (1, 0, 0), (0, 1, 0), (0, 0, 1)], polarization=(0.1, 0.2, 0.3)
)
m2 = magpy.magnet.TriangularMesh.from_ConvexHull(
    points=[(x, y, z) for x in (-1, 1) for y in (-1, 1) for z in (-1, 1)],
    polarization=(-0.3, 0.2, 0.5),
)
m1.rotate_from_angax([10, 20, 30], "z")
m2.move((0.1, 0.2, 0.3))
pts = rng.uniform(-1.2, 1.2, (15, 3))
for in_out in ("auto", "inside", "outside"):
    res = {f: magpy.getB([m1, m2], pts, in_out=in_out) if f == "B" else getattr(magpy, f"get{f}")([m1, m2], pts, in_out=in_out) for f in "BHJM"}
    for f in "BHJM":
        digest(f"obj-{in_out}-{f}", res[f])
    print("BHJ", np.allclose(res["B"], magpy.mu_0 * res["H"] + res["J"], rtol=1e-12, atol=1e-15))
    print("JM", np.allclose(res["J"], magpy.mu_0 * res["M"], rtol=1e-14, atol=0))

# error paths: the core function does not validate `field` itself
for bad in ("X", "BH", "", "JM", 5, None):
    try:
        BHJM_magnet_trimesh(bad, obs, mesh_u, pol)
        print("no error", repr(bad))
    except Exception as e:  # noqa: BLE001
        print(repr(bad), type(e).__name__, str(e).replace("\n", " | "))
attempt("shape-obs-B", lambda: BHJM_magnet_trimesh("B", obs[:3], mesh_u, pol))
attempt("shape-obs-J", lambda: BHJM_magnet_trimesh("J", obs[:3], mesh_u, pol))
attempt("shape-pol-J", lambda: BHJM_magnet_trimesh("J", obs, mesh_u, pol[:3]))
attempt("shape-mesh-J", lambda: BHJM_magnet_trimesh("J", obs, mesh_u[:3], pol))
attempt("shape-mesh-B", lambda: BHJM_magnet_trimesh("B", obs, mesh_u[:3], pol))
attempt("empty-J", lambda: BHJM_magnet_trimesh("J", obs[:0], mesh_u[:0], pol[:0]))
attempt("empty-B", lambda: BHJM_magnet_trimesh("B", obs[:0], mesh_u[:0], pol[:0]))
attempt("empty-ragged-B", lambda: BHJM_magnet_trimesh("B", obs[:0], mesh_r[:0], pol[:0]))
attempt("object-api-bad-field", lambda: magpy.getB(m1, pts, field="X") if False else m1.getB(pts, in_out="wrong"))

# --- additions for batch 2: the inside-outside test of the mesh, called directly
from magpylib._src.fields.field_BH_triangularmesh import mask_inside_trimesh

grid = np.array(
    [(x, y, z) for x in (-0.6, -0.5, 0, 0.5, 0.5 + 5e-13, 0.5 + 2e-12) for y in (0, 0.5, 0.7) for z in (-0.5, 0.1, 3)]
)
attempt("inside-cube-grid", lambda: mask_inside_trimesh(grid, C1))
attempt("inside-tetra-grid", lambda: mask_inside_trimesh(grid, T1))
attempt("inside-int-points", lambda: mask_inside_trimesh(np.array([(0, 0, 0), (1, 1, 1), (5, 0, 0)]), C1 * 4))
attempt("inside-int-faces", lambda: mask_inside_trimesh(grid, (T2 * 1).astype(int)))
attempt("inside-nan", lambda: mask_inside_trimesh(np.array([(np.nan, 0, 0), (0, 0, 0.1), (np.inf, 0, 0)]), C1))
attempt("inside-no-points", lambda: mask_inside_trimesh(np.zeros((0, 3)), C1))
attempt("inside-all-outside-box", lambda: mask_inside_trimesh(grid + 10, C1))
attempt("inside-no-faces", lambda: mask_inside_trimesh(grid, np.zeros((0, 3, 3))))
attempt("inside-points-1d", lambda: mask_inside_trimesh(np.array((0.0, 0, 0)), C1))
attempt("inside-points-4col", lambda: mask_inside_trimesh(np.zeros((3, 4)), C1))
attempt("inside-points-list", lambda: mask_inside_trimesh([(0, 0, 0)], C1))
attempt("inside-faces-list", lambda: mask_inside_trimesh(grid, C1.tolist()))
attempt("inside-faces-badshape", lambda: mask_inside_trimesh(grid, np.zeros((4, 3, 2))))
g2, c2 = grid.copy(), C1.copy()
res = mask_inside_trimesh(g2, c2)
print("inputs unchanged", np.array_equal(g2, grid), np.array_equal(c2, C1), res.dtype)

# mesh validity checks of the object interface use the same test (reorientation of faces)
pts_cloud = [(x, y, z) for x in (-1, 1) for y in (-1, 1) for z in (-1, 1)] + [(0, 0, 2)]
tm = magpy.magnet.TriangularMesh.from_ConvexHull(points=pts_cloud, polarization=(0.1, 0.2, 0.3))
flipped = tm.faces[:, ::-1]
tm2 = magpy.magnet.TriangularMesh(
    vertices=tm.vertices, faces=flipped, polarization=(0.1, 0.2, 0.3), reorient_faces=True
)
digest("reoriented-faces", tm2.faces)
digest("reoriented-J", tm2.getJ(grid))
digest("reoriented-B", tm2.getB(grid))


# --- additions for batch 4: the ray-tracing test and its triple product, called directly
from magpylib._src.fields.field_BH_triangularmesh import lines_end_in_trimesh, v_dot_cross3d

rng4 = np.random.default_rng(44)
A, Bv, Cv = (rng4.uniform(-2, 2, (7, 5, 3)) for _ in range(3))
attempt("vdc-3d", lambda: v_dot_cross3d(A, Bv, Cv))
attempt("vdc-2d", lambda: v_dot_cross3d(A[0], Bv[0], Cv[0]))
attempt("vdc-1d", lambda: v_dot_cross3d(A[0, 0], Bv[0, 0], Cv[0, 0]))
attempt("vdc-broadcast", lambda: v_dot_cross3d(A[:, :1], Bv[0], Cv))
attempt("vdc-int", lambda: v_dot_cross3d(np.array([(1, 2, 3)]), np.array([(4, 5, 6)]), np.array([(7, 8, 10)])))
attempt("vdc-4col", lambda: v_dot_cross3d(np.ones((2, 4)) * (1, 2, 3, 9), np.ones((2, 4)) * (3, -1, 2, 9), np.ones((2, 4)) * (0.5, 1, 7, 9)))
spec = np.array([(np.nan, 1, 1), (np.inf, 1, 1), (1e200, 1e200, 1e-200), (0.0, -0.0, 0.0), (1e-200, 1e-200, 1e-200)])
attempt("vdc-special", lambda: v_dot_cross3d(spec, spec[::-1], spec * 2))
attempt("vdc-empty", lambda: v_dot_cross3d(np.zeros((0, 3)), np.zeros((0, 3)), np.zeros((0, 3))))
aa, bb, cc = A.copy(), Bv.copy(), Cv.copy()
r_ = v_dot_cross3d(aa, bb, cc)
print("vdc inputs unchanged", np.array_equal(aa, A), np.array_equal(bb, Bv), np.array_equal(cc, Cv), np.shares_memory(r_, aa), np.shares_memory(r_, cc))
for label, args in {
    "a-2col": (A[0, :, :2], Bv[0], Cv[0]),
    "b-2col": (A[0], Bv[0, :, :2], Cv[0]),
    "c-2col": (A[0], Bv[0], Cv[0, :, :2]),
    "c-1col": (A[0], Bv[0], Cv[0, :, :1]),
    "a-2col-b-1col": (A[0, :, :2], Bv[0, :, :1], Cv[0]),
    "a-short": (A[0, :3], Bv[0], Cv[0]),
    "c-short": (A[0], Bv[0], Cv[0, :3]),
    "a-list": (A[0].tolist(), Bv[0], Cv[0]),
    "c-list": (A[0], Bv[0], Cv[0].tolist()),
    "a-0d": (np.float64(1.0), Bv[0], Cv[0]),
    "c-none": (A[0], Bv[0], None),
    "a-str": (np.array([("a", "b", "c")]), Bv[0, :1], Cv[0, :1]),
}.items():
    attempt("vdc-bad-" + label, lambda: v_dot_cross3d(*args))


def lines_to(points, start=(-7.1, -5.3, -6.2)):
    points = np.asarray(points, dtype=float)
    ln = np.tile(np.array(start, dtype=float), (len(points), 2, 1))
    ln[:, 1] = points
    return ln


surf_pts = np.array(
    [
        (0.0, 0.0, 0.0), (0.5, 0.0, 0.0), (0.5, 0.5, 0.0), (0.5, 0.5, 0.5), (0.5 + 1e-9, 0, 0), (0.5 - 1e-9, 0.2, 0.1),
        (0.2, 0.3, 0.5), (0.25, 0.25, 0.25), (-0.5, -0.5, -0.5), (0.7, 0.1, 0.1), (0.1, 0.1, 3.0), (0.0, 0.0, 0.4999999),
    ]
)
for nme, msh in (("cube", C1), ("tetra", T1), ("tetra2", T2)):
    attempt(f"lines-{nme}-grid", lambda: lines_end_in_trimesh(lines_to(grid), msh))
    attempt(f"lines-{nme}-surf", lambda: lines_end_in_trimesh(lines_to(surf_pts), msh))
    attempt(f"lines-{nme}-vertices", lambda: lines_end_in_trimesh(lines_to(msh.reshape(-1, 3)), msh))
    attempt(f"lines-{nme}-centroids", lambda: lines_end_in_trimesh(lines_to(msh.mean(axis=1)), msh))
    attempt(f"lines-{nme}-axis-start", lambda: lines_end_in_trimesh(lines_to(surf_pts, start=(-3.0, 0.0, 0.0)), msh))
    attempt(f"lines-{nme}-diag-start", lambda: lines_end_in_trimesh(lines_to(surf_pts, start=(-3.0, -3.0, -3.0)), msh))
attempt("lines-random", lambda: lines_end_in_trimesh(lines_to(rng4.uniform(-0.7, 0.7, (60, 3))), C1))
attempt("lines-nan", lambda: lines_end_in_trimesh(lines_to([(np.nan, 0, 0), (0, 0, 0.1), (np.inf, 0, 0)]), C1))
attempt("lines-int", lambda: lines_end_in_trimesh(lines_to([(0, 0, 0), (3, 0, 0)]).astype(int) * 1, (C1 * 4).astype(int)))
attempt("lines-none", lambda: lines_end_in_trimesh(np.zeros((0, 2, 3)), C1))
attempt("lines-no-faces", lambda: lines_end_in_trimesh(lines_to(grid), np.zeros((0, 3, 3))))
attempt("lines-one", lambda: lines_end_in_trimesh(lines_to(grid[10:11]), T1))
l5, c5 = lines_to(grid), C1.copy()
l5c = l5.copy()
r5 = lines_end_in_trimesh(l5, c5)
print("lines inputs unchanged", np.array_equal(l5, l5c), np.array_equal(c5, C1), r5.dtype, r5.shape)
for label, args in {
    "lines-2d": (grid, C1),
    "lines-1pt": (lines_to(grid)[:, :1], C1),
    "lines-2col": (lines_to(grid)[:, :, :2], C1),
    "faces-2col": (lines_to(grid), C1[:, :, :2]),
    "faces-2corners": (lines_to(grid), C1[:, :2]),
    "faces-2d": (lines_to(grid), C1.reshape(-1, 3)),
    "faces-list": (lines_to(grid), C1.tolist()),
    "lines-list": (lines_to(grid).tolist(), C1),
    "faces-4d": (lines_to(grid[:12]), np.array([C1, C1])),
    "lines-none": (None, C1),
}.items():
    attempt("lines-bad-" + label, lambda: lines_end_in_trimesh(*args))

# floating point warnings of the triple product: every warning recorded ("always"), category + text
big = np.array([(1e200, 1e200, 1e200), (1e-200, 1e-200, 1e-200), (1.0, 2.0, 3.0), (np.inf, 1.0, 0.0)])
with warnings.catch_warnings(record=True) as rec, np.errstate(all="warn"):
    warnings.simplefilter("always")
    attempt("vdc-overflow", lambda: v_dot_cross3d(big, big[::-1] * (1, -1, 1), big * 2))
for w in rec:
    print("   warning", w.category.__name__, str(w.message)[:80])
with warnings.catch_warnings(), np.errstate(all="warn"):
    warnings.simplefilter("error")
    attempt("vdc-overflow-as-error", lambda: v_dot_cross3d(big, big[::-1] * (1, -1, 1), big * 2))
with np.errstate(all="raise"):
    attempt("vdc-overflow-errstate-raise", lambda: v_dot_cross3d(big, big[::-1] * (1, -1, 1), big * 2))
