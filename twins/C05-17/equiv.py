import os, sys; sys.path.insert(0, os.getcwd())
import hashlib
import warnings

import numpy as np

import magpylib as magpy
from magpylib._src.fields.field_BH_circle import BHJM_circle

warnings.simplefilter("ignore")


def run(name, fn):
    try:
        arr = np.asarray(fn())
        h = hashlib.sha256(np.ascontiguousarray(arr).tobytes()).hexdigest()[:16]
        print(name, arr.dtype, arr.shape, h, np.round(arr.ravel()[:9], 12).tolist())
        return arr
    except BaseException as e:  # pylint: disable=broad-except
        print(name, "raised", type(e).__name__, "|", str(e)[:200].replace("\n", " / "))
        return None


rng = np.random.default_rng(11)

# observer / diameter / current rows for every special case and their overlaps
CASES = {
    "general": ((0.3, 0.4, 0.5), 2.0, 1.5),
    "general_far": ((30.0, -4.0, 5.0), 2.0, -2.5),
    "general_in_plane": ((0.3, 0.0, 0.0), 2.0, 1.0),
    "on_axis": ((0.0, 0.0, 0.7), 2.0, 1.5),
    "center": ((0.0, 0.0, 0.0), 2.0, 1.5),
    "on_axis_neg_diameter": ((0.0, 0.0, -0.7), -3.0, 2.0),
    "zero_radius": ((0.3, 0.4, 0.5), 0.0, 1.5),
    "zero_radius_on_axis": ((0.0, 0.0, 0.5), 0.0, 1.5),
    "zero_radius_at_origin": ((0.0, 0.0, 0.0), 0.0, 1.5),
    "on_wire_x": ((1.0, 0.0, 0.0), 2.0, 1.5),
    "on_wire_y": ((0.0, -1.5, 0.0), 3.0, 1.5),
    "almost_on_wire": ((1.0 + 1e-15, 0.0, 0.0), 2.0, 1.5),
    "above_wire": ((1.0, 0.0, 1e-9), 2.0, 1.5),
    "zero_current": ((0.3, 0.4, 0.5), 2.0, 0.0),
    "nan_diameter": ((0.3, 0.4, 0.5), np.nan, 1.0),
    "nan_observer_on_axis": ((0.0, 0.0, np.nan), 2.0, 1.0),
    "inf_current_on_axis": ((0.0, 0.0, 1.0), 2.0, np.inf),
    "huge_radius_on_axis": ((0.0, 0.0, 1.0), 1e200, 1.0),
    "tiny_radius_on_axis": ((0.0, 0.0, 1e-200), 1e-200, 1.0),
}


def arrays(keys):
    obs = np.array([CASES[k][0] for k in keys], dtype=float)
    dia = np.array([CASES[k][1] for k in keys], dtype=float)
    cur = np.array([CASES[k][2] for k in keys], dtype=float)
    return obs, dia, cur


print("==== every case alone and all together, all fields")
for key in CASES:
    obs, dia, cur = arrays([key])
    for field in "BHJM":
        run(f"{key} {field}", lambda: BHJM_circle(field, obs, dia, cur))
obs, dia, cur = arrays(list(CASES))
for field in "BHJM":
    run(f"all {field}", lambda: BHJM_circle(field, obs, dia, cur))

print("==== batches that skip a branch")
for name, keys in {
    "no on-axis": ["general", "general_far", "zero_radius", "on_wire_x"],
    "only on-axis": ["on_axis", "center", "on_axis_neg_diameter"],
    "only zero radius on axis": ["zero_radius_on_axis", "zero_radius_at_origin"],
    "only special": ["zero_radius", "on_wire_x", "on_wire_y", "center"],
    "only general": ["general", "general_far", "general_in_plane"],
}.items():
    obs, dia, cur = arrays(keys)
    for field in "BH":
        run(f"{name} {field}", lambda: BHJM_circle(field, obs, dia, cur))

print("==== random mixes")
keys = list(CASES)
for trial in range(6):
    pick = [keys[i] for i in rng.integers(0, len(keys), 50)]
    obs, dia, cur = arrays(pick)
    jitter = rng.random(50) < 0.3
    obs[jitter] += rng.normal(0, 0.2, (int(jitter.sum()), 3))
    h = run(f"mix{trial} H", lambda: BHJM_circle("H", obs, dia, cur))
    b = run(f"mix{trial} B", lambda: BHJM_circle("B", obs, dia, cur))
    h2 = BHJM_circle("H", obs, dia, 2 * cur)
    print("   H(2 i0) == 2 H(i0):", np.array_equal(h2, 2 * h, equal_nan=True))
    o0, d0, c0 = obs.copy(), dia.copy(), cur.copy()
    BHJM_circle("B", obs, dia, cur)
    print("   inputs untouched:", all(np.array_equal(a, b_, equal_nan=True) for a, b_ in ((o0, obs), (d0, dia), (c0, cur))))

print("==== degenerate and error inputs")
e3, e1 = np.zeros((0, 3)), np.zeros(0)
for field in "BHJM":
    run(f"empty {field}", lambda: BHJM_circle(field, e3, e1, e1))
obs, dia, cur = arrays(["general", "on_axis", "zero_radius_on_axis"])
run("bad field X", lambda: BHJM_circle("X", obs, dia, cur))
run("bad field None", lambda: BHJM_circle(None, obs, dia, cur))
run("bad field empty str", lambda: BHJM_circle("", obs, dia, cur))
run("int inputs", lambda: BHJM_circle("H", np.array([(0, 0, 1), (1, 2, 3), (0, 0, 0)]), np.array([2, 2, 0]), np.array([1, 2, 3])))
run("obs 2 columns", lambda: BHJM_circle("H", obs[:, :2], dia, cur))
run("list inputs", lambda: BHJM_circle("H", obs.tolist(), dia.tolist(), cur.tolist()))
run("current None", lambda: BHJM_circle("H", obs, dia, None))

print("==== through the object interface")
loops = [
    magpy.current.Circle(diameter=2, current=1.5),
    magpy.current.Circle(diameter=0, current=1.5, position=(0.1, 0, 0)),
    magpy.current.Circle(diameter=3, current=-2, position=(0, 0, 0.3)),
    magpy.current.Circle(diameter=1, current=0),
]
loops[2].rotate_from_angax(90, "x", anchor=None)
OBS = [(0, 0, 0), (0, 0, 0.7), (1, 0, 0), (0.1, 0, 0), (0.3, 0.4, 0.5), (0, 0, 0.3), (0, 1.5, 0.3)]
col = magpy.Collection(loops[0], magpy.Collection(loops[1], loops[2]))
for field in "BHJM":
    fn = getattr(magpy, "get" + field)
    lst = run(f"obj list {field}", lambda: fn(loops, OBS))
    tot = run(f"obj sumup {field}", lambda: fn(loops, OBS, sumup=True))
    print("   sumup == np.sum(list):", np.array_equal(tot, np.sum(lst, axis=0)))
    run(f"obj collection {field}", lambda: fn([col, loops[3]], OBS))
run("dict interface", lambda: magpy.getH("Circle", OBS, diameter=[2, 0, 2, 2, 2, 0, 3], current=[1, 2, 3, 4, 5, 6, 7]))
run("dict interface scalar", lambda: magpy.getB("Circle", (0, 0, 1), diameter=2, current=1))
