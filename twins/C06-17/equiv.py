import os, sys; sys.path.insert(0, os.getcwd())
import hashlib
import re
import warnings

import numpy as np

import magpylib as magpy
from magpylib._src.fields.field_BH_circle import BHJM_circle

warnings.simplefilter("ignore")
np.seterr(all="ignore")


def dig(name, arr):
    arr = np.ascontiguousarray(np.asarray(arr, dtype=float))
    h = hashlib.sha256(arr.tobytes()).hexdigest()[:16]
    print(name, arr.shape, arr.dtype, h, np.round(arr.ravel()[:6], 12).tolist())


def attempt(name, func, *args, **kwargs):
    try:
        dig(name, func(*args, **kwargs))
    except Exception as err:  # pylint: disable=broad-except
        msg = re.sub(r"id=\d+|0x[0-9a-fA-F]+", "ID", str(err).replace("\n", " "))
        print(name, type(err).__name__, msg[:110])


# rows: general, on axis, on axis + zero radius, zero radius, singularity, general, ...
obs = np.array(
    [
        (0.3, 0.4, 0.5),  # general
        (0.0, 0.0, 0.7),  # on axis
        (0.0, 0.0, 0.7),  # on axis, radius 0
        (0.3, 0.1, 0.2),  # radius 0
        (1.0, 0.0, 0.0),  # on the wire
        (0.0, 1.0, 0.0),  # on the wire
        (0.0, 0.0, 0.0),  # centre
        (0.0, 0.0, -2.0),  # on axis
        (-0.6, 0.8, 1e-17),  # almost on the wire
        (5.0, -3.0, 2.0),  # general
        (0.0, 0.0, 0.0),  # centre, radius 0
        (0.2, 0.0, 0.0),  # in plane
        (np.nan, 0.0, 1.0),
        (0.0, 0.0, np.nan),
        (0.0, 0.0, np.inf),
        (1.0, 1.0, 1.0),
    ]
)
dia = np.array([2, 2, 0, 0, 2, 2, 3, -2, 2, 1.5, 0, 2, 2, 2, 2, np.nan], dtype=float)
cur = np.array([1, 2, 3, 4, 5, 6, 7, 8, 9, 10, 11, -12, 13, 14, 15, 16], dtype=float)
n = len(obs)

for f in "BHJM":
    attempt(f"all-{f}", BHJM_circle, f, obs, dia, cur)

# row by row equals joint evaluation
H_joint = BHJM_circle("H", obs, dia, cur)
H_rows = np.concatenate(
    [BHJM_circle("H", obs[i : i + 1], dia[i : i + 1], cur[i : i + 1]) for i in range(n)]
)
print("rows==joint", np.array_equal(H_joint, H_rows, equal_nan=True))
perm = np.random.default_rng(1).permutation(n)
print(
    "perm",
    np.array_equal(BHJM_circle("H", obs[perm], dia[perm], cur[perm]), H_joint[perm], equal_nan=True),
)

# subsets: only one kind of row, different batch sizes around the cel_iter threshold
attempt("only-general", BHJM_circle, "B", obs[[0, 9, 11]], dia[[0, 9, 11]], cur[[0, 9, 11]])
attempt("only-axis", BHJM_circle, "B", obs[[1, 6, 7]], dia[[1, 6, 7]], cur[[1, 6, 7]])
attempt("only-axis-zero", BHJM_circle, "B", obs[[2, 10]], dia[[2, 10]], cur[[2, 10]])
attempt("only-zero-radius", BHJM_circle, "H", obs[[3]], dia[[3]], cur[[3]])
attempt("only-singular", BHJM_circle, "H", obs[[4, 5]], dia[[4, 5]], cur[[4, 5]])
attempt("one-row", BHJM_circle, "H", obs[:1], dia[:1], cur[:1])
attempt("empty", BHJM_circle, "H", obs[:0], dia[:0], cur[:0])
rng = np.random.default_rng(7)
for m in (9, 10, 11, 40):
    o = rng.normal(size=(m, 3))
    o[::3, :2] = 0
    d = rng.uniform(0.5, 3, m)
    d[::4] = 0
    c = rng.normal(size=m)
    attempt(f"rand-{m}", BHJM_circle, "B", o, d, c)
# integer input
attempt(
    "int",
    BHJM_circle,
    "H",
    np.array([(0, 0, 1), (1, 2, 3), (0, 0, 2), (1, 0, 0)]),
    np.array([2, 4, 0, 2]),
    np.array([1, 2, 3, 4]),
)
# inputs are not modified
o2, d2, c2 = obs.copy(), dia.copy(), cur.copy()
BHJM_circle("B", o2, d2, c2)
print(
    "inputs untouched",
    np.array_equal(o2, obs, equal_nan=True),
    np.array_equal(d2, dia, equal_nan=True),
    np.array_equal(c2, cur),
)

# error paths
attempt("err-field", BHJM_circle, "X", obs, dia, cur)
attempt("err-field2", BHJM_circle, None, obs, dia, cur)
attempt("err-dia-long", BHJM_circle, "H", obs, np.ones(n + 1), cur)
attempt("err-cur-2d", BHJM_circle, "H", obs[:4], dia[:4], None)
attempt("err-obs-shape", BHJM_circle, "H", obs[:, :2], dia, cur)
attempt("err-cur-none", BHJM_circle, "H", obs, dia, None)
attempt("err-dia-none", BHJM_circle, "H", obs, None, cur)

# object oriented
c1 = magpy.current.Circle(current=1.5, diameter=2.0)
c1.move([(0, 0, 0.1 * i) for i in range(1, 4)])
c2 = magpy.current.Circle(current=-2.5, diameter=0.0, position=(0.1, 0, 0))
c3 = magpy.current.Circle(current=3.5, diameter=1.0, position=(0, 0, 1))
c3.rotate_from_angax([10, 20], "x", anchor=0)
s_axis = magpy.Sensor(pixel=[(0, 0, 0.5), (0, 0, -1), (1, 0, 0.3), (0.5, 0, 1)])
s_off = magpy.Sensor(pixel=[(0.2, 0.1, 0.5), (1, 0, 0), (0, 1, 0.1), (0, 0, 0)], position=(0, 0, 0.1))
attempt("oo-B", magpy.getB, [c1, c2, c3], [s_axis, s_off], squeeze=False)
attempt("oo-H", magpy.getH, [c3, c1, c2, c1], [s_off, s_axis])
attempt("oo-J", magpy.getJ, [c1, c2], [s_axis])
B = magpy.getB([c1, c2, c3], [s_axis, s_off], squeeze=False)
for i, c in enumerate((c1, c2, c3)):
    Bc = magpy.getB(c, [s_axis, s_off], squeeze=False)[0]
    m = Bc.shape[0]
    print("oo source alone", i, np.array_equal(B[i, :m], Bc), np.array_equal(B[i, m:], np.repeat(Bc[-1:], 4 - m, axis=0)))
attempt(
    "dict-B",
    magpy.getB,
    "Circle",
    [(0, 0, 1), (1, 1, 1), (0, 0, 0)],
    current=[1, 2, 3],
    diameter=[2, 0, 2],
)
attempt("c1.getH", c1.getH, (0, 0, 0.3))
