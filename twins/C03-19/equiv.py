import os, sys; sys.path.insert(0, os.getcwd())
import hashlib
import re
import warnings

import numpy as np
from scipy.spatial.transform import Rotation as R

import magpylib as magpy

warnings.simplefilter("ignore")


def dig(name, val):
    """print a deterministic (bit-exact) digest of an array or exception"""
    if isinstance(val, BaseException):
        msg = re.sub(r"id=\d+|0x[0-9a-f]+", "#", str(val))
        mh = hashlib.sha256(msg.encode()).hexdigest()[:12]
        print(f"{name}: EXC {type(val).__name__}: msg-sha={mh} len={len(msg)} {msg[:60]!r}...{msg[-60:]!r}")
    elif val is None:
        print(f"{name}: None")
    else:
        a = np.asarray(val, dtype=float)
        h = hashlib.sha256(np.ascontiguousarray(a).tobytes()).hexdigest()[:16]
        print(f"{name}: shape={a.shape} sha={h} sum={np.sum(a):.12e}")


def run(name, func):
    try:
        dig(name, func())
    except Exception as err:  # pylint: disable=broad-except
        dig(name, err)


def state(objs):
    parts = []
    for o in objs:
        parts.append(o._position.tobytes())
        parts.append(o._orientation.as_quat().tobytes())
    return hashlib.sha256(b"".join(parts)).hexdigest()[:16]


from magpylib._src.input_checks import check_format_input_observers

rot3 = R.from_rotvec([[0.1, 0.2, 0.3], [0.5, -0.4, 0.3], [1.0, 2.0, -0.5]])
rng = np.random.default_rng(11)

cub = magpy.magnet.Cuboid(
    polarization=(0.1, 0.2, 0.3), dimension=(1, 2, 3), position=(0.1, 0.2, 0.3)
).rotate_from_angax(33, (1, 2, 3))
dip = magpy.misc.Dipole(moment=(1, 2, 3), position=(-3, 1, 1))
srcs = [cub, dip]

s_none = magpy.Sensor(position=(4, 4, 4)).rotate(rot3, anchor=0, start=0)
s_one = magpy.Sensor(pixel=(0.1, 0.2, 0.3), position=(-4, 3, 2), handedness="left")
s_n3 = magpy.Sensor(pixel=rng.uniform(-0.2, 0.2, (4, 3)), position=(1, 5, 1)).rotate_from_angax(40, "x")
s_13 = magpy.Sensor(pixel=[(0.3, 0.2, 0.1)], position=(1, 5, -1))
s_grid = magpy.Sensor(pixel=rng.uniform(-0.2, 0.2, (2, 2, 3)), position=(1, -5, 1))
s_grid2 = magpy.Sensor(pixel=rng.uniform(-0.2, 0.2, (2, 2, 3)), position=(2, -5, 1))
c_sens = magpy.Collection(s_grid, s_grid2)
c_mixed = magpy.Collection(magpy.Sensor(position=(7, 7, 7)), dip.copy(), magpy.Collection(magpy.Sensor(position=(8, 8, 8))))
c_src_only = magpy.Collection(cub.copy())
c_empty = magpy.Collection()
known = {
    id(s_none): "s_none", id(s_one): "s_one", id(s_n3): "s_n3", id(s_13): "s_13",
    id(s_grid): "s_grid", id(s_grid2): "s_grid2",
    id(c_mixed[0]): "c_mixed.s0", id(c_mixed[2][0]): "c_mixed.s1",
}


def describe(result):
    """identity of known sensors, pixel digest of the sensors created from positions"""
    sensors, pix_shapes = result
    out = []
    for sens in sensors:
        if id(sens) in known:
            out.append(known[id(sens)])
        else:
            pixel = sens.pixel
            h = hashlib.sha256(np.ascontiguousarray(pixel).tobytes()).hexdigest()[:8]
            out.append(f"new({type(sens).__name__},{pixel.dtype},{pixel.shape},{h},"
                       f"pos={sens._position.tolist()},{sens.handedness})")
    return f"{type(sensors).__name__}{out} {type(pix_shapes).__name__}{pix_shapes}"


def check(name, inp, **kwargs):
    try:
        print(f"{name}: {describe(check_format_input_observers(inp, **kwargs))}")
    except Exception as err:  # pylint: disable=broad-except
        dig(name, err)
        ctx = err.__context__
        print(f"{name}: context={type(ctx).__name__ if ctx is not None else None} "
              f"cause={type(err.__cause__).__name__ if err.__cause__ is not None else None}")


p3 = (1.0, 2.0, 3.0)
pn3 = [(1, 2, 3), (2, 3, 4)]
pgrid = rng.uniform(2, 3, (2, 2, 3))
inputs = {
    "bare-sensor": s_n3,
    "bare-sensor-nopix": s_none,
    "bare-coll": c_sens,
    "bare-coll-mixed": c_mixed,
    "bare-coll-src-only": c_src_only,
    "bare-coll-empty": c_empty,
    "pos3-tuple": p3,
    "pos3-list": list(p3),
    "pos3-array": np.array(p3),
    "pos3-int": (1, 2, 3),
    "pos-n3": pn3,
    "pos-n3-array": np.array(pn3),
    "pos-grid": pgrid,
    "pos-1x3": [p3],
    "pos-strings": ("1", "2", "3"),
    "pos-bool": (True, False, True),
    "list-of-sensors": [s_grid, s_grid2],
    "tuple-of-sensors": (s_grid2, s_grid),
    "same-sensor-twice": [s_one, s_one],
    "sensor+coll": [s_grid, c_sens],
    "coll+sensor+coll": [c_sens, s_grid2, c_sens],
    "sensor+pos": [s_one, p3],
    "pos+sensor": [p3, s_none, s_13],
    "sensors-1pix-kinds": [s_none, s_one, s_13],
    "sensor+posgrid": [s_grid, pgrid],
    "sensor+posgrid-list": [s_grid, pgrid.tolist()],
    "ragged-positions": [p3, pn3],
    "ragged-same-pix": [pn3, [(0, 0, 1), (0, 1, 0)], s_none],
    "mixed-shapes": [s_none, s_n3, s_grid],
    "mixed-shapes-pos": [p3, pn3, pgrid],
    "coll-mixed-in-list": [c_mixed, s_none],
    "object-array": np.array([s_grid, s_grid2], dtype=object),
    "object-array-mixed": np.array([s_none, None], dtype=object),
    # bad inputs
    "empty-list": [],
    "empty-tuple": (),
    "empty-array": np.array([]),
    "empty-2d-array": np.zeros((0, 3)),
    "None": None,
    "string": "sensor",
    "int": 5,
    "float": 1.5,
    "dict": {"a": 1},
    "set": {1, 2, 3},
    "generator": (x for x in (s_grid,)),
    "source": cub,
    "list-with-source": [s_grid, cub],
    "list-with-src-coll": [s_grid, c_src_only],
    "list-with-empty-coll": [c_empty, s_grid],
    "list-with-none": [s_grid, None],
    "list-with-string": [s_grid, "abc"],
    "list-with-bad-pos": [s_grid, (1, 2)],
    "list-with-bad-pos-first": [(1, 2), s_grid],
    "list-with-ragged": [s_grid, [(1, 2, 3), (1, 2)]],
    "list-with-nested-sensor-list": [[s_grid, s_grid2], s_grid],
    "pos-2": (1, 2),
    "pos-4": (1, 2, 3, 4),
    "pos-n2": [(1, 2), (3, 4)],
    "pos-scalar-list": [1],
    "pos-nan": (np.nan, 1, 2),
    "pos-complex": (1j, 2, 3),
}
for iname, inp in inputs.items():
    for agg in (None, "mean"):
        if iname == "generator":
            inp = (x for x in (s_grid,))
        check(f"fmt/{iname}/agg={agg}", inp, pixel_agg=agg)
check("fmt/default-agg", [s_none, s_n3])
check("fmt/default-agg-ok", [s_none, s_one])

# through the public interface
for iname, inp in inputs.items():
    for agg in (None, "max"):
        if iname == "generator":
            inp = (x for x in (s_grid,))
        run(f"getB/{iname}/agg={agg}", lambda: magpy.getB(srcs, inp, pixel_agg=agg))
run("src.getH", lambda: cub.getH(s_grid, c_sens, pgrid))
run("sens.getB", lambda: s_grid.getB(cub, dip))
run("coll.getB", lambda: c_sens.getB(cub))
run("functional", lambda: magpy.getB("Dipole", pn3, moment=(1, 2, 3)))

# the inputs are neither modified nor kept
arr = np.array(pn3, dtype=float)
sensors, _ = check_format_input_observers(arr)
print("pos array untouched:", arr.tolist(), "pixel is input:", sensors[0].pixel is arr)
lst = [s_grid, pgrid, c_sens]
sensors, _ = check_format_input_observers(lst)
print("list untouched:", [type(x).__name__ for x in lst], len(sensors), sensors is lst)
print("collection children untouched:", [known[id(c)] for c in c_sens.children])

# C03 with bare positions next to sensors
glob = R.from_rotvec((0.3, -0.7, 0.2))
shift = np.array((0.3, -1.2, 2.2))
B0 = magpy.getB(cub, [p3, s_one])
c1 = cub.copy().rotate(glob, anchor=0).move(shift)
s1 = s_one.copy().rotate(glob, anchor=0).move(shift)
B1 = magpy.getB(c1, [glob.apply(p3) + shift, s1])
print("covariant (bare position: rotated field, sensor: same field):",
      bool(np.allclose(glob.apply(B0[0]), B1[0], rtol=1e-10, atol=1e-16)),
      bool(np.allclose(B0[1], B1[1], rtol=1e-10, atol=1e-16)))
