import os, sys; sys.path.insert(0, os.getcwd())
import builtins
import hashlib
import re
import warnings

import numpy as np
from scipy.spatial.transform import Rotation as R

import magpylib as magpy

warnings.simplefilter("ignore")
_print = builtins.print


def print(*args):  # deterministic: strip object ids / addresses
    txt = " ".join(str(a) for a in args)
    txt = re.sub(r"id=\d+", "id=#", txt)
    txt = re.sub(r"0x[0-9a-f]+", "0x#", txt)
    _print(txt)


def dig(name, arr):
    arr = np.asarray(arr)
    h = hashlib.sha256(np.ascontiguousarray(arr).tobytes()).hexdigest()[:16]
    print(name, arr.shape, h, np.round(arr.ravel()[:6], 12).tolist())


def err(name, fn):
    try:
        fn()
        print(name, "no error")
    except Exception as e:  # pylint: disable=broad-except
        print(name, type(e).__name__, str(e).splitlines()[0][:100])


def sources():
    s1 = magpy.magnet.Cuboid(polarization=(0.1, 0.2, 0.3), dimension=(1, 2, 3), position=(0.1, 0, 0))
    s2 = magpy.magnet.Sphere(polarization=(0.3, -0.2, 0.1), diameter=1.5, position=(3, 1, 0))
    s3 = magpy.current.Circle(current=12.0, diameter=2.0, position=(0, -3, 1))
    s4 = magpy.misc.Dipole(moment=(1, 2, 3), position=(-3, 0, 0.5))
    s2.rotate_from_angax([10, 20, 30], "y", start=0)
    return s1, s2, s3, s4


def sensors():
    pix2 = [(0, 0, 0), (0.1, 0.2, 0.3)]
    plain = magpy.Sensor(pixel=pix2, position=(1, 5, 2))  # unrotated
    rot = magpy.Sensor(pixel=pix2, position=(1, 5, -2)).rotate_from_angax(33, (1, 2, 3))  # static rotated
    left = magpy.Sensor(pixel=pix2, position=(1, -5, 2), handedness="left")  # unrotated, left handed
    left_rot = magpy.Sensor(pixel=pix2, position=(4, -5, 2), handedness="left").rotate_from_angax(-70, "y")
    spin = magpy.Sensor(pixel=pix2, position=(-4, 4, 1)).rotate_from_angax([10, 20, 30], "z", start=0)  # changing orient.
    spin_left = magpy.Sensor(pixel=pix2, position=(-4, -4, 1), handedness="left")
    spin_left.rotate_from_angax([15, 30, 45], (1, 1, 0), anchor=0, start=0)
    trans = magpy.Sensor(pixel=pix2).rotate_from_angax(45, "x").move([(0, 0, 4), (0, 0, 5), (0, 0, 6)], start=0)
    return dict(plain=plain, rot=rot, left=left, left_rot=left_rot, spin=spin, spin_left=spin_left, trans=trans)


for field in ("B", "H"):
    getf = getattr(magpy, "get" + field)
    s1, s2, s3, s4 = sources()
    sd = sensors()
    allsens = list(sd.values())
    # every sensor alone, flat source list
    for name, sens in sd.items():
        dig(f"{field} one sensor {name}", getf([s1, s2, s3, s4], sens))
    # all sensors together: every pixel slice is treated with its own sensor
    dig(field + " all sensors", getf([s1, s2, s3, s4], allsens))
    dig(field + " all sensors reversed", getf([s4, s3, s2, s1], allsens[::-1]))
    dig(field + " all sensors sumup", getf([s1, s2, s3, s4], allsens, sumup=True))
    # collections: the rotation is applied after the collection entries were summed
    col = magpy.Collection(s2, s3)
    nested = magpy.Collection(magpy.Collection(s4), s1)
    full = getf([col, nested], allsens, squeeze=False)
    dig(field + " collections", full)
    parts = getf([s2, s3, s4, s1], allsens, squeeze=False)
    print(field, "max |col - sum of parts|:", float(np.max(np.abs(full[0] - parts[0] - parts[1]))) < 1e-9,
          float(np.max(np.abs(full[1] - parts[2] - parts[3]))) < 1e-9)
    dig(field + " collection + bare", getf([s1_ for s1_ in (col, )] + [], sd["spin"]))
    dig(field + " mixed order", getf([nested, col], [sd["spin_left"], sd["plain"], sd["rot"]]))
    # sensors with different numbers of pixels -> pixel_agg
    big = magpy.Sensor(pixel=np.linspace((0, 0, 0), (1, 1, 1), 5), position=(0, 0, 7)).rotate_from_angax([5, 6, 7], "x", start=0)
    nopix = magpy.Sensor(position=(0, 0, -7), handedness="left").rotate_from_angax(12, "z")
    grid = magpy.Sensor(pixel=np.zeros((2, 3, 3)) + np.arange(3), position=(7, 0, 0)).rotate_from_angax(90, "y")
    for agg in ("mean", "max"):
        dig(f"{field} pixel_agg {agg}", getf([col, nested], [big, nopix, grid, sd["spin"]], pixel_agg=agg))
        dig(f"{field} pixel_agg {agg} same shapes", getf([col, nested], allsens, pixel_agg=agg, squeeze=False))
    dig(field + " grid sensor", getf([col, s1], grid))
    dig(field + " no pixel, left", getf([col, s1], nopix))
    # sensors in a collection / as positions
    scol = magpy.Collection(sd["rot"], sd["spin_left"])
    dig(field + " sensor collection", getf([nested, s2], scol))
    dig(field + " positions", getf([nested, s2], [(1, 2, 3), (4, 5, 6)]))
    dig(field + " sensor + positions", getf([nested, s2], [sd["left_rot"], [(1, 2, 3), (4, 5, 6)]]))
    df = getf([nested, col], [sd["spin"], sd["left"]], output="dataframe")
    dig(field + " dataframe", df[[field + k for k in "xyz"]].to_numpy())
    # sensor orientations must be untouched
    dig(field + " sensor quats after", np.concatenate([s.orientation.as_quat().reshape(-1, 4) for s in allsens]))

# error paths
s1, s2, s3, s4 = sources()
sd = sensors()
err("different pixel shapes", lambda: magpy.getB([s1, s2], [sd["rot"], magpy.Sensor()]))
broken = magpy.Sensor(pixel=[(0, 0, 0), (1, 1, 1)]).rotate_from_angax([10, 20, 30], "z", start=0)
broken._orientation = R.from_quat(broken._orientation.as_quat()[:2])  # orientation path too short
err("inconsistent sensor path", lambda: magpy.getB([s1, s3], [sd["rot"], broken]))
err("bad handedness", lambda: magpy.Sensor(handedness="up"))
dig("after errors", magpy.getB([s1, magpy.Collection(s2, s3)], list(sd.values())))
