import os, sys; sys.path.insert(0, os.getcwd())
import hashlib
import json
import re
import warnings

import numpy as np
from scipy.spatial.transform import Rotation as R

import magpylib as magpy
from magpylib._src.display.traces_generic import get_frames
from magpylib._src.display.traces_utility import DEFAULT_ROW_COL_PARAMS
from magpylib._src.display.traces_utility import process_show_input_objs

warnings.simplefilter("ignore")


def norm(o):
    """deterministic, JSON-able view of nested trace structures (keeps dict key order)"""
    if isinstance(o, dict):
        return ["dict", [[str(k), norm(v)] for k, v in o.items()]]
    if isinstance(o, (list, tuple)):
        return [type(o).__name__, [norm(v) for v in o]]
    if isinstance(o, np.ndarray):
        if o.dtype.kind in "fiu":
            return ["nd", str(o.dtype.kind), list(o.shape), np.round(o.astype(float), 9).tolist()]
        return ["nd", str(o.dtype.kind), list(o.shape), [norm(v) for v in o.ravel().tolist()]]
    if isinstance(o, (bool, np.bool_)):
        return bool(o)
    if isinstance(o, (float, np.floating)):
        return ["f", round(float(o), 9)]
    if isinstance(o, (int, np.integer)):
        return ["i", int(o)]
    if o is None:
        return None
    if isinstance(o, str):
        return re.sub(r"id=\d+|0x[0-9a-f]+", "#", o)
    if isinstance(o, R):
        return ["rot", np.round(o.as_quat(), 9).tolist()]
    return re.sub(r"id=\d+|0x[0-9a-f]+", "#", repr(o))


def digest(label, o):
    s = json.dumps(norm(o))
    print(f"{label}: {hashlib.sha256(s.encode()).hexdigest()[:16]} len={len(s)}")
    return s


def attempt(label, func):
    try:
        res = func()
    except Exception as err:  # pylint: disable=broad-except
        msg = re.sub(r"id=\d+|0x[0-9a-f]+", "#", str(err))
        print(f"{label}: EXC {type(err).__name__}: {msg}")
        return None
    digest(label, res)
    return res


def model(*objs, backend="plotly", colorgrad=True, **kw):
    objects, *_ = process_show_input_objs(
        objs, **{k: v for k, v in kw.items() if k in DEFAULT_ROW_COL_PARAMS})
    style_kw = {k: v for k, v in kw.items() if k.startswith("style")}
    kw = {k: v for k, v in kw.items() if k not in DEFAULT_ROW_COL_PARAMS and k not in style_kw}
    return get_frames(objects, backend=backend, supports_colorgradient=colorgrad,
                      style_kwargs=style_kw, **kw)


def state(objs):
    return json.dumps(norm([[o.style.as_dict(), o.position, o.orientation] for o in objs]
                           + [magpy.defaults.as_dict()]))


# ---------------------------------------------------------------- twin4-2
from magpylib._src.display.traces_utility import draw_arrowed_line, draw_arrow_from_vertices
from magpylib._src.display.traces_generic import make_mag_arrows
from magpylib._src.display.traces_core import make_Polyline

print("== draw_arrowed_line")
vecs = [(0, 1, 0), (0, -1, 0), (0, -2.5, 0), (0, 3, 0), (1, 0, 0), (0, 0, 1), (-1, 0, 0), (1, 2, 3), (-0.3, -2, 1e-9),
        (0, -1, 1e-12), (1e-20, -1, 0), (0, 0, 0), [0, -1, 0], np.array([0.0, -1.0, 0.0]), (0, -1e-300, 0),
        (1e-8, 1, 0), (0, 1e300, 0), (np.nan, 1, 0), (0, -np.inf, 0)]
for vec in vecs:
    for pivot in ("middle", "tip", "tail", "other", None, 3):
        for incl in (True, False):
            attempt(f"vec={vec} pivot={pivot} incl={incl}", lambda: draw_arrowed_line(
                vec, (1, 2, 3), sign=-1 if incl else 1, arrow_size=0.2, arrow_pos=0.3, pivot=pivot, include_line=incl))
for sign in (1, -1, 0, 2.5, -0.0, np.nan, True):
    for size in (0, 0.1, 1, -1):
        for apos in (0, 0.5, 1, 1.5):
            attempt(f"sign={sign} size={size} pos={apos}", lambda: draw_arrowed_line(
                (1, -1, 2), np.array([0.0, 1.0, 0.0]), sign=sign, arrow_size=size, arrow_pos=apos))
attempt("defaults", lambda: draw_arrowed_line((0, 0, 2), (0, 0, 0)))
for incl in (0, 1, [], [0], "", "no", None):
    attempt(f"include_line={incl!r}", lambda: draw_arrowed_line((0, -1, 0), (0, 0, 0), include_line=incl))
attempt("pos broadcast", lambda: draw_arrowed_line((0, -1, 0), 5))
# errors / odd input
attempt("err vec None", lambda: draw_arrowed_line(None, (0, 0, 0)))
attempt("err vec 2", lambda: draw_arrowed_line((0, 1), (0, 0, 0)))
attempt("err vec 4", lambda: draw_arrowed_line((0, 1, 0, 0), (0, 0, 0)))
attempt("vec 2d n=0", lambda: draw_arrowed_line([(0, -1, 0), (0, -1, 0)], (0, 0, 0)))
attempt("vec 2d single", lambda: draw_arrowed_line([(0, -1, 0)], (0, 0, 0)))
attempt("vec 2d n!=0", lambda: draw_arrowed_line([(1, -1, 0), (0, -1, 2)], (0, 0, 0)))
attempt("err pos shape", lambda: draw_arrowed_line((0, 1, 0), (0, 0)))
attempt("err pos None", lambda: draw_arrowed_line((0, 1, 0), None))
attempt("err arrow_pos None", lambda: draw_arrowed_line((0, 1, 0), (0, 0, 0), arrow_pos=None))
attempt("err arrow_size None", lambda: draw_arrowed_line((0, 1, 0), (0, 0, 0), arrow_size=None))
attempt("err arrow_size str", lambda: draw_arrowed_line((0, 1, 0), (0, 0, 0), arrow_size="a"))
attempt("err sign str", lambda: draw_arrowed_line((0, 1, 0), (0, 0, 0), sign="a"))
attempt("err pivot array", lambda: draw_arrowed_line((0, 1, 0), (0, 0, 0), pivot=np.array(["tip", "tail"])))
attempt("pivot array 1", lambda: draw_arrowed_line((0, 1, 0), (0, 0, 0), pivot=np.array(["tail"])))
attempt("err vec str", lambda: draw_arrowed_line("abc", (0, 0, 0)))

print("== draw_arrow_from_vertices")
paths = {
    "L": np.array([(0, 0, 0), (1, 0, 0), (1, 2, 0), (1, 2, -3)], dtype=float),
    "dup": np.array([(0, 0, 0), (0, 0, 0), (0, -1, 0), (0, -1, 0), (0, 1, 0)], dtype=float),
    "two": np.array([(1, 1, 1), (2, 3, 4)], dtype=float),
    "int": np.array([(0, 0, 0), (0, -2, 0), (3, -2, 0)]),
    "rand": np.random.default_rng(3).random((7, 3)),
}
for name, verts in paths.items():
    for scaled in (True, False, 0, 1, None):
        for incl in (True, False):
            for sign, size, apos in ((1, 1, 0.5), (-1, 0.5, 0.2), (0, 2, 1), (np.sign(-3.0), 0, 0)):
                v0 = verts.copy()
                attempt(f"{name} scaled={scaled} incl={incl} sign={sign} size={size} pos={apos}",
                        lambda: draw_arrow_from_vertices(verts, sign, size, arrow_pos=apos, scaled=scaled, include_line=incl))
                assert np.array_equal(v0, verts)
res = draw_arrow_from_vertices(paths["L"], 1, 1)
print("flags", res.flags["C_CONTIGUOUS"], res.flags["F_CONTIGUOUS"], res.dtype, res.shape)
attempt("positional", lambda: draw_arrow_from_vertices(paths["L"], -1, 0.4, 0.1, False, False))
attempt("err one vertex", lambda: draw_arrow_from_vertices(np.array([(0.0, 0, 0)]), 1, 1))
attempt("err one vertex unscaled", lambda: draw_arrow_from_vertices(np.array([(0.0, 0, 0)]), 1, 1, scaled=False))
attempt("err empty", lambda: draw_arrow_from_vertices(np.zeros((0, 3)), 1, 1))
attempt("err None", lambda: draw_arrow_from_vertices(None, 1, 1))
attempt("list verts", lambda: draw_arrow_from_vertices([(0, 0, 0), (1, 0, 0), (1, 1, 0)], 1, 1))
attempt("list verts unscaled", lambda: draw_arrow_from_vertices([(0, 0, 0), (1, 0, 0), (1, 1, 0)], 1, 1, scaled=False))
attempt("err size None", lambda: draw_arrow_from_vertices(paths["L"], 1, None))
attempt("err size None unscaled", lambda: draw_arrow_from_vertices(paths["L"], 1, None, scaled=False))
attempt("err size str", lambda: draw_arrow_from_vertices(paths["L"], 1, "a"))
attempt("err sign None", lambda: draw_arrow_from_vertices(paths["L"], None, 1))
attempt("err 2 cols", lambda: draw_arrow_from_vertices(np.ones((3, 2)), 1, 1))
attempt("err 1d", lambda: draw_arrow_from_vertices(np.ones(3), 1, 1, scaled=False))
attempt("3d verts", lambda: draw_arrow_from_vertices(np.ones((2, 3, 3)), 1, 1, scaled=False))
attempt("int unscaled", lambda: draw_arrow_from_vertices(paths["int"], 1, 1, scaled=False))

print("== callers")
from magpylib._src.style import get_style
from magpylib._src.defaults.defaults_classes import default_settings


def resolved(obj, **kw):
    """give the object the fully resolved style show() would draw it with"""
    obj._style = get_style(obj, default_settings, **kw)  # pylint: disable=protected-access
    return obj


for cls, kw in ((magpy.magnet.Cuboid, {"dimension": (1, 2, 3)}), (magpy.magnet.Sphere, {"diameter": 2}),
                (magpy.magnet.Cylinder, {"dimension": (1, 2)})):
    for pol in ((0, 0, 1), (0, -1, 0), (0, 1, 0), (1, 1, 1), (0, -1e-3, 0)):
        for off in (0, 0.5, 1):
            o = cls(polarization=pol, **kw)
            o.rotate_from_angax(33, (1, 2, 3)).move((1, 2, 3))
            resolved(o, style_magnetization_arrow_offset=off)
            attempt(f"mag_arrows {cls.__name__} {pol} {off}", lambda: make_mag_arrows(o))
for cur in (1, -2, 0, None):
    for sizemode in ("scaled", "absolute"):
        for off in (0, 0.3, 1):
            o = magpy.current.Polyline(current=cur, vertices=paths["dup"])
            resolved(o, style_arrow_sizemode=sizemode, style_arrow_offset=off, style_arrow_size=1.5, style_color="blue")
            attempt(f"make_Polyline cur={cur} {sizemode} off={off}", lambda: make_Polyline(o))

print("== full models")
c1 = magpy.magnet.Cuboid(polarization=(0, -1, 0), dimension=(1, 1, 1), position=[(i, 0, 0) for i in range(4)])
c2 = magpy.magnet.Cylinder(polarization=(0, 1, 1), dimension=(1, 2)).rotate_from_angax([0, 30, 60], "x", start=0)
l1 = magpy.current.Polyline(current=1, vertices=[(0, 0, 0), (1, 1, 1), (2, 0, 0), (2, -3, 0)], position=[(0, i, 0) for i in range(3)])
l2 = magpy.current.Polyline(current=-1, vertices=[(0, 0, 0), (0, 0, 0), (0, 0, 2)])
l2.rotate_from_angax([10, 20, 30], "y")
objs = [c1, c2, l1, l2, magpy.Collection(c1.copy(), l1.copy())]
before = state(objs)
for backend, cg in (("plotly", True), ("matplotlib", False)):
    for frames in (1, 2, [0, 2]):
        for kw in ({}, {"style_magnetization_mode": "arrow"}, {"style_arrow_sizemode": "absolute", "style_arrow_size": 0.2},
                   {"units_length": "mm", "style_arrow_offset": 0.9}):
            attempt(f"model {backend} frames={frames} {kw}", lambda: model(*objs, backend=backend, colorgrad=cg, style_path_frames=frames, **kw))
attempt("model animation", lambda: model(c1, l1, animation=True, style_magnetization_mode="color+arrow"))
print("objects/defaults unchanged:", before == state(objs))
fig = magpy.show(*objs, backend="plotly", return_fig=True, style_path_frames=1, style_magnetization_mode="arrow")
digest("plotly fig", fig.to_dict()["data"])
