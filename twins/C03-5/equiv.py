import os, sys; sys.path.insert(0, os.getcwd())
import hashlib
import re
import warnings

import numpy as np
from scipy.spatial.transform import Rotation as R

import magpylib as magpy
from magpylib._src.obj_classes.class_BaseGeo import pad_slice_path

warnings.simplefilter("ignore")


def sha(a):
    a = np.ascontiguousarray(np.asarray(a, dtype=float))
    return f"{a.shape}:{hashlib.sha256(a.tobytes()).hexdigest()[:12]}:{np.sum(a):.10e}"


def state(objs):
    out = []
    for o in objs:
        ori = o.orientation
        out.append(
            f"     {type(o).__name__} _pos {sha(o._position)} _ori {sha(o._orientation.as_quat())}"
            f" pos {sha(o.position)} ori {sha(ori.as_quat())} single={ori.single}"
        )
    return "\n".join(out)


def run(name, func, objs=None):
    try:
        res = func()
        if objs is None:
            objs = [res]
        print(f"{name}: ok")
    except Exception as err:  # pylint: disable=broad-except
        msg = re.sub(r"id=\d+|0x[0-9a-f]+", "#", str(err))
        print(f"{name}: EXC {type(err).__name__}: {msg[:100]!r}")
    if objs:
        print(state(objs))


rot1 = R.from_rotvec((0.1, 0.2, 0.3))
rot3 = R.from_rotvec([[0.1, 0.2, 0.3], [0.5, -0.4, 0.3], [1.0, 2.0, -0.5]])
pos1 = (1, 2, 3)
pos2 = [(1, 2, 3), (2, 3, 4)]
pos4 = [(1, 2, 3), (2, 3, 4), (3, 4, 5), (4, 5, 6)]

# pad_slice_path directly: pad, slice, unchanged (identity of returned object)
a5 = np.arange(15.0).reshape(5, 3)
a2 = np.arange(8.0).reshape(2, 4)
for n1, p1 in (("len5", a5), ("len2", a2), ("len1", a2[:1])):
    for n2, p2 in (("len5", a5), ("len2", a2), ("len1", a5[:1])):
        res = pad_slice_path(p1, p2)
        print(f"pad_slice_path {n1} {n2}: {sha(res)} same-object={res is p2} shares-memory={np.shares_memory(res, p2)}")
try:
    pad_slice_path(a5, np.zeros((0, 3)))
except Exception as err:  # pylint: disable=broad-except
    print("pad_slice_path empty:", type(err).__name__, str(err)[:80])

# init with all length combinations
for pn, pos in (("pos1", pos1), ("pos2", pos2), ("pos4", pos4)):
    for on, ori in (("None", None), ("rot1", rot1), ("rot3", rot3), ("rot3[:1]", rot3[:1])):
        run(f"init {pn} {on}", lambda pos=pos, ori=ori: magpy.Sensor(position=pos, orientation=ori))
        run(
            f"init cuboid {pn} {on}",
            lambda pos=pos, ori=ori: magpy.magnet.Cuboid(
                position=pos, orientation=ori, dimension=(1, 2, 3), polarization=(1, 2, 3)
            ),
        )

# init error paths
run("init bad pos shape", lambda: magpy.Sensor(position=(1, 2)), [])
run("init bad pos type", lambda: magpy.Sensor(position="abc"), [])
run("init bad pos 3d", lambda: magpy.Sensor(position=np.zeros((2, 2, 3))), [])
run("init bad ori", lambda: magpy.Sensor(orientation=(0, 0, 0, 1)), [])
run("init bad pos + bad ori", lambda: magpy.Sensor(position=(1, 2), orientation=1), [])

# input array is not aliased
inp = np.array([[1.0, 2.0, 3.0], [4.0, 5.0, 6.0]])
s = magpy.Sensor(position=inp)
inp[0, 0] = 99.0
print("init no alias:", sha(s._position))
p = s.position
p += 1
print("getter returns copy:", sha(s._position), sha(s.position))

# setters on plain objects
for pn, pos in (("pos1", pos1), ("pos2", pos2), ("pos4", pos4)):
    s = magpy.Sensor(position=pos2, orientation=rot3)
    run(f"set position {pn}", lambda s=s, pos=pos: setattr(s, "position", pos), [s])
for on, ori in (("None", None), ("rot1", rot1), ("rot3", rot3)):
    s = magpy.Sensor(position=pos2, orientation=rot1)
    run(f"set orientation {on}", lambda s=s, ori=ori: setattr(s, "orientation", ori), [s])
s = magpy.Sensor(position=pos2, orientation=rot3)
run("set bad position", lambda: setattr(s, "position", (1, 2)), [s])
run("set bad orientation", lambda: setattr(s, "orientation", "x"), [s])


# setters on collections (children keep relative position / rotate about parent)
def collection():
    c1 = magpy.magnet.Cuboid(polarization=(1, 2, 3), dimension=(1, 1, 1), position=(1, 0, 0))
    c2 = magpy.current.Circle(current=1, diameter=1, position=[(0, 1, 0), (0, 2, 0)])
    c2.rotate_from_angax([10, 20], "y", start=0)
    inner = magpy.Collection(c2, position=(0, 0, 1))
    outer = magpy.Collection(c1, inner, position=[(3, 3, 3), (4, 4, 4), (5, 5, 5)])
    return [outer, inner, c1, c2]


for pn, pos in (("pos1", pos1), ("pos2", pos2), ("pos4", pos4)):
    objs = collection()
    run(f"coll set position {pn}", lambda objs=objs, pos=pos: setattr(objs[0], "position", pos), objs)
for on, ori in (("None", None), ("rot1", rot1), ("rot3", rot3)):
    objs = collection()
    run(f"coll set orientation {on}", lambda objs=objs, ori=ori: setattr(objs[0], "orientation", ori), objs)
objs = collection()
run("coll reset_path", lambda: objs[0].reset_path(), objs)
objs = collection()
run("coll set bad position", lambda: setattr(objs[0], "position", [1, 2, 3, 4]), objs)

# field covariance smoke check through init/setter poses
src = magpy.magnet.Cuboid(polarization=(0.1, 0.2, 0.3), dimension=(1, 2, 3), position=pos4, orientation=rot3)
sens = magpy.Sensor(position=pos2, orientation=rot1, pixel=[(0, 0, 0), (0, 0, 1)])
print("field:", sha(magpy.getB(src, sens)))
src.position = pos2
sens.orientation = rot3
print("field after setters:", sha(magpy.getB(src, sens)))
