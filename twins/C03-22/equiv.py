import os, sys; sys.path.insert(0, os.getcwd())
import hashlib
import re
import warnings

import numpy as np
from scipy.spatial.transform import Rotation as R

import magpylib as magpy

warnings.simplefilter("ignore")


def sha(a):
    a = np.ascontiguousarray(np.asarray(a, dtype=float))
    return f"{a.shape}:{hashlib.sha256(a.tobytes()).hexdigest()[:12]}"


def dig(name, val):
    if isinstance(val, BaseException):
        msg = re.sub(r"id=\d+|0x[0-9a-f]+", "#", str(val))
        print(f"{name}: EXC {type(val).__name__}: {msg[:100]!r}")
    else:
        a = np.asarray(val, dtype=float)
        print(f"{name}: {sha(a)} sum={np.sum(a):.12e}")


def state(objs):
    """digest of the paths of all objects"""
    return " ".join(
        f"[{type(o).__name__} {sha(o._position)} {sha(o._orientation.as_quat())}]"
        for o in objs
    )


def run(name, objs, func):
    before = state(objs)
    pos_ids = [o._position for o in objs]
    ori_ids = [o._orientation for o in objs]
    try:
        dig(name, func())
    except Exception as err:  # pylint: disable=broad-except
        dig(name, err)
    after = state(objs)
    print(f"   paths restored bit-exact: {before == after}")
    print(
        "   same position objects:",
        [o._position is p for o, p in zip(objs, pos_ids)],
        "same orientation objects:",
        [o._orientation is r for o, r in zip(objs, ori_ids)],
    )
    print("   " + after)


def make():
    cub = magpy.magnet.Cuboid(polarization=(0.1, 0.2, 0.3), dimension=(1, 2, 3))
    cub.rotate_from_rotvec((11, 22, 33)).move((0.1, 0.2, 0.3))  # path length 1
    cyl = magpy.magnet.Cylinder(polarization=(0.3, 0.2, 0.1), dimension=(1, 2))
    cyl.move([(0.1 * i, 0, 0) for i in range(1, 5)])  # path length 5
    cyl.rotate_from_angax(np.linspace(5, 50, 5), (1, 2, 3), start=0, anchor=0)
    circ = magpy.current.Circle(current=3, diameter=1.5)
    circ.move([(0, 0.1, 0), (0, 0.2, 0)])  # path length 3
    circ.rotate_from_angax([3, 6, 9], "x", start=0)
    sens1 = magpy.Sensor(pixel=[(0, 0, 0), (0.1, 0.2, 0.3)], position=(2, 2, 2))
    sens1.rotate_from_angax(33, (1, 2, 3))  # path length 1
    sens2 = magpy.Sensor(position=[(3, 3, 3), (3, 3, 4)], handedness="left")
    sens2.rotate_from_angax([10, 20], "z", start=0)  # path length 2
    return cub, cyl, circ, sens1, sens2


cub, cyl, circ, sens1, sens2 = make()
allobj = [cub, cyl, circ, sens1, sens2]

run("all static", [cub, sens1], lambda: magpy.getB(cub, sens1))
run("src static, sensor path", [cub, sens2], lambda: magpy.getH(cub, sens2))
run("src path, sensor static", [cyl, sens1], lambda: magpy.getB(cyl, sens1))
run("mixed lengths", allobj, lambda: magpy.getB([cub, cyl, circ], [sens1, sens2], pixel_agg="mean"))
run("mixed lengths, points", allobj, lambda: magpy.getH([cub, cyl, circ], [(0, 0, 0), (1, 1, 1)], sumup=True))
coll = magpy.Collection(cub, circ, sens1)
run("collection", allobj + [coll], lambda: coll.getB())
run("collection + path", allobj + [coll], lambda: magpy.getB([coll, cyl], [coll, sens2], squeeze=False))
run("collection + path agg", allobj + [coll], lambda: magpy.getB([coll, cyl], [coll, sens2], squeeze=False, pixel_agg="min"))
run("same obj twice", allobj, lambda: magpy.getB([cub, cub, cyl], [sens2, sens2]))
run("all equal length >1", [cyl], lambda: magpy.getB(cyl, (1, 2, 3)))

# error paths inside the guarded block: paths must still be restored
bad = magpy.misc.CustomSource(field_func=lambda field, observers: None)


def boom(field, observers):
    raise RuntimeError("boom")


bad2 = magpy.misc.CustomSource(position=(1, 1, 1))
bad2.field_func = lambda field, observers: observers
bad2._field_func = boom
run("None field func", [cub, cyl, bad, sens1], lambda: magpy.getB([cub, cyl, bad], sens1))
run("raising field func", [cub, cyl, bad2, sens1, sens2], lambda: magpy.getB([cub, bad2, cyl], [sens1, sens2], pixel_agg="max"))
run("bad pixel_agg shapes", allobj, lambda: magpy.getB([cub, cyl], [sens1, sens2]))
nofunc = magpy.misc.CustomSource()
run("undefined field func", [cyl, nofunc, sens1], lambda: magpy.getB([cyl, nofunc], sens1))
# error before the guarded block
nodim = magpy.magnet.Cuboid(polarization=(1, 2, 3))
run("missing dimension", [cyl, nodim, sens1], lambda: magpy.getB([cyl, nodim], sens1))
run("dataframe", allobj, lambda: magpy.getB([cub, cyl], sens1, output="dataframe").to_numpy()[:, 4:].astype(float))
run("bad output type", allobj, lambda: magpy.getB([cub, cyl], sens1, output="bad"))


# ---- additions for twins5/2: every kind of exit from the guarded block -------------
def chain(err):
    """type names along the __context__ / __cause__ chain"""
    out = []
    while err is not None and len(out) < 6:
        out.append(
            type(err).__name__
            + ("(cause)" if err.__cause__ is not None else "")
            + ("(suppressed)" if err.__suppress_context__ else "")
        )
        err = err.__cause__ or err.__context__
    return " <- ".join(out)


def run_base(name, objs, func):
    """like run, but also catches BaseException and prints the exception chain"""
    before = state(objs)
    ori_ids = [o._orientation for o in objs]
    try:
        dig(name, func())
    except BaseException as err:  # pylint: disable=broad-except
        dig(name, err)
        print("   chain:", chain(err), "| args:", err.args[:1] if not isinstance(err, Exception) or len(str(err)) < 40 else "...")
    print(
        f"   paths restored bit-exact: {before == state(objs)}",
        "same orientation objects:",
        [o._orientation is r for o, r in zip(objs, ori_ids)],
    )


def raiser(exc):
    def field_func(field, observers):
        raise exc

    return field_func


for label, exc in (
    ("StopIteration", StopIteration("stop-value")),
    ("StopAsyncIteration", StopAsyncIteration("astop")),
    ("RuntimeError", RuntimeError("rt")),
    ("GeneratorExit", GeneratorExit("gen-exit")),
    ("KeyboardInterrupt", KeyboardInterrupt("kbd")),
    ("SystemExit", SystemExit(3)),
    ("chained", None),
):
    if exc is None:
        try:
            try:
                raise KeyError("inner")
            except KeyError as inner:
                raise ValueError("outer") from inner
        except ValueError as outer:
            exc = outer
    src = magpy.misc.CustomSource(field_func=lambda field, observers: observers, position=(1, 1, 1))
    src._field_func = raiser(exc)
    run_base(f"field func raises {label}", [cub, cyl, src, sens1, sens2], lambda: magpy.getB([cub, src, cyl], [sens1, sens2], pixel_agg="max"))
    run_base(f"field func raises {label}, all static", [cub, src, sens1], lambda: magpy.getB([cub, src], sens1))


class CountdownRot:
    """stands in for a Rotation: the n-th as_quat() call fails"""

    def __init__(self, rot, fail_at, exc):
        self.rot, self.fail_at, self.exc, self.calls = rot, fail_at, exc, 0

    def as_quat(self):
        self.calls += 1
        if self.calls == self.fail_at:
            raise self.exc
        return self.rot.as_quat()

    def __len__(self):
        return len(self.rot)

    def __getitem__(self, ind):
        return self.rot[ind]

    def __iter__(self):
        return iter(self.rot)


for fail_at in range(1, 5):
    for exc in (RuntimeError("quat"), StopIteration("quat-stop"), KeyboardInterrupt("quat-kbd")):
        cub_, cyl_, circ_, sens1_, sens2_ = make()
        true_rot = sens1_._orientation
        fake = CountdownRot(true_rot, fail_at, exc)
        sens1_._orientation = fake
        before = state([cub_, cyl_, circ_, sens2_]), sha(sens1_._position)
        try:
            dig(f"as_quat call {fail_at} fails with {type(exc).__name__}", magpy.getB([cub_, cyl_, circ_], [sens1_, sens2_], pixel_agg="mean"))
        except BaseException as err:  # pylint: disable=broad-except
            dig(f"as_quat call {fail_at} fails with {type(exc).__name__}", err)
            print("   chain:", chain(err))
        print(
            "   calls:", fake.calls,
            "restored:", before == (state([cub_, cyl_, circ_, sens2_]), sha(sens1_._position)),
            "fake kept:", sens1_._orientation is fake,
        )


class FlakySensor(magpy.Sensor):
    """the n-th assignment of the position path fails"""

    fail_at = None
    exc = None

    @property
    def _position(self):
        return self.__dict__["_pos_store"]

    @_position.setter
    def _position(self, val):
        self.__dict__["_sets"] = self.__dict__.get("_sets", 0) + 1
        if self.__dict__["_sets"] == self.fail_at:
            raise self.exc
        self.__dict__["_pos_store"] = val


for fail_at in (2, 3, 4):
    for exc in (RuntimeError("setter"), StopIteration("setter-stop"), KeyboardInterrupt("setter-kbd")):
        for failing_field in (False, True):
            cub_, cyl_, circ_, sens1_, sens2_ = make()
            flaky = FlakySensor(position=(1, 2, 3))  # assignment 1
            flaky.fail_at, flaky.exc = fail_at, exc
            srcs = [cub_, cyl_, circ_]
            if failing_field:
                src = magpy.misc.CustomSource(field_func=lambda field, observers: observers)
                src._field_func = raiser(ZeroDivisionError("field"))
                srcs.append(src)
            name = f"position assignment {fail_at} fails with {type(exc).__name__}, failing field {failing_field}"
            try:
                dig(name, magpy.getB(srcs, [flaky, sens2_]))
            except BaseException as err:  # pylint: disable=broad-except
                dig(name, err)
                print("   chain:", chain(err))
            print(
                "   sets:", flaky.__dict__["_sets"], "flaky path:", sha(flaky._position),
                sha(flaky._orientation.as_quat()),
                # when the reset itself fails, which other objects were already reset depends on
                # the iteration order of a set of objects (not deterministic between runs)
                "others:", state([cub_, cyl_, circ_, sens2_]) if fail_at != 3 else "(skipped)",
            )
