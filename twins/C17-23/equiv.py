import os, sys; sys.path.insert(0, os.getcwd())
import re
import warnings
from decimal import Decimal
from fractions import Fraction

import matplotlib

matplotlib.use("Agg")
import numpy as np
from scipy.spatial.transform import Rotation as R

import magpylib as magpy
from magpylib._src import input_checks as ic

warnings.simplefilter("ignore")


def dig(r):
    if isinstance(r, np.ndarray):
        return f"ARR {r.dtype} {r.shape} {np.round(r, 12).tolist()}"
    if isinstance(r, R):
        q = r.as_quat()
        return f"ROT {q.shape} {np.round(q, 12).tolist()}"
    return f"RET {type(r).__name__} {r!r}"


def run(f):
    try:
        out = dig(f())
    except Exception as e:  # pylint: disable=broad-except
        out = f"EXC {type(e).__name__}: {e} | cause={type(e.__cause__).__name__}"
    return re.sub(r"0x[0-9a-f]+|id=\d+", "ADDR", out)


def short(v):
    return re.sub(r"0x[0-9a-f]+", "ADDR", repr(v)[:60].replace("\n", " "))


def state(obj):
    return (
        f"P={obj._position.shape}{np.round(obj._position, 10).tolist()} "
        f"Q={np.round(obj._orientation.as_quat(), 10).tolist()}"
    )


class LoudFloat:
    def __float__(self):
        raise RuntimeError("no float for you")


class EqLog(float):
    """a Number whose == 0 comparison is logged and answers an odd object"""

    def __eq__(self, other):
        print("   EqLog.__eq__", other)
        return "" if float(self) else "yes"

    __hash__ = float.__hash__


values = [
    None, 0, 0.0, -0.0, False, True, 1, 2.5, -3, 0j, 1 + 2j, Fraction(0), Fraction(1, 3), Decimal(0), Decimal("1.5"),
    np.int64(0), np.float32(0), np.float64(2.0), np.bool_(False), np.array(0), np.array(0.0), np.array(4.0),
    EqLog(0.0), EqLog(3.0), np.nan, np.inf, "x", "y", "z", "w", "", "abc", (), [], [[]], (1,), [1], (1, 2),
    (1, 2, 3), [1, 2, 3], (0, 0, 0), [0.0, 0.0, 0.0], (1, 2, 3, 4), [(1, 2, 3)], [(1, 2, 3), (4, 5, 6)], [(0, 0, 0)] * 3,
    [[(1, 2, 3)] * 2] * 2, (1, "a", 3), ("1", "2", "3"), (1, None, 3), [(1, 2, 3), (1, 2)], (1, 2, LoudFloat()),
    {1, 2, 3}, range(3), {"a": 1}, np.array([1, 2, 3]), np.array([[1, 2, 3]] * 2, dtype=np.int16),
    np.zeros((0, 3)), np.zeros((3, 0)), np.zeros(0), np.array([1, 2, 3], dtype=object), np.array([1, 2, 3], dtype=complex),
    np.arange(12.0).reshape(4, 3)[::-1], np.arange(7.0), (np.inf, -np.inf, 1), (1e400, 2, 3), (-1, -2, -3),
    np.ones((2, 2, 3)), np.ones((1, 1, 1, 3)), np.ones((2,) * 18 + (3,))[..., :3].shape, lambda: 1, object,
]

# 1) the three validators directly, plus freshness of the returned arrays
for v in values:
    print("anchor", short(v), "->", run(lambda: ic.check_format_input_anchor(v)))
    print("axis  ", short(v), "->", run(lambda: ic.check_format_input_axis(v)))
    print("angle ", short(v), "->", run(lambda: ic.check_format_input_angle(v)))
a = np.array([1.0, 2.0, 3.0])
for f in (ic.check_format_input_anchor, ic.check_format_input_axis, ic.check_format_input_angle):
    r = f(a)
    print("fresh", f.__name__, r is a, np.shares_memory(r, a), r.dtype)
z1, z2 = ic.check_format_input_anchor(0), ic.check_format_input_anchor(0)
print("zero anchors distinct", z1 is not z2, z1.dtype, z1.tolist())

# 2) through rotate / rotate_from_angax, object unchanged after a rejection
rot = R.from_rotvec((0, 0, 0.3))
for v in values:
    for mk in (lambda: magpy.Sensor(position=(1, 2, 3)),
               lambda: magpy.magnet.Cuboid(dimension=(1, 1, 1), polarization=(0, 0, 1), position=[(1, 0, 0), (2, 0, 0)])):
        obj = mk()
        before = state(obj)
        res = run(lambda: state(obj.rotate(rot, anchor=v)))
        print("rotate anchor", type(obj).__name__, short(v), "->", res, "UNCHANGED" if state(obj) == before else "CHANGED")
        obj = mk()
        res = run(lambda: state(obj.rotate_from_angax(30, "z", anchor=v)))
        print("angax anchor", type(obj).__name__, short(v), "->", res, "UNCHANGED" if state(obj) == before else "CHANGED")
        obj = mk()
        res = run(lambda: state(obj.rotate_from_angax(v, "z")))
        print("angax angle", type(obj).__name__, short(v), "->", res, "UNCHANGED" if state(obj) == before else "CHANGED")
        obj = mk()
        res = run(lambda: state(obj.rotate_from_angax(45, v)))
        print("angax axis", type(obj).__name__, short(v), "->", res, "UNCHANGED" if state(obj) == before else "CHANGED")

# 3) Sensor.pixel: constructor vs setter, readback, unchanged after rejection, copies
for v in values:
    r1 = run(lambda: magpy.Sensor(pixel=v).pixel)
    s = magpy.Sensor(pixel=[(1, 2, 3), (4, 5, 6)])
    old = s._pixel
    r2 = run(lambda: (setattr(s, "pixel", v), s.pixel)[1])
    kept = s._pixel is old
    share = isinstance(v, np.ndarray) and isinstance(s._pixel, np.ndarray) and np.shares_memory(s._pixel, v)
    print("pixel", short(v), "| ctor:", r1, "| set:", r2, "| same:", r1 == r2, "| kept_old:", kept, "| shares:", share)
    if not r2.startswith("EXC"):
        src = magpy.misc.Dipole(moment=(1, 2, 3), position=(0.1, 0.2, 0.3))
        print("   getB", run(lambda: s.getB(src)))
for nd in (19, 20, 21):
    shp = (1,) * (nd - 1) + (3,)
    print("pixel ndim", nd, run(lambda: magpy.Sensor(pixel=np.ones(shp)).pixel.shape))

# 4) show(markers=...): only checked, then drawn
src = magpy.magnet.Cuboid(dimension=(1, 1, 1), polarization=(0, 0, 1))
for v in [None, [(1, 2, 3)], [(1, 2, 3), (4, 5, 6)], np.zeros((2, 3)), (1, 2, 3), "bad", 0, 5, [(1, 2)], [[(1, 2, 3)]], [(1, "a", 3)]]:
    def show():
        fig = magpy.show(src, markers=v, backend="matplotlib", return_fig=True)
        import matplotlib.pyplot as plt

        n = len(fig.axes[0].lines) + len(fig.axes[0].collections)
        plt.close("all")
        return n

    print("markers", short(v), "->", run(show))
