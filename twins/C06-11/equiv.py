import os, sys; sys.path.insert(0, os.getcwd())
import hashlib
import re
import types
import warnings

import numpy as np

import magpylib as magpy
from magpylib._src.input_checks import check_dimensions
from magpylib._src.input_checks import check_excitations

warnings.simplefilter("ignore")


def dig(name, arr):
    arr = np.ascontiguousarray(np.asarray(arr, dtype=float))
    h = hashlib.sha256(arr.tobytes()).hexdigest()[:16]
    print(name, arr.shape, h, np.round(arr.ravel()[:4], 12).tolist())


def attempt(name, func, *args, **kwargs):
    try:
        res = func(*args, **kwargs)
        print(name, "ok", res if res is None else np.shape(res))
    except Exception as err:  # pylint: disable=broad-except
        msg = re.sub(r"id=\d+|0x[0-9a-fA-F]+", "ID", str(err).replace("\n", " "))
        print(name, type(err).__name__, msg[:110])


verts = [(0, 0, 0), (1, 0, 0), (0, 1, 0), (0, 0, 1)]


def complete():
    return [
        magpy.magnet.Cuboid(polarization=(0.1, 0.2, 0.3), dimension=(1, 2, 3)),
        magpy.magnet.Cylinder(polarization=(0.3, 0.2, 0.1), dimension=(1, 2)),
        magpy.magnet.CylinderSegment(
            polarization=(0.1, 0, 0.2), dimension=(1, 2, 1, 10, 120)
        ),
        magpy.magnet.Sphere(polarization=(0, 0.1, 0.2), diameter=1.3),
        magpy.magnet.Tetrahedron(polarization=(0.2, 0, 0.2), vertices=verts),
        magpy.misc.Triangle(polarization=(0.1, 0.1, 0), vertices=verts[:3]),
        magpy.magnet.TriangularMesh.from_ConvexHull(
            polarization=(0, 0, 0.4), points=verts
        ),
        magpy.current.Circle(current=1.5, diameter=2),
        magpy.current.Polyline(current=0.5, vertices=verts),
        magpy.misc.Dipole(moment=(1, 2, 3)),
        magpy.misc.CustomSource(
            field_func=lambda field, observers: np.ones_like(observers) * 0.01
        ),
    ]


def incomplete():
    return [
        ("cub_nodim", magpy.magnet.Cuboid(polarization=(0.1, 0.2, 0.3))),
        ("cub_nopol", magpy.magnet.Cuboid(dimension=(1, 2, 3))),
        ("cub_nothing", magpy.magnet.Cuboid()),
        ("cyl_nodim", magpy.magnet.Cylinder(polarization=(0.1, 0.2, 0.3))),
        ("seg_nopol", magpy.magnet.CylinderSegment(dimension=(1, 2, 1, 10, 120))),
        ("sph_nodia", magpy.magnet.Sphere(polarization=(0.1, 0.2, 0.3))),
        ("sph_nopol", magpy.magnet.Sphere(diameter=1)),
        ("tet_noverts", magpy.magnet.Tetrahedron(polarization=(0.1, 0.2, 0.3))),
        ("tri_nopol", magpy.misc.Triangle(vertices=verts[:3])),
        ("circ_nodia", magpy.current.Circle(current=1)),
        ("circ_nocur", magpy.current.Circle(diameter=1)),
        ("line_noverts", magpy.current.Polyline(current=1)),
        ("line_nocur", magpy.current.Polyline(vertices=verts)),
        ("dip_nomom", magpy.misc.Dipole()),
    ]


obs = [(1.5, 0.2, 0.3), (0.1, 2.2, -0.3), (2, 2, 2)]
good = complete()
for o in good:
    o.style.label = type(o).__name__

# 1) complete sources pass the checks and give a field
attempt("dims_all", check_dimensions, good)
attempt("exc_all", check_excitations, good)
dig("B_all", magpy.getB(good, obs, squeeze=False))
dig("H_all", magpy.getH(good[::-1], obs, squeeze=False))

# 2) each incomplete source alone, directly and through the field interface
for name, src in incomplete():
    src.style.label = name
    attempt(name + "/dims", check_dimensions, [src])
    attempt(name + "/exc", check_excitations, [src])
    attempt(name + "/getB", magpy.getB, src, obs)
    attempt(name + "/getH_in_list", magpy.getH, [good[0], src, good[3]], obs)
    attempt(name + "/in_coll", magpy.getB, magpy.Collection(good[1], src, override_parent=True), obs)

# 3) which error is reported first: all dimensions are checked before any excitation,
#    within one check the first offending source wins
bad = dict(incomplete())
attempt("order1", magpy.getB, [bad["cub_nopol"], bad["sph_nodia"]], obs)
attempt("order2", magpy.getB, [bad["sph_nodia"], bad["cub_nodim"]], obs)
attempt("order3", magpy.getB, [bad["circ_nocur"], bad["dip_nomom"]], obs)
attempt("order4", magpy.getB, [bad["cub_nothing"], good[0]], obs)

# 4) direct calls with stand-in objects: only the first existing name counts
ns = types.SimpleNamespace
attempt("ns_first_set", check_dimensions, [ns(dimension=1, diameter=None)])
attempt("ns_first_none", check_dimensions, [ns(dimension=None, diameter=1)])
attempt("ns_second_none", check_dimensions, [ns(diameter=None, vertices=1)])
attempt("ns_third_none", check_dimensions, [ns(vertices=None)])
attempt("ns_nothing", check_dimensions, [ns(), 3, "x", None])
attempt("ns_exc_first_set", check_excitations, [ns(polarization=0, moment=None)])
attempt("ns_exc_second", check_excitations, [ns(current=None, moment=1)])
attempt("ns_exc_third", check_excitations, [ns(dimension=None, moment=None)])
attempt("ns_exc_nothing", check_excitations, [ns(dimension=None)])
attempt("empty", check_dimensions, [])
attempt("generator", check_excitations, (s for s in good))
attempt("not_iterable", check_dimensions, 5)
attempt("not_iterable_exc", check_excitations, None)


class Raising:
    """attribute access fails with something else than AttributeError"""

    @property
    def diameter(self):
        raise ValueError("boom")

    @property
    def current(self):
        raise AttributeError("hidden")


attempt("raising_dim", check_dimensions, [Raising()])
attempt("raising_exc", check_excitations, [Raising()])

# 5) the field of the complete sources does not depend on the checks having run before
dig("B_again", magpy.getB(good, obs, squeeze=False))
