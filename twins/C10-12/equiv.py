import os, sys; sys.path.insert(0, os.getcwd())
# Deterministic digest of the Collection transform machinery (C10).
# Output must be identical with and without the refactoring patch.
import hashlib
import warnings

import numpy as np
from scipy.spatial.transform import Rotation as R

import magpylib as magpy
from magpylib._src.obj_classes import class_BaseGeo as bg
from magpylib._src.obj_classes import class_BaseTransform as bt

warnings.simplefilter("ignore")
np.set_printoptions(precision=9, suppress=True, linewidth=200)

LINES = []


def emit(tag, *vals):
    parts = [tag]
    for v in vals:
        if isinstance(v, R):
            v = v.as_quat()
        if isinstance(v, np.ndarray):
            # exact bytes (bitwise equality expected) + rounded view for readability
            h = hashlib.sha1(np.ascontiguousarray(v).tobytes()).hexdigest()[:12]
            parts.append(f"{v.shape}{v.dtype}#{h}:{np.round(v, 9).tolist()}")
        else:
            parts.append(repr(v))
    LINES.append(" | ".join(parts))


def state(tag, *objs):
    for i, o in enumerate(objs):
        emit(f"{tag}[{i}]", o._position, o._orientation.as_quat())


def attempt(tag, fn):
    try:
        out = fn()
        LINES.append(f"{tag} -> ok {type(out).__name__}")
    except BaseException as err:  # pylint: disable=broad-except
        LINES.append(f"{tag} -> {type(err).__name__}: {str(err)[:160]!r}")


def tree(pathlen=1):
    """nested collection tree: top(c_in(cube, sens2), sphere, sens)"""
    cube = magpy.magnet.Cuboid(
        polarization=(0.1, 0.2, 0.3), dimension=(1, 2, 3), position=(1, 2, 3)
    )
    sph = magpy.magnet.Sphere(
        polarization=(0.3, 0, 0.1), diameter=1.5, position=(-2, 0.5, 1)
    )
    sens = magpy.Sensor(position=(0.3, -0.2, 4), pixel=[(0, 0, 0), (0.1, 0.2, 0.3)])
    sens2 = magpy.Sensor(position=(3, 3, -1), pixel=[(0, 0, 0.1), (0.2, 0, 0)])
    sens.rotate_from_angax(33, (1, 2, 3))
    cube.rotate_from_euler((10, 20, 30), "xyz")
    c_in = magpy.Collection(cube, sens2, position=(0.5, 0.5, 0.5))
    c_in.rotate_from_rotvec((5, 10, 15))
    top = magpy.Collection(c_in, sph, sens, position=(-1, 1, 0.25))
    if pathlen > 1:
        top.move(np.linspace((0, 0, 0), (1, 2, 3), pathlen)[1:], start=1)
    return top, c_in, cube, sph, sens, sens2


def allobjs(t):
    return t


# ---------------------------------------------------------------- module helpers
for start in ["auto", 0, 1, 3, 7, -1, -3, -7, np.int64(2), np.int64(-9)]:
    for scalar in (True, False):
        for lenop, lenip in [(1, 1), (4, 1), (4, 3), (2, 6)]:
            pad, st = bt.path_padding_param(scalar, lenop, lenip, start)
            emit("ppp", start, scalar, lenop, lenip, pad, type(pad).__name__, st)

s0 = magpy.Sensor(position=[(1, 2, 3), (2, 3, 4), (3, 4, 5)])
for inp, start in [
    (np.array([1.0, 1, 1]), "auto"),
    (np.array([[1.0, 1, 1]] * 2), "auto"),
    (np.array([[1.0, 1, 1]] * 2), 1),
    (np.array([[1.0, 1, 1]] * 5), -5),
    (np.array([1.0, 1, 1]), -6),
    (np.array([0.0, 0, 0, 1]), 2),
]:
    pp, op, st, en, padded = bt.path_padding(inp, start, s0)
    emit("pp", start, pp, op, st, en, padded)

p1 = np.arange(12.0).reshape(4, 3)
for p2 in [np.arange(6.0).reshape(2, 3), np.arange(18.0).reshape(6, 3), p1 + 1]:
    out = bg.pad_slice_path(p1, p2)
    emit("psp", out, out is p2, np.shares_memory(out, p2))

# ---------------------------------------------------------------- move on collections
for pathlen in (1, 4):
    for disp, start in [
        ((1, 2, 3), "auto"),
        ((1, 2, 3), 2),
        ((1, 2, 3), -2),
        ([(1, 2, 3), (2, 3, 4)], "auto"),
        ([(1, 2, 3), (2, 3, 4), (0, 0, 1)], 1),
        ([(1, 2, 3), (2, 3, 4), (0, 0, 1)], -6),
        (np.array([(0.5, 0, 0)] * 3), np.int64(3)),
    ]:
        t = tree(pathlen)
        t[0].move(disp, start=start)
        state(f"move top L{pathlen} {start}", *t)
        t = tree(pathlen)
        t[1].move(disp, start=start)
        state(f"move inner L{pathlen} {start}", *t)
        t = tree(pathlen)
        t[2].move(disp, start=start)
        state(f"move child L{pathlen} {start}", *t)

# ---------------------------------------------------------------- rotate on collections
ROTS = [
    ("rotate", lambda o, a, s: o.rotate(R.from_rotvec((0.2, -0.1, 0.4)), anchor=a, start=s)),
    ("rotateN", lambda o, a, s: o.rotate(None, anchor=a, start=s)),
    (
        "rotateV",
        lambda o, a, s: o.rotate(
            R.from_rotvec([(0.2, -0.1, 0.4), (0.1, 0.1, 0.1), (0, 0, 1)]), anchor=a, start=s
        ),
    ),
    ("angax", lambda o, a, s: o.rotate_from_angax(37, "y", anchor=a, start=s)),
    ("angaxV", lambda o, a, s: o.rotate_from_angax([10, 20, 30, 40], (1, 1, 0), anchor=a, start=s)),
    ("angaxR", lambda o, a, s: o.rotate_from_angax(0.3, (0, 2, 1), anchor=a, start=s, degrees=False)),
    ("angaxI", lambda o, a, s: o.rotate_from_angax(np.int64(45), [0, 0, 1], anchor=a, start=s)),
    ("rotvec", lambda o, a, s: o.rotate_from_rotvec([(10, 20, 30), (5, 5, 5)], anchor=a, start=s)),
    ("euler", lambda o, a, s: o.rotate_from_euler((15, 25), "zx", anchor=a, start=s)),
    ("matrix", lambda o, a, s: o.rotate_from_matrix([(0, -1, 0), (1, 0, 0), (0, 0, 1)], anchor=a, start=s)),
    ("mrp", lambda o, a, s: o.rotate_from_mrp((0.1, 0.2, 0.3), anchor=a, start=s)),
    ("quat", lambda o, a, s: o.rotate_from_quat([(0, 0, 1, 1), (1, 0, 0, 1)], anchor=a, start=s)),
]
ANCHORS = [
    None,
    0,
    (1, -2, 0.5),
    [(1, 0, 0), (0, 1, 0)],
    [(1, 0, 0), (0, 1, 0), (0, 0, 1), (1, 1, 1), (2, 2, 2)],
]
STARTS = ["auto", 0, 2, -1, -7, 5]
for pathlen in (1, 4):
    for name, op in ROTS:
        for anc in ANCHORS:
            for st in STARTS:
                for target in (0, 1, 2):
                    t = tree(pathlen)
                    op(t[target], anc, st)
                    h = hashlib.sha1()
                    for o in t:
                        h.update(np.ascontiguousarray(o._position).tobytes())
                        h.update(np.ascontiguousarray(o._orientation.as_quat()).tobytes())
                    LINES.append(
                        f"rot {name} L{pathlen} a={anc!r} s={st!r} t={target} "
                        f"lens={[len(o._position) for o in t]} #{h.hexdigest()[:16]}"
                    )
# a few in full
t = tree(4)
t[0].rotate_from_angax([10, 20, 30], "z", start=2)
state("full angax top", *t)
t = tree(4)
t[1].rotate_from_angax([10, 20, 30], "z", anchor=None, start=-6)
state("full angax inner", *t)
t = tree(1)
t[0].rotate_from_rotvec([(0, 0, 10), (0, 20, 0)], anchor=[(1, 1, 1)] * 4, start=1)
state("full rotvec top", *t)

# ---------------------------------------------------------------- setters / reset_path
for pathlen in (1, 4):
    for target in (0, 1, 2):
        t = tree(pathlen)
        t[target].position = (7, 8, 9)
        state(f"pos= scalar L{pathlen} t{target}", *t)
        t = tree(pathlen)
        t[target].position = [(7, 8, 9), (1, 1, 1)]
        state(f"pos= short L{pathlen} t{target}", *t)
        t = tree(pathlen)
        t[target].position = np.arange(18.0).reshape(6, 3)
        state(f"pos= long L{pathlen} t{target}", *t)
        t = tree(pathlen)
        t[target].orientation = R.from_rotvec((0.3, 0.2, 0.1))
        state(f"ori= scalar L{pathlen} t{target}", *t)
        t = tree(pathlen)
        t[target].orientation = R.from_rotvec([(0.3, 0.2, 0.1), (0, 0, 1)])
        state(f"ori= short L{pathlen} t{target}", *t)
        t = tree(pathlen)
        t[target].orientation = R.from_rotvec([(0.3, 0.2, 0.1)] * 6)
        state(f"ori= long L{pathlen} t{target}", *t)
        t = tree(pathlen)
        t[target].orientation = None
        state(f"ori= None L{pathlen} t{target}", *t)
        t = tree(pathlen)
        t[target].reset_path()
        state(f"reset L{pathlen} t{target}", *t)

# sequences + field invariance seen by own sensor
t = tree(3)
top = t[0]
B0 = top.getB()
top.move((1, 2, 3)).rotate_from_angax(40, (1, 2, 3), anchor=(1, 0, 0))
top.position = [(0, 0, 1), (0, 1, 0), (1, 0, 0)]
top.orientation = R.from_rotvec([(0.1, 0, 0), (0, 0.2, 0), (0, 0, 0.3)])
t[1].rotate_from_euler(12, "y").move((0.1, 0.1, 0.1))
state("seq", *t)
emit("seq B", top.getB())
t2 = tree(3)
B0 = t2[0].getB()
t2[0].move((1, 2, 3)).rotate_from_angax(40, (1, 2, 3), anchor=(1, 0, 0))
t2[0].position = [(0, 0, 1), (0, 1, 0), (1, 0, 0)]
t2[0].orientation = R.from_rotvec([(0.1, 0, 0), (0, 0.2, 0), (0, 0, 0.3)])
emit("seq invariance", bool(np.allclose(B0, t2[0].getB(), rtol=1e-10, atol=1e-14)))

# aliasing: anchor slice of parent path must not be modified, returns self
t = tree(2)
ppos = t[0]._position
pid = id(ppos)
ret = t[0].rotate_from_angax(10, "z")
emit("alias", ret is t[0], id(t[0]._position) == pid, t[0]._position)
ret = t[0].move((1, 1, 1))
emit("alias2", ret is t[0], id(t[0]._position) == pid)
user_anchor = np.array([(1.0, 2, 3), (4, 5, 6)])
user_disp = np.array([(1.0, 2, 3), (4, 5, 6)])
t[0].rotate_from_angax([10, 20, 30], "x", anchor=user_anchor)
t[0].move(user_disp)
emit("user inputs untouched", user_anchor, user_disp)

# ---------------------------------------------------------------- error paths
def fresh():
    return tree(2)[0]


attempt("err move str", lambda: fresh().move("abc"))
attempt("err move shape", lambda: fresh().move((1, 2)))
attempt("err move 3d", lambda: fresh().move(np.zeros((2, 2, 3))))
attempt("err move start", lambda: fresh().move((1, 2, 3), start=1.5))
attempt("err move start str", lambda: fresh().move((1, 2, 3), start="x"))
attempt("err rotate type", lambda: fresh().rotate((1, 2, 3)))
attempt("err rotate anchor", lambda: fresh().rotate(None, anchor=(1, 2)))
attempt("err rotate anchor1", lambda: fresh().rotate(None, anchor=1))
attempt("err rotate start", lambda: fresh().rotate(None, start=None))
attempt("err angax angle", lambda: fresh().rotate_from_angax("a", "z"))
attempt("err angax angle2d", lambda: fresh().rotate_from_angax([[1, 2]], "z"))
attempt("err angax axis", lambda: fresh().rotate_from_angax(10, "w"))
attempt("err angax axis0", lambda: fresh().rotate_from_angax(10, (0, 0, 0)))
attempt("err angax axis shape", lambda: fresh().rotate_from_angax(10, (0, 1)))
attempt("err angax start", lambda: fresh().rotate_from_angax(10, "z", start=0.5))
attempt("err angax degrees", lambda: fresh().rotate_from_angax(10, "z", degrees=1))
attempt("err angax anchor", lambda: fresh().rotate_from_angax(10, "z", anchor="a"))
attempt(
    "err anchor/rot mismatch",
    lambda: fresh().rotate(R.from_rotvec([(0, 0, 1)] * 3), anchor=[(0, 0, 0)] * 2),
)


def _setpos(v):
    f = fresh()
    f.position = v


def _setori(v):
    f = fresh()
    f.orientation = v


attempt("err pos=", lambda: _setpos((1, 2)))
attempt("err pos= str", lambda: _setpos("a"))
attempt("err ori=", lambda: _setori((1, 2, 3)))
# state after a rejected operation is unchanged
f = tree(2)
attempt("err keep", lambda: f[0].rotate_from_angax(10, "z", anchor=(1, 2)))
state("after rejected", *f)
attempt("err keep2", lambda: f[0].move((1, 2, 3), start=2.0))
state("after rejected2", *f)


# ---------------------------------------------------------------- twin3-2: sources= / sensors= / collections= setters
def lab(o):
    if o is None:
        return None
    return o.style.label


def struct(tag, *colls):
    for c in colls:
        LINES.append(
            f"{tag} {lab(c)}: ch={[lab(o) for o in c._children]} src={[lab(o) for o in c._sources]} "
            f"sens={[lab(o) for o in c._sensors]} coll={[lab(o) for o in c._collections]} "
            f"parents={[lab(o._parent) for o in c._children]} parent={lab(c._parent)}"
        )


def family():
    """top(inner(m1, s1), m2, s2, m3, s3, empty) and an outside pool"""
    m = [
        magpy.magnet.Sphere(polarization=(0.1 * i, 0.2, 0.3), diameter=1, position=(i, 0, 0), style_label=f"m{i}")
        for i in range(1, 7)
    ]
    s = [magpy.Sensor(position=(0, i, 0.5), style_label=f"s{i}") for i in range(1, 7)]
    inner = magpy.Collection(m[0], s[0], position=(1, 1, 1), style_label="inner")
    empty = magpy.Collection(style_label="empty")
    top = magpy.Collection(inner, m[1], s[1], m[2], s[2], empty, position=(-1, 2, 0.5), style_label="top")
    other = magpy.Collection(m[3], s[3], style_label="other")
    other_in = magpy.Collection(m[4], s[4], style_label="other_in")
    other.add(other_in)
    return dict(top=top, inner=inner, empty=empty, other=other, other_in=other_in, m=m, s=s)


def run_setter(tag, attr, make_value):
    f = family()
    top = f["top"]
    olds = {k: getattr(top, k) for k in ("_children", "_sources", "_sensors", "_collections")}
    try:
        value = make_value(f)
        setattr(top, attr, value)
        LINES.append(f"{tag} -> ok")
    except BaseException as err:  # pylint: disable=broad-except
        LINES.append(f"{tag} -> {type(err).__name__}: {str(err)[:200]!r}")
    struct(tag, top, f["inner"], f["empty"], f["other"], f["other_in"])
    LINES.append(
        f"{tag} fresh lists "
        + repr({k: getattr(top, k) is not v for k, v in olds.items()})
        + f" loose={[(lab(o), lab(o._parent)) for o in f['m'] + f['s']]}"
    )
    # the collection frame still carries exactly its current members (C10)
    every = [top, f["inner"], f["empty"], f["other"], f["other_in"]] + f["m"] + f["s"]
    top.move([(1, 2, 3), (2, 3, 4)])
    top.rotate_from_angax([15, 30, 45], (1, 2, 3), start=1)
    top.position = [(0, 0, 1)] * 2
    top.orientation = R.from_rotvec([(0.1, 0.2, 0.3), (0.3, 0.2, 0.1), (0, 0, 1)])
    h = hashlib.sha1()
    for o in every:
        h.update(np.ascontiguousarray(o._position).tobytes())
        h.update(np.ascontiguousarray(o._orientation.as_quat()).tobytes())
    LINES.append(f"{tag} after ops lens={[len(o._position) for o in every]} #{h.hexdigest()[:16]}")
    try:
        emit(f"{tag} B", top.getB())
    except BaseException as err:  # pylint: disable=broad-except
        LINES.append(f"{tag} B -> {type(err).__name__}")


VALUES = [
    ("empty list", lambda f: []),
    ("empty tuple", lambda f: ()),
    ("new src", lambda f: [magpy.magnet.Cuboid(polarization=(1, 0, 0), dimension=(1, 1, 1), style_label="new")]),
    ("new sens", lambda f: [magpy.Sensor(style_label="new")]),
    ("new coll", lambda f: [magpy.Collection(style_label="new")]),
    ("bare src", lambda f: magpy.magnet.Cuboid(polarization=(1, 0, 0), dimension=(1, 1, 1), style_label="new")),
    ("bare sens", lambda f: magpy.Sensor(style_label="new")),
    ("bare coll", lambda f: magpy.Collection(style_label="new")),
    ("own src reversed", lambda f: [f["m"][2], f["m"][1]]),
    ("own sens reversed", lambda f: [f["s"][2], f["s"][1]]),
    ("own colls reversed", lambda f: [f["empty"], f["inner"]]),
    ("one own src", lambda f: [f["m"][1]]),
    ("one own sens", lambda f: [f["s"][2]]),
    ("one own coll", lambda f: [f["inner"]]),
    ("foreign src", lambda f: [f["m"][3], f["m"][5]]),
    ("foreign sens", lambda f: [f["s"][3], f["s"][5]]),
    ("foreign coll", lambda f: [f["other_in"]]),
    ("foreign parent coll", lambda f: [f["other"]]),
    ("mixed", lambda f: [f["m"][5], f["s"][5], f["other"]]),
    ("nested child src", lambda f: [f["m"][0]]),
    ("nested child sens", lambda f: [f["s"][0]]),
    ("nested list", lambda f: [[f["m"][5]], (f["s"][5],)]),
    ("duplicate", lambda f: [f["m"][5], f["m"][5]]),
    ("dup sens", lambda f: [f["s"][5], f["s"][5]]),
    ("self", lambda f: [f["top"]]),
    ("self bare", lambda f: f["top"]),
    ("string", lambda f: "abc"),
    ("number", lambda f: 5),
    ("None", lambda f: None),
    ("list with str", lambda f: [f["m"][5], "x"]),
    ("list with None", lambda f: [None]),
    ("array", lambda f: np.zeros((2, 3))),
    ("generator", lambda f: (o for o in [f["m"][5]])),
]
for attr in ("sources", "sensors", "collections", "children"):
    for name, mk in VALUES:
        run_setter(f"set {attr} <- {name}", attr, mk)

# setters on the inner collection and on a childless one
f = family()
f["inner"].sources = [f["m"][5]]
f["inner"].sensors = []
struct("inner setters", f["top"], f["inner"])
f["empty"].collections = [f["other_in"]]
f["empty"].sensors = f["s"][5]
struct("empty setters", f["top"], f["empty"], f["other"], f["other_in"])
emit("getters", [lab(o) for o in f["top"].sources], [lab(o) for o in f["top"].sensors],
     [lab(o) for o in f["top"].collections], [lab(o) for o in f["top"].children_all],
     [lab(o) for o in f["top"].sources_all], [lab(o) for o in f["top"].sensors_all],
     [lab(o) for o in f["top"].collections_all])
LINES.append(
    "props "
    + repr(
        [
            (k, type(v).__name__, v.fset is not None, (v.fget.__doc__ or "")[:30])
            for k, v in sorted(vars(magpy._src.obj_classes.class_Collection.BaseCollection).items())
            if isinstance(v, property)
        ]
    )
)


class SubColl(magpy.Collection):
    """subclass with an own add()"""

    calls = []

    def add(self, *children, override_parent=False):
        SubColl.calls.append((len(children), override_parent))
        return super().add(*children, override_parent=override_parent)


f = family()
sc = SubColl(f["m"][5], f["s"][5], style_label="sc")
sc.sources = [f["m"][3]]
sc.sensors = [f["s"][3], f["s"][4]]
sc.collections = [f["other_in"]]
struct("subclass", sc, f["other"], f["other_in"])
LINES.append(f"subclass add calls {SubColl.calls!r}")
LINES.append("describe " + repr(sc.describe(format="label+properties", return_string=True)))

# object ids in reprs / messages differ from run to run
import re

LINES[:] = [re.sub(r"id=\d+", "id=#", line) for line in LINES]
digest = hashlib.sha256("\n".join(LINES).encode()).hexdigest()
for line in LINES:
    print(line)
print("N_LINES", len(LINES))
print("DIGEST", digest)
