import os, sys; sys.path.insert(0, os.getcwd())
import re

import magpylib as magpy
from magpylib._src.style import BaseStyle, Model3d, Trace3d


def run(label, func):
    try:
        res = func()
    except BaseException as e:  # deterministic digest of the error path
        msg = re.sub(r" at 0x[0-9a-f]+", "", str(e))
        msg = re.sub(r"id=\d+", "id=N", msg)[:330]
        res = f"EXC {type(e).__name__}: {msg!r}"
    print(f"{label}: {res}")


def tdig(trace):
    d = trace.as_dict()
    uf = d.pop("updatefunc")
    return {k: v for k, v in d.items() if v is not None}, (uf() if callable(uf) else uf)


def mdig(model3d):
    return [tdig(t) for t in model3d.data]


calls = []


def make_trace():
    calls.append("make_trace")
    return {"constructor": "Scatter3d", "kwargs": {"x": [0], "y": [0], "z": [0]}}


def bad_return():
    calls.append("bad_return")
    return [1]


def bad_keys():
    calls.append("bad_keys")
    return {"constructor": "c", "nope": 1, "other": 2}


class CallableTrace(Trace3d):
    def __call__(self):
        return {"constructor": "never used"}


tr_dict = {"backend": "plotly", "constructor": "Mesh3d", "kwargs": {"i": [0]}, "show": False}

# ---- Model3d.data setter / _validate_data ---------------------------------
m = Model3d()
print("fresh:", m.data, m.showdefault)
run("None", lambda: (setattr(m, "data", None), m.data)[1])
run("single dict", lambda: (setattr(m, "data", tr_dict), mdig(m))[1])
print("   caller dict untouched:", tr_dict)
run("list of dicts", lambda: (setattr(m, "data", [tr_dict, {"constructor": "c2"}]), mdig(m))[1])
run("tuple", lambda: (setattr(m, "data", (tr_dict,)), type(m.data).__name__, len(m.data))[1:])
t = Trace3d(constructor="own")
run("Trace3d instance kept by identity", lambda: (setattr(m, "data", t), m.data[0] is t)[1])
run("list with instance, dict, None, callable", lambda: (setattr(m, "data", [t, tr_dict, None, make_trace]), mdig(m), m.data[0] is t)[1:])
print("   calls:", calls)
calls.clear()
run("single callable", lambda: (setattr(m, "data", make_trace), mdig(m), m.data[0].updatefunc is make_trace)[1:])
print("   calls:", calls)
calls.clear()
ct = CallableTrace(constructor="callable trace")
run("callable Trace3d instance is a trace", lambda: (setattr(m, "data", ct), m.data[0] is ct, m.data[0].constructor)[1:])
run("class as callable", lambda: (setattr(m, "data", dict), mdig(m))[1])
run("empty list", lambda: (setattr(m, "data", []), m.data)[1])
m.data = [tr_dict]
run("bad element type", lambda: setattr(m, "data", [tr_dict, 5]))
run("bad element str", lambda: setattr(m, "data", "trace"))
run("bad dict key", lambda: setattr(m, "data", {"nope": 1}))
run("bad dict value", lambda: setattr(m, "data", [{"scale": -1}]))
run("callable returning non dict", lambda: setattr(m, "data", [tr_dict, bad_return]))
run("callable returning bad keys", lambda: setattr(m, "data", bad_keys))
run("callable raising", lambda: setattr(m, "data", lambda: 1 / 0))
run("callable needing args", lambda: setattr(m, "data", lambda a: {}))
print("   kept after errors:", mdig(m), calls)
calls.clear()
run("set (not list/tuple) is one element", lambda: setattr(m, "data", {1, 2}))

# ---- add_trace with kwargs --------------------------------------------------
m2 = Model3d()
run("add_trace dict", lambda: (m2.add_trace(tr_dict) is m2, mdig(m2)))
run("add_trace kwargs only", lambda: (m2.add_trace(constructor="k", scale=2, show=True), mdig(m2)[-1])[1])
run("add_trace dict + kwargs override", lambda: (m2.add_trace(tr_dict, backend="matplotlib", coordsargs={"x": "a", "y": "b", "z": "c"}), mdig(m2)[-1])[1])
t2 = Trace3d(constructor="inst")
run("add_trace instance gets updated in place", lambda: (m2.add_trace(t2, scale=3), m2.data[-1] is t2, t2.scale)[1:])
run("add_trace callable + kwargs", lambda: (m2.add_trace(make_trace, show=False), mdig(m2)[-1], calls)[1:])
run("add_trace updatefunc kwarg", lambda: (m2.add_trace(updatefunc=make_trace), m2.data[-1].updatefunc is make_trace)[1])
run("add_trace callable + updatefunc kwarg", lambda: (m2.add_trace(bad_keys, updatefunc=make_trace), m2.data[-1].updatefunc is make_trace)[1])
n = len(m2.data)
run("add_trace bad kwarg", lambda: m2.add_trace(tr_dict, nope=1))
run("add_trace bad kwarg value", lambda: m2.add_trace(tr_dict, scale=0))
run("add_trace list is one (bad) element", lambda: m2.add_trace([tr_dict]))
print("   length unchanged:", len(m2.data) == n)

# ---- Trace3d.updatefunc ----------------------------------------------------
t3 = Trace3d()
run("default updatefunc", lambda: (callable(t3.updatefunc), t3.updatefunc(), t3.updatefunc.__name__))
run("set None", lambda: (setattr(t3, "updatefunc", None), t3.updatefunc(), t3.updatefunc.__name__)[1:])
calls.clear()
run("set callable", lambda: (setattr(t3, "updatefunc", make_trace), t3.updatefunc is make_trace, calls)[1:])
run("set callable empty dict", lambda: (setattr(t3, "updatefunc", dict), t3.updatefunc is dict)[1])
run("all valid keys", lambda: setattr(t3, "updatefunc", lambda: dict.fromkeys(["args", "backend", "constructor", "coordsargs", "kwargs", "scale", "show", "updatefunc"])))
run("not callable", lambda: setattr(t3, "updatefunc", 5))
run("not callable dict", lambda: setattr(t3, "updatefunc", {"constructor": "c"}))
run("returns list", lambda: setattr(t3, "updatefunc", bad_return))
run("returns None", lambda: setattr(t3, "updatefunc", lambda: None))
run("bad keys", lambda: setattr(t3, "updatefunc", bad_keys))
run("raises", lambda: setattr(t3, "updatefunc", lambda: [][1]))
run("kept", lambda: t3.updatefunc.__name__ == "<lambda>")
run("init bad", lambda: Trace3d(updatefunc=bad_keys))
run("update bad", lambda: t3.update(updatefunc=3))
print("calls:", calls)

# ---- through object styles: copies are independent ---------------------------
src = magpy.magnet.Cuboid(polarization=(0, 0, 1), dimension=(1, 1, 1))
src.style.model3d.add_trace(tr_dict)
src.style.model3d.data[0].show = True
cp = src.copy()
cp.style.model3d.add_trace(constructor="extra")
print("copy independent:", len(src.style.model3d.data), len(cp.style.model3d.data), cp.style.model3d.data[0] is not src.style.model3d.data[0])
run("style kw at init", lambda: mdig(magpy.Sensor(style_model3d_data=[tr_dict], style_model3d_showdefault=False).style.model3d))
run("style kw at init bad", lambda: magpy.Sensor(style_model3d_data=[3]).style)
run("BaseStyle model3d dict", lambda: mdig(BaseStyle(model3d={"data": make_trace}).model3d))
