import os, sys; sys.path.insert(0, os.getcwd())
# Twin 5: field_BH_tetrahedron - check_chirality (in-place reordering) and BHJM_magnet_tetrahedron
import hashlib
import re
import warnings

import numpy as np

import magpylib as magpy
from magpylib._src.display.traces_base import make_Tetrahedron
from magpylib._src.fields.field_BH_tetrahedron import BHJM_magnet_tetrahedron
from magpylib._src.fields.field_BH_tetrahedron import check_chirality
from magpylib._src.fields.field_BH_tetrahedron import point_inside

warnings.simplefilter("ignore")


def h(a):
    a = np.ascontiguousarray(a)
    return hashlib.sha1(a.tobytes()).hexdigest()[:12] + str(a.shape) + str(a.dtype)


def run(tag, fn):
    try:
        res = fn()
        if isinstance(res, np.ndarray):
            print(tag, "->", h(res), np.round(res.ravel()[:6], 12).tolist())
        else:
            print(tag, "->", repr(res))
    except Exception as err:  # pylint: disable=broad-except
        msg = re.sub(r"0x[0-9a-f]+", "0x?", re.sub(r"id=\d+", "id=?", str(err)))
        print(tag, "raised", type(err).__name__, msg[:120].replace("\n", " | "))


right = np.array([(0, 0, 0), (1, 0, 0), (0, 1, 0), (0, 0, 1)], dtype=float)
left = right[[0, 1, 3, 2]]
degenerate = np.array([(0, 0, 0), (1, 0, 0), (2, 0, 0), (0, 0, 1)], dtype=float)
rng = np.random.default_rng(7)
rand = rng.normal(size=(6, 4, 3))


def fresh(deg=False):
    extra = [degenerate] if deg else []
    return np.array([right, left, right * 2 + 1, left * 0.5 - 1, *extra, *rand])


# ---- check_chirality ------------------------------------------------------------
v = fresh(deg=True)
v0 = v.copy()
out = check_chirality(v)
print("chirality returns same object", out is v, "changed rows", np.any(v != v0, axis=(1, 2)).tolist(), h(v))
out2 = check_chirality(out)
print("idempotent", h(out2), out2 is v)
for dt in (float, np.float32, int):
    vv = (fresh() * 4).astype(dt)
    vv0 = vv.copy()
    run(f"chirality dtype={np.dtype(dt).name}", lambda vv=vv: check_chirality(vv))
    print("   changed rows", np.any(vv != vv0, axis=(1, 2)).tolist(), vv.dtype)
ro = fresh()
ro.setflags(write=False)
run("chirality read-only with left handed", lambda: check_chirality(ro))
ro2 = np.array([right, right * 2])
ro2.setflags(write=False)
run("chirality read-only all right handed", lambda: check_chirality(ro2))
run("chirality empty", lambda: check_chirality(np.zeros((0, 4, 3))))
run("chirality wrong shape", lambda: check_chirality(np.zeros((2, 3, 3))))
run("chirality 5 points", lambda: check_chirality(np.arange(30.0).reshape(2, 5, 3)[:, ::-1].copy()))
run("chirality list", lambda: check_chirality([right.tolist()]))
nonc = np.asfortranarray(fresh())
run("chirality fortran order", lambda: check_chirality(nonc))
view_base = np.concatenate([fresh(), fresh()], axis=2)
view = view_base[:, :, 3:]
run("chirality on a view", lambda: check_chirality(view))
print("   base of view", h(view_base))

# ---- core function: in-place effect on the vertices the caller passes ------------
n = len(fresh())
obs = rng.normal(size=(n, 3)) * 0.7
obs[0] = (0.1, 0.1, 0.1)
obs[1] = (0.1, 0.1, 0.1)
pol = rng.normal(size=(n, 3))
for fld in ("B", "H", "J", "M"):
    for in_out in ("auto", "inside", "outside"):
        v = fresh()
        v0 = v.copy()
        o, p = obs.copy(), pol.copy()
        run(f"core {fld} {in_out}", lambda: BHJM_magnet_tetrahedron(fld, o, v, p, in_out=in_out))
        print(
            "   vertices changed rows", np.any(v != v0, axis=(1, 2)).tolist(),
            "obs same", bool(np.all(o == obs)), "pol same", bool(np.all(p == pol)),
        )
res = BHJM_magnet_tetrahedron("J", obs.copy(), fresh(), pol)
print("J result does not alias polarization", not np.shares_memory(res, pol))
pol_int = np.ones((n, 3), dtype=int)
run("core int polarization J", lambda: BHJM_magnet_tetrahedron("J", obs, fresh(), pol_int))
run("core int polarization B", lambda: BHJM_magnet_tetrahedron("B", obs, fresh(), pol_int))
run("core bad field", lambda: BHJM_magnet_tetrahedron("X", obs, fresh(), pol))
run("core bad field type", lambda: BHJM_magnet_tetrahedron(1, obs, fresh(), pol))
run("core lower case", lambda: BHJM_magnet_tetrahedron("b", obs, fresh(), pol))
run("core 'BH'", lambda: BHJM_magnet_tetrahedron("BH", obs, fresh(), pol))
vro = fresh()
vro.setflags(write=False)
run("core B read-only vertices", lambda: BHJM_magnet_tetrahedron("B", obs, vro, pol))
run("core J read-only vertices", lambda: BHJM_magnet_tetrahedron("J", obs, vro, pol))
for fld in "BHJM":
    vd = fresh(deg=True)
    vd0 = vd.copy()
    od = np.concatenate([obs, obs[:1]])
    pd_ = np.concatenate([pol, pol[:1]])
    run(f"core degenerate {fld} auto", lambda: BHJM_magnet_tetrahedron(fld, od, vd, pd_))
    print("   vertices changed rows", np.any(vd != vd0, axis=(1, 2)).tolist())
run("core shape mismatch", lambda: BHJM_magnet_tetrahedron("B", obs[:3], fresh(), pol))
run("point_inside auto", lambda: point_inside(obs, fresh(), "auto").astype(int))
run("point_inside inside", lambda: point_inside(obs, fresh(), "inside").astype(int))

# ---- object oriented + functional interface: nothing the user owns may change -----
for verts in (right, left, rand[0], rand[1]):
    user = verts.copy()
    tet = magpy.magnet.Tetrahedron(polarization=(0.1, -0.2, 0.3), vertices=user, position=(0.1, 0.2, 0.3))
    tet.rotate_from_angax([10, 50, 90], (1, 2, 3), start=0)
    stored = tet.vertices.copy()
    sens = magpy.Sensor(pixel=[(0.1, 0.1, 0.1), (2, 2, 2)], position=(0.1, 0, 0))
    for fld in "BHJM":
        for in_out in ("auto", "inside", "outside"):
            run(f"obj {fld} {in_out}", lambda: getattr(tet, "get" + fld)(sens, in_out=in_out))
            run(f"dict {fld} {in_out}", lambda: getattr(magpy, "get" + fld)("Tetrahedron", obs[:4], vertices=user, polarization=pol[:4], in_out=in_out))
    print("   object vertices same", bool(np.all(tet.vertices == stored)), "user array same", bool(np.all(user == verts)))
    tr = make_Tetrahedron(vertices=user)["kwargs"]
    print("   display trace", h(np.array([tr["x"], tr["y"], tr["z"]])), "user array same", bool(np.all(user == verts)))
col = magpy.Collection(
    magpy.magnet.Tetrahedron(polarization=(1, 2, 3), vertices=left),
    magpy.magnet.Tetrahedron(polarization=(3, 2, 1), vertices=right + 1),
    magpy.magnet.Cuboid(polarization=(1, 1, 1), dimension=(1, 1, 1), position=(3, 3, 3)),
)
run("collection B", lambda: col.getB([(0.1, 0.1, 0.1), (1.2, 1.2, 1.2), (5, 5, 5)]))
run("collection B again", lambda: col.getB([(0.1, 0.1, 0.1), (1.2, 1.2, 1.2), (5, 5, 5)]))
print("collection vertices", h(col[0].vertices), h(col[1].vertices))
