import os, sys; sys.path.insert(0, os.getcwd())
import hashlib
import re
import warnings

import numpy as np

import magpylib as magpy
from magpylib._src.fields.field_BH_cylinder import BHJM_magnet_cylinder

np.set_printoptions(precision=17, linewidth=200)


def clean(text):
    text = re.sub(r"id=\d+", "id=N", str(text))
    text = re.sub(r"0x[0-9a-f]+", "0xN", text)
    return text.replace("\n", " | ")


def fmt(res):
    if isinstance(res, np.ndarray):
        flags = (res.flags["C_CONTIGUOUS"], res.flags["F_CONTIGUOUS"], res.flags["OWNDATA"])
        h = hashlib.sha256(np.ascontiguousarray(res).tobytes()).hexdigest()[:16]
        return f"ndarray{res.shape}{res.dtype}{flags} {h} {res.tolist() if res.size <= 12 else ''}"
    return f"{type(res).__name__}:{clean(repr(res))}"


def attempt(tag, func):
    with warnings.catch_warnings(record=True) as rec:
        warnings.simplefilter("always")
        try:
            print(tag, "->", fmt(func()))
        except Exception as err:  # pylint: disable=broad-except
            print(tag, "EXC", type(err).__name__, clean(err)[:300])
    for w in rec:
        print("   WARN", w.category.__name__, clean(w.message)[:200])


# cylinder d=2 (r0=1), h=3 (z0=1.5): observers inside, on hull, on bases, on edges, near edges, axis, outside
up = np.nextafter
base_obs = np.array(
    [
        (0, 0, 0),
        (0.1, 0.2, 0.3),
        (0, 0, 1.0),
        (0, 0, 1.5),
        (0, 0, -1.5),
        (0, 0, 2.5),
        (1, 0, 0),
        (0, -1, 0.7),
        (0.6, 0.8, 0.2),
        (0.6, 0.8, 1.5),
        (1, 0, 1.5),
        (0, 1, -1.5),
        (up(1, 2), 0, 1.5),
        (up(1, 0), 0, 1.5),
        (1, 0, up(1.5, 2)),
        (1, 0, up(1.5, 0)),
        (0.5, 0.5, 1.5),
        (2, 0, 0),
        (1.5, -2, 0.3),
        (0.3, 0.1, 4),
        (-3, 2, -5),
        (1e-9, 0, 0.2),
        (1e-3, 1e-3, 3),
        (50, 60, 70),
    ],
    dtype=float,
)
n = len(base_obs)
base_dim = np.array([(2.0, 3.0)] * n)
pols = [(1, 2, 3), (0, 0, 1), (1, 0, 0), (0, 1, 0), (0, 0, 0), (-1, 0.5, 0.25), (0.3, -0.4, 0)]
base_pol = np.array((pols * 4)[:n], dtype=float)

print("=== BHJM at length scales x excitation scales")
for s in (1e-9, 1e-3, 1.0, 1e3, 1e9):
    for e in (1e-12, 1.0, 1e12):
        for field in "BHJM":
            attempt(
                f"s={s} e={e} {field}",
                lambda: BHJM_magnet_cylinder(
                    field=field, observers=base_obs * s, dimension=base_dim * s, polarization=base_pol * e
                ),
            )

print("=== one polarization for all observers")
for p in pols:
    for field in "BHJM":
        attempt(
            f"pol={p} {field}",
            lambda: BHJM_magnet_cylinder(
                field=field, observers=base_obs, dimension=base_dim, polarization=np.array([p] * n, dtype=float)
            ),
        )

print("=== special inputs")
cases = {
    "mixed dimensions": (base_obs, np.column_stack((np.linspace(0.5, 6, n), np.linspace(4, 0.2, n))), base_pol),
    "negative diameter": (base_obs, base_dim * (-1, 1), base_pol),
    "negative height": (base_obs, base_dim * (1, -1), base_pol),
    "zero diameter": (base_obs, base_dim * (0, 1), base_pol),
    "zero height": (base_obs, base_dim * (1, 0), base_pol),
    "zero both": (base_obs, base_dim * 0, base_pol),
    "int inputs": (
        (base_obs * 2).astype(int),
        np.array([(4, 6)] * n),
        np.array([(1, 2, 3)] * n),
    ),
    "float32": (base_obs.astype(np.float32), base_dim.astype(np.float32), base_pol.astype(np.float32)),
    "empty": (np.zeros((0, 3)), np.zeros((0, 2)), np.zeros((0, 3))),
    "single inside": (base_obs[1:2], base_dim[1:2], base_pol[1:2]),
    "single on edge": (base_obs[10:11], base_dim[10:11], base_pol[10:11]),
    "nan observer": (np.array([(np.nan, 0, 0), (1, 1, 1.0)]), np.ones((2, 2)), np.ones((2, 3))),
    "inf observer": (np.array([(np.inf, 0, 0), (1, 1, 1.0)]), np.ones((2, 2)), np.ones((2, 3))),
    "nan dimension": (np.array([(0.1, 0, 0), (1, 1, 1.0)]), np.array([(np.nan, 1.0), (1, np.nan)]), np.ones((2, 3))),
    "fortran": (np.asfortranarray(base_obs), np.asfortranarray(base_dim), np.asfortranarray(base_pol)),
    "few (n<10)": (base_obs[:7], base_dim[:7], base_pol[:7]),
}
for name, (o, d, p) in cases.items():
    for field in "BHJM":
        o0, d0, p0 = o.copy(), d.copy(), p.copy()
        attempt(f"{name} {field}", lambda: BHJM_magnet_cylinder(field=field, observers=o, dimension=d, polarization=p))
        same = all(
            a.tobytes() == b.tobytes() and a.dtype == b.dtype for a, b in ((o, o0), (d, d0), (p, p0))
        )
        print("   inputs untouched:", same)

print("=== result aliasing")
for field in "BHJM":
    res = BHJM_magnet_cylinder(field=field, observers=base_obs, dimension=base_dim, polarization=base_pol)
    print(field, "shares memory with polarization:", np.shares_memory(res, base_pol))

print("=== error paths")
errs = {}
for field in ("X", "BH", "", None, "b", 5):
    errs[f"field {field!r}"] = lambda field=field: BHJM_magnet_cylinder(
        field=field, observers=base_obs, dimension=base_dim, polarization=base_pol
    )
for field in "BJ":
    errs[f"observers list {field}"] = lambda field=field: BHJM_magnet_cylinder(
        field=field, observers=base_obs.tolist(), dimension=base_dim, polarization=base_pol
    )
    errs[f"dimension list {field}"] = lambda field=field: BHJM_magnet_cylinder(
        field=field, observers=base_obs, dimension=base_dim.tolist(), polarization=base_pol
    )
    errs[f"polarization list {field}"] = lambda field=field: BHJM_magnet_cylinder(
        field=field, observers=base_obs, dimension=base_dim, polarization=base_pol.tolist()
    )
    errs[f"observers (n,2) {field}"] = lambda field=field: BHJM_magnet_cylinder(
        field=field, observers=base_obs[:, :2], dimension=base_dim, polarization=base_pol
    )
    errs[f"observers (n,4) + dimension (n,3) {field}"] = lambda field=field: BHJM_magnet_cylinder(
        field=field, observers=np.ones((n, 4)), dimension=np.ones((n, 3)), polarization=base_pol
    )
    errs[f"dimension (n,3) {field}"] = lambda field=field: BHJM_magnet_cylinder(
        field=field, observers=base_obs, dimension=np.ones((n, 3)), polarization=base_pol
    )
    errs[f"dimension (n,1) {field}"] = lambda field=field: BHJM_magnet_cylinder(
        field=field, observers=base_obs, dimension=np.ones((n, 1)), polarization=base_pol
    )
    errs[f"dimension 1-D (2,) {field}"] = lambda field=field: BHJM_magnet_cylinder(
        field=field, observers=base_obs, dimension=np.array([2.0, 3.0]), polarization=base_pol
    )
    errs[f"short dimension {field}"] = lambda field=field: BHJM_magnet_cylinder(
        field=field, observers=base_obs, dimension=base_dim[:3], polarization=base_pol
    )
    errs[f"short observers {field}"] = lambda field=field: BHJM_magnet_cylinder(
        field=field, observers=base_obs[:3], dimension=base_dim, polarization=base_pol
    )
    errs[f"short polarization {field}"] = lambda field=field: BHJM_magnet_cylinder(
        field=field, observers=base_obs, dimension=base_dim, polarization=base_pol[:3]
    )
    errs[f"polarization (n,2) {field}"] = lambda field=field: BHJM_magnet_cylinder(
        field=field, observers=base_obs, dimension=base_dim, polarization=base_pol[:, :2]
    )
    errs[f"observers None {field}"] = lambda field=field: BHJM_magnet_cylinder(
        field=field, observers=None, dimension=base_dim, polarization=base_pol
    )
    errs[f"dimension None {field}"] = lambda field=field: BHJM_magnet_cylinder(
        field=field, observers=base_obs, dimension=None, polarization=base_pol
    )
    errs[f"observers 1-D {field}"] = lambda field=field: BHJM_magnet_cylinder(
        field=field, observers=np.array([0.1, 0.2, 0.3]), dimension=np.array([(2.0, 3.0)]), polarization=np.ones((1, 3))
    )
for name, func in errs.items():
    attempt(name, func)

print("=== object interface")
for s in (1e-6, 1.0, 1e6):
    for field in "BHJM":
        cyl = magpy.magnet.Cylinder(
            dimension=(2 * s, 3 * s), polarization=(0.1, -0.2, 0.3), position=np.array((0.1, 0.2, 0.3)) * s
        )
        cyl.rotate_from_angax(33, (1, 2, 3))
        attempt(f"Cylinder s={s} get{field}", lambda: getattr(cyl, "get" + field)(base_obs * s))
        seg = magpy.magnet.CylinderSegment(dimension=(0.5 * s, 1 * s, 3 * s, 0, 360), polarization=(0.1, -0.2, 0.3))
        attempt(f"CylinderSegment s={s} get{field}", lambda: getattr(seg, "get" + field)(base_obs[:8] * s))
attempt("getB dict style", lambda: magpy.getB("Cylinder", base_obs, dimension=(2, 3), polarization=(1, 2, 3)))
attempt("getH dict style", lambda: magpy.getH("Cylinder", base_obs, dimension=(2, 3), polarization=(1, 2, 3)))

print("=== default warning filter: number of warnings shown for zero / nan dimensions")
for name in ("zero diameter", "zero both", "zero height", "nan dimension", "inf observer"):
    o, d, p = cases[name]
    for field in "BJ":
        with warnings.catch_warnings(record=True) as rec:
            warnings.resetwarnings()
            warnings.simplefilter("default")
            BHJM_magnet_cylinder(field=field, observers=o, dimension=d, polarization=p)
            BHJM_magnet_cylinder(field=field, observers=o, dimension=d, polarization=p)
        print(name, field, len(rec), sorted(clean(w.message) for w in rec))
