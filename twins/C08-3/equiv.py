import os, sys; sys.path.insert(0, os.getcwd())
# Twin 3: functional interface getBH_dict_level2 (input securing, registry lookup, tiling)
import hashlib
import re
import warnings

import numpy as np
from scipy.spatial.transform import Rotation as R

import magpylib as magpy

warnings.simplefilter("ignore")


def h(a):
    a = np.ascontiguousarray(a)
    return hashlib.sha1(a.tobytes()).hexdigest()[:12] + str(a.shape) + str(a.dtype)


def run(tag, fn, arrays=()):
    before = [(h(a), a.flags.writeable) for a in arrays]
    for rep in range(2):
        try:
            res = fn()
            if isinstance(res, np.ndarray):
                print(f"{tag}[{rep}] ->", h(res), np.round(res.ravel()[:6], 12).tolist())
            else:
                print(f"{tag}[{rep}] ->", repr(res))
        except Exception as err:  # pylint: disable=broad-except
            msg = re.sub(r"0x[0-9a-f]+", "0x?", re.sub(r"id=\d+", "id=?", str(err)))
            cause = type(err.__cause__).__name__
            print(f"{tag}[{rep}] raised", type(err).__name__, f"(cause {cause})", msg[:110].replace("\n", " | "))
        after = [(h(a), a.flags.writeable) for a in arrays]
        print("   inputs-unchanged:", before == after)


obs = np.array([(0.1, 0.2, 0.3), (1, 2, 3), (-1, 0.5, 2), (0.2, 0.2, -0.2)])
pol = np.array([(0.1, 0.2, 0.3)] * 4)
dim = np.array([(1, 2, 3), (2, 2, 2), (1, 1, 1), (3, 2, 1)], dtype=int)
pos = np.array([(0, 0, 0), (1, 0, 0), (0, 1, 0), (0, 0, 1)], dtype=np.float32)
rot = R.from_rotvec([(0.1, 0.2, 0.3), (0, 0, 1), (1, 0, 0), (0, 0.5, 0)])

for fld in "BHJM":
    f = getattr(magpy, "get" + fld)
    run(f"cuboid-{fld}", lambda f=f: f("Cuboid", obs, polarization=pol, dimension=dim, position=pos, orientation=rot), [obs, pol, dim, pos])
run("cuboid-scalar-tiling", lambda: magpy.getB("Cuboid", obs, polarization=(1, 2, 3), dimension=[1, 2, 3]), [obs])
run("cuboid-single-obs", lambda: magpy.getB("Cuboid", (1, 2, 3), polarization=(1, 2, 3), dimension=(1, 2, 3)))
run("cuboid-single-nosqueeze", lambda: magpy.getB("Cuboid", (1, 2, 3), polarization=(1, 2, 3), dimension=(1, 2, 3), squeeze=False))
run("cuboid-len1-vectors", lambda: magpy.getH("Cuboid", [(1, 2, 3)], polarization=[(1, 2, 3)], dimension=[(1, 2, 3)], squeeze=False))
run("circle", lambda: magpy.getB("Circle", obs, current=(1, 2, 3, 4), diameter=2.0), [obs])
run("circle-int", lambda: magpy.getH("Circle", obs, current=3, diameter=np.array([1, 2, 3, 4])), [obs])
run("sphere-inout", lambda: magpy.getB("Sphere", obs, polarization=pol, diameter=1, in_out="inside"), [obs, pol])
run("dipole", lambda: magpy.getH("Dipole", obs, moment=(1, 2, 3)), [obs])
s0 = np.array([(0, 0, 0), (1, 1, 1), (2, 2, 2), (3, 3, 3.0)])
s1 = s0 + 1
run("polyline", lambda: magpy.getB("Polyline", obs, current=1.5, segment_start=s0, segment_end=s1), [obs, s0, s1])

# tetrahedron with a left handed vertex order: check_chirality swaps in place on the internal copy only
verts = np.array([(0, 0, 0), (1, 0, 0), (0, 0, 1), (0, 1, 0)], dtype=float)
verts4 = np.array([verts, verts[[0, 1, 3, 2]], verts * 2, verts[[1, 0, 2, 3]]])
verts_list = verts.tolist()
for fld in "BHJM":
    f = getattr(magpy, "get" + fld)
    run(f"tetra-{fld}", lambda f=f: f("Tetrahedron", obs, polarization=pol, vertices=verts4), [obs, pol, verts4])
    run(f"tetra1-{fld}", lambda f=f: f("Tetrahedron", obs, polarization=(0.1, 0.2, 0.3), vertices=verts), [obs, verts])
print("list input unchanged", verts_list == verts.tolist())
tri = np.array([(0, 0, 0), (1, 0, 0), (0, 1, 0)], dtype=float)
run("triangle", lambda: magpy.getB("Triangle", obs, polarization=pol, vertices=tri), [obs, pol, tri])

# ragged input (meshes with different numbers of faces)
mesh_a = np.array([[(0, 0, 0), (1, 0, 0), (0, 1, 0)], [(0, 0, 0), (0, 1, 0), (0, 0, 1)]], dtype=float)
mesh_b = np.array([[(0, 0, 0), (1, 0, 0), (0, 0, 1)]] * 3, dtype=float)
run("mesh-ragged", lambda: magpy.getH("TriangularMesh", obs[:2], polarization=pol[:2], mesh=[mesh_a, mesh_b]), [obs, pol, mesh_a, mesh_b])
run("mesh-regular", lambda: magpy.getH("TriangularMesh", obs[:2], polarization=pol[:2], mesh=[mesh_a, mesh_a]), [obs, pol, mesh_a])
run("mesh-single", lambda: magpy.getH("TriangularMesh", obs, polarization=(1, 2, 3), mesh=mesh_b), [obs, mesh_b])

# error paths
run("bad-source", lambda: magpy.getB("Cubid", obs, polarization=pol, dimension=dim), [obs, pol, dim])
run("bad-source-empty", lambda: magpy.getB("", obs))
run("not-arraylike", lambda: magpy.getB("Cuboid", obs, polarization=pol, dimension=object()), [obs, pol])
run("none-input", lambda: magpy.getB("Cuboid", obs, polarization=None, dimension=dim), [obs, dim])
run("string-input", lambda: magpy.getB("Cuboid", obs, polarization="abc", dimension=dim), [obs, dim])
run("len-mismatch", lambda: magpy.getB("Cuboid", obs, polarization=pol[:3], dimension=dim), [obs, pol, dim])
run("empty-list", lambda: magpy.getB("Cuboid", obs, polarization=[], dimension=dim), [obs, dim])
run("inhomogeneous", lambda: magpy.getB("Cuboid", obs, polarization=[(1, 2, 3), (1, 2)], dimension=dim), [obs, dim])
run("number-in-seq", lambda: magpy.getB("Cuboid", obs, polarization=[(1, 2, 3), 4], dimension=dim), [obs, dim])
run("missing-kw", lambda: magpy.getB("Cuboid", obs, polarization=pol), [obs, pol])
run("unknown-kw", lambda: magpy.getB("Cuboid", obs, polarization=pol, dimension=dim, foo=3), [obs, pol, dim])
run("bad-field-custom", lambda: magpy.getB("CustomSource", obs))
run("kwargs-with-object", lambda: magpy.getB(magpy.magnet.Cuboid(polarization=(1, 2, 3), dimension=(1, 2, 3)), obs, dimension=dim), [obs, dim])
run("complex-input", lambda: magpy.getB("Circle", obs, current=1 + 2j, diameter=1), [obs])
run("bool-input", lambda: magpy.getB("Circle", obs, current=True, diameter=[1, 2, 3, 4]), [obs])
run("wrong-ndim", lambda: magpy.getB("Cuboid", obs, polarization=[pol], dimension=dim), [obs, pol, dim])
