import os, sys; sys.path.insert(0, os.getcwd())
import hashlib
import json
import re
import warnings

import numpy as np
from scipy.spatial.transform import Rotation as R

import magpylib as magpy
from magpylib._src.display.traces_generic import get_frames
from magpylib._src.display.traces_utility import DEFAULT_ROW_COL_PARAMS
from magpylib._src.display.traces_utility import process_show_input_objs

warnings.simplefilter("ignore")


def norm(o):
    """deterministic, JSON-able view of nested trace structures (keeps dict key order)"""
    if isinstance(o, dict):
        return ["dict", [[str(k), norm(v)] for k, v in o.items()]]
    if isinstance(o, (list, tuple)):
        return [type(o).__name__, [norm(v) for v in o]]
    if isinstance(o, np.ndarray):
        if o.dtype.kind in "fiu":
            return ["nd", str(o.dtype.kind), list(o.shape), np.round(o.astype(float), 9).tolist()]
        return ["nd", str(o.dtype.kind), list(o.shape), [norm(v) for v in o.ravel().tolist()]]
    if isinstance(o, (bool, np.bool_)):
        return bool(o)
    if isinstance(o, (float, np.floating)):
        return ["f", round(float(o), 9)]
    if isinstance(o, (int, np.integer)):
        return ["i", int(o)]
    if o is None:
        return None
    if isinstance(o, str):
        return re.sub(r"id=\d+|0x[0-9a-f]+", "#", o)
    if isinstance(o, R):
        return ["rot", np.round(o.as_quat(), 9).tolist()]
    return re.sub(r"id=\d+|0x[0-9a-f]+", "#", repr(o))


def digest(label, o):
    s = json.dumps(norm(o))
    print(f"{label}: {hashlib.sha256(s.encode()).hexdigest()[:16]} len={len(s)}")
    return s


def attempt(label, func):
    try:
        res = func()
    except Exception as err:  # pylint: disable=broad-except
        msg = re.sub(r"id=\d+|0x[0-9a-f]+", "#", str(err))
        print(f"{label}: EXC {type(err).__name__}: {msg}")
        return None
    digest(label, res)
    return res


def model(*objs, backend="plotly", colorgrad=True, **kw):
    objects, *_ = process_show_input_objs(
        objs, **{k: v for k, v in kw.items() if k in DEFAULT_ROW_COL_PARAMS})
    style_kw = {k: v for k, v in kw.items() if k.startswith("style")}
    kw = {k: v for k, v in kw.items() if k not in DEFAULT_ROW_COL_PARAMS and k not in style_kw}
    return get_frames(objects, backend=backend, supports_colorgradient=colorgrad,
                      style_kwargs=style_kw, **kw)


def state(objs):
    return json.dumps(norm([[o.style.as_dict(), o.position, o.orientation] for o in objs]
                           + [magpy.defaults.as_dict()]))

import plotly.graph_objects as go

from magpylib._src.display.traces_utility import get_scene_ranges

go.Figure.show = lambda self, *args, **kwargs: None


def ranges(label, *traces, **kw):
    """prints the result with key order and full values"""
    with warnings.catch_warnings(record=True) as wrn:
        warnings.simplefilter("always")
        try:
            res = get_scene_ranges(*traces, **kw)
        except Exception as err:  # pylint: disable=broad-except
            print(f"{label}: EXC {type(err).__name__}: {err}")
            return
    out = [(k, type(v).__name__, str(v.dtype), np.round(v, 9).tolist()) for k, v in res.items()]
    print(f"{label}: {type(res).__name__} {out} warnings={sorted({str(w.message) for w in wrn})}")


sc1 = {"type": "scatter3d", "x": [0, 1, 2], "y": [0, -1, 5], "z": [3, 3, 4]}
sc2 = {"type": "scatter3d", "x": [10.0], "y": [10.0], "z": [10.0], "row": 1, "col": 2}
sc3 = {"type": "scatter3d", "x": np.array([-7.0, 2]), "y": np.array([0.5, 0.25]), "z": np.array([1, 1e-3]),
       "row": 2, "col": 1}
mesh = {"type": "mesh3d", "x": [0, 1, 0, 0, 99], "y": [0, 0, 1, 0, 99], "z": [0, 0, 0, 1, 99],
        "i": [0, 0], "j": [1, 2], "k": [2, 3]}
mesh_partial = {k: v for k, v in mesh.items() if k not in "jk"}
tr2d = {"type": "scatter", "x": [0, 1], "y": [5, 6], "row": 1, "col": 3}
tr2d_b = {"type": "scatter", "x": [0, 1], "y": [5, 6]}
surf = {"type": "surface", "x": np.arange(6.0).reshape(2, 3), "y": np.arange(6.0).reshape(2, 3) * 2,
        "z": np.ones((2, 3))}
with_none = {"x": [0, None, 2], "y": [1, None, 1], "z": [None, None, 5]}
with_nan = {"x": [np.nan, 1, 2], "y": [1, np.nan, 1], "z": [0, 0, np.nan]}
all_nan = {"x": [np.nan], "y": [np.nan], "z": [np.nan], "col": 4}
empty3d = {"x": [], "y": [], "z": []}
empty3d_rc = {"x": [], "y": [], "z": [], "row": 3, "col": 3}
point = {"x": [2], "y": [3], "z": [4]}


def extra(row=1, col=1, **kw):
    tr = {"constructor": "plot", "args": ([0, 1], [0, 2], [0, 30]), "kwargs": {"ls": "--"}, "coordsargs": None,
          "kwargs_extra": {"row": row, "col": col}, "row": 7, "col": 8}
    tr.update(kw)
    return tr


extra_kw = extra(2, 2, args=(), kwargs={"xs": [1, 2], "ys": [3, 4], "zs": [-5, 6]},
                 coordsargs={"x": "xs", "y": "ys", "z": "zs"})

ranges("empty")
ranges("empty zoom dict", zoom={})
ranges("one scatter", sc1)
ranges("one scatter zoom 1", sc1, zoom=1)
ranges("one scatter zoom -0.5", sc1, zoom=-0.5)
ranges("one scatter zoom array", sc1, zoom=np.array([0.0, 1.0, 2.0]))
ranges("mesh uses face vertices only", mesh)
ranges("mesh with partial ijk", mesh_partial)
ranges("several rc, order", sc3, sc2, sc1, mesh)
ranges("several rc, other order", mesh, sc1, sc2, sc3)
ranges("zoom dict", sc3, sc2, sc1, zoom={(1, 1): 0, (1, 2): 1, (2, 1): 2, (9, 9): 5})
ranges("2d only", tr2d)
ranges("2d only default rc", tr2d_b)
ranges("2d first then 3d same rc", tr2d_b, sc1)
ranges("3d first then 2d same rc", sc1, tr2d_b)
ranges("2d and 3d in different rc", tr2d, sc1, {**tr2d, "col": 2}, sc2)
ranges("2d rc with zoom dict lacking it", tr2d, sc1, zoom={(1, 1): 1})
ranges("surface 2d arrays", surf)
ranges("None values", with_none)
ranges("nan values", with_nan)
ranges("all nan", all_nan)
ranges("all nan with others", all_nan, {**sc1, "col": 4})
ranges("single point", point)
ranges("two equal points", point, dict(point))
ranges("empty 3d with nonempty", empty3d, sc1)
ranges("nonempty with empty 3d", sc1, empty3d)
ranges("extra backend trace args", extra())
ranges("extra backend trace kwargs", extra_kw)
ranges("extra and generic mixed", sc1, extra(), extra_kw, sc3)
ranges("float rc equal to int rc", sc1, {**sc2, "row": 1.0, "col": 1.0})
ranges("rc of other hashables", {**sc1, "row": "a", "col": None}, {**sc2, "row": "a", "col": None})
ranges("int coordinates", {"x": [1, 2], "y": [3, 4], "z": [5, 7]})
ranges("bool zoom", sc1, zoom=True)
# error paths
ranges("err empty 3d only", empty3d)
ranges("err empty 3d in own rc after valid", sc1, empty3d_rc)
ranges("err zoom dict missing rc", sc1, sc2, zoom={(1, 1): 0})
ranges("err zoom dict missing first rc", sc2, sc1, zoom={(1, 1): 0})
ranges("err zoom None", sc1, zoom=None)
ranges("err zoom str", sc1, zoom="1")
ranges("err missing y", {"x": [0], "z": [1]})
ranges("err unhashable rc", {**sc1, "row": [1]})
ranges("err unhashable rc 2d", {**tr2d, "row": [1]})
ranges("err index out of bounds", {**mesh, "k": [2, 50]})
ranges("err ragged", {"x": [0, 1], "y": [0], "z": [1, 2]})
ranges("err strings", {"x": ["a"], "y": ["b"], "z": ["c"]})
ranges("err not a mapping", [1, 2, 3])
ranges("err None trace", None)
ranges("err extra without kwargs_extra", {k: v for k, v in extra().items() if k != "kwargs_extra"})
ranges("err extra missing coordinate", extra(args=([0, 1], [0, 2])))
ranges("err extra kwargs_extra incomplete", extra(kwargs_extra={"row": 1}))
ranges("err second trace bad, first fine", sc1, {"x": [0], "z": [1]})
ranges("err float indices", {**mesh, "i": [0.5, 1.5]})
ranges("err wrong number of columns", {"x": [[0, 1]], "y": [[0, 1]], "z": [[0, 1]], "i": [0], "j": [0], "k": [0]})


# --- callers: autosize of sensors/dipoles, subplots with own zoom, plotly figure ranges with extra traces
def scene():
    cube = magpy.magnet.Cuboid(polarization=(0, 0, 1), dimension=(1, 2, 3))
    cube.position = [(0, 0, 0), (1, 2, 3), (2, 4, 6)]
    cube.rotate_from_angax([0, 45, 90], (1, 1, 0), start=0)
    cube.style.model3d.add_trace(backend="matplotlib", constructor="plot", kwargs={"ls": "--"},
                                 args=([0, 10], [0, 1], [0, 2]))
    cube.style.model3d.add_trace(backend="plotly", constructor="Scatter3d",
                                 kwargs={"x": [0, 1], "y": [0, 0], "z": [0, -15], "mode": "lines"})
    dip = magpy.misc.Dipole(moment=(1, 2, 3), position=(3, 0, 0))
    sens = magpy.Sensor(position=[(0, 0, 4), (0, 0, 5)], pixel=[(0, 0, 0), (0, 0, 1)])
    loop = magpy.current.Circle(current=1, diameter=4, position=(0, 0, -2))
    return cube, dip, sens, magpy.Collection(loop)


for backend, cg in (("plotly", True), ("matplotlib", False)):
    for zoom in (0, 1.5):
        objs = scene()
        before = state(objs)
        res = attempt(f"model {backend} zoom={zoom}", lambda: model(
            *objs, backend=backend, colorgrad=cg, zoom=zoom, style_path_frames=1))
        print("   ranges:", {k: np.round(v, 9).tolist() for k, v in res["ranges"].items()},
              "| unchanged:", before == state(objs))
objs = scene()
res = attempt("subplots own zoom", lambda: model(
    {"objects": objs[:2], "col": 1, "zoom": 2, "units_length": "cm"},
    {"objects": objs[2:], "col": 2, "zoom": 0},
    {"objects": objs[:3], "col": 3, "output": "Bx"},
    {"objects": [objs[1]], "row": 2, "col": 1, "zoom": 1}))
print("   ranges:", {str(k): np.round(v, 9).tolist() for k, v in res["ranges"].items()})
attempt("only autosized objects", lambda: model(magpy.Sensor(), magpy.misc.Dipole(moment=(0, 0, 1))))
attempt("animation", lambda: model(*scene(), animation=True, backend="plotly"))
for backend in ("plotly", "matplotlib"):
    import matplotlib
    matplotlib.use("Agg")
    fig = magpy.show(*scene(), backend=backend, return_fig=True, zoom=1)
    if backend == "plotly":
        scn = fig.layout.scene
        print("plotly scene ranges:", [np.round(getattr(scn, f"{k}axis").range, 9).tolist() for k in "xyz"])
    else:
        ax = fig.axes[0]
        print("mpl limits:", [np.round(getattr(ax, f"get_{k}lim")(), 9).tolist() for k in "xyz"])
