import os, sys; sys.path.insert(0, os.getcwd())
# equivalence digest for twins5/3: BaseGeo._process_style_kwargs (constructor / copy style keywords)
import hashlib
import re
import warnings

import numpy as np

import magpylib as magpy
from magpylib._src.obj_classes.class_BaseGeo import BaseGeo
from magpylib._src.style import BaseStyle, SensorStyle

warnings.simplefilter("ignore")
LOG = []


def clean(txt):
    return re.sub(r"id=\d+|0x[0-9a-f]+", "#", str(txt))


class Probe:
    """value that records when it is deep-copied"""

    def __init__(self, name, fail=None):
        self.name, self.fail = name, fail

    def __deepcopy__(self, memo):
        LOG.append(f"deepcopy:{self.name}")
        if self.fail is not None:
            raise self.fail
        return Probe(self.name + "'")

    def __repr__(self):
        return f"Probe({self.name})"


def sdescr(st):
    if isinstance(st, BaseStyle):
        return type(st).__name__ + ":" + hashlib.sha1(repr(sorted(st.as_dict(flatten=True).items(), key=str)).encode()).hexdigest()[:10]
    return clean(repr(st))


def run(tag, *args, **kw):
    LOG.clear()
    try:
        res = BaseGeo._process_style_kwargs(*args, **kw)
        print(f"[{tag}] -> {type(res).__name__} {sdescr(res)} log={LOG}")
        return res
    except BaseException as e:  # noqa
        print(f"[{tag}] {type(e).__name__}: {clean(e.args)} ctx={type(e.__context__).__name__} log={LOG}")
        return None


run("nothing")
run("none", style=None)
run("none-pos", None)
d = {"label": "a", "path": {"line": {"width": 1}}}
r = run("dict", style=d)
print("  independent:", r is not d, r["path"] is not d["path"], r == d)
r["path"]["line"]["width"] = 9
print("  caller dict:", d)
r = run("kw-only", style_label="x", style_path_line_width=2)
inner = {"show": False}
r = run("kw-dictval", style_arrow=inner, style_color="r")
print("  independent:", r["arrow"] is not inner, r["arrow"] == inner, list(r))
r = run("both", style=d, style_label="over", style_extra=1)
print("  order:", list(r), "caller:", d)
r = run("both-pos", d, style_label="over")
run("empty-style-kw", style={}, style_label="e")
run("bad-first", foo=1, style_label="x")
run("bad-last", style_label=Probe("p1"), style_color=Probe("p2"), foo=1, style_x=Probe("p3"))
run("bad-style-prefix", style_label=Probe("p1"), stylelabel=2)
run("bad-with-style", style=Probe("st"), other=3)
run("deepcopy-style-fails", style=Probe("st", fail=RuntimeError("dc")), style_label=Probe("p"))
run("deepcopy-value-fails", style={"a": 1}, style_label=Probe("p1"), style_color=Probe("p2", fail=KeyError("kk")), style_z=Probe("p3"))
run("probe-style-no-kw", style=Probe("st"))
run("str-style", style="abc")
run("str-style-kw", style="abc", style_label="l")
run("int-style-kw", style=0, style_label="l")
run("list-style-kw", style=[1], style_label=Probe("p"))
so = SensorStyle(label="orig")
r = run("styleobj", style=so)
print("  copy:", r is not so, so.label)
r = run("styleobj-kw", style=so, style_label="new", style_size=3)
print("  original untouched:", so.label, so.size)
run("styleobj-badkw", style=so, style_nokey=1)
run("key-style_", style_="v")
run("key-style__x", style__x="v")
run("nonidentifier", **{"style_a b": 1, "style_": 2})
run("dup-after-strip", **{"style_label": 1}, style={"label": 0})

# through constructors
CTORS = {
    "sensor": lambda **kw: magpy.Sensor(**kw),
    "cuboid": lambda **kw: magpy.magnet.Cuboid(polarization=(0, 0, 1), dimension=(1, 1, 1), **kw),
    "polyline": lambda **kw: magpy.current.Polyline(current=1, vertices=[(0, 0, 0), (1, 0, 0)], **kw),
    "coll": lambda **kw: magpy.Collection(**kw),
}
KWS = [
    {}, {"style": None}, {"style": {"label": "L"}}, {"style_label": "L"}, {"style": {"label": "L"}, "style_label": "M", "style_opacity": 0.2},
    {"foo": 1}, {"style_label": "L", "bar": 2}, {"style": {"label": "L"}, "labell": 3}, {"style": "txt"}, {"style": "txt", "style_label": 1},
    {"style_path": {"line": {"width": 4}}}, {"stylelabel": 1},
]
for cname, ctor in CTORS.items():
    for i, kw in enumerate(KWS):
        try:
            o = ctor(**kw)
            pend = o.__dict__.get("_style_kwargs")
            msg = f"pending={clean(repr(pend))}"
            try:
                msg += f" label={o.style.label!r} opacity={o.style.opacity!r}"
            except BaseException as e:  # noqa
                msg += f" style-> {type(e).__name__}"
            print(f"[ctor-{cname}-{i}] {msg}")
        except BaseException as e:  # noqa
            print(f"[ctor-{cname}-{i}] {type(e).__name__}: {clean(e.args)}")

# aliasing through the constructor
sd = {"label": "alias", "path": {"line": {"width": 1}}}
nested = {"line": {"width": 7}}
o = magpy.Sensor(style=sd, style_path=nested)
sd["label"] = "changed"
nested["line"]["width"] = 100
print("[alias]", o.style.label, o.style.path.line.width, sd, nested)

# through copy()
base = magpy.magnet.Cuboid(polarization=(0, 0, 1), dimension=(1, 1, 1), style_label="base")
for i, kw in enumerate([{}, {"style_label": "c"}, {"style": {"label": "d", "opacity": 0.1}}, {"style": {"label": "d"}, "style_label": "e"},
                        {"stylefoo": 1}, {"style_label": "f", "position": (1, 2, 3)}, {"style_nokey": 2}, {"style": "txt"}, {"style": None},
                        {"style": None, "style_color": "r"}, {"style_magnetization": {"show": False}}]):
    try:
        c = base.copy(**kw)
        print(f"[copy-{i}] label={c.style.label!r} opacity={c.style.opacity!r} color={c.style.color!r} magshow={c.style.magnetization.show!r} pos={c.position.tolist()} base={base.style.label!r}")
    except BaseException as e:  # noqa
        print(f"[copy-{i}] {type(e).__name__}: {clean(e.args)[:200]} base={base.style.label!r}")

# field computation afterwards
s = magpy.Sensor(position=(0, 0, 2), style={"label": "ss"}, style_opacity=0.5)
B = magpy.getB(base, s, output="dataframe")
print("[field]", list(B["source"]), list(B["sensor"]), hashlib.sha1(B[["Bx", "By", "Bz"]].to_numpy().tobytes()).hexdigest()[:10])
