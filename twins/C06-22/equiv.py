import os, sys; sys.path.insert(0, os.getcwd())
import hashlib
import re
import warnings

import numpy as np

import magpylib as magpy
from magpylib._src.fields.field_BH_tetrahedron import BHJM_magnet_tetrahedron

warnings.simplefilter("ignore")
np.seterr(all="ignore")


def dig(name, arr):
    arr0 = np.asarray(arr)
    arr = np.ascontiguousarray(np.asarray(arr, dtype=float))
    h = hashlib.sha256(arr.tobytes()).hexdigest()[:16]
    print(name, arr.shape, arr0.dtype, h, np.round(arr.ravel()[:6], 12).tolist())


def attempt(name, func, *args, **kwargs):
    try:
        dig(name, func(*args, **kwargs))
    except Exception as err:  # pylint: disable=broad-except
        msg = re.sub(r"id=\d+|0x[0-9a-fA-F]+", "ID", str(err).replace("\n", " "))
        print(name, type(err).__name__, msg[:60])


rng = np.random.default_rng(11)
right = np.array([(0, 0, 0), (1, 0, 0), (0, 1, 0), (0, 0, 1)], dtype=float)
left = right[[0, 1, 3, 2]]
verts = np.array([right, left, right * 2 - 0.3, left * 0.5 + 0.1] + list(rng.normal(size=(13, 4, 3))))
n = len(verts)
obs = rng.normal(size=(n, 3)) * 0.7
obs[0] = (0.2, 0.2, 0.2)  # inside
obs[1] = (0.2, 0.2, 0.2)  # inside (left-handed input)
obs[2] = (0, 0, 0.5)  # somewhere
obs[3] = verts[3].mean(axis=0)  # barycenter -> inside
obs[4] = verts[4, 2]  # on a corner -> nan
obs[5] = (verts[5, 0] + verts[5, 1]) / 2  # on an edge
obs[6] = verts[6, :3].mean(axis=0)  # on a face
pol = rng.normal(size=(n, 3))
pol[7] = 0

for f in "BHJM":
    for io in ("auto", "inside", "outside"):
        attempt(f"tetra-{f}-{io}", BHJM_magnet_tetrahedron, f, obs, verts.copy(), pol, io)

# every row evaluated alone equals the joint evaluation; so does any permutation
for f in "BH":
    joint = BHJM_magnet_tetrahedron(f, obs, verts.copy(), pol)
    rows = np.concatenate(
        [BHJM_magnet_tetrahedron(f, obs[i : i + 1], verts[i : i + 1].copy(), pol[i : i + 1]) for i in range(n)]
    )
    print(f, "rowwise equals joint", np.array_equal(rows, joint, equal_nan=True))
    perm = rng.permutation(n)
    pj = BHJM_magnet_tetrahedron(f, obs[perm], verts[perm].copy(), pol[perm])
    print(f, "permuted equals joint", np.array_equal(pj, joint[perm], equal_nan=True))
    dup = np.array([2, 2, 0, 2, 1, 1])
    dj = BHJM_magnet_tetrahedron(f, obs[dup], verts[dup].copy(), pol[dup])
    print(f, "duplicates equal joint", np.array_equal(dj, joint[dup], equal_nan=True))

# smallest cases, other dtypes, inputs untouched
attempt("one-row", BHJM_magnet_tetrahedron, "B", obs[:1], verts[:1].copy(), pol[:1])
attempt("two-rows", BHJM_magnet_tetrahedron, "H", obs[:2], verts[:2].copy(), pol[:2])
attempt("no-row-H", BHJM_magnet_tetrahedron, "H", obs[:0], verts[:0].copy(), pol[:0])
attempt("no-row-B", BHJM_magnet_tetrahedron, "B", obs[:0], verts[:0].copy(), pol[:0])
attempt("int-input", BHJM_magnet_tetrahedron, "B", np.array([[3, 1, 1], [0, 0, 5]]),
        np.array([right * 4, left * 4]).astype(int), np.array([[1, 2, 3], [3, 2, 1]]))
attempt("f32-input", BHJM_magnet_tetrahedron, "B", obs.astype(np.float32), verts.astype(np.float32), pol.astype(np.float32))
o, v, p = obs.copy(), verts[[0, 2]].copy(), pol.copy()
BHJM_magnet_tetrahedron("B", o[:2], v, p[:2])
print("inputs untouched", np.array_equal(o, obs), np.array_equal(v, verts[[0, 2]]), np.array_equal(p, pol))
fv = np.asfortranarray(verts.copy())
attempt("fortran-vertices", BHJM_magnet_tetrahedron, "B", obs, fv, pol)
attempt("fortran-all", BHJM_magnet_tetrahedron, "H", np.asfortranarray(obs), np.asfortranarray(verts.copy()), np.asfortranarray(pol))
attempt("strided-all", BHJM_magnet_tetrahedron, "B", obs[::2], verts.copy()[::2], pol[::2])
attempt("transposed-vertices", BHJM_magnet_tetrahedron, "B", obs, np.ascontiguousarray(verts.transpose(1, 0, 2)).transpose(1, 0, 2), pol)

# error paths
attempt("bad-field", BHJM_magnet_tetrahedron, "X", obs, verts.copy(), pol)
attempt("field-None", BHJM_magnet_tetrahedron, None, obs, verts.copy(), pol)
attempt("obs-short", BHJM_magnet_tetrahedron, "B", obs[:5], verts.copy(), pol)
attempt("pol-short", BHJM_magnet_tetrahedron, "H", obs, verts.copy(), pol[:5])
attempt("verts-short", BHJM_magnet_tetrahedron, "H", obs, verts[:5].copy(), pol)
attempt("verts-one-for-many", BHJM_magnet_tetrahedron, "H", obs, verts[:1].copy(), pol)
attempt("obs-one-for-many", BHJM_magnet_tetrahedron, "H", obs[:1], verts[[0, 2, 4]].copy(), pol[:3])
attempt("verts-2d", BHJM_magnet_tetrahedron, "H", obs[:1], right.copy(), pol[:1])
attempt("verts-5pts-right", BHJM_magnet_tetrahedron, "H", obs[:1], np.concatenate([verts[:1], verts[:1, :1] + 9], axis=1), pol[:1])
attempt("verts-3pts", BHJM_magnet_tetrahedron, "H", obs[:2], verts[:2, :3].copy(), pol[:2])
attempt("verts-list", BHJM_magnet_tetrahedron, "H", obs[:2], verts[:2].tolist(), pol[:2])
attempt("pol-list", BHJM_magnet_tetrahedron, "H", obs[:2], verts[:2].copy(), pol[:2].tolist())
attempt("obs-list", BHJM_magnet_tetrahedron, "H", obs[:2].tolist(), verts[:2].copy(), pol[:2])
attempt("obs-1d", BHJM_magnet_tetrahedron, "H", obs[0], verts[:1].copy(), pol[:1])

# object oriented: several tetrahedrons with paths, next to another source class
srcs = []
for i in range(5):
    s = magpy.magnet.Tetrahedron(polarization=pol[i + 8], vertices=verts[i + 8])
    if i:
        s.move(np.linspace((0, 0, 0), (0.1 * i, 0.2, -0.1), i + 1)[1:])
        s.rotate_from_angax(np.linspace(0, 40, i + 1), "z", start=0)
    srcs.append(s)
srcs.insert(2, magpy.magnet.Cuboid(polarization=(0.1, 0.2, 0.3), dimension=(1, 2, 3), position=(3, 0, 0)))
srcs.append(magpy.magnet.Tetrahedron(polarization=(0.1, 0.2, 0.3), vertices=left))
sens = [
    magpy.Sensor(pixel=[(0, 0, 0), (0.01, 0, 0)], position=(0.2, 0.2, 0.2)),
    magpy.Sensor(pixel=[(0.1, 0, 0), (0.3, 0.1, 0.1)], position=np.linspace((1, 1, 1), (0, 0, 0), 4)),
]
for f in ("getB", "getH", "getJ", "getM"):
    out = getattr(magpy, f)(srcs, sens, squeeze=False)
    dig("oo-" + f, out)
    ok = True
    for l, s in enumerate(srcs):
        alone = getattr(magpy, f)(s, sens, squeeze=False)[0]
        m = len(alone)
        ok = ok and np.allclose(out[l, :m], alone, rtol=1e-9, atol=1e-12, equal_nan=True) and all(
            np.allclose(step, alone[-1], rtol=1e-9, atol=1e-12, equal_nan=True) for step in out[l, m:]
        )
    print("  each source alone equals joint", ok)
dig("oo-sumup", magpy.getB(srcs, sens, sumup=True))
dig("oo-collection", magpy.getB(magpy.Collection(*srcs[:3]), sens))
attempt("dict-B", magpy.getB, "Tetrahedron", (0.2, 0.2, 0.2), vertices=left, polarization=(1, 2, 3))
attempt("dict-H-many", magpy.getH, "Tetrahedron", obs[:3], vertices=verts[:3].copy(), polarization=pol[:3])
attempt("dict-in_out", magpy.getB, "Tetrahedron", obs[:3], vertices=verts[:3].copy(), polarization=pol[:3], in_out="inside")
