import os, sys; sys.path.insert(0, os.getcwd())
import re
import warnings

import numpy as np

import magpylib as magpy
from magpylib._src.utility import format_src_inputs

warnings.simplefilter("ignore")


def dig(r):
    if isinstance(r, np.ndarray):
        return f"ARR {r.dtype} {r.shape} {np.round(r, 13).tolist()}"
    return f"RET {type(r).__name__} {r!r}"


def run(f):
    try:
        out = dig(f())
    except Exception as e:  # pylint: disable=broad-except
        out = f"EXC {type(e).__name__}: {e} | cause={type(e.__cause__).__name__}"
    return re.sub(r"0x[0-9a-f]+|id=\d+", "ADDR", out)


def emit(*args):
    print(re.sub(r"0x[0-9a-f]+|id=\d+", "ADDR", " ".join(str(a) for a in args)))


def make():
    """fresh, labelled objects"""
    o = {}
    o["cub"] = magpy.magnet.Cuboid(dimension=(1, 2, 3), polarization=(0.1, 0.2, 0.3), style_label="cub")
    o["cyl"] = magpy.magnet.Cylinder(dimension=(1, 2), magnetization=(1e5, 2e5, 3e5), position=(1, 0, 0), style_label="cyl")
    o["sph"] = magpy.magnet.Sphere(diameter=1.5, polarization=(0, 0, 1), position=(0, 1, 0), style_label="sph")
    o["cir"] = magpy.current.Circle(diameter=2, current=3, style_label="cir")
    o["pol"] = magpy.current.Polyline(vertices=[(0, 0, 0), (1, 1, 1)], current=2, style_label="pol")
    o["dip"] = magpy.misc.Dipole(moment=(1, 2, 3), position=(0, 0, 1), style_label="dip")
    o["tri"] = magpy.misc.Triangle(vertices=[(0, 0, 0), (1, 0, 0), (0, 1, 0)], polarization=(0, 0, 1), style_label="tri")
    o["cus"] = magpy.misc.CustomSource(field_func=lambda field, observers: observers * 2.0, style_label="cus")
    o["cus0"] = magpy.misc.CustomSource(style_label="cus0")
    # incomplete sources
    o["cub_nodim"] = magpy.magnet.Cuboid(polarization=(0.1, 0.2, 0.3), style_label="cub_nodim")
    o["cub_nopol"] = magpy.magnet.Cuboid(dimension=(1, 2, 3), style_label="cub_nopol")
    o["cub_none"] = magpy.magnet.Cuboid(style_label="cub_none")
    o["cir_nocur"] = magpy.current.Circle(diameter=2, style_label="cir_nocur")
    o["cir_nodia"] = magpy.current.Circle(current=2, style_label="cir_nodia")
    o["pol_novert"] = magpy.current.Polyline(current=2, style_label="pol_novert")
    o["dip_nomom"] = magpy.misc.Dipole(style_label="dip_nomom")
    o["seg_nodim"] = magpy.magnet.CylinderSegment(polarization=(0, 0, 1), style_label="seg_nodim")
    o["tet_novert"] = magpy.magnet.Tetrahedron(polarization=(0, 0, 1), style_label="tet_novert")
    o["sens"] = magpy.Sensor(style_label="sens")
    o["col_empty"] = magpy.Collection(style_label="col_empty")
    o["col_sens"] = magpy.Collection(magpy.Sensor(), style_label="col_sens")
    o["col_a"] = magpy.Collection(
        magpy.magnet.Sphere(diameter=1, polarization=(1, 0, 0), style_label="ca1"),
        magpy.Sensor(style_label="cas"),
        magpy.Collection(magpy.misc.Dipole(moment=(0, 0, 1), position=(3, 3, 3), style_label="ca2"), style_label="inner"),
        style_label="col_a",
    )
    o["col_bad"] = magpy.Collection(
        magpy.magnet.Sphere(diameter=1, polarization=(1, 0, 0)),
        magpy.Collection(magpy.magnet.Sphere(polarization=(1, 0, 0), style_label="deep_nodia")),
        style_label="col_bad",
    )
    return o


def lab(x):
    try:
        return x.style.label
    except Exception:  # pylint: disable=broad-except
        return repr(x)


cases = {
    "bare": lambda o: o["cub"],
    "bare col": lambda o: o["col_a"],
    "list1": lambda o: [o["cub"]],
    "tuple": lambda o: (o["cub"], o["cyl"], o["sph"]),
    "all kinds": lambda o: [o["cub"], o["cyl"], o["sph"], o["cir"], o["pol"], o["dip"], o["tri"], o["cus"]],
    "mixed col": lambda o: [o["dip"], o["col_a"], o["cub"]],
    "col twice": lambda o: [o["col_a"], o["col_a"]],
    "dup src": lambda o: [o["cub"], o["cub"]],
    "empty list": lambda o: [],
    "empty tuple": lambda o: (),
    "empty col": lambda o: o["col_empty"],
    "empty col in list": lambda o: [o["cub"], o["col_empty"]],
    "sensor-only col": lambda o: [o["col_sens"], o["cub"]],
    "sensor": lambda o: o["sens"],
    "sensor in list": lambda o: [o["cub"], o["sens"]],
    "None": lambda o: None,
    "None in list": lambda o: [o["cub"], None],
    "number": lambda o: 5,
    "nested list": lambda o: [o["cub"], [o["cyl"]]],
    "ndarray of objs": lambda o: np.array([o["cub"], o["cyl"]], dtype=object),
    "generator": lambda o: (x for x in [o["cub"]]),
    "class not instance": lambda o: magpy.magnet.Cuboid,
    "unknown string": lambda o: "NoSuchSource",
    "nodim": lambda o: o["cub_nodim"],
    "nopol": lambda o: o["cub_nopol"],
    "none": lambda o: o["cub_none"],
    "nocur": lambda o: o["cir_nocur"],
    "nodia": lambda o: o["cir_nodia"],
    "novert": lambda o: o["pol_novert"],
    "nomom": lambda o: o["dip_nomom"],
    "seg nodim": lambda o: o["seg_nodim"],
    "tet novert": lambda o: o["tet_novert"],
    "custom without func": lambda o: o["cus0"],
    "order: nopol then nodim": lambda o: [o["cub"], o["cub_nopol"], o["cub_nodim"]],
    "order: nodim then nopol": lambda o: [o["cub_nodim"], o["cub_nopol"]],
    "order: nocur, novert": lambda o: [o["cir_nocur"], o["pol_novert"]],
    "order: bad type after incomplete": lambda o: [o["cub_nodim"], "x"],
    "order: incomplete inside col, bad type later": lambda o: [o["col_bad"], 7],
    "deep incomplete": lambda o: [o["cub"], o["col_bad"]],
}

for name, build in cases.items():
    o = make()
    # the formatter itself: returned lists, object identity and order
    def fmt():
        inp = build(o)
        srcs, flat = format_src_inputs(inp)
        return (
            f"sources={[lab(s) for s in srcs]} flat={[lab(s) for s in flat]} "
            f"newlist={srcs is not inp} types={type(srcs).__name__},{type(flat).__name__}"
        )

    emit(name, "| fmt", run(fmt))
    for fn in (magpy.getB, magpy.getH):
        o = make()
        emit(name, "|", fn.__name__, run(lambda: fn(build(o), (0.5, 2.5, 4.5))))
    o = make()
    emit(name, "| sumup+sensor", run(lambda: magpy.getB(build(o), magpy.Sensor(pixel=[(0, 0, 5), (0, 5, 0)]), sumup=True)))
    o = make()
    emit(name, "| Sensor.getJ", run(lambda: magpy.Sensor(position=(0.1, 0.1, 0.1)).getJ(build(o))))

# object-oriented entry points
o = make()
for k in ("cub", "cir", "cub_nodim", "cub_nopol", "cir_nocur", "dip_nomom", "col_a", "col_bad", "col_empty"):
    emit("obj.getB", k, run(lambda: o[k].getB((1, 2, 3))))
    emit("obj.getM", k, run(lambda: o[k].getM((0, 0, 0))))

# a rejected computation leaves the objects usable once completed
o = make()
emit("before", run(lambda: o["cub_none"].getB((1, 2, 3))))
o["cub_none"].dimension = (1, 1, 1)
emit("dim set", run(lambda: o["cub_none"].getB((1, 2, 3))))
o["cub_none"].polarization = (0, 0, 1)
emit("both set", run(lambda: o["cub_none"].getB((1, 2, 3))))
o["cub_none"].dimension = None
emit("dim reset", run(lambda: o["cub_none"].getB((1, 2, 3))))
