import os, sys; sys.path.insert(0, os.getcwd())
# Deterministic digest of collection-tree behaviour (labels only, ids stripped).
import re

import magpylib as magpy

VIEWS = (
    "children",
    "sources",
    "sensors",
    "collections",
    "children_all",
    "sources_all",
    "sensors_all",
    "collections_all",
)


def lab(o):
    if o is None:
        return None
    try:
        return o.style.label
    except Exception:  # not a magpylib object
        return repr(o)


def make():
    objs = {}
    for n in ("s1", "s2", "s3"):
        objs[n] = magpy.magnet.Sphere(
            polarization=(0, 0, 1), diameter=1, style_label=n
        )
    objs["c1"] = magpy.current.Circle(current=1, diameter=1, style_label="c1")
    for n in ("x1", "x2"):
        objs[n] = magpy.Sensor(style_label=n)
    for n in ("A", "B", "C", "D"):
        objs[n] = magpy.Collection(style_label=n)
    return objs


def dump(objs, extra=()):
    for n, o in list(objs.items()) + list(extra):
        line = f"    {n}: parent={lab(o.parent)}"
        if isinstance(o, magpy.Collection):
            for attr in VIEWS:
                line += f" {attr}={[lab(c) for c in getattr(o, attr)]}"
            line += f" len={len(o)} iter={[lab(c) for c in o]}"
        print(line)


def attempt(name, fn, objs=None, extra=()):
    try:
        res = fn()
        print(f"{name}: ok -> {type(res).__name__} {lab(res) if hasattr(res, 'style') else res!r}")
    except BaseException as e:  # pylint: disable=broad-except
        msg = re.sub(r"id=\d+", "id=#", str(e))
        msg = re.sub(r"0x[0-9a-f]+", "0x#", msg)
        print(f"{name}: EXC {type(e).__name__}: {msg!r}")
    if objs is not None:
        dump(objs, extra)


def base_tree():
    """A[s1, x1, B[s2, x2, C[s3]], c1], D[]"""
    o = make()
    o["C"].add(o["s3"])
    o["B"].add(o["s2"], o["x2"], o["C"])
    o["A"].add(o["s1"], o["x1"], o["B"], o["c1"])
    return o


def setattr_(obj, name, val):
    setattr(obj, name, val)
    return None


print("== build")
o = base_tree()
dump(o)

print("== add: flat list / tuple / star / nested-list / empty")
o = make()
attempt("add list", lambda: o["A"].add([o["s1"], o["x1"]]), o)
attempt("add tuple", lambda: o["A"].add((o["s2"], o["B"])), o)
attempt("add star", lambda: o["A"].add(o["s3"], o["x2"]), o)
attempt("add nothing", lambda: o["A"].add(), o)
attempt("add empty list", lambda: o["A"].add([]), o)
attempt("add nested list", lambda: o["D"].add([[o["c1"]]]), o)
attempt("add two lists", lambda: o["D"].add([o["c1"]], [o["C"]]), o)
attempt("add str", lambda: o["D"].add("abc"), o)
attempt("add int", lambda: o["D"].add(1), o)
attempt("add None", lambda: o["D"].add(None), o)
attempt("add good then bad type", lambda: o["D"].add(o["c1"], 7), o)

print("== add: rejections (self reference, parent, duplicates, part-way)")
o = base_tree()
attempt("add self", lambda: o["A"].add(o["A"]), o)
attempt("add ancestor", lambda: o["C"].add(o["A"]), o)
attempt("add ancestor override", lambda: o["C"].add(o["A"], override_parent=True), o)
attempt("add has parent", lambda: o["D"].add(o["s3"]), o)
attempt("add partway parent", lambda: o["D"].add(magpy.Sensor(style_label="tmp"), o["s3"]), o)
attempt("add dup", lambda: o["D"].add(o["D"].__class__(style_label="E"), o["s3"], o["s3"], override_parent=True), o)
attempt("add own child again", lambda: o["A"].add(o["s1"]), o)
attempt("add own child override", lambda: o["A"].add(o["s1"], override_parent=True), o)
attempt("add override move", lambda: o["D"].add(o["s3"], o["B"], override_parent=True), o)
attempt("add self+parented, no override", lambda: o["D"].add(o["x1"], o["D"]), o)
attempt("add cycle + dup", lambda: o["C"].add(o["c1"], o["c1"], o["A"], override_parent=True), o)

print("== constructor / __add__")
o = base_tree()
attempt("Collection(parented)", lambda: magpy.Collection(o["s1"], style_label="N"), o)
attempt("Collection(parented, override)", lambda: magpy.Collection(o["s1"], override_parent=True, style_label="N"), o)
attempt("s2 + x1", lambda: o["s2"] + o["x1"], o)
o = make()
r = {}
attempt("free +", lambda: r.setdefault("sum", o["s1"] + o["x1"] + o["A"]), o)
dump({}, [("sum", r["sum"]), ("sum[0]", r["sum"][0])])

print("== remove")
o = base_tree()
attempt("remove deep recursive", lambda: o["A"].remove(o["s3"]), o)
attempt("remove deep again raise", lambda: o["A"].remove(o["s3"]), o)
attempt("remove deep again ignore", lambda: o["A"].remove(o["s3"], errors="ignore"), o)
attempt("remove bad errors arg", lambda: o["A"].remove(o["s3"], errors="nope"), o)
attempt("remove bad errors arg but found", lambda: o["A"].remove(o["s1"], errors="nope"), o)
attempt("remove non-recursive deep", lambda: o["A"].remove(o["s2"], recursive=False), o)
attempt("remove non-recursive deep ignore", lambda: o["A"].remove(o["s2"], recursive=False, errors="ignore"), o)
attempt("remove list", lambda: o["A"].remove([o["x1"], o["x2"]]), o)
attempt("remove tuple partway", lambda: o["A"].remove((o["c1"], o["s3"], o["s2"])), o)
attempt("remove parent then child", lambda: o["A"].remove(o["B"], o["s2"], errors="ignore"), o)
attempt("remove bad type", lambda: o["A"].remove(3), o)
attempt("remove nothing", lambda: o["A"].remove(), o)
attempt("remove self", lambda: o["A"].remove(o["A"]), o)
o = base_tree()
attempt("remove parent then child raise", lambda: o["A"].remove(o["B"], o["s2"]), o)
attempt("remove same twice", lambda: o["B"].remove(o["s2"], o["s2"]), o)
attempt("remove nested list", lambda: o["B"].remove([[o["s2"]]]), o)

print("== parent setter")
o = base_tree()
attempt("parent=None", lambda: setattr_(o["s3"], "parent", None), o)
attempt("parent=None again", lambda: setattr_(o["s3"], "parent", None), o)
attempt("parent=D", lambda: setattr_(o["s3"], "parent", o["D"]), o)
attempt("parent=same", lambda: setattr_(o["s3"], "parent", o["D"]), o)
attempt("parent=other", lambda: setattr_(o["s3"], "parent", o["A"]), o)
attempt("parent=str", lambda: setattr_(o["s3"], "parent", "A"), o)
attempt("parent=0", lambda: setattr_(o["s3"], "parent", 0), o)
attempt("parent=sensor", lambda: setattr_(o["s3"], "parent", o["x1"]), o)
attempt("coll parent=self", lambda: setattr_(o["A"], "parent", o["A"]), o)
attempt("coll parent=descendant", lambda: setattr_(o["A"], "parent", o["C"]), o)
attempt("coll parent=None", lambda: setattr_(o["B"], "parent", None), o)
attempt("coll parent=D", lambda: setattr_(o["B"], "parent", o["D"]), o)
attempt("getter", lambda: lab(o["x2"].parent))

print("== typed setters")
o = base_tree()
attempt("A.sources=[s3]", lambda: setattr_(o["A"], "sources", [o["s3"]]), o)
attempt("A.sources=C (flattened)", lambda: setattr_(o["A"], "sources", o["B"]), o)
attempt("A.sources=bad", lambda: setattr_(o["A"], "sources", 5), o)
attempt("A.sources=[x1] (filtered)", lambda: setattr_(o["A"], "sources", [o["x1"]]), o)
attempt("A.sensors=[x2, x1]", lambda: setattr_(o["A"], "sensors", [o["x2"], o["x1"]]), o)
attempt("A.sensors=x2 dup", lambda: setattr_(o["A"], "sensors", [o["x2"], o["x2"]]), o)
attempt("A.sensors=()", lambda: setattr_(o["A"], "sensors", ()), o)
attempt("A.sensors=bad", lambda: setattr_(o["A"], "sensors", "q"), o)
o = base_tree()
attempt("A.collections=[D, C]", lambda: setattr_(o["A"], "collections", [o["D"], o["C"]]), o)
attempt("A.collections=[A]", lambda: setattr_(o["A"], "collections", [o["A"]]), o)
attempt("B.collections=[A]", lambda: setattr_(o["D"], "collections", [o["D"], o["B"]]), o)
attempt("A.collections=bad", lambda: setattr_(o["A"], "collections", [1]), o)
attempt("A.collections=[s1]", lambda: setattr_(o["A"], "collections", [o["s1"]]), o)
attempt("A.children=[x1, B, s1]", lambda: setattr_(o["A"], "children", [o["x1"], o["B"], o["s1"]]), o)
attempt("A.children=[A]", lambda: setattr_(o["A"], "children", [o["A"]]), o)
attempt("A.children=[s1, 4]", lambda: setattr_(o["A"], "children", [o["s1"], 4]), o)
attempt("A.children=[]", lambda: setattr_(o["A"], "children", []), o)
attempt("A.children=gen", lambda: setattr_(o["A"], "children", (c for c in (o["s1"], o["x1"]))), o)
attempt("view identity", lambda: (o["A"].sources is o["A"]._sources, o["A"].children is o["A"]._children))

print("== copy")
o = base_tree()
r = {}
attempt("copy leaf", lambda: r.setdefault("s3c", o["s3"].copy()), o, )
dump({}, [("s3c", r["s3c"])])
attempt("copy coll", lambda: r.setdefault("Bc", o["B"].copy()), o)
dump({}, [("Bc", r["Bc"]), ("Bc[2]", r["Bc"][2]), ("Bc[2][0]", r["Bc"][2][0])])
print("    copy distinct:", r["Bc"][0] is not o["s2"], r["Bc"][2][0].parent is r["Bc"][2], r["Bc"][2].parent is r["Bc"])
attempt("copy parent=D", lambda: r.setdefault("x2c", o["x2"].copy(parent=o["D"], position=(1, 2, 3))), o)
dump({}, [("x2c", r["x2c"])])
print("    pos", r["x2c"].position.tolist())
attempt("copy parent=None", lambda: r.setdefault("x2d", o["x2"].copy(parent=None)), o)
attempt("copy parent=bad", lambda: o["x2"].copy(parent="bad"), o)
attempt("copy coll parent=self", lambda: r.setdefault("Ac", o["A"].copy(parent=o["A"])), o)
attempt("copy bad kwarg", lambda: o["s1"].copy(style_bad=1), o)
attempt("copy free", lambda: r.setdefault("Dc", o["D"].copy(style_label="DD")), o)
nolabel = magpy.Sensor()
attempt("copy nolabel", lambda: nolabel.copy())
print("    nolabel:", nolabel._style_kwargs, getattr(nolabel, "_style", None))


class Boom(magpy.Sensor):
    def __deepcopy__(self, memo):
        raise RuntimeError("boom")


b = Boom(style_label="boom")
o["D"].add(b)
attempt("copy raising deepcopy (parented)", b.copy)
print("    parent restored:", lab(b.parent), [lab(c) for c in o["D"].children])
b2 = Boom(style_label="boom2")
attempt("copy raising deepcopy (free)", b2.copy)
print("    parent:", lab(b2.parent))

print("== describe / repr")
o = base_tree()
print(o["A"].describe(format="label+type", return_string=True))
print(re.sub(r"id=\d+", "id=#", repr(o["A"])))

print("== extra (twin5 2): the three typed setters")
import types

from magpylib._src.obj_classes.class_Collection import BaseCollection

KINDS = ("sources", "sensors", "collections")


def inputs(o):
    return [
        ("list of each kind", [o["s3"], o["x2"], o["D"]]),
        ("tuple own members reversed", tuple(reversed(o["A"].children))),
        ("single source", o["s2"]),
        ("single sensor", o["x2"]),
        ("collection B", o["B"]),
        ("collection D (empty)", o["D"]),
        ("self", o["A"]),
        ("nested lists", [[o["s3"]], (o["x2"], [o["D"]])]),
        ("empty list", []),
        ("empty tuple", ()),
        ("None", None),
        ("int", 3),
        ("str", "abc"),
        ("list with int", [o["s3"], 3]),
        ("list with None", [o["x2"], None]),
        ("generator", (c for c in (o["s3"], o["x2"], o["D"]))),
        ("set", {o["s3"]}),
        ("dict", {"a": o["s3"]}),
        ("doubled", [o["s3"], o["s3"], o["x2"], o["x2"], o["D"], o["D"]]),
        ("own member doubled", [o["s1"], o["s1"], o["x1"], o["x1"], o["B"], o["B"]]),
        ("bare BaseCollection", BaseCollection()),
    ]


n_inputs = len(inputs(base_tree()))
for kind in KINDS:
    for i in range(n_inputs):
        o = base_tree()
        name, val = inputs(o)[i]
        attempt(f"A.{kind} = {name}", lambda: setattr_(o["A"], kind, val), o)
    # a deeper collection receives its ancestors / own parent
    o = base_tree()
    attempt(f"C.{kind} = [A, B, s1, x1]", lambda: setattr_(o["C"], kind, [o["A"], o["B"], o["s1"], o["x1"]]), o)
    o = base_tree()
    attempt(f"B.{kind} = [A]", lambda: setattr_(o["B"], kind, [o["A"]]), o)
    # identity of the lists handed out before
    o = base_tree()
    old = {n: getattr(o["A"], n) for n in ("children",) + KINDS}
    attempt(f"A.{kind} = [D, s3, x2]", lambda: setattr_(o["A"], kind, [o["D"], o["s3"], o["x2"]]), None)
    print("    old lists:", {n: [lab(c) for c in v] for n, v in old.items()})
    print("    replaced:", {n: getattr(o["A"], n) is not v for n, v in old.items()})
    print("    getter returns private list:", getattr(o["A"], kind) is getattr(o["A"], "_" + kind))
    # views that are out of sync with the children list
    o = base_tree()
    o["A"]._sources.append(o["x1"])
    o["A"]._sensors.clear()
    o["A"]._collections.append(o["C"])
    attempt(f"stale views, A.{kind} = [D, s3, x2]", lambda: setattr_(o["A"], kind, [o["D"], o["s3"], o["x2"]]), o)
    # a child sitting twice in the children list
    o = base_tree()
    o["A"]._children.extend([o["s1"], o["x1"], o["B"]])
    attempt(f"doubled entries, A.{kind} = []", lambda: setattr_(o["A"], kind, []), o)
    # on a bare BaseCollection
    o = base_tree()
    bc = BaseCollection(o["D"], magpy.Sensor(style_label="q"), o["s1"].copy(style_label="r"))
    bc.style = types.SimpleNamespace(label="bare")  # only for the digest: a name instead of an id
    attempt(f"bare.{kind} = [s3, x2, C]", lambda: setattr_(bc, kind, [o["s3"], o["x2"], o["C"]]), o)
    print("    bare:", {n: [lab(c) for c in getattr(bc, n)] for n in VIEWS})


class Touchy(magpy.Sensor):
    """comparison with other objects is logged, with a marked one it fails"""

    log = []

    def __eq__(self, other):
        Touchy.log.append((lab(self), lab(other)))
        if getattr(other, "bad", False) or getattr(self, "bad", False):
            raise ZeroDivisionError("eq")
        return self is other

    __hash__ = magpy.Sensor.__hash__


for kind in KINDS:
    for bad in (False, True):
        o = base_tree()
        t1, t2 = Touchy(style_label="t1"), Touchy(style_label="t2")
        t2.bad = bad
        o["A"].add(t1, o["D"], t2)
        o["A"]._sources.append(t2)
        o["A"]._collections.append(t1)
        Touchy.log.clear()
        attempt(f"logged comparisons bad={bad}, A.{kind} = [s3, x2, C]", lambda: setattr_(o["A"], kind, [o["s3"], o["x2"], o["C"]]), o, [("t1", t1), ("t2", t2)])
        print("    comparisons:", Touchy.log)

# children list edited behind the back: foreign entries (kept unless listed in the view), not a list
for kind in KINDS:
    o = base_tree()
    o["A"]._children.insert(1, 5)
    attempt(f"foreign int kept, A.{kind} = [s3, x2, C]", lambda: setattr_(o["A"], kind, [o["s3"], o["x2"], o["C"]]), None)
    print("    raw:", [lab(c) for c in o["A"]._children], {n: [lab(c) for c in getattr(o["A"], n)] for n in KINDS}, [lab(o[n].parent) for n in ("s1", "x1", "B", "c1", "s3", "x2", "C")])
    o = base_tree()
    o["A"]._children.insert(2, 5)
    getattr(o["A"], "_" + kind).insert(1, 5)
    attempt(f"foreign int released, A.{kind} = [s3, x2, C]", lambda: setattr_(o["A"], kind, [o["s3"], o["x2"], o["C"]]), None)
    print("    raw:", [lab(c) for c in o["A"]._children], {n: [lab(c) for c in getattr(o["A"], n)] for n in KINDS}, [lab(o[n].parent) for n in ("s1", "x1", "B", "c1", "s3", "x2", "C")])
    for bad in (None, 3):
        o = base_tree()
        o["A"]._children = bad
        attempt(f"_children={bad!r}, A.{kind} = [s3, x2, C]", lambda: setattr_(o["A"], kind, [o["s3"], o["x2"], o["C"]]), None)
        print("    raw:", o["A"]._children, {n: [lab(c) for c in getattr(o["A"], n)] for n in KINDS}, [lab(o[n].parent) for n in ("s1", "x1", "B", "c1", "s3", "x2", "C")])
    o = base_tree()
    o["A"]._children = tuple(o["A"]._children)
    attempt(f"_children tuple, A.{kind} = [s3, x2, C]", lambda: setattr_(o["A"], kind, [o["s3"], o["x2"], o["C"]]), o)
    print("    type:", type(o["A"]._children).__name__)
    o = base_tree()
    setattr(o["A"], "_" + kind, None)
    attempt(f"view None, A.{kind} = [s3, x2, C]", lambda: setattr_(o["A"], kind, [o["s3"], o["x2"], o["C"]]), None)
    print("    raw:", [lab(c) for c in o["A"]._children], [lab(o[n].parent) for n in ("s1", "x1", "B", "c1", "s3", "x2", "C")])
    o = base_tree()
    o["A"]._children.clear()
    attempt(f"children emptied but views full, A.{kind} = [s3, x2, C]", lambda: setattr_(o["A"], kind, [o["s3"], o["x2"], o["C"]]), o)
print("    helper is not a property:", [n for n in ("children", "sources", "sensors", "collections") if isinstance(getattr(BaseCollection, n), property)])
o = base_tree()
print(o["A"].describe(format="label+properties", return_string=True)[:400])
