import os, sys; sys.path.insert(0, os.getcwd())
# Equivalence digest for twins2/5 (pad_slice_path moved from class_BaseGeo.py to
# class_BaseTransform.py and imported back into class_BaseGeo).
import warnings

import numpy as np
from scipy.spatial.transform import Rotation as R

import magpylib as magpy
from magpylib._src.obj_classes.class_BaseGeo import pad_slice_path

warnings.simplefilter("ignore")


def dig(a):
    return (np.round(np.asarray(a, dtype=float), 9) + 0.0).tolist()


def state(obj):
    return dig(obj._position), dig(obj._orientation.as_quat())


def show(tag, fn):
    try:
        print(tag, "->", fn())
    except BaseException as err:  # pylint: disable=broad-except
        print(tag, "-> EXC", type(err).__name__, str(err)[:150])


def rots(n):
    """n=0: scalar Rotation, n>0: Rotation path of length n, None: None"""
    if n is None:
        return None
    rv = [(0.1 * (k + 1), -0.2 * k, 0.05 * (k + 2)) for k in range(max(n, 1))]
    return R.from_rotvec(rv[0] if n == 0 else rv)


def poss(n):
    """n=0: shape (3,), n>0: shape (n,3)"""
    p = [(1.0 + k, -2.0 * k, 0.5 * k * k) for k in range(max(n, 1))]
    return p[0] if n == 0 else p


# 1) pad_slice_path directly: values, shape, identity / view-ness
for w in (3, 4):
    for n1 in (1, 2, 5):
        for n2 in (1, 2, 3, 5):
            p1 = np.zeros((n1, w))
            p2 = np.arange(float(n2 * w)).reshape(n2, w)
            out = pad_slice_path(p1, p2)
            print(
                "psp", w, n1, n2, dig(out), out.shape, out is p2,
                out.base is p2 or out.base is p2.base, np.shares_memory(out, p2),
            )
show("psp lists", lambda: pad_slice_path([1, 2], [[1, 2, 3], [4, 5, 6], [7, 8, 9]]))
show("psp list pad", lambda: dig(pad_slice_path([1, 2, 3], [[1, 2, 3]])))
show("psp 1d pad", lambda: pad_slice_path(np.zeros((3, 3)), np.zeros(2)))
show("psp empty path2", lambda: pad_slice_path(np.zeros((3, 3)), np.zeros((0, 3))))
show("psp empty path1", lambda: pad_slice_path(np.zeros((0, 3)), np.ones((2, 3))).shape)
show("psp no len", lambda: pad_slice_path(3, np.ones((2, 3))))

# 2) __init__: position/orientation length combinations
for npos in (0, 1, 2, 4):
    for nori in (None, 0, 1, 2, 4):
        show(
            f"init npos={npos} nori={nori}",
            lambda: state(magpy.Sensor(position=poss(npos), orientation=rots(nori))),
        )
        show(
            f"init coll npos={npos} nori={nori}",
            lambda: state(magpy.Collection(position=poss(npos), orientation=rots(nori))),
        )

# input array is never aliased
inp = np.array(poss(3))
s = magpy.Sensor(position=inp)
print("init alias", np.shares_memory(s._position, inp), s._position.flags.writeable)
s.position = inp
print("setter alias", np.shares_memory(s._position, inp), s._position.dtype, s._position.shape)
intpos = np.array([(1, 2, 3), (4, 5, 6)])
s.position = intpos
print("int input", s._position.dtype, dig(s._position), state(s))

# 3) setters: edge-pad / end-slice the other path
for n0 in (1, 3):
    for nnew in (0, 1, 2, 3, 5):
        s = magpy.Sensor(position=poss(n0), orientation=rots(n0))
        s.position = [tuple(10 * x for x in p) for p in np.atleast_2d(poss(nnew))][: max(nnew, 1)] if nnew else (9, 8, 7)
        print("set pos", n0, nnew, state(s), dig(s.position), dig(s.orientation.as_quat()))
        s = magpy.Sensor(position=poss(n0), orientation=rots(n0))
        s.orientation = rots(nnew)
        print("set ori", n0, nnew, state(s), dig(s.position), dig(s.orientation.as_quat()))
    s = magpy.Sensor(position=poss(n0), orientation=rots(n0))
    s.orientation = None
    print("set ori None", n0, state(s))

# 4) Collections: children follow; nested; children with other path lengths
for nnew in (0, 1, 2, 4):
    for which in ("position", "orientation"):
        inner = magpy.Collection(
            magpy.Sensor(position=poss(2), orientation=rots(2)),
            position=poss(3),
            orientation=rots(3),
        )
        outer = magpy.Collection(inner, magpy.Sensor(position=(1, 1, 1)), position=poss(2))
        if which == "position":
            outer.position = poss(nnew)
        else:
            outer.orientation = rots(nnew)
        print(
            "coll set", which, nnew, state(outer), state(inner),
            state(inner.children[0]), state(outer.children[1]),
        )

# sequences of operations and setter assignments
s = magpy.Sensor()
s.move([(1, 0, 0), (2, 0, 0), (3, 0, 0)])
s.position = [(0, 0, 1), (0, 0, 2)]
s.rotate_from_angax([10, 20, 30], "x", anchor=0, start=1)
s.orientation = rots(2)
s.move((0, 1, 0), start=-1)
s.position = (5, 5, 5)
s.rotate_from_rotvec((0, 0, 90), start=3)
print("sequence", state(s))
s.reset_path()
print("reset", state(s))

# 5) error paths: rejected assignments / constructions change nothing
s = magpy.Sensor(position=poss(2), orientation=rots(2))
c = magpy.Collection(s, position=poss(3))
ref = state(s), state(c)
for tag, bad in {
    "str": "abc", "scalar": 3, "None": None, "2-vector": (1, 2), "ragged": [(1, 2, 3), (1, 2)],
    "3d": np.zeros((2, 2, 3)), "text entries": ("a", "b", "c"), "empty": [], "dict": {1: 2},
    "(0,3)": np.zeros((0, 3)),
}.items():
    show(f"pos setter {tag}", lambda bad=bad: setattr(s, "position", bad))
    show(f"coll pos setter {tag}", lambda bad=bad: setattr(c, "position", bad))
    show(f"init {tag}", lambda bad=bad: state(magpy.Sensor(position=bad)))
    print("    unchanged", (state(s), state(c)) == ref, state(s), state(c))
    s = magpy.Sensor(position=poss(2), orientation=rots(2))
    c = magpy.Collection(s, position=poss(3))
for tag, bad in {"tuple": (0, 0, 0, 1), "str": "x", "array": np.eye(3), "number": 1}.items():
    show(f"ori setter {tag}", lambda bad=bad: setattr(s, "orientation", bad))
    show(f"coll ori setter {tag}", lambda bad=bad: setattr(c, "orientation", bad))
    show(f"init ori {tag}", lambda bad=bad: magpy.Sensor(orientation=bad))
    print("    unchanged", (state(s), state(c)) == ref)

# 6) the function is still reachable under its old module path, same signature/doc
import inspect
import magpylib._src.obj_classes.class_BaseGeo as bg

print("name", bg.pad_slice_path.__name__, str(inspect.signature(bg.pad_slice_path)))
print("doc", bg.pad_slice_path.__doc__)
print("same object as imported", bg.pad_slice_path is pad_slice_path)
print("kw call", dig(bg.pad_slice_path(path1=np.zeros((3, 3)), path2=np.ones((1, 3)))))
print("public modules", [m for m in ("Collection", "Sensor", "magnet", "current", "misc") if hasattr(magpy, m)])
