import os, sys; sys.path.insert(0, os.getcwd())
import hashlib
import re
import warnings

import numpy as np

import magpylib as magpy
from magpylib._src.fields.field_BH_tetrahedron import BHJM_magnet_tetrahedron
from magpylib._src.fields.field_BH_tetrahedron import check_chirality

warnings.simplefilter("ignore")
np.seterr(all="ignore")


def dig(name, arr):
    arr0 = np.asarray(arr)
    arr = np.ascontiguousarray(np.asarray(arr, dtype=float))
    h = hashlib.sha256(arr.tobytes()).hexdigest()[:16]
    print(name, arr.shape, arr0.dtype, h, np.round(arr.ravel()[:6], 12).tolist())


def attempt(name, func, *args, msg_len=60, **kwargs):
    try:
        dig(name, func(*args, **kwargs))
    except Exception as err:  # pylint: disable=broad-except
        msg = re.sub(r"id=\d+|0x[0-9a-fA-F]+", "ID", str(err).replace("\n", " "))
        print(name, type(err).__name__, msg[:msg_len])


rng = np.random.default_rng(7)
right = np.array([(0, 0, 0), (1, 0, 0), (0, 1, 0), (0, 0, 1)], dtype=float)
left = right[[0, 1, 3, 2]]
flat = np.array([(0, 0, 0), (1, 0, 0), (0, 1, 0), (1, 1, 0)], dtype=float)
nanrow = right.copy()
nanrow[3, 2] = np.nan

# ---- check_chirality directly -------------------------------------------------
batch = np.array(
    [right, left, left + 1.5, flat, right * 2 - 0.3, nanrow, left * (-1.0), right * (-1.0)]
    + list(rng.normal(size=(12, 4, 3)))
)
work = batch.copy()
res = check_chirality(work)
print("same object returned", res is work)
dig("chir-batch", res)
print("rows changed", np.flatnonzero(np.any(np.nan_to_num(res) != np.nan_to_num(batch), axis=(1, 2))).tolist())
print("first two points untouched", np.array_equal(res[:, :2], batch[:, :2], equal_nan=True))
# row by row equals joint (order of rows kept)
rows = np.concatenate([check_chirality(batch[i : i + 1].copy()) for i in range(len(batch))])
print("rowwise equals joint", np.array_equal(rows, res, equal_nan=True))
# permuted
perm = rng.permutation(len(batch))
print("permuted equals joint", np.array_equal(check_chirality(batch[perm].copy()), res[perm], equal_nan=True))
# idempotent
dig("chir-twice", check_chirality(res.copy()))
# only right handed / only left handed / one row / no row
for name, sel in (("right-only", [0, 4]), ("left-only", [1, 2]), ("one-left", [1]), ("one-right", [0]), ("none", [])):
    w = batch[sel].copy()
    r = check_chirality(w)
    dig("chir-" + name, r)
    print("  in place", r is w)
# a view into a larger array: written through
big = np.zeros((6, 6, 3))
big[:, 1:5] = batch[:6]
view = big[:, 1:5]
r = check_chirality(view)
print("view written through", r is view, np.array_equal(big[:, 1:5], res[:6], equal_nan=True))
# strided (every second row), fortran order
w = batch.copy()
r = check_chirality(w[::2])
dig("chir-strided", w)
wf = np.asfortranarray(batch.copy())
dig("chir-fortran", check_chirality(wf))
# dtypes
attempt("chir-int", check_chirality, np.round(batch[:8] * 4).astype(int))
attempt("chir-f32", check_chirality, batch.astype(np.float32))
wi = np.round(np.nan_to_num(batch[:8]) * 4).astype(np.int64)
ri = check_chirality(wi)
print("int dtype kept", ri.dtype, ri is wi)
# error paths
ro = batch.copy()
ro.setflags(write=False)
attempt("chir-readonly-left", check_chirality, ro)
ro2 = batch[[0, 4]].copy()
ro2.setflags(write=False)
attempt("chir-readonly-right", check_chirality, ro2)
# 5 points per row (not a tetrahedron batch): ValueError from the write back, type only
attempt("chir-5pts", check_chirality, np.concatenate([batch[:4], batch[:4, :1] + 9.0], axis=1), msg_len=0)
attempt("chir-5pts-right", check_chirality, np.concatenate([batch[:1], batch[:1, :1] + 9.0], axis=1))
attempt("chir-3pts", check_chirality, batch[:4, :3].copy())
attempt("chir-2d", check_chirality, left.copy())
attempt("chir-list", check_chirality, batch[:3].tolist())
attempt("chir-2comp", check_chirality, batch[:3, :, :2].copy())
attempt("chir-None", check_chirality, None)

# ---- BHJM level ----------------------------------------------------------------
n = len(batch)
obs = rng.normal(size=(n, 3)) * 0.8
obs[1] = (0.2, 0.2, 0.2)  # inside left-handed unit tetrahedron
obs[0] = (0.2, 0.2, 0.2)
pol = rng.normal(size=(n, 3))
for f in "BHJM":
    for io in ("auto", "inside", "outside"):
        attempt(f"tetra-{f}-{io}", BHJM_magnet_tetrahedron, f, obs, batch.copy(), pol, io)
keep = [i for i in range(n) if i != 3]  # without the degenerate (flat) tetrahedron
for f in "BHJM":
    attempt(f"tetra-regular-{f}-auto", BHJM_magnet_tetrahedron, f, obs[keep], batch[keep].copy(), pol[keep], "auto")
v = batch[keep].copy()
B_joint = BHJM_magnet_tetrahedron("B", obs[keep], v, pol[keep])
print("vertices fixed in place by field call", np.array_equal(v, res[keep], equal_nan=True))
B_rows = np.concatenate(
    [BHJM_magnet_tetrahedron("B", obs[i : i + 1], batch[i : i + 1].copy(), pol[i : i + 1]) for i in keep]
)
print("B rowwise equals joint", np.array_equal(B_rows, B_joint, equal_nan=True))
attempt("tetra-bad-field", BHJM_magnet_tetrahedron, "X", obs, batch.copy(), pol)
attempt("tetra-empty", BHJM_magnet_tetrahedron, "H", obs[:0], batch[:0].copy(), pol[:0])

# ---- object oriented -------------------------------------------------------------
srcs = []
for i in range(6):
    verts = np.nan_to_num(batch[i + 8]).copy()
    s = magpy.magnet.Tetrahedron(polarization=pol[i], vertices=verts)
    s.move(np.linspace((0, 0, 0), (0.1 * i, 0.2, -0.1), i + 1)[1:] if i else (0, 0, 0))
    s.rotate_from_angax(np.linspace(0, 40, i + 1), "z", start=0)
    srcs.append(s)
left_src = magpy.magnet.Tetrahedron(polarization=(0.1, 0.2, 0.3), vertices=left)
right_src = magpy.magnet.Tetrahedron(polarization=(0.1, 0.2, 0.3), vertices=right)
srcs += [left_src, right_src]
sens = [
    magpy.Sensor(pixel=[(0, 0, 0), (0.01, 0, 0)], position=(0.2, 0.2, 0.2)),
    magpy.Sensor(pixel=[(0, 0, 0), (0.3, 0.1, 0.1)], position=np.linspace((1, 1, 1), (0, 0, 0), 4)),
]
for f in ("getB", "getH", "getJ", "getM"):
    out = getattr(magpy, f)(srcs, sens, squeeze=False)
    dig("oo-" + f, out)
    ok = True
    for l, s in enumerate(srcs):
        alone = getattr(magpy, f)(s, sens, squeeze=False)[0]
        m = len(alone)
        # an object with a shorter path stays at its last pose
        ok = ok and np.allclose(out[l, :m], alone, rtol=1e-9, atol=1e-12, equal_nan=True) and all(
            np.allclose(step, alone[-1], rtol=1e-9, atol=1e-12, equal_nan=True) for step in out[l, m:]
        )
    print("  each source alone equals joint", ok)
print("left and right handed vertex order give same field",
      np.allclose(magpy.getB(left_src, sens), magpy.getB(right_src, sens), rtol=1e-9, atol=1e-14, equal_nan=True))
print("vertices attribute untouched", np.array_equal(left_src.vertices, left))
dig("barycenter", np.array([np.atleast_2d(s.barycenter)[-1] for s in srcs]))
for s in srcs[:3]:
    tr = s.get_trace() if hasattr(s, "get_trace") else None
    if isinstance(tr, dict):
        dig("trace-x", np.asarray(tr.get("x", [0]), dtype=float))
attempt("dict-B", magpy.getB, "Tetrahedron", (0.2, 0.2, 0.2), vertices=left, polarization=(1, 2, 3))
attempt("dict-B-many", magpy.getB, "Tetrahedron", obs[:3], vertices=batch[:3].copy(), polarization=(1, 2, 3))
