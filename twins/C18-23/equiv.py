import os, sys; sys.path.insert(0, os.getcwd())

# Exercises the keyword overrides of BaseGeo.copy(): plain attributes, style dict,
# style_* magic, parent (None / collection / rejected values), the order in which the
# overrides are applied, rejected overrides and what they leave behind, copies of
# collections with children=/sources=/position= overrides, later mutations.
import re
import warnings

import numpy as np
from scipy.spatial.transform import Rotation as R

import magpylib as magpy


warnings.simplefilter("ignore")


def clean(txt):
    return re.sub(r"id=\d+", "id=#", str(txt))


def r(a):
    return np.round(np.asarray(a, dtype=float), 10).tolist()


def labels(objs):
    return [o.style.label for o in objs]


def links_ok(c):
    ok = True
    for ch in c.children:
        ok = ok and ch._parent is c
        if isinstance(ch, magpy.Collection):
            ok = ok and links_ok(ch)
    return ok


def tree(c):
    return [labels(c.children), labels(c.sources), labels(c.sensors), labels(c.collections), links_ok(c)]


def summary(o):
    out = [type(o).__name__, r(o._position), r(o._orientation.as_quat())]
    out.append(None if o._parent is None else o._parent.style.label)
    out.append(o.style.label)
    out.append(o.style.color)
    for name in ("dimension", "polarization", "moment", "current", "diameter", "pixel"):
        if hasattr(o, name):
            val = getattr(o, name)
            out.append((name, None if val is None else r(val)))
    if isinstance(o, magpy.Collection):
        out.append(tree(o))
    return out


LOG = []


class LoggingCuboid(magpy.magnet.Cuboid):
    """records every attribute assignment in order"""

    def __setattr__(self, name, value):
        LOG.append(name)
        super().__setattr__(name, value)


class StrKey(str):
    """keyword name that is a str subclass"""


def attempt(name, func, *watch):
    LOG.clear()
    try:
        res = func()
        print(name, "ok", summary(res))
        extra = sorted(k for k in vars(res) if not k.startswith("_"))
        if extra:
            print("   public instance attributes", extra)
    except BaseException as err:  # pylint: disable=broad-except
        print(name, "ERR", type(err).__name__, clean(err).split("\n")[0][:150])
    if LOG:
        print("   setattr log", LOG)
    for w in watch:
        print("   watch", summary(w))


def build():
    o = {}
    o["cub"] = LoggingCuboid(
        polarization=(0.1, 0.2, 0.3), dimension=(1, 2, 3), position=[(1, 2, 3), (2, 3, 4)], style_label="cub"
    )
    o["sens"] = magpy.Sensor(pixel=[(0, 0, 0), (0, 0, 1)], position=(0.5, 0.1, 3), style_label="sens")
    o["dip"] = magpy.misc.Dipole(moment=(1, 2, 3), position=(3, 3, 3))  # lazy, no style at all
    o["circ"] = magpy.current.Circle(current=2, diameter=3, style={"color": "r"})  # pending style
    o["sub"] = magpy.Collection(o["dip"], style_label="sub")
    o["top"] = magpy.Collection(o["cub"], o["sens"], o["sub"], o["circ"], style_label="top", position=(0, 0, 1))
    o["other"] = magpy.Collection(style_label="other")
    o["donor"] = magpy.Collection(magpy.Sensor(style_label="donor_s"), style_label="donor")
    return o


o = build()
cub, sens, dip, circ, sub, top, other, donor = (
    o[k] for k in ("cub", "sens", "dip", "circ", "sub", "top", "other", "donor")
)

# 1. no overrides ------------------------------------------------------------
for key in ("cub", "sens", "dip", "circ", "sub", "top", "other"):
    attempt(f"plain {key}", o[key].copy)
print("dip style still lazy", getattr(dip, "_style", None) is None, dip._style_kwargs)

# 2. attribute overrides -----------------------------------------------------
attempt("position", lambda: cub.copy(position=(9, 9, 9)), cub)
attempt("position+orientation", lambda: cub.copy(orientation=R.from_rotvec([(0, 0, 0.1)] * 3), position=(1, 1, 1)))
attempt("orientation+position", lambda: cub.copy(position=(1, 1, 1), orientation=R.from_rotvec([(0, 0, 0.1)] * 3)))
attempt("dimension", lambda: cub.copy(dimension=(4, 5, 6)), cub)
attempt("polarization+magnetization", lambda: cub.copy(polarization=(1, 0, 0), magnetization=(0, 0, 7)))
attempt("unknown attribute", lambda: cub.copy(foo=3, bar=None))
attempt("private attribute", lambda: cub.copy(_position=np.zeros((1, 3))))
attempt("pixel", lambda: sens.copy(pixel=(1, 2, 3), handedness="left"), sens)
attempt("bad dimension", lambda: cub.copy(position=(7, 7, 7), dimension=(1, 2), style_label="never"), cub)
attempt("bad position", lambda: cub.copy(position="abc"), cub)
attempt("read only property", lambda: cub.copy(volume=3))
attempt("children on magnet", lambda: cub.copy(children=[]))

# 3. style overrides -----------------------------------------------------------
attempt("style_label", lambda: cub.copy(style_label="new"), cub)
attempt("style dict", lambda: cub.copy(style={"color": "g", "label": "viadict"}), cub)
attempt("style dict + magic", lambda: cub.copy(style={"color": "g"}, style_color="b", style_label="both"))
attempt("magic + style dict", lambda: cub.copy(style_color="b", style={"color": "g"}))
attempt("style None", lambda: cub.copy(style=None))
attempt("style None + magic", lambda: cub.copy(style=None, style_opacity=0.5))
attempt("style nested", lambda: cub.copy(style_magnetization_show=False, style_path_line_width=3))
attempt("styles (bad name)", lambda: cub.copy(styles={"color": "g"}), cub)
attempt("stylex (bad name)", lambda: cub.copy(stylex=1, position=(5, 5, 5)), cub)
attempt("style bad key", lambda: cub.copy(style_nokey=1, position=(5, 5, 5)), cub)
attempt("style bad value", lambda: cub.copy(style_color="nocolor"), cub)
attempt("style not a dict", lambda: cub.copy(style=3))
attempt("style instance", lambda: cub.copy(style=sens.style))
attempt("style then bad attribute", lambda: cub.copy(style_label="x", dimension="bad"), cub)
attempt("lazy dip style_label", lambda: dip.copy(style_label="dipcopy"), dip)
print("dip style still lazy", getattr(dip, "_style", None) is None, dip._style_kwargs)
attempt("pending circ style_color", lambda: circ.copy(style_color="b"), circ)
shared = {"color": "y", "path": {"line": {"width": 2}}}
c1 = cub.copy(style=shared)
shared["path"]["line"]["width"] = 5
print("style dict independent", c1.style.path.line.width, c1.style.color, shared)

# 4. parent override -------------------------------------------------------------
attempt("parent None", lambda: cub.copy(parent=None), top)
attempt("parent other", lambda: cub.copy(parent=other), top, other)
attempt("parent own parent", lambda: cub.copy(parent=top), top)
attempt("parent first, attrs after", lambda: cub.copy(parent=other, position=(1, 0, 0), style_label="late"), other)
attempt("parent + bad attribute", lambda: cub.copy(parent=other, dimension=(1,)), other, top)
attempt("parent + bad style", lambda: cub.copy(parent=other, style_color=12), other, top)
attempt("bad parent", lambda: cub.copy(parent="top", position=(1, 0, 0)), top, other)
attempt("bad parent number", lambda: cub.copy(parent=0), top)
attempt("bad parent sensor", lambda: cub.copy(parent=sens), top)
attempt("parent is the copy source (collection)", lambda: sub.copy(parent=sub), sub)
attempt("parent sentinel-like object", lambda: cub.copy(parent=object()), top)
attempt("unparented parent None", lambda: other.copy(parent=None), other)
attempt("unparented parent given", lambda: donor.copy(parent=other), other, donor)

# 5. collection copies with overrides ----------------------------------------------
attempt("top position", lambda: top.copy(position=(0, 0, 5)), top)
attempt("top children", lambda: top.copy(children=[donor]), top, donor)
o = build()
cub, sens, dip, circ, sub, top, other, donor = (
    o[k] for k in ("cub", "sens", "dip", "circ", "sub", "top", "other", "donor")
)
attempt("top sensors + parent", lambda: top.copy(sensors=donor.sensors, parent=other), top, donor, other)
attempt("top bad sources + parent", lambda: top.copy(parent=other, sources=[sens]), top, other)
attempt("sub under parent", lambda: sub.copy(style_label="subcopy", position=(1, 1, 1)), sub, top)
cc = top.copy(style_label="cc")
cc.children[0].position = (100, 100, 100)
cc.add(magpy.Sensor(style_label="added"))
top.children[1].style.color = "k"
print("after mutation", summary(cc), summary(top))
print("children independent", [a is b for a, b in zip(cc.children, top.children)], r(top.children[0]._position))
print("field", r(magpy.getB(top.sources_all, (0.2, 0.3, 0.4))), r(magpy.getB(cc.sources_all, (0.2, 0.3, 0.4))))

# 6. order of application (setattr log of the copy class) ---------------------------
attempt(
    "order",
    lambda: cub.copy(style_label="o", dimension=(2, 2, 2), parent=other, position=(0, 0, 0), style_color="r"),
)
attempt("order error", lambda: cub.copy(position=(0, 0, 0), dimension="x", polarization=(1, 1, 1)))

# 7. keyword names given as str subclass / non-strings -------------------------------
attempt("str subclass keys", lambda: cub.copy(**{StrKey("position"): (3, 3, 3), StrKey("style_label"): "sk"}))
attempt("str subclass parent", lambda: cub.copy(**{StrKey("parent"): None}), top)
attempt("non-string key", lambda: cub.copy(**{1: 2}))
attempt("positional argument", lambda: cub.copy({"position": (1, 2, 3)}))

# 8. direct use of the class method on foreign combos --------------------------------
attempt("copy of copy", lambda: cub.copy(style_label="a").copy().copy(position=(1, 1, 1)))
attempt("label iteration", lambda: magpy.Sensor(style_label="x_09").copy())
