import os, sys; sys.path.insert(0, os.getcwd())
# Twin 4: input_checks - check_dimensions/check_excitations, check_array_shape,
#         make_float_array, check_format_input_vector
import hashlib
import re
import warnings

import numpy as np

import magpylib as magpy
from magpylib._src import input_checks as ic

warnings.simplefilter("ignore")


def h(a):
    a = np.ascontiguousarray(a)
    return hashlib.sha1(a.tobytes()).hexdigest()[:12] + str(a.shape) + str(a.dtype)


def run(tag, fn):
    try:
        res = fn()
        if isinstance(res, np.ndarray):
            print(tag, "->", h(res), np.round(res.ravel()[:6], 12).tolist())
        else:
            print(tag, "->", repr(res))
    except Exception as err:  # pylint: disable=broad-except
        msg = re.sub(r"0x[0-9a-f]+", "0x?", re.sub(r"id=\d+", "id=?", str(err)))
        print(tag, "raised", type(err).__name__, f"(cause {type(err.__cause__).__name__})", msg[:160].replace("\n", " | "))


# ---- check_array_shape directly -------------------------------------------------
arrs = {
    "0d": np.array(1.0),
    "1d3": np.zeros(3),
    "1d5": np.zeros(5),
    "2d23": np.zeros((2, 3)),
    "2d43": np.zeros((4, 3)),
    "2d42": np.zeros((4, 2)),
    "3d243": np.zeros((2, 4, 3)),
    "empty": np.zeros((0, 3)),
}
for name, a in arrs.items():
    for dims in [(1,), (1, 2), (2,), (0, 1), (2, 3)]:
        for shape_m1 in (3, "any", 5):
            for length in (None, 4, 3, 0):
                run(
                    f"cas {name} dims={dims} m1={shape_m1} len={length}",
                    lambda a=a, dims=dims, shape_m1=shape_m1, length=length: ic.check_array_shape(
                        a, dims=dims, shape_m1=shape_m1, length=length, msg="MSG"
                    ),
                )

# ---- make_float_array / check_format_input_vector -------------------------------
src_arr = np.array([[1, 2, 3], [4, 5, 6]], dtype=float)
out = ic.make_float_array(src_arr, "m:")
print("mfa copy", out is not src_arr, not np.shares_memory(out, src_arr), h(out))
run("mfa int list", lambda: ic.make_float_array([1, 2, 3], "m:"))
run("mfa bad", lambda: ic.make_float_array([1, "a"], "m:"))
run("mfa ragged", lambda: ic.make_float_array([[1, 2], [3]], "m:"))
run("mfa None", lambda: ic.make_float_array(None, "m:"))
run("mfa obj", lambda: ic.make_float_array(object(), "m:"))

kw = dict(dims=(1, 2), shape_m1=3, sig_name="x", sig_type="T")
run("cfiv ok", lambda: ic.check_format_input_vector([1, 2, 3], **kw))
out = ic.check_format_input_vector(src_arr, **kw)
print("cfiv copy", out is not src_arr, not np.shares_memory(out, src_arr), h(out))
run("cfiv reshape", lambda: ic.check_format_input_vector([1, 2, 3], reshape=(-1, 3), **kw))
run("cfiv reshape+neg", lambda: ic.check_format_input_vector([-1, 2, 3], reshape=(-1, 3), forbid_negative0=True, **kw))
run("cfiv reshape True", lambda: ic.check_format_input_vector([1, 2, 3], reshape=True, **kw))
for allow in (False, True, 0, 1, "", "x"):
    run(f"cfiv None allow={allow!r}", lambda allow=allow: ic.check_format_input_vector(None, allow_None=allow, **kw))
for forbid in (False, True, 0, 1):
    for v in ([1, 2, 3], [0, 2, 3], [-1, 2, 3], [[1, 2, 3], [1, 0, 1]]):
        run(f"cfiv forbid={forbid!r} {v}", lambda v=v, forbid=forbid: ic.check_format_input_vector(v, forbid_negative0=forbid, **kw))
run("cfiv str", lambda: ic.check_format_input_vector("abc", **kw))
run("cfiv set", lambda: ic.check_format_input_vector({1, 2, 3}, **kw))
run("cfiv bad entries", lambda: ic.check_format_input_vector([1, 2, "x"], **kw))
run("cfiv bad shape", lambda: ic.check_format_input_vector([1, 2], **kw))
run("cfiv bad ndim", lambda: ic.check_format_input_vector([[[1, 2, 3]]], **kw))
run("cfiv length ok", lambda: ic.check_format_input_vector(np.zeros((4, 3)), dims=(2,), shape_m1=3, length=4, sig_name="v", sig_type="T"))
run("cfiv length bad", lambda: ic.check_format_input_vector(np.zeros((5, 3)), dims=(2,), shape_m1=3, length=4, sig_name="v", sig_type="T"))
run("cfiv any", lambda: ic.check_format_input_vector([1, 2, 3, 4, 5, 6, 7], dims=(1,), shape_m1="any", sig_name="angle", sig_type="T"))
run("cfiv scalar", lambda: ic.check_format_input_vector(3.0, **kw))
run("cfiv nan", lambda: ic.check_format_input_vector([np.nan, 1, 2], forbid_negative0=True, **kw))

# ---- through the public setters -------------------------------------------------
c = magpy.magnet.Cuboid()
for val in [(1, 2, 3), [1, 2], (0, 1, 1), (-1, 1, 1), None, "abc", np.array([1, 2, 3])]:
    run(f"Cuboid.dimension={val!r}", lambda val=val: (setattr(c, "dimension", val), c.dimension)[1])
for val in [(1, 2, 3), [[1, 2, 3]], None, (1, 2), 3]:
    run(f"Cuboid.polarization={val!r}", lambda val=val: (setattr(c, "polarization", val), c.polarization)[1])
for val in [(1, 2, 3), [(1, 2, 3), (2, 3, 4)], [1, 2], None, [[[1, 2, 3]]]]:
    run(f"position={val!r}", lambda val=val: (setattr(c, "position", val), c.position)[1])
p = np.array([(1.0, 2, 3), (4, 5, 6)])
c.position = p
p[0, 0] = 99
print("position decoupled from user array", c.position.tolist())
t = magpy.magnet.Tetrahedron()
for val in [np.eye(4, 3), np.eye(3), np.eye(5, 3), None, np.eye(4)]:
    run(f"Tetra.vertices shape={getattr(val, 'shape', None)}", lambda val=val: (setattr(t, "vertices", val), t.vertices)[1])
tr = magpy.misc.Triangle()
for val in [np.eye(3), np.eye(4, 3), None]:
    run(f"Triangle.vertices shape={getattr(val, 'shape', None)}", lambda val=val: (setattr(tr, "vertices", val), tr.vertices)[1])
pl = magpy.current.Polyline()
for val in [[(0, 0, 0), (1, 1, 1)], [(0, 0, 0)], None, [(0, 0), (1, 1)]]:
    run(f"Polyline.vertices={val!r}", lambda val=val: (setattr(pl, "vertices", val), pl.vertices)[1])
run("cylseg ok", lambda: magpy.magnet.CylinderSegment(dimension=(1, 2, 3, 0, 90)).dimension)
run("cylseg bad", lambda: magpy.magnet.CylinderSegment(dimension=(2, 1, 3, 0, 90)).dimension)
run("cylseg bad len", lambda: magpy.magnet.CylinderSegment(dimension=(2, 1, 3, 0)).dimension)
run("rotate axis", lambda: c.rotate_from_angax([10, 20], (0, 0, 1), anchor=0).orientation.as_quat())
run("rotate axis bad", lambda: c.rotate_from_angax(10, (0, 0, 0)))
run("rotate anchor bad", lambda: c.rotate_from_angax(10, "z", anchor=(1, 2)))
run("rotate angle bad", lambda: c.rotate_from_angax([[1, 2]], "z"))

# ---- check_dimensions / check_excitations ---------------------------------------
obs = (1, 2, 3)
full = magpy.magnet.Cuboid(polarization=(1, 2, 3), dimension=(1, 2, 3))
srcs = {
    "cuboid-nodim": magpy.magnet.Cuboid(polarization=(1, 2, 3)),
    "cuboid-nopol": magpy.magnet.Cuboid(dimension=(1, 2, 3)),
    "cuboid-nothing": magpy.magnet.Cuboid(),
    "cyl-nodim": magpy.magnet.Cylinder(polarization=(1, 2, 3)),
    "cylseg-nodim": magpy.magnet.CylinderSegment(polarization=(1, 2, 3)),
    "sphere-nodia": magpy.magnet.Sphere(polarization=(1, 2, 3)),
    "sphere-nopol": magpy.magnet.Sphere(diameter=1),
    "tetra-novert": magpy.magnet.Tetrahedron(polarization=(1, 2, 3)),
    "tetra-nopol": magpy.magnet.Tetrahedron(vertices=np.eye(4, 3)),
    "triangle-novert": magpy.misc.Triangle(polarization=(1, 2, 3)),
    "triangle-nopol": magpy.misc.Triangle(vertices=np.eye(3)),
    "circle-nodia": magpy.current.Circle(current=1),
    "circle-nocur": magpy.current.Circle(diameter=1),
    "polyline-novert": magpy.current.Polyline(current=1),
    "polyline-nocur": magpy.current.Polyline(vertices=[(0, 0, 0), (1, 1, 1)]),
    "dipole-nomom": magpy.misc.Dipole(),
    "custom-nofunc": magpy.misc.CustomSource(),
    "custom-ok": magpy.misc.CustomSource(field_func=lambda field, observers: observers * 1.0),
    "full": full,
}
for name, s in srcs.items():
    run(f"check_dimensions {name}", lambda s=s: ic.check_dimensions([full, s]))
    run(f"check_excitations {name}", lambda s=s: ic.check_excitations([full, s]))
    run(f"getB {name}", lambda s=s: magpy.getB([full, s], obs))
    run(f"getH-method {name}", lambda s=s: s.getH(obs))
run("order: exc-missing first, dim-missing second", lambda: magpy.getB([srcs["cuboid-nopol"], srcs["cuboid-nodim"]], obs))
run("order: dim-missing first, exc-missing second", lambda: magpy.getB([srcs["sphere-nodia"], srcs["circle-nocur"]], obs))
run("in collection", lambda: magpy.getB(magpy.Collection(full.copy(), srcs["dipole-nomom"].copy()), obs))
run("empty lists", lambda: (ic.check_dimensions([]), ic.check_excitations([])))


class Weird:
    """object with several of the probed attributes: only the first existing one is tested"""

    def __init__(self, **kw):
        self.__dict__.update(kw)

    def __repr__(self):
        return "Weird" + repr(sorted(self.__dict__))


for kwargs in [
    dict(dimension=1, diameter=None, vertices=None),
    dict(diameter=None, vertices=1),
    dict(vertices=None),
    dict(polarization=0, current=None),
    dict(current=None, moment=1),
    dict(moment=None),
    dict(),
]:
    w = Weird(**kwargs)
    run(f"weird dims {w!r}", lambda w=w: ic.check_dimensions([w]))
    run(f"weird exc {w!r}", lambda w=w: ic.check_excitations([w]))


class Counting:
    """counts attribute accesses through properties"""

    log = []

    @property
    def diameter(self):
        Counting.log.append("diameter")
        return 1.0

    @property
    def current(self):
        Counting.log.append("current")
        return None

    def __repr__(self):
        return "Counting()"


run("counting dims", lambda: ic.check_dimensions([Counting()]))
run("counting exc", lambda: ic.check_excitations([Counting()]))
print("access log", Counting.log)
