import os, sys; sys.path.insert(0, os.getcwd())
import hashlib
import json
import re
import warnings

import numpy as np
from scipy.spatial.transform import Rotation as R

import magpylib as magpy
from magpylib._src.display.traces_generic import get_frames
from magpylib._src.display.traces_utility import DEFAULT_ROW_COL_PARAMS
from magpylib._src.display.traces_utility import process_show_input_objs

warnings.simplefilter("ignore")


def norm(o):
    """deterministic, JSON-able view of nested trace structures (keeps dict key order)"""
    if isinstance(o, dict):
        return ["dict", [[str(k), norm(v)] for k, v in o.items()]]
    if isinstance(o, (list, tuple)):
        return [type(o).__name__, [norm(v) for v in o]]
    if isinstance(o, np.ndarray):
        if o.dtype.kind in "fiu":
            return ["nd", str(o.dtype.kind), list(o.shape), np.round(o.astype(float), 9).tolist()]
        return ["nd", str(o.dtype.kind), list(o.shape), [norm(v) for v in o.ravel().tolist()]]
    if isinstance(o, (bool, np.bool_)):
        return bool(o)
    if isinstance(o, (float, np.floating)):
        return ["f", round(float(o), 9)]
    if isinstance(o, (int, np.integer)):
        return ["i", int(o)]
    if o is None:
        return None
    if isinstance(o, str):
        return re.sub(r"id=\d+|0x[0-9a-f]+", "#", o)
    if isinstance(o, R):
        return ["rot", np.round(o.as_quat(), 9).tolist()]
    return re.sub(r"id=\d+|0x[0-9a-f]+", "#", repr(o))


def digest(label, o):
    s = json.dumps(norm(o))
    print(f"{label}: {hashlib.sha256(s.encode()).hexdigest()[:16]} len={len(s)}")
    return s


def attempt(label, func):
    try:
        res = func()
    except Exception as err:  # pylint: disable=broad-except
        msg = re.sub(r"id=\d+|0x[0-9a-f]+", "#", str(err))
        print(f"{label}: EXC {type(err).__name__}: {msg}")
        return None
    digest(label, res)
    return res


def model(*objs, backend="plotly", colorgrad=True, **kw):
    objects, *_ = process_show_input_objs(
        objs, **{k: v for k, v in kw.items() if k in DEFAULT_ROW_COL_PARAMS})
    style_kw = {k: v for k, v in kw.items() if k.startswith("style")}
    kw = {k: v for k, v in kw.items() if k not in DEFAULT_ROW_COL_PARAMS and k not in style_kw}
    return get_frames(objects, backend=backend, supports_colorgradient=colorgrad,
                      style_kwargs=style_kw, **kw)


def state(objs):
    return json.dumps(norm([[o.style.as_dict(), o.position, o.orientation] for o in objs]
                           + [magpy.defaults.as_dict()]))


# ---------------------------------------------------------------- twin4-1
from magpylib._src.display.traces_utility import merge_mesh3d, merge_scatter3d, merge_traces
from magpylib._src.display.traces_utility import group_traces, slice_mesh_from_colorscale
from magpylib._src.display.traces_base import make_Cuboid as base_cuboid
from magpylib._src.display.traces_core import make_Pixels


def mesh(n=0, **kw):
    rng = np.random.default_rng(n)
    tr = {"type": "mesh3d", "x": rng.random(4), "y": rng.random(4), "z": rng.random(4),
          "i": np.array([0, 0, 0, 1]), "j": np.array([1, 1, 2, 2]), "k": np.array([2, 3, 3, 3])}
    tr.update(kw)
    return tr


def scat(n=0, npts=3, **kw):
    rng = np.random.default_rng(100 + n)
    tr = {"type": "scatter3d", "x": rng.random(npts), "y": rng.random(npts), "z": rng.random(npts)}
    tr.update(kw)
    return tr


print("== merge_mesh3d")
attempt("mesh single", lambda: merge_mesh3d(mesh(1, color="red")))
attempt("mesh two", lambda: merge_mesh3d(mesh(1, color="red", name="a"), mesh(2, color="blue", extra=1)))
attempt("mesh three", lambda: merge_mesh3d(mesh(1), mesh(2), mesh(3)))
attempt("mesh key order", lambda: list(merge_mesh3d(
    {"name": "n", "z": [0, 1, 2], "k": [2], "facecolor": ["a"], "y": [0, 1, 2], "j": [1], "x": [0, 1, 2], "i": [0],
     "intensity": [1, 2, 3], "opacity": 1},
    {"x": [0, 1, 2], "y": [0, 1, 2], "z": [0, 1, 2], "i": [0], "j": [1], "k": [2], "facecolor": ["b"],
     "intensity": [4, 5, 6]})))
attempt("mesh intensity", lambda: merge_mesh3d(mesh(1, intensity=np.arange(4.0)), mesh(2, intensity=np.arange(4.0) * 2)))
attempt("mesh intensity None", lambda: merge_mesh3d(mesh(1, intensity=None), mesh(2, intensity=np.arange(4.0))))
attempt("mesh facecolor", lambda: merge_mesh3d(mesh(1, facecolor=np.array(["r"] * 4)), mesh(2, facecolor=np.array(["g"] * 4))))
attempt("mesh facecolor None first", lambda: merge_mesh3d(mesh(1, facecolor=None), mesh(2, facecolor=np.array(["g"] * 4))))
attempt("mesh no ijk", lambda: merge_mesh3d({"x": [1, 2], "y": [1, 2], "z": [3, 4]}, {"x": [5], "y": [6], "z": [7], "i": [0]}))
attempt("mesh only i", lambda: merge_mesh3d({"x": [1, 2], "y": [1, 2], "z": [3, 4], "i": np.array([0, 1])},
                                           {"x": [5], "y": [6], "z": [7], "i": np.array([0])}))
attempt("mesh list ijk", lambda: merge_mesh3d(mesh(1, i=[0, 0, 0, 1]), mesh(2)))
attempt("mesh 2d coords", lambda: merge_mesh3d(mesh(1, x=np.ones((2, 2))), mesh(2, x=np.ones((1, 2)))))
t1, t2 = mesh(1, color="red"), mesh(2)
res = merge_mesh3d(t1, t2)
print("inputs untouched", list(t1), list(t2), res["color"] is t1["color"], res is t1)
t1 = mesh(1, lst=[1, 2])
print("value aliasing", merge_mesh3d(t1, mesh(2))["lst"] is t1["lst"], merge_mesh3d(t1)["x"] is t1["x"])
# errors
attempt("mesh empty", lambda: merge_mesh3d())
attempt("mesh missing x first", lambda: merge_mesh3d({"y": [1], "z": [1]}, mesh(1)))
attempt("mesh missing x second", lambda: merge_mesh3d(mesh(1), {"y": [1], "z": [1]}, mesh(2)))
attempt("mesh missing y last", lambda: merge_mesh3d(mesh(1), {"x": [1], "z": [1], "i": np.array([0]), "j": np.array([0]), "k": np.array([0])}))
attempt("mesh missing i second", lambda: merge_mesh3d(mesh(1), {"x": [1], "y": [1], "z": [1]}))
attempt("mesh missing facecolor second", lambda: merge_mesh3d(mesh(1, facecolor=np.array(["r"] * 4)), mesh(2)))
attempt("mesh None trace", lambda: merge_mesh3d(None))
attempt("mesh not dict", lambda: merge_mesh3d([1, 2], [3]))
attempt("mesh i str", lambda: merge_mesh3d(mesh(1, i="ab"), mesh(2)))
attempt("mesh len fail", lambda: merge_mesh3d(mesh(1, x=3), mesh(2)))

print("== merge_scatter3d")
for mode in (None, "", "markers", "lines", "markers+lines", "lines+text", "text", "line", 0, 5, ["line"], ("a",), b"line"):
    def fn(mode=mode, with_key=True):
        a = scat(1, mode=mode, name="first", line_color="r") if with_key else scat(1)
        b = scat(2, 2, mode="lines", name="second", other=1)
        c = scat(3, 1)
        res = merge_scatter3d(a, b, c)
        return [res, a, b, c, res is a]
    attempt(f"scatter mode={mode!r}", fn)
attempt("scatter no mode key", lambda: fn(with_key=False))
a = scat(1, mode=None)
print("single returns same", merge_scatter3d(a) is a, a["mode"])
a = scat(1)
b = scat(2)
res = merge_scatter3d(a, b)
print("mutated first mode", a.get("mode"), b.get("mode"), res["mode"], list(res))
attempt("scatter key order", lambda: list(merge_scatter3d(
    {"name": "n", "z": [0], "mode": "lines", "y": [0], "x": [0], "w": 1}, {"x": [1], "y": [1], "z": [1], "v": 2})))
attempt("scatter lists", lambda: merge_scatter3d({"x": [0, 1], "y": [0, 1], "z": [0, 1], "mode": "lines"},
                                                {"x": [2], "y": [2], "z": [2]}))
attempt("scatter None coords", lambda: merge_scatter3d({"x": [0, None], "y": [0, None], "z": [0, None]},
                                                      {"x": [2], "y": [2], "z": [2]}))
attempt("scatter 2d lines", lambda: merge_scatter3d(scat(1, mode="lines", x=np.ones((2, 2))), scat(2)))
attempt("scatter empty", lambda: merge_scatter3d())
attempt("scatter missing x 2nd", lambda: merge_scatter3d(scat(1), {"y": [1], "z": [2]}))
attempt("scatter missing z 2nd lines", lambda: merge_scatter3d(scat(1, mode="lines"), {"y": [1], "x": [2]}))
attempt("scatter missing x 1st", lambda: merge_scatter3d({"y": [1], "z": [2]}, scat(1)))
attempt("scatter None trace", lambda: merge_scatter3d(None, scat(1)))
attempt("scatter None trace single", lambda: merge_scatter3d(None))
attempt("scatter list trace", lambda: merge_scatter3d([1], scat(1)))
a = scat(1, mode=0)
attempt("scatter mode 0 err", lambda: merge_scatter3d(a, scat(2)))
print("mode after err", a["mode"])

print("== merge_traces / group_traces")
attempt("merge_traces mix", lambda: merge_traces(mesh(1), scat(1, mode="lines"), mesh(2), scat(2), {"type": "other", "a": 1}, {"type": "other"}))
attempt("group_traces", lambda: group_traces(
    mesh(1, color="r", legendgroup="a"), mesh(2, color="r", legendgroup="a"), mesh(3, color="b", legendgroup="a"),
    scat(1, mode="lines", line={"color": "k"}), scat(2, mode="lines", line_color="k"), scat(3, mode="markers")))

print("== callers")
attempt("make_Pixels", lambda: make_Pixels([(0, 0, 0), (1, 2, 3), (-1, 0, 2)], size=0.3))
attempt("make_Pixels one", lambda: make_Pixels([(1, 2, 3)], size=2))
attempt("make_Pixels empty", lambda: make_Pixels([], size=2))
cub = base_cuboid("plotly-dict", dimension=(1, 2, 3))
from magpylib._src.display.traces_utility import getColorscale
for cs in (getColorscale(), getColorscale(color_middle=False), getColorscale(color_transition=0.3)):
    attempt("slice", lambda: slice_mesh_from_colorscale(dict(cub), np.array([1.0, 2.0, 0.5]), cs))

print("== full models")
c1 = magpy.magnet.Cuboid(polarization=(0, 0, 1), dimension=(1, 1, 1), position=[(i, 0, 0) for i in range(4)])
c2 = magpy.magnet.Cylinder(polarization=(0, 1, 1), dimension=(1, 2)).rotate_from_angax([0, 30, 60], "x", start=0)
s1 = magpy.Sensor(pixel=[(0, 0, 0), (0, 0, 1), (0, 1, 1)], position=[(0, 0, i) for i in range(3)])
s2 = magpy.Sensor(pixel=(1, 2, 3))
l1 = magpy.current.Polyline(current=1, vertices=[(0, 0, 0), (1, 1, 1), (2, 0, 0)], position=[(0, i, 0) for i in range(3)])
l2 = magpy.current.Circle(current=-1, diameter=2, position=[(0, i, 1) for i in range(3)])
tm = magpy.magnet.TriangularMesh.from_ConvexHull(polarization=(0, 0, 1), points=np.array(
    [(0, 0, 0), (1, 0, 0), (0, 1, 0), (0, 0, 1)]), position=[(3, 3, i) for i in range(2)])
tri = magpy.misc.Triangle(polarization=(0, 0, 1), vertices=[(0, 0, 0), (1, 0, 0), (0, 1, 0)], position=[(5, 5, i) for i in range(2)])
objs = [c1, c2, s1, s2, l1, l2, tm, tri, magpy.Collection(c1.copy(), s1.copy(), l1.copy())]
before = state(objs)
for backend, cg in (("plotly", True), ("matplotlib", False)):
    for frames in (1, 2, 3, [0, 2], [1]):
        attempt(f"model {backend} frames={frames}", lambda: model(*objs, backend=backend, colorgrad=cg, style_path_frames=frames))
attempt("model mag arrows", lambda: model(c1, c2, tm, tri, style_magnetization_mode="arrow", style_path_frames=1))
attempt("model orientation/mesh", lambda: model(tm, tri, style_orientation_show=True, style_mesh_grid_show=True, style_path_frames=1))
attempt("model animation", lambda: model(c1, s1, l1, animation=True))
print("objects/defaults unchanged:", before == state(objs))
import plotly.graph_objects as go
fig = magpy.show(*objs, backend="plotly", return_fig=True, style_path_frames=1)
digest("plotly fig", fig.to_dict()["data"])
