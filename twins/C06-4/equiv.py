import os, sys; sys.path.insert(0, os.getcwd())
import hashlib
import warnings

import numpy as np

import magpylib as magpy
from magpylib._src.fields.field_BH_polyline import current_vertices_field

warnings.simplefilter("ignore")
np.seterr(all="ignore")


def dig(name, arr):
    arr = np.ascontiguousarray(np.asarray(arr, dtype=float))
    h = hashlib.sha256(arr.tobytes()).hexdigest()[:16]
    print(name, arr.shape, h, np.round(arr.ravel()[:4], 12).tolist())


def attempt(name, func):
    try:
        dig(name, func())
    except Exception as err:  # pylint: disable=broad-except
        print(name, "error", type(err).__name__)


def ragged(sets):
    out = np.empty(len(sets), dtype=object)
    for i, vs in enumerate(sets):
        out[i] = np.array(vs, dtype=float)
    return out


v3 = [(0, 0, 0), (1, 1, 1), (2, 0, 1)]
v3b = [(0, 0, 0), (0, 0, 2), (1, 0, 2)]
v5 = [(0, 0, 0), (1, 0, 0), (1, 1, 0), (0, 1, 0), (0, 0, 0)]
v2 = [(-1, -1, -1), (1, 2, 3)]
v4z = [(0, 0, 0), (0, 0, 0), (1, 0, 0), (1, 0, 0)]  # zero length segments
obs = np.array(
    [(1.0, 2.0, 3.0), (0.5, 0.5, 0.5), (0.5, 0.0, 0.0), (-2.0, 0.3, 0.1), (0.0, 0.0, 1.0)]
)
cur = np.array([1.0, -2.0, 0.5, 3.0, 10.0])

uniform = np.array([v3, v3b, v3, v3b, v3], dtype=float)
rag = ragged([v3, v5, v2, v4z, v3b])
rag_same = ragged([v3, v3b, v3, v3b, v3])  # object array, equal lengths

for field in "BHJM":
    dig("uniform_" + field, current_vertices_field(field, obs, cur, uniform))
    dig("ragged_" + field, current_vertices_field(field, obs, cur, rag))

# rows only depend on their own vertex set / observer / current
full = current_vertices_field("B", obs, cur, rag)
rows = [
    current_vertices_field("B", obs[i : i + 1], cur[i : i + 1], rag[i][None])[0]
    for i in range(5)
]
print(
    "ragged rows exact/close",
    bool(np.all(np.array(rows) == full)),
    bool(np.allclose(np.array(rows), full, rtol=1e-10, atol=1e-18)),
)
full = current_vertices_field("H", obs, cur, uniform)
rows = [
    current_vertices_field("H", obs[i : i + 1], cur[i : i + 1], uniform[i : i + 1])[0]
    for i in range(5)
]
print(
    "uniform rows exact/close",
    bool(np.all(np.array(rows) == full)),
    bool(np.allclose(np.array(rows), full, rtol=1e-10, atol=1e-18)),
)

# smallest cases
attempt("one_set_objarray", lambda: current_vertices_field("B", obs[:1], cur[:1], ragged([v2])))
dig(
    "one_set_two_vertices",
    current_vertices_field("B", obs[:1], cur[:1], np.array([v2], dtype=float)),
)
dig("one_set_uniform", current_vertices_field("B", obs[:1], cur[:1], uniform[:1]))
dig("two_sets_ragged", current_vertices_field("H", obs[:2], cur[:2], ragged([v2, v5])))

# segment interface (vertices=None)
dig(
    "segments",
    current_vertices_field(
        "B",
        obs,
        cur,
        segment_start=np.array([v[0] for v in (v3, v3b, v5, v2, v3)], dtype=float),
        segment_end=np.array([v[1] for v in (v3, v3b, v5, v2, v3)], dtype=float),
    ),
)

# corner cases and error paths
attempt("objarray_equal_lengths", lambda: current_vertices_field("B", obs, cur, rag_same))
attempt("list_equal_lengths", lambda: current_vertices_field("B", obs[:2], cur[:2], [np.array(v3, float), np.array(v3b, float)]))
attempt("list_ragged", lambda: current_vertices_field("B", obs[:2], cur[:2], [np.array(v3, float), np.array(v5, float)]))
attempt("empty_array", lambda: current_vertices_field("B", obs[:0], cur[:0], np.array([])))
attempt("empty_3d", lambda: current_vertices_field("B", obs[:0], cur[:0], np.zeros((0, 3, 3))))
attempt("empty_list", lambda: current_vertices_field("B", obs[:0], cur[:0], []))
attempt("bad_field", lambda: current_vertices_field("X", obs, cur, uniform))
attempt("bad_field_ragged", lambda: current_vertices_field("X", obs, cur, rag))
attempt("obs_mismatch", lambda: current_vertices_field("B", obs[:3], cur, uniform))
attempt("obs_mismatch_ragged", lambda: current_vertices_field("B", obs[:3], cur, rag))
attempt("single_vertex_sets", lambda: current_vertices_field("B", obs[:2], cur[:2], np.zeros((2, 1, 3))))
attempt("nan_vertices", lambda: current_vertices_field("B", obs[:2], cur[:2], ragged([[(0, 0, 0), (np.nan,) * 3, (1, 1, 1)], v5])))
attempt("none_all", lambda: current_vertices_field("B", obs, cur))

# object oriented interface
lines = [
    magpy.current.Polyline(current=c, vertices=v, position=(0.1 * i, 0, 0))
    for i, (c, v) in enumerate([(1.5, v3), (-0.5, v5), (3, v3b), (2, v2), (1, v4z)])
]
lines[0].move([(0, 0, 0.1), (0, 0, 0.2)])
lines[1].rotate_from_angax([10, 20, 30, 40], "y")
sens = magpy.Sensor(pixel=[(0, 0, 0), (0.1, 0.2, 0.3)], position=(2, 2, 2))
B = magpy.getB(lines, [sens, sens], squeeze=False)
dig("oo_ragged", B)
dig("oo_uniform", magpy.getH([lines[0], lines[2], lines[0]], sens, squeeze=False))
dig("oo_single", magpy.getB(lines[3], (1, 1, 1), squeeze=False))
ok = []
for l, src in enumerate(lines):
    b = magpy.getB(src, sens, squeeze=False)
    ok.append(bool(np.allclose(b[0, :, 0], B[l, : b.shape[1], 0], rtol=1e-10, atol=1e-18)))
print("oo elementwise", ok)
dig(
    "dict_interface",
    magpy.getB(
        "Polyline",
        obs,
        current=cur,
        segment_start=np.zeros((5, 3)),
        segment_end=np.array(v5, dtype=float) + 1.0,
    ),
)
