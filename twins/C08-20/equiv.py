import os, sys; sys.path.insert(0, os.getcwd())
# Twin4-5: getBH_level2 - "rearrange sensor-pixel shape" block extracted into
#          `_arrange_pixel_axes` (early returns), squeeze / expand_dims tail with early return
import hashlib
import itertools
import re
import warnings

import numpy as np
from scipy.spatial.transform import Rotation as R

import magpylib as magpy

warnings.simplefilter("ignore")


def h(a):
    a = np.ascontiguousarray(a)
    return hashlib.sha1(a.tobytes()).hexdigest()[:12] + str(a.shape) + str(a.dtype)


def clean(msg):
    msg = re.sub(r"0x[0-9a-f]+", "0x?", re.sub(r"id=\d+", "id=?", str(msg)))
    return msg.replace("\n", " | ")[:150]


cub = magpy.magnet.Cuboid(polarization=(0.1, 0.2, 0.3), dimension=(1, 2, 3))
cyl = magpy.magnet.Cylinder(
    polarization=(0.3, 0.1, -0.2),
    dimension=(1, 2),
    position=np.linspace((0, 0, 0), (1, 2, 3), 4),
    orientation=R.from_rotvec(np.linspace((0, 0, 0.1), (0.3, 0.2, 1.5), 4)),
)
loop = magpy.current.Circle(current=12.0, diameter=2.5, position=(0.2, -0.3, 0.4))
dip = magpy.misc.Dipole(moment=(1, 2, 3), position=[(4, 4, 4), (5, 5, 5)])
col = magpy.Collection(dip, loop)
cust = magpy.misc.CustomSource(field_func=lambda field, observers: observers * (1.0 if field == "B" else 2.0))

s_none = magpy.Sensor(position=(3, 3, 3))
s_3 = magpy.Sensor(pixel=(0.1, 0.2, 0.3), position=(2, 3, 3))
s_13 = magpy.Sensor(pixel=[(0.1, 0.2, 0.3)], position=(1, 3, 3))
s_23 = magpy.Sensor(
    pixel=[(0, 0, 0), (0.1, 0.2, 0.3)],
    position=np.linspace((2, 2, 2), (3, 3, 3), 3),
    orientation=R.from_rotvec(np.linspace((0, 0, 0), (0.5, 0.4, 0.3), 3)),
)
s_23b = magpy.Sensor(pixel=[(1, 0, 0), (0, 1, 0)], position=(-3, 2, 1), handedness="left").rotate_from_angax(77, "y")
s_223 = magpy.Sensor(pixel=np.arange(12.0).reshape(2, 2, 3) / 10, position=[(6, 0, 0), (7, 0, 0)])
s_1123 = magpy.Sensor(pixel=np.arange(6.0).reshape(1, 1, 2, 3) / 7, position=(0, 6, 0))
s_43 = magpy.Sensor(pixel=np.arange(12.0).reshape(4, 3) / 9)
OBJS = [cub, cyl, loop, dip, col, cust, s_none, s_3, s_13, s_23, s_23b, s_223, s_1123, s_43]


def snap():
    return [
        (
            h(o._position),
            h(o._orientation.as_quat()),
            id(o._orientation),
            None if getattr(o, "_pixel", None) is None else h(o._pixel),
            None if o._parent is None else id(o._parent),
        )
        for o in OBJS
    ]


def run(tag, fn):
    before = snap()
    for rep in range(2):
        try:
            res = fn()
            if hasattr(res, "to_numpy"):
                print(f"{tag}[{rep}] -> df cols={list(res.columns)} {res.shape} {h(res.to_numpy()[:, 4:].astype(float))} idx={h(res.to_numpy()[:, 1].astype(float))},{h(res.to_numpy()[:, 3].astype(float))}")
            else:
                print(f"{tag}[{rep}] -> {type(res).__name__} {h(res)} owndata={res.flags.owndata if res.ndim else None} {np.round(np.ravel(res)[:3], 12).tolist()}")
        except BaseException as err:  # pylint: disable=broad-except
            ctx = type(err.__context__).__name__ if err.__context__ is not None else None
            print(f"{tag}[{rep}] raised {type(err).__name__} ctx={ctx} :: {clean(err)}")
    print("    state-same:", before == snap())


OBSERVERS = {
    "pos": (1, 2, 3),
    "pos(2,3)": [(1, 2, 3), (2, 3, 4)],
    "pos(2,2,3)": np.arange(12.0).reshape(2, 2, 3),
    "pos(1,3)": [(1, 2, 3)],
    "s_none": s_none,
    "s_3": s_3,
    "s_13": s_13,
    "s_23": s_23,
    "s_223": s_223,
    "s_1123": s_1123,
    "[s_none]": [s_none],
    "[s_none,s_3,s_13]": [s_none, s_3, s_13],
    "[s_23,s_23b]": [s_23, s_23b],
    "[s_23,s_23]": [s_23, s_23],
    "[s_223,s_43]": [s_223, s_43],
    "[s_none,s_23,s_223,s_1123]": [s_none, s_23, s_223, s_1123],
    "[s_43,pos,s_3]": [s_43, (1, 2, 3), s_3],
    "[pos(2,3),s_23b]": [[(1, 2, 3), (2, 3, 4)], s_23b],
    "col-of-sensors": magpy.Collection(s_23.copy(), s_223.copy()),
}
SOURCES = {"cub": cub, "[cub,cyl]": [cub, cyl], "[col,cyl,cust]": [col, cyl, cust]}

print("== grid")
for (sname, src), (oname, obs) in itertools.product(SOURCES.items(), OBSERVERS.items()):
    for agg, sq, su in itertools.product((None, "mean", "max"), (True, False), (False, True)):
        if sname != "[cub,cyl]" and (agg == "max" or su):
            continue
        run(f"{sname}|{oname}|agg={agg}|sq={sq}|sum={su}", lambda: magpy.getB(src, obs, pixel_agg=agg, squeeze=sq, sumup=su))

print("== aggregators")
for agg in ("min", "median", "std", "var", "sum", "prod", "ptp", "any", "all", "count_nonzero", "nanmean", "average", "amax",
            "ndim", "size", "argmax", "linalg", "newaxis", "cumsum", "trace", "pi", "array", "MEAN", "", 5, ("mean",), np.mean):
    for oname in ("s_23", "[s_223,s_43]"):
        for sq in (True, False):
            run(f"agg={clean(repr(agg))}|{oname}|sq={sq}", lambda: magpy.getH([cub, cyl], OBSERVERS[oname], pixel_agg=agg, squeeze=sq))

print("== squeeze values / fields / interfaces / dataframe")
for sq in (1, 0, None, "", "no", [], [0], np.array([1, 2])):
    run(f"squeeze={sq!r}", lambda: magpy.getB(cub, s_23, squeeze=sq))
    run(f"squeeze={sq!r} agg", lambda: magpy.getB(cub, [s_23, s_43], squeeze=sq, pixel_agg="mean"))
for fname in ("getB", "getH", "getJ", "getM"):
    run(f"{fname} fn", lambda: getattr(magpy, fname)([cub, cyl], [s_23, s_223], pixel_agg="min", squeeze=False))
    run(f"{fname} src", lambda: getattr(cyl, fname)(s_23, s_23b, squeeze=False))
    run(f"{fname} src agg", lambda: getattr(cyl, fname)(s_23, s_43, pixel_agg="mean"))
    run(f"{fname} sens", lambda: getattr(s_223, fname)(cub, col, squeeze=False, pixel_agg="max"))
    run(f"{fname} col", lambda: getattr(col, fname)(s_23, s_1123, pixel_agg="mean", squeeze=False))
for agg, su, obs in itertools.product((None, "mean"), (False, True), ("[s_23,s_23b]", "[s_223,s_43]", "pos(2,2,3)")):
    run(f"dataframe agg={agg} sum={su} {obs}", lambda: magpy.getB([cub, cyl], OBSERVERS[obs], output="dataframe", pixel_agg=agg, sumup=su))
run("bad output after block", lambda: magpy.getB([cub, cyl], [s_223, s_43], output="xls", pixel_agg="mean"))
run("mixed shapes no agg", lambda: magpy.getB([cub, cyl], [s_223, s_43]))

print("== functional interface untouched")
run("dict", lambda: magpy.getB("Cuboid", [(1, 2, 3), (2, 3, 4)], dimension=(1, 2, 3), polarization=(0.1, 0.2, 0.3), squeeze=False))
