import os, sys; sys.path.insert(0, os.getcwd())
import hashlib
import json
import re

import numpy as np
from scipy.spatial.transform import Rotation as R

import magpylib as magpy
from magpylib._src.display.traces_generic import get_frames


def norm(o):
    """deterministic, JSON-able view of nested trace structures"""
    if isinstance(o, dict):
        return {str(k): norm(v) for k, v in sorted(o.items(), key=lambda kv: str(kv[0]))}
    if isinstance(o, (list, tuple)):
        return [type(o).__name__, [norm(v) for v in o]]
    if isinstance(o, np.ndarray):
        if o.dtype.kind in "fiu":
            return ["nd", list(o.shape), np.round(o.astype(float), 9).tolist()]
        return ["nd", list(o.shape), [norm(v) for v in o.ravel().tolist()]]
    if isinstance(o, (float, np.floating)):
        return round(float(o), 9)
    if isinstance(o, (int, np.integer, bool, type(None))):
        return o
    if isinstance(o, str):
        return re.sub(r"id=\d+", "id=#", o)
    if isinstance(o, R):
        return ["rot", np.round(o.as_quat(), 9).tolist()]
    return re.sub(r"id=\d+|0x[0-9a-f]+", "#", repr(o))


def digest(label, o):
    s = json.dumps(norm(o), sort_keys=True)
    print(f"{label}: {hashlib.sha256(s.encode()).hexdigest()[:16]} len={len(s)}")
    return s


def attempt(label, func):
    try:
        res = func()
    except Exception as err:  # pylint: disable=broad-except
        print(f"{label}: EXC {type(err).__name__}: {err}")
        return None
    digest(label, res)
    return res



import matplotlib

matplotlib.use("Agg")


def make_objs(scale):
    cube = magpy.magnet.Cuboid(polarization=(0, 0, 1), dimension=np.array((1, 2, 3)) * scale)
    cube.position = np.array([(0, 0, 0), (1, 2, 3), (2, 4, 6)]) * scale
    cube.rotate_from_angax([0, 45, 90], "z", start=0)
    loop = magpy.current.Circle(current=1, diameter=2 * scale, position=(0, 0, -2 * scale))
    line = magpy.current.Polyline(current=-1, vertices=np.array([(0, 0, 0), (1, 1, 1), (2, 0, 1)]) * scale)
    sens = magpy.Sensor(pixel=np.array([(0, 0, 0), (0, 0, 1)]) * scale, position=(3 * scale, 0, 0))
    dip = magpy.misc.Dipole(moment=(1, 1, 1), position=(0, -2 * scale, 0))
    cube.style.model3d.add_trace(
        backend="matplotlib", constructor="plot", kwargs={"ls": "--"},
        args=(np.array([0, 1]) * scale, np.array([0, 1]) * scale, np.array([0, 2]) * scale))
    cube.style.model3d.add_trace(
        backend="generic", constructor="scatter3d",
        kwargs={"x": np.array([0, 1]) * scale, "y": [0, 0], "z": [0, 0], "mode": "lines"})
    coll = magpy.Collection(loop, sens, magpy.Collection(dip, line))
    coll.move((0, 0, scale))
    return cube, coll


def snapshot(objs):
    flat = [o for ob in objs for o in ([ob] + list(getattr(ob, "children_all", [])))]
    return json.dumps(norm([[o.style.as_dict(), o.position, o.orientation] for o in flat]
                           + [magpy.defaults.as_dict()]))


def frames_digest(data):
    return {k: v for k, v in data.items() if k != "input_kwargs"}


for scale in (1, 1e-3, 2.5e-7, 4e4):
    objs = make_objs(scale)
    before = snapshot(objs)
    for units in ("auto", "mm", "m", "km", "cm", "µm", None, ""):
        def run_plotly():
            fig = magpy.show(*objs, backend="plotly", return_fig=True, style_path_frames=1,
                             units_length=units)
            d = fig.to_dict()
            return [d["data"], d["layout"]["scene"]]
        attempt(f"plotly scale={scale} units={units!r}", run_plotly)
    for units in ("auto", "dm"):
        def run_mpl():
            fig = magpy.show(*objs, backend="matplotlib", return_fig=True, units_length=units)
            ax = fig.axes[0]
            res = [[np.array(l.get_data_3d()) for l in ax.lines],
                   [ax.get_xlim(), ax.get_ylim(), ax.get_zlim()],
                   [ax.get_xlabel(), ax.get_ylabel(), ax.get_zlabel()]]
            matplotlib.pyplot.close(fig)
            return res
        attempt(f"mpl scale={scale} units={units!r}", run_mpl)
    print(f"scale={scale} unchanged:", before == snapshot(objs))

# error paths: invalid units
objs = make_objs(1)
for units in ("xx", "mmm", "m2", 5, "inch"):
    attempt(f"err units={units!r}", lambda: magpy.show(*objs, backend="plotly", return_fig=True, units_length=units))

# subplots with different units, 2D output and empty subplot ranges
def run_subplots():
    fig = magpy.show(
        {"objects": objs, "row": 1, "col": 1, "units_length": "mm"},
        {"objects": objs, "row": 1, "col": 2, "units_length": "auto"},
        {"objects": objs, "row": 2, "col": 1, "output": "Bz"},
        {"objects": objs[0], "row": 2, "col": 2, "units_length": "km", "zoom": 2},
        backend="plotly", return_fig=True)
    d = fig.to_dict()
    return [d["data"], {k: v for k, v in d["layout"].items() if k.startswith("scene")}]
attempt("subplots", run_subplots)

# direct get_frames calls (generic structure incl. extra backend traces)
def run_frames(**kw):
    data = get_frames([{"objects": list(objs), "row": 1, "col": 1, "output": "model3d",
                        "units_length": kw.pop("units", "auto"), "zoom": 0, "sumup": True,
                        "pixel_agg": "mean", "in_out": "auto"}], style_kwargs={}, **kw)
    return frames_digest(data)
attempt("get_frames generic", lambda: run_frames(backend="plotly"))
attempt("get_frames mpl extra cm", lambda: run_frames(backend="matplotlib", units="cm", supports_colorgradient=False))
attempt("get_frames animation", lambda: run_frames(backend="plotly", animation=True, units="mm"))
attempt("get_frames empty", lambda: frames_digest(get_frames([], style_kwargs={})))
attempt("get_frames err", lambda: run_frames(backend="plotly", units="foo"))
attempt("show empty", lambda: magpy.show(backend="plotly", return_fig=True).to_dict()["layout"]["scene"])
