import os, sys; sys.path.insert(0, os.getcwd())
# Equivalence digest for twins2/4 (BaseGeo: children propagation of the
# position / orientation setters moved into private methods, orientation getter).
import warnings

import numpy as np
from scipy.spatial.transform import Rotation as R

import magpylib as magpy

warnings.simplefilter("ignore")


def dig(a):
    return (np.round(np.asarray(a, dtype=float), 9) + 0.0).tolist()


def state(obj):
    return dig(obj._position), dig(obj._orientation.as_quat())


def tree(obj):
    out = [state(obj)]
    for ch in getattr(obj, "children", []):
        out.append(tree(ch))
    return out


def show(tag, fn):
    try:
        print(tag, "->", fn())
    except BaseException as err:  # pylint: disable=broad-except
        print(tag, "-> EXC", type(err).__name__, str(err)[:150])


def rots(n):
    """n=0: scalar Rotation, n>0: Rotation path of length n, None: None"""
    if n is None:
        return None
    rv = [(0.1 * (k + 1), -0.2 * k, 0.05 * (k + 2)) for k in range(max(n, 1))]
    return R.from_rotvec(rv[0] if n == 0 else rv)


def poss(n, f=1.0):
    """n=0: shape (3,), n>0: shape (n,3)"""
    p = [(f * (1.0 + k), -2.0 * k * f, 0.5 * k * k + f) for k in range(max(n, 1))]
    return p[0] if n == 0 else p


def build(n_outer, n_inner, n_leaf):
    leaf1 = magpy.Sensor(position=poss(n_leaf), orientation=rots(n_leaf))
    leaf2 = magpy.magnet.Cuboid(polarization=(1, 2, 3), dimension=(1, 1, 1), position=poss(0, 3.0))
    inner = magpy.Collection(leaf1, leaf2, position=poss(n_inner, 2.0), orientation=rots(n_inner))
    leaf3 = magpy.Sensor(position=poss(2, -1.0), orientation=rots(0))
    outer = magpy.Collection(inner, leaf3, position=poss(n_outer, 0.5), orientation=rots(n_outer))
    return outer, inner, leaf1


# 1) orientation getter: scalar for path length 1, path otherwise; getter identity
for n in (None, 0, 1, 2, 4):
    s = magpy.Sensor(orientation=rots(n))
    o = s.orientation
    print("getter", n, type(o).__name__, o.single, dig(o.as_quat()), o is s._orientation, dig(s.position))
c = magpy.Collection(position=poss(3))
print("getter coll", c.orientation.single, len(c.orientation), c.orientation is c._orientation)

# 2) setters on plain objects: edge-pad / end-slice the other path
for n0 in (1, 3):
    for nnew in (None, 0, 1, 2, 3, 5):
        if nnew is not None:
            s = magpy.Sensor(position=poss(n0), orientation=rots(n0))
            s.position = poss(nnew, 10.0)
            print("set pos", n0, nnew, state(s), dig(s.position), dig(s.orientation.as_quat()))
        s = magpy.Sensor(position=poss(n0), orientation=rots(n0))
        s.orientation = rots(nnew)
        print("set ori", n0, nnew, state(s), dig(s.position), dig(s.orientation.as_quat()))

# 3) Collections: children follow; nested; children with other path lengths
for n_outer in (1, 3):
    for n_inner in (1, 2):
        for n_leaf in (1, 4):
            for nnew in (None, 0, 1, 2, 3, 5):
                for target in ("outer", "inner"):
                    if nnew is not None:
                        outer, inner, leaf = build(n_outer, n_inner, n_leaf)
                        tgt = outer if target == "outer" else inner
                        tgt.position = poss(nnew, 7.0)
                        print("coll pos", n_outer, n_inner, n_leaf, nnew, target, tree(outer))
                    outer, inner, leaf = build(n_outer, n_inner, n_leaf)
                    tgt = outer if target == "outer" else inner
                    tgt.orientation = rots(nnew)
                    print("coll ori", n_outer, n_inner, n_leaf, nnew, target, tree(outer))

# the parent's old position array and the assigned input are not modified
outer, inner, leaf = build(2, 2, 2)
old = outer._position
old_copy = old.copy()
inp = np.array(poss(4, 2.0))
inp_copy = inp.copy()
outer.position = inp
print("old untouched", np.array_equal(old, old_copy), "input untouched", np.array_equal(inp, inp_copy),
      "no alias", not np.shares_memory(outer._position, inp))

# empty Collection and Collection in Collection without leaves
e = magpy.Collection()
e.position = poss(2)
e.orientation = rots(3)
ee = magpy.Collection(magpy.Collection(), position=poss(2))
ee.position = poss(3)
ee.orientation = rots(0)
print("empty colls", tree(e), tree(ee))

# 4) sequences of operations and setter assignments, reset_path, copy with kwargs
outer, inner, leaf = build(1, 1, 1)
outer.move([(1, 0, 0), (2, 0, 0), (3, 0, 0)])
outer.position = [(0, 0, 1), (0, 0, 2)]
outer.rotate_from_angax([10, 20, 30], "x", anchor=0, start=1)
inner.orientation = rots(2)
outer.orientation = rots(0)
leaf.position = (5, 5, 5)
outer.move((0, 1, 0), start=-1)
inner.position = poss(5)
print("sequence", tree(outer))
cp = outer.copy(position=(9, 9, 9), orientation=rots(2))
print("copy", tree(cp), tree(outer))
outer.reset_path()
print("reset", tree(outer))
inner.reset_path()
print("reset inner", tree(outer))

# 5) error paths: rejected assignments change nothing (parent and children)
outer, inner, leaf = build(2, 3, 2)
ref = tree(outer)
for tag, bad in {
    "str": "abc", "scalar": 3, "None": None, "2-vector": (1, 2), "ragged": [(1, 2, 3), (1, 2)],
    "3d": np.zeros((2, 2, 3)), "text entries": ("a", "b", "c"), "empty": [], "dict": {1: 2},
}.items():
    show(f"coll pos setter {tag}", lambda bad=bad: setattr(outer, "position", bad))
    show(f"inner pos setter {tag}", lambda bad=bad: setattr(inner, "position", bad))
    show(f"leaf pos setter {tag}", lambda bad=bad: setattr(leaf, "position", bad))
    print("    unchanged", tree(outer) == ref)
for tag, bad in {"tuple": (0, 0, 0, 1), "str": "x", "array": np.eye(3), "number": 1, "list": [rots(0)]}.items():
    show(f"coll ori setter {tag}", lambda bad=bad: setattr(outer, "orientation", bad))
    show(f"inner ori setter {tag}", lambda bad=bad: setattr(inner, "orientation", bad))
    show(f"leaf ori setter {tag}", lambda bad=bad: setattr(leaf, "orientation", bad))
    print("    unchanged", tree(outer) == ref)
show("pos (0,3)", lambda: setattr(outer, "position", np.zeros((0, 3))))
print("    after (0,3)", [np.shape(o._position) for o in (outer, inner, leaf)])
