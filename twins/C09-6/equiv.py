import os, sys; sys.path.insert(0, os.getcwd())
# Equivalence digest for twins2/1 (path_padding inlined into apply_move and
# apply_rotation, helper deleted).
import warnings

import numpy as np
from scipy.spatial.transform import Rotation as R

import magpylib as magpy
from magpylib._src.obj_classes.class_BaseTransform import apply_move
from magpylib._src.obj_classes.class_BaseTransform import apply_rotation

warnings.simplefilter("ignore")


def dig(a):
    return (np.round(np.asarray(a, dtype=float), 9) + 0.0).tolist()


def state(obj):
    return dig(obj._position), dig(obj._orientation.as_quat())


def show(tag, fn):
    try:
        print(tag, "->", fn())
    except BaseException as err:  # pylint: disable=broad-except
        print(tag, "-> EXC", type(err).__name__, str(err)[:150])


def sensor(n):
    s = magpy.Sensor(position=[(1 + i, 2 * i, -i) for i in range(n)])
    s.rotate_from_angax([7 * (i + 1) for i in range(n)], (1, 1, 0), start=0)
    return s


STARTS = ("auto", -7, -5, -2, -1, 0, 1, 2, 4, np.int64(-3), np.int32(3), True)
DISPS = {
    "scalar": (1, 2, 3),
    "one": [(1, 2, 3)],
    "two": [(1, 0, 0), (0, 2, 0)],
    "four": [(1, 0, 0), (0, 2, 0), (0, 0, 3), (4, 4, 4)],
}
ANCHORS = {
    "none": None,
    "zero": 0,
    "single": (1, -1, 2),
    "two": [(1, 0, 0), (0, 2, 0)],
    "three": [(1, 0, 0), (0, 2, 0), (0, 0, 3)],
}
ROTS = {
    "scalar": R.from_rotvec((0.1, -0.2, 0.3)),
    "one": R.from_rotvec([(0.1, -0.2, 0.3)]),
    "two": R.from_euler("xy", [(10, 20), (30, 40)], degrees=True),
    "three": R.from_rotvec([(0, 0, 0.25), (0, 0.5, 0), (0.75, 0, 0.1)]),
    "None": None,
}

# 1) move: displacement x start x path length, aliasing of _position / _orientation
for n in (1, 2, 3):
    for dk, disp in DISPS.items():
        for start in STARTS:
            s = sensor(n)
            pos0, ori0 = s._position, s._orientation

            def run(s=s, disp=disp, start=start):
                return s.move(disp, start=start) is s

            show(f"move n={n} d={dk} st={start!r}", run)
            print(
                "   ", state(s), "same_pos", s._position is pos0,
                "same_ori", s._orientation is ori0, dig(pos0),
            )
            # module function directly
            s = sensor(n)
            show(f"apply_move n={n} d={dk} st={start!r}", lambda: apply_move(s, disp, start) is s)
            print("   ", state(s))

# 2) rotate: rotation x anchor x start x path length
for n in (1, 3):
    for rk, rot in ROTS.items():
        for ak, anc in ANCHORS.items():
            for start in STARTS:
                s = sensor(n)
                before, ori0 = s._position, s._orientation

                def run(s=s, rot=rot, anc=anc, start=start):
                    return s.rotate(rot, anchor=anc, start=start) is s

                show(f"rot n={n} r={rk} a={ak} st={start!r}", run)
                print(
                    "   ", state(s), "same_array", s._position is before,
                    "same_ori", s._orientation is ori0, dig(before),
                )

# 3) direct apply_rotation with explicit parent_path (anchor None -> compound anchor)
for n in (1, 2, 4):
    for rk, rot in ROTS.items():
        for plen in (1, 2, 5):
            for start in ("auto", -6, -1, 0, 2, 5):
                s = sensor(n)
                pp = np.array([(0.5 * k, 1.0, -k) for k in range(plen)], dtype=float)
                pp0 = pp.copy()
                show(
                    f"apply n={n} r={rk} plen={plen} st={start}",
                    lambda s=s, rot=rot, pp=pp, start=start: apply_rotation(
                        s, rot, anchor=None, start=start, parent_path=pp
                    )
                    is s,
                )
                print("   ", state(s), "parent untouched", np.array_equal(pp, pp0))

# 4) Collections, nested, with paths of different length; move and rotate
for start in ("auto", -4, -1, 0, 1, 3):
    for rk, rot in ROTS.items():
        for ak in ("none", "zero", "single", "two"):
            inner = magpy.Collection(sensor(2), position=[(0, 0, 1), (0, 1, 1), (1, 1, 1)])
            outer = magpy.Collection(inner, sensor(1), position=(3, 2, 1))
            show(
                f"coll r={rk} a={ak} st={start}",
                lambda: outer.rotate(rot, anchor=ANCHORS[ak], start=start) is outer,
            )
            print(
                "   ", state(outer), state(inner),
                [state(c) for c in inner.children], state(outer.children[1]),
            )
    for dk, disp in DISPS.items():
        inner = magpy.Collection(sensor(2), position=[(0, 0, 1), (0, 1, 1), (1, 1, 1)])
        outer = magpy.Collection(inner, sensor(1), position=(3, 2, 1))
        show(f"coll move d={dk} st={start}", lambda: outer.move(disp, start=start) is outer)
        print(
            "   ", state(outer), state(inner),
            [state(c) for c in inner.children], state(outer.children[1]),
        )

# 5) sequences of operations
s = magpy.Sensor()
s.move([(1, 0, 0), (2, 0, 0)]).rotate_from_angax([10, 20, 30], "z", anchor=0, start=1)
s.move((0, 0, 1), start=-2).rotate_from_rotvec((0, 0.2, 0), degrees=False, start=-9)
s.move([(1, 1, 1)] * 3, start=-8).rotate(R.from_quat([(0, 0, 1, 1)] * 2), anchor=[(1, 0, 0)] * 4)
print("sequence", state(s))

# 6) error paths: nothing may change
s = sensor(2)
ref = state(s)
for tag, kw in {
    "bad rot": dict(rotation=(1, 2, 3)),
    "bad anchor str": dict(rotation=ROTS["scalar"], anchor="x"),
    "bad anchor shape": dict(rotation=ROTS["scalar"], anchor=(1, 2)),
    "bad anchor 1": dict(rotation=ROTS["scalar"], anchor=1),
    "bad start": dict(rotation=ROTS["scalar"], start=1.5),
    "bad start str": dict(rotation=ROTS["scalar"], start="end"),
    "bad start None": dict(rotation=ROTS["two"], start=None),
}.items():
    show(tag, lambda kw=kw: s.rotate(**kw) is s)
    print("    unchanged", state(s) == ref)
for tag, kw in {
    "bad disp str": dict(displacement="abc"),
    "bad disp shape": dict(displacement=(1, 2)),
    "bad disp 3d": dict(displacement=np.zeros((2, 2, 3))),
    "bad disp None": dict(displacement=None),
    "empty disp": dict(displacement=np.zeros((0, 3))),
    "bad start": dict(displacement=(1, 2, 3), start=1.5),
    "bad start str": dict(displacement=[(1, 2, 3)], start="end"),
    "bad both": dict(displacement=(1, 2), start="end"),
}.items():
    show(tag, lambda kw=kw: s.move(**kw) is s)
    print("    unchanged", state(s) == ref, state(s))
show(
    "bad parent_path",
    lambda: apply_rotation(s, ROTS["two"], parent_path=np.zeros((2, 2)), start=0),
)
print("    state", state(s))
show("empty anchor", lambda: s.rotate(ROTS["two"], anchor=np.zeros((0, 3)), start=0))
print("    state", state(s))
show("0-d displacement direct", lambda: apply_move(s, np.float64(3.0)))
print("    state", state(s))


class NoPath:  # target without path attributes
    pass


show("no path move", lambda: apply_move(NoPath(), (1, 2, 3)))
show("no path rot", lambda: apply_rotation(NoPath(), ROTS["scalar"]))
show("module has path_padding_param", lambda: hasattr(
    sys.modules["magpylib._src.obj_classes.class_BaseTransform"], "path_padding_param"))
