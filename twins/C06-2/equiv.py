import os, sys; sys.path.insert(0, os.getcwd())
import hashlib
import warnings

import numpy as np

import magpylib as magpy
from magpylib._src.fields.field_wrap_BH import get_src_dict
from magpylib._src.fields.field_wrap_BH import tile_group_property

warnings.simplefilter("ignore")


def dig(name, arr):
    arr = np.ascontiguousarray(np.asarray(arr, dtype=float))
    h = hashlib.sha256(arr.tobytes()).hexdigest()[:16]
    print(name, arr.shape, h, np.round(arr.ravel()[:4], 12).tolist())


def tetra_mesh(scale, pol):
    v = np.array([(0, 0, 0), (1, 0, 0), (0, 1, 0), (0, 0, 1)], dtype=float) * scale
    f = [(0, 2, 1), (0, 1, 3), (0, 3, 2), (1, 2, 3)]
    return magpy.magnet.TriangularMesh(
        polarization=pol, vertices=v, faces=f, reorient_faces=True
    )


def build():
    cub1 = magpy.magnet.Cuboid(polarization=(0.1, 0.2, 0.3), dimension=(1, 2, 3))
    cub1.move([(0.1 * i, 0, 0) for i in range(1, 4)])
    cub1.rotate_from_angax([10, 20, 30, 40], "z", start=0)
    cub2 = magpy.magnet.Cuboid(
        polarization=(0.3, 0, 0.1), dimension=(2, 1, 1), position=(3, 0, 0)
    )
    cyl = magpy.magnet.Cylinder(
        polarization=(0.3, 0.2, 0.1), dimension=(1, 2), position=(0, 3, 0)
    )
    cyl.rotate_from_angax(33, (1, 2, 3))
    circ = magpy.current.Circle(current=2.5, diameter=1.5, position=(0, 0, -2))
    circ.move([(0, 0, 0.1), (0, 0, 0.2)])
    pl1 = magpy.current.Polyline(current=1.5, vertices=[(0, 0, 0), (1, 1, 1), (2, 0, 1)])
    pl2 = magpy.current.Polyline(
        current=-0.5,
        vertices=[(0, 0, 0), (1, 0, 0), (1, 1, 0), (0, 1, 0), (0, 0, 0)],
        position=(0, 0, 2),
    )
    pl3 = magpy.current.Polyline(current=3, vertices=[(0, 0, 0), (0, 0, 2), (1, 0, 2)])
    tm1 = tetra_mesh(1.0, (0, 0, 1))
    cube = magpy.magnet.Cuboid(polarization=(1, 0, 0), dimension=(1, 1, 1))
    tm2 = magpy.magnet.TriangularMesh.from_ConvexHull(
        polarization=(0.2, 0.1, 0),
        points=np.array(
            [(x, y, z) for x in (-0.5, 0.5) for y in (-0.5, 0.5) for z in (-0.5, 0.5)]
        ),
        position=(-2, -2, 0),
    )
    dip = magpy.misc.Dipole(moment=(1, 2, 3), position=(1, 1, -3))
    tri = magpy.misc.Triangle(
        polarization=(0, 0.1, 0.2), vertices=[(0, 0, 0), (1, 0, 0), (0, 1, 0)]
    )
    cs = magpy.magnet.CylinderSegment(
        polarization=(0.1, 0.2, 0.3), dimension=(0.5, 1.5, 1, 10, 120), position=(0, -3, 0)
    )
    tet = magpy.magnet.Tetrahedron(
        polarization=(0.3, 0.3, 0.3),
        vertices=[(0, 0, 0), (1, 0, 0), (0, 1, 0), (0, 0, 1)],
        position=(4, 4, 4),
    )
    sph = magpy.magnet.Sphere(polarization=(0, 0, 1), diameter=1, position=(-3, 0, 1))
    return [cub1, pl1, tm1, cyl, pl2, cub2, circ, tm2, dip, tri, pl3, cs, tet, sph, cube]


srcs = build()
s1 = magpy.Sensor(
    pixel=[[(0, 0, 0), (0.1, 0.2, 0.3)], [(0.3, 0.3, 0.3), (0.4, 0, 0)]],
    position=(2, 2, 2),
)
s1.rotate_from_angax([15, 30], "y")
s2 = magpy.Sensor(
    pixel=[[(0, 0, 0.1), (0.1, 0.2, 0)], [(0, 0.3, 0.3), (0.4, 0, 0.2)]],
    position=(-2, 1, 1),
    handedness="left",
)

# joint evaluation: interleaved classes, several of one class, ragged vertices/meshes
for field in "BHJM":
    out = magpy.getB(srcs, [s1, s2], squeeze=False) if field == "B" else getattr(
        magpy, "get" + field
    )(srcs, [s1, s2], squeeze=False)
    dig("joint_" + field, out)

B = magpy.getB(srcs, [s1, s2], squeeze=False)
# element by element (each source alone must agree exactly with the joint call)
ok = []
for l, src in enumerate(srcs):
    b = magpy.getB(src, [s1, s2], squeeze=False)
    ok.append(bool(np.all(b[0] == B[l, : b.shape[1]])))
print("elementwise exact", ok)

# permutation, duplicates, reversed
perm = [7, 2, 10, 1, 4, 0, 5, 14, 2, 7, 13, 12, 11, 9, 8, 6, 3]
Bp = magpy.getB([srcs[i] for i in perm], [s2, s1], squeeze=False)
dig("perm", Bp)
print("perm consistent", bool(np.all(Bp[:, :, ::-1] == B[perm])))

# smallest cases
dig("one", magpy.getB(srcs[1], (1, 2, 3), squeeze=False))
dig("one_sq", magpy.getB(srcs[1], (1, 2, 3)))
dig("two_same_class", magpy.getH([srcs[1], srcs[4]], (1, 2, 3), squeeze=False))
dig("two_meshes", magpy.getB([srcs[2], srcs[7]], [(0.1, 0.1, 0.1), (3, 3, 3)], squeeze=False))
dig("collection", magpy.getB([magpy.Collection(srcs[0], srcs[1]), srcs[2]], s1, sumup=True))

# the helpers directly
group = [srcs[1], srcs[4], srcs[10]]
v = tile_group_property(group, 3, "vertices")
print("ragged", v.dtype, v.shape, [x.shape for x in v])
c = tile_group_property(group, 3, "current")
print("scalar", c.dtype, c.shape, c.tolist())
v = tile_group_property([srcs[1], srcs[10]], 2, "vertices")
print("uniform", v.dtype, v.shape)
dig("uniform_vals", v)
poso = np.arange(24.0).reshape(8, 3)  # path length 4 x 2 pixel
d = get_src_dict([srcs[0], srcs[0]], 2, 8, poso)
print("keys", list(d.keys()))
for key, val in d.items():
    dig("srcdict_" + key, val.as_quat() if key == "orientation" else val)
try:
    tile_group_property([], 2, "vertices")
except Exception as err:  # pylint: disable=broad-except
    print("error", type(err).__name__)

# error paths
custom = magpy.misc.CustomSource()
try:
    magpy.getB([srcs[0], custom, srcs[1]], s1)
except Exception as err:  # pylint: disable=broad-except
    print("error", type(err).__name__, str(err)[:60])
print("path restored", srcs[1].position.shape, srcs[0].position.shape)
custom2 = magpy.misc.CustomSource(
    field_func=lambda field, observers: None if field == "H" else observers * 1.0
)
dig("custom_B", magpy.getB([custom2, srcs[0], custom2], s2, squeeze=False))
try:
    magpy.getH([srcs[0], custom2], s1)
except Exception as err:  # pylint: disable=broad-except
    print("error", type(err).__name__, str(err)[:50])
try:
    magpy.getB([magpy.magnet.Cuboid(dimension=(1, 1, 1)), srcs[0]], s1)
except Exception as err:  # pylint: disable=broad-except
    print("error", type(err).__name__, str(err)[:34])
