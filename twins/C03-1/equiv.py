import os, sys; sys.path.insert(0, os.getcwd())
import hashlib
import re
import warnings

import numpy as np
from scipy.spatial.transform import Rotation as R

import magpylib as magpy
from magpylib._src.fields.field_wrap_BH import getBH_level1
from magpylib._src.fields.field_BH_cuboid import BHJM_magnet_cuboid
from magpylib._src.fields.field_BH_tetrahedron import BHJM_magnet_tetrahedron

warnings.simplefilter("ignore")


def dig(name, val):
    """print a deterministic digest of an array or exception"""
    if isinstance(val, BaseException):
        msg = re.sub(r"id=\d+|0x[0-9a-f]+", "#", str(val))
        print(f"{name}: EXC {type(val).__name__}: {msg[:110]!r}")
    elif val is None:
        print(f"{name}: None")
    else:
        a = np.asarray(val, dtype=float)
        h = hashlib.sha256(np.ascontiguousarray(a).tobytes()).hexdigest()[:16]
        print(f"{name}: shape={a.shape} sha={h} sum={np.sum(a):.12e}")


def run(name, func):
    try:
        dig(name, func())
    except Exception as err:  # pylint: disable=broad-except
        dig(name, err)


rot = R.from_rotvec([[0.1, 0.2, 0.3], [0.5, -0.4, 0.3], [1.0, 2.0, -0.5]])
obs = np.array([[0.1, 0.2, 0.3], [1.0, -1.0, 0.5], [0.0, 0.0, 2.0]])
pos = np.array([[0.0, 0.0, 0.0], [0.3, 0.2, 0.1], [-1.0, 0.5, 0.2]])

# direct level1 calls: func without in_out parameter (popped) and with it (kept)
for fld in "BHJM":
    run(
        f"lvl1 cuboid {fld}",
        lambda fld=fld: getBH_level1(
            field_func=BHJM_magnet_cuboid,
            field=fld,
            position=pos,
            orientation=rot,
            observers=obs,
            dimension=np.array([[1.0, 2.0, 3.0]] * 3),
            polarization=np.array([[0.1, 0.2, 0.3]] * 3),
            in_out="auto",
        ),
    )
verts = np.array([[[0, 0, 0], [1, 0, 0], [0, 1, 0], [0, 0, 1.0]]] * 3)
for io in ("auto", "inside", "outside"):
    run(
        f"lvl1 tetra {io}",
        lambda io=io: getBH_level1(
            field_func=BHJM_magnet_tetrahedron,
            field="B",
            position=pos,
            orientation=rot,
            observers=obs,
            vertices=verts,
            polarization=np.array([[0.1, 0.2, 0.3]] * 3),
            in_out=io,
        ),
    )

# field_func returning None / without in_out / without kwargs
run(
    "lvl1 none-func",
    lambda: getBH_level1(
        field_func=lambda field, observers: None,
        field="B",
        position=pos,
        orientation=rot,
        observers=obs,
        in_out="auto",
    ),
)
run(
    "lvl1 identity-func",
    lambda: getBH_level1(
        field_func=lambda field, observers, in_out: observers * 2.0,
        field="B",
        position=pos,
        orientation=rot,
        observers=obs,
        in_out="inside",
    ),
)
run(
    "lvl1 identity-func no in_out given",
    lambda: getBH_level1(
        field_func=lambda field, observers: observers * 2.0,
        field="B",
        position=pos,
        orientation=rot,
        observers=obs,
    ),
)
# error paths: shape mismatch, unexpected kwarg, non-callable
run(
    "lvl1 bad shapes",
    lambda: getBH_level1(
        field_func=lambda field, observers: observers,
        field="B",
        position=pos[:2],
        orientation=rot,
        observers=obs,
    ),
)
run(
    "lvl1 unexpected kwarg",
    lambda: getBH_level1(
        field_func=lambda field, observers: observers,
        field="B",
        position=pos,
        orientation=rot,
        observers=obs,
        foo=1,
    ),
)
run(
    "lvl1 non-callable",
    lambda: getBH_level1(
        field_func=None, field="B", position=pos, orientation=rot, observers=obs
    ),
)

# through the object interface
cub = magpy.magnet.Cuboid(polarization=(0.1, 0.2, 0.3), dimension=(1, 2, 3))
cub.rotate_from_angax([10, 20, 30], "y", anchor=(0.1, 0, 0)).move((0.1, 0.1, 0.1))
tet = magpy.magnet.Tetrahedron(
    polarization=(0.3, 0.2, 0.1), vertices=verts[0], position=(1, 1, 1)
)
tet.rotate_from_rotvec((30, 40, 50))
circ = magpy.current.Circle(current=3, diameter=1.5, position=[(0, 0, 1), (0, 1, 1)])
sens = magpy.Sensor(pixel=[(0, 0, 0), (0.1, 0.2, 0.3)], position=(2, 2, 2))
sens.rotate_from_angax(33, (1, 2, 3))
for fld in ("getB", "getH", "getJ", "getM"):
    run(f"obj {fld}", lambda fld=fld: getattr(magpy, fld)([cub, tet, circ], sens))
run("obj in_out", lambda: magpy.getB([cub, tet], obs, in_out="outside"))

# custom source without field_func / field_func returning None
cs = magpy.misc.CustomSource()
run("custom no func", lambda: magpy.getB(cs, obs))
cs2 = magpy.misc.CustomSource(field_func=lambda field, observers: None)
run("custom none func", lambda: magpy.getB(cs2, obs))
cs3 = magpy.misc.CustomSource(
    field_func=lambda field, observers: observers * (1 if field == "B" else 2),
    position=(1, 2, 3),
)
cs3.rotate_from_angax(77, (1, 1, 0))
run("custom B", lambda: magpy.getB(cs3, obs))
run("custom H", lambda: magpy.getH(cs3, sens))

# functional interface
run(
    "dict cuboid",
    lambda: magpy.getB(
        "Cuboid",
        obs,
        position=pos,
        orientation=rot,
        dimension=(1, 2, 3),
        polarization=(0.1, 0.2, 0.3),
    ),
)
run(
    "dict tetra inside",
    lambda: magpy.getH(
        "Tetrahedron",
        obs,
        orientation=rot,
        vertices=verts[0],
        polarization=(0.1, 0.2, 0.3),
        in_out="inside",
    ),
)
run("dict bad", lambda: magpy.getB("Cuboid", obs, dimension=(1, 2, 3), bad=3))
