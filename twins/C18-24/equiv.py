import os, sys; sys.path.insert(0, os.getcwd())

# Exercises the `children` setter of a collection (what copy(children=...) goes through)
# and the four flattened views children_all / sources_all / sensors_all / collections_all
# (used by the self-reference check of add(), i.e. by copy(parent=...) and copy(children=...)),
# on originals and copies, including rejected inputs and what they leave behind.
import re
import warnings

import numpy as np

import magpylib as magpy

warnings.simplefilter("ignore")


def clean(txt):
    return re.sub(r"id=\d+", "id=#", str(txt)).replace("\n", " / ")


def lab(objs):
    return [o.style.label for o in objs]


def links_ok(c):
    ok = True
    for ch in c.children:
        ok = ok and ch._parent is c
        if isinstance(ch, magpy.Collection):
            ok = ok and links_ok(ch)
    return ok


def tree(c):
    return {
        "label": c.style.label,
        "parent": None if c._parent is None else c._parent.style.label,
        "children": lab(c.children),
        "sources": lab(c.sources),
        "sensors": lab(c.sensors),
        "collections": lab(c.collections),
        "children_all": lab(c.children_all),
        "sources_all": lab(c.sources_all),
        "sensors_all": lab(c.sensors_all),
        "collections_all": lab(c.collections_all),
        "links": links_ok(c),
    }


def attempt(label, func):
    try:
        res = func()
        print(label, "->", res)
    except BaseException as err:  # noqa
        print(label, "-> raised", type(err).__name__, "|", clean(err)[:200])


def build():
    s1 = magpy.magnet.Cuboid(polarization=(0, 0, 1), dimension=(1, 2, 3), style_label="s1")
    s2 = magpy.current.Circle(current=1, diameter=2, style_label="s2", position=(0, 0, 1))
    x1 = magpy.Sensor(style_label="x1", position=(1, 1, 1))
    x2 = magpy.Sensor(style_label="x2", position=(-1, 1, 1))
    deep = magpy.Collection(x2, style_label="deep")
    mid = magpy.Collection(s2, deep, style_label="mid")
    top = magpy.Collection(s1, x1, mid, style_label="top")
    free = magpy.Sensor(style_label="free")
    other = magpy.Collection(magpy.misc.Dipole(moment=(1, 1, 1), style_label="d1"), style_label="other")
    return top, mid, deep, s1, s2, x1, x2, free, other


top, mid, deep, s1, s2, x1, x2, free, other = build()
for c in (top, mid, deep, other, magpy.Collection(style_label="empty")):
    print("views", tree(c))
    views = (c.children_all, c.sources_all, c.sensors_all, c.collections_all)
    print("   fresh lists", all(v is not c._children for v in views), [type(v).__name__ for v in views])

# children setter
top, mid, deep, s1, s2, x1, x2, free, other = build()
old_list = top.children
top.children = [free, other]
print("set children", tree(top), "| old list kept", lab(old_list), old_list is not top.children)
print("   released", [o._parent for o in (s1, x1, mid)], tree(mid))
print("   other now child", tree(other))
top.children = []
print("set empty", tree(top), [o._parent for o in (free, other)])
top, mid, deep, s1, s2, x1, x2, free, other = build()
top.children = top.children
print("set to itself", tree(top))
top.children = (x1, s1)
print("set reordered tuple", tree(top), mid._parent)
top.children = [x2]
print("steal from deep", tree(top), tree(deep), tree(mid))

# rejected inputs: the old children are released before the new ones are checked
for bad in [[1], ["s1"], 5, None]:
    top, mid, deep, s1, s2, x1, x2, free, other = build()
    attempt(f"set bad {bad!r}", lambda: setattr(top, "children", bad))
    print("   after", tree(top), [o._parent for o in (s1, x1, mid)])
top, mid, deep, s1, s2, x1, x2, free, other = build()
attempt("set self", lambda: setattr(top, "children", [top]))
print("   after", tree(top))
top, mid, deep, s1, s2, x1, x2, free, other = build()
attempt("set ancestor below", lambda: setattr(deep, "children", [free, top]))
print("   after", tree(top), tree(deep), free._parent)
top, mid, deep, s1, s2, x1, x2, free, other = build()
attempt("set twice the same", lambda: setattr(top, "children", [free, free]))
print("   after", tree(top), free._parent)

# copies
top, mid, deep, s1, s2, x1, x2, free, other = build()
before = tree(top), tree(mid), tree(deep), tree(other)
cp = top.copy()
print("copy", tree(cp), tree(cp[2]), tree(cp[2][1]))
print("   nothing shared", not any(a is b for a in cp.children_all for b in top.children_all))
cp2 = top.copy(children=[free])
print("copy children=", tree(cp2), free._parent is cp2, (tree(top), tree(mid), tree(deep), tree(other)) == before)
cp3 = mid.copy(children=[], parent=other)
print("copy children=[] parent=", tree(cp3), tree(other), tree(top) == before[0])
attempt("copy children=[top] (top holds the original)", lambda: tree(mid.copy(children=[top])))
print("   after", tree(top) == before[0], clean(top._parent))
attempt("copy parent below itself", lambda: tree(top.copy(parent=deep)))
attempt("copy bad children", lambda: top.copy(children=[3]))
print("   after", tree(top) == before[0])
cp.children = [cp[2][1]]
cp.add(magpy.Sensor(style_label="late"))
print("mutated copy", tree(cp), "| original", tree(top) == before[0], tree(mid) == before[1], tree(deep) == before[2])
print("field", np.round(top.getB(), 9).tolist() == np.round(top.copy().getB(), 9).tolist())
