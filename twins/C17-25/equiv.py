import os, sys; sys.path.insert(0, os.getcwd())
import re
import warnings

import numpy as np
from scipy.spatial.transform import Rotation as R

import magpylib as magpy

warnings.simplefilter("ignore")


def run(f):
    try:
        out = f"RET {f()}"
    except Exception as e:  # pylint: disable=broad-except
        out = f"EXC {type(e).__name__}: {e}"
    return re.sub(r"0x[0-9a-f]+|id=\d+", "ADDR", out)


def state(obj):
    return (
        f"P={obj._position.dtype}{obj._position.shape}{np.round(obj._position, 10).tolist()} "
        f"Q={np.round(obj._orientation.as_quat(), 10).tolist()}"
    )


def tree(obj, depth=0):
    out = ["  " * depth + type(obj).__name__ + " " + state(obj)]
    for ch in getattr(obj, "children", []):
        out.extend(tree(ch, depth + 1))
    return out


def build(kind):
    s1 = magpy.Sensor(position=(1, 0, 0), pixel=[(0, 0, 0), (0, 0, 1)])
    c1 = magpy.magnet.Cuboid(dimension=(1, 1, 1), polarization=(0, 0, 1), position=[(0, 1, 0), (0, 2, 0)],
                             orientation=R.from_rotvec([(0, 0, 0.1), (0, 0, 0.2)]))
    d1 = magpy.misc.Dipole(moment=(1, 2, 3), position=[(i, i, -i) for i in range(4)])
    if kind == "bare":
        return magpy.Sensor(position=[(1, 2, 3), (2, 3, 4)], orientation=R.from_rotvec([(0.1, 0, 0), (0, 0.2, 0)]))
    if kind == "empty":
        return magpy.Collection(position=(1, 1, 1))
    if kind == "flat":
        return magpy.Collection(s1, c1, position=(1, 1, 1), orientation=R.from_rotvec((0, 0, 0.5)))
    if kind == "flat_path":
        return magpy.Collection(s1, c1, d1, position=[(0, 0, 0), (1, 0, 0), (2, 0, 0)],
                                orientation=R.from_rotvec([(0, 0, 0.1 * i) for i in range(3)]))
    if kind == "nested":
        inner = magpy.Collection(c1, d1, position=(0, 0, 1), orientation=R.from_rotvec((0.2, 0, 0)))
        return magpy.Collection(s1, inner, position=[(1, 1, 1), (2, 2, 2)])
    raise ValueError(kind)


positions = [
    (2, 2, 2), [(0, 0, 0)], [(0, 0, 0), (1, 0, 0)], [(0, 0, 0), (1, 0, 0), (2, 0, 0)], [(i, 2 * i, -i) for i in range(6)],
    np.array([[1.0, 2.0, 3.0]] * 4), None, "bad", (1, 2), 5, [(1, 2, 3), (1, 2)], np.zeros((0, 3)), (1, "a", 3), [[(1, 2, 3)]],
]
orientations = [
    None, R.from_rotvec((0, 0, 0.3)), R.from_rotvec([(0, 0, 0.3)]), R.from_rotvec([(0, 0, 0.1), (0, 0.2, 0)]),
    R.from_rotvec([(0.1 * i, 0, 0.2) for i in range(5)]), R.from_quat((0, 0, 0, -1)), R.from_euler("xyz", (10, 20, 30), degrees=True),
    "bad", (0, 0, 0, 1), 0, [R.from_rotvec((0, 0, 0.3))], np.array([0, 0, 0, 1.0]),
]
kinds = ["bare", "empty", "flat", "flat_path", "nested"]

# 1) position setter: children follow, path lengths adjusted, everything untouched after a rejection
for kind in kinds:
    for p in positions:
        obj = build(kind)
        before = tree(obj)
        res = run(lambda: setattr(obj, "position", p))
        after = tree(obj)
        print("POS", kind, repr(p)[:50].replace("\n", " "), "->", res, "| UNCHANGED" if after == before else "")
        if after != before:
            print("\n".join(after))
        print("   read:", run(lambda: np.round(obj.position, 10).tolist()))

# 2) orientation setter
for kind in kinds:
    for o in orientations:
        obj = build(kind)
        before = tree(obj)
        res = run(lambda: setattr(obj, "orientation", o))
        after = tree(obj)
        lab = f"ROT{np.round(o.as_quat(), 6).tolist()}" if isinstance(o, R) else repr(o)[:50]
        print("ORI", kind, lab, "->", res, "| UNCHANGED" if after == before else "")
        if after != before:
            print("\n".join(after))
        print("   read:", run(lambda: np.round(obj.orientation.as_quat(), 10).tolist()))

# 3) sequences of assignments on the same object (old path of one step is the start of the next)
obj = build("nested")
steps = [("position", (5, 5, 5)), ("orientation", R.from_rotvec([(0, 0, 0.1), (0, 0, 0.2), (0, 0, 0.3)])),
         ("position", [(0, 0, 0), (1, 1, 1)]), ("orientation", None), ("position", "bad"), ("orientation", "bad"),
         ("orientation", R.from_rotvec((0.3, 0.2, 0.1))), ("position", [(i, 0, 0) for i in range(5)])]
for attr, val in steps:
    print("STEP", attr, run(lambda: setattr(obj, attr, val)))
    print("\n".join(tree(obj)))
print("reset_path", run(lambda: "\n".join(tree(obj.reset_path()))))
obj.children[1].position = (7, 7, 7)  # setter on an inner collection moves only its own children
print("\n".join(tree(obj)))

# 4) constructor == setter, copy with position/orientation, fields afterwards
for kind in kinds[2:]:
    a = build(kind)
    a.position = (3, 2, 1)
    a.orientation = R.from_rotvec((0.1, 0.2, 0.3))
    cp = a.copy(position=(0, 0, 1), orientation=R.from_rotvec((0, 0, 1.0)))
    print("COPY", kind)
    print("\n".join(tree(cp)))
    print("orig")
    print("\n".join(tree(a)))
    srcs = [c for c in a.sources_all]
    print("getB", np.round(magpy.getB(srcs, (0.3, 0.2, 0.1)), 10).tolist())
    print("getB coll", run(lambda: np.round(a.getB(), 10).tolist()))
    print("getB coll obs", run(lambda: np.round(a.getB((0.3, 0.2, 0.1)), 10).tolist()))

# 5) the setters do not alias / modify the caller's data
arr = np.array([[1.0, 2.0, 3.0], [4.0, 5.0, 6.0]])
col = build("flat")
col.position = arr
print("alias", np.shares_memory(col._position, arr), arr.tolist())
rot = R.from_rotvec([(0, 0, 0.1), (0, 0, 0.2)])
q0 = rot.as_quat().copy()
col.orientation = rot
print("rot untouched", np.array_equal(q0, rot.as_quat()), len(col._orientation), col._position.shape)

# 6) an object with a non-list `children` attribute, and the public description
s = magpy.Sensor()
s.children = ()
s.position = (1, 2, 3)
s.orientation = R.from_rotvec((0, 0, 0.2))
print("tuple children", state(s))
print(re.sub(r"id=\d+", "ID", "\n".join(build("flat").describe(return_string=True).splitlines()[:12])))
