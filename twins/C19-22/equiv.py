import os, sys; sys.path.insert(0, os.getcwd())
# --- digest helpers (arrays are compared bitwise: dtype, shape, bytes) ---
import hashlib
import re
import warnings

import numpy as np
from scipy.spatial.transform import Rotation as R

warnings.simplefilter("ignore")


def canon(o):
    """deterministic text of nested structures; arrays by dtype/shape/bytes"""
    if isinstance(o, dict):
        return "{" + ",".join(f"{canon(k)}:{canon(v)}" for k, v in o.items()) + "}"
    if isinstance(o, (list, tuple)):
        return type(o).__name__ + "(" + ",".join(canon(v) for v in o) + ")"
    if isinstance(o, np.ndarray):
        if o.dtype.kind == "O":
            return f"ndO{o.shape}[" + ",".join(canon(v) for v in o.ravel().tolist()) + "]"
        data = np.ascontiguousarray(o)
        if data.dtype.kind == "f":
            data = data + 0.0  # -0.0 stays, nothing else changes
        return f"nd<{o.dtype}{o.shape}{hashlib.sha256(data.tobytes()).hexdigest()[:12]}>"
    if isinstance(o, (bool, np.bool_)):
        return f"b{bool(o)}"
    if isinstance(o, (float, np.floating)):
        return f"f{type(o).__name__}{float(o).hex()}"
    if isinstance(o, (int, np.integer)):
        return f"i{type(o).__name__}{int(o)}"
    if o is None:
        return "None"
    if isinstance(o, str):
        return "s" + repr(re.sub(r"id=\d+|0x[0-9a-f]+", "#", o))
    if isinstance(o, R):
        return "rot" + canon(o.as_quat())
    return re.sub(r"id=\d+|0x[0-9a-f]+", "#", repr(o))


def digest(label, o):
    s = canon(o)
    print(f"{label}: {hashlib.sha256(s.encode()).hexdigest()[:16]} len={len(s)}")
    return s


def attempt(label, func, show=False):
    try:
        res = func()
    except BaseException as err:  # pylint: disable=broad-except
        msg = re.sub(r"id=\d+|0x[0-9a-f]+", "#", str(err))
        print(f"{label}: EXC {type(err).__name__}: {msg}")
        return None
    s = digest(label, res)
    if show:
        print("   ", s[:300])
    return res

# --- end of helpers ---
import numpy as np
from scipy.spatial.transform import Rotation as R

import magpylib as magpy
from magpylib._src.display.traces_base import make_CylinderSegment
from magpylib.graphics import model3d

dims = {
    "default": None,
    "quarter": (1.0, 2.0, 1.0, 0.0, 90.0),
    "full": (1.0, 2.0, 1.0, 0.0, 360.0),
    "full shifted": (0.5, 2.5, 3.0, -180.0, 180.0),
    "full int": (1, 2, 1, 0, 360),
    "almost full": (1.0, 2.0, 1.0, 0.0, 359.999),
    "more than full": (1.0, 2.0, 1.0, 0.0, 400.0),
    "two turns": (1.0, 2.0, 1.0, -360.0, 360.0),
    "negative span": (1.0, 2.0, 1.0, 90.0, 0.0),
    "minus full": (1.0, 2.0, 1.0, 360.0, 0.0),
    "tiny span": (1.0, 2.0, 1.0, 10.0, 10.5),
    "zero span": (1.0, 2.0, 1.0, 45.0, 45.0),
    "r1 zero": (0.0, 2.0, 1.0, -30.0, 200.0),
    "flat": (1.0, 2.0, 0.0, 0.0, 270.0),
    "negative h": (1.0, 2.0, -1.0, 0.0, 270.0),
    "ints": (1, 3, 2, 30, 300),
    "ndarray": np.array([0.2, 0.3, 0.7, 12.5, 222.2]),
    "list": [1e-3, 2e-3, 5e-3, 0.0, 123.456],
    "big": (1e6, 2e6, 3e6, 0.0, 90.0),
    "nan h": (1.0, 2.0, float("nan"), 0.0, 90.0),
    "inf r": (1.0, float("inf"), 1.0, 0.0, 90.0),
    "np scalars": tuple(np.float32(v) for v in (1, 2, 1, 0, 360)),
    "array entries": (1.0, 2.0, 1.0, np.array([0.0]), np.array([360.0])),
}
verts = (50, 5, 0, 3, 100, 361, 7.5, -10)
for dlabel, dim in dims.items():
    for vert in verts:
        kw = {"vert": vert}
        if dim is not None:
            kw["dimension"] = dim
        attempt(f"direct {dlabel} vert={vert}", lambda kw=kw: make_CylinderSegment(**kw), show=(dlabel, vert) == ("quarter", 5))

# backends, placement, kwargs
rot = R.from_euler("xyz", [(10, 20, 30)], degrees=True)
for backend in ("generic", "plotly", "matplotlib", "plotly-dict", "pyvista", None):
    for dim in ((1.0, 2.0, 1.0, 0.0, 90.0), (1.0, 2.0, 1.0, 0.0, 360.0)):
        attempt(
            f"backend {backend} {dim[-1]}",
            lambda: make_CylinderSegment(backend, dim, 36, position=(1, 2, 3), orientation=rot,
                                         show=False, scale=2, opacity=0.5, type="x"),
        )
attempt("public api", lambda: model3d.make_CylinderSegment(dimension=(1, 2, 3, 20, 250), vert=24, color="red"))
attempt("positional", lambda: make_CylinderSegment("plotly-dict", (1, 2, 3, 20, 250), 24, (1, 1, 1)))

# error paths
errs = {
    "dimension None": dict(dimension=None),
    "too short": dict(dimension=(1, 2, 3, 4)),
    "too long": dict(dimension=(1, 2, 3, 4, 5, 6)),
    "str angle": dict(dimension=(1, 2, 3, "a", 5)),
    "str height": dict(dimension=(1, 2, "h", 0, 90)),
    "str radius": dict(dimension=("r", 2, 3, 0, 90)),
    "str radius and height": dict(dimension=("r", 2, "h", 0, 90)),
    "None radius": dict(dimension=(None, 2, 3, 0, 90)),
    "None height": dict(dimension=(1, 2, None, 0, 90)),
    "None r2 and height": dict(dimension=(1, None, None, 0, 90)),
    "list height": dict(dimension=(1, 2, [1, 2], 0, 90)),
    "array height 5": dict(dimension=(1, 2, np.arange(5.0), 0, 90), vert=4),
    "array radius 5": dict(dimension=(np.arange(5.0), 2, 1, 0, 90), vert=4),
    "array angles": dict(dimension=(1, 2, 3, np.array([0, 1]), np.array([90, 91]))),
    "vert None": dict(vert=None),
    "vert str": dict(vert="a"),
    "vert nan": dict(vert=float("nan")),
    "vert inf": dict(vert=float("inf")),
    "nan angle": dict(dimension=(1, 2, 3, float("nan"), 90)),
    "bad position": dict(position=(1, 2)),
    "bad orientation": dict(orientation="x"),
    "complex": dict(dimension=(1j, 2, 3, 0, 90)),
}
for label, kw in errs.items():
    attempt(f"error {label}", lambda kw=kw: make_CylinderSegment(**kw))

# full models
segs = [
    magpy.magnet.CylinderSegment(polarization=(0, 0, 1), dimension=d, position=p)
    for d, p in (
        ((1, 2, 1, 0, 90), (0, 0, 0)),
        ((0, 2, 3, -90, 270), (5, 0, 0)),
        ((1, 1.5, 0.5, 100, 170), (0, 5, 0)),
    )
]
segs[0].move([(0, 0, 1), (0, 0, 2)], start=0).rotate_from_angax([0, 45], "x", start=0)
segs[1].style.magnetization.mode = "arrow"
coll = magpy.Collection(segs[2], magpy.magnet.Cylinder(polarization=(1, 0, 0), dimension=(1, 2)))
coll.rotate_from_angax(33, (1, 1, 1))


def snapshot():
    objs = [*segs, coll, *coll.children]
    return canon([(o.position, o.orientation, o.style.as_dict()) for o in objs])


before = snapshot()
for backend in ("plotly", "matplotlib"):
    for frames in (None, [0], 2):
        for units in (None, "mm"):
            kw = {}
            if frames is not None:
                kw["style_path_frames"] = frames
            if units is not None:
                kw["units_length"] = units

            def full():
                if backend == "plotly":
                    fig = magpy.show(*segs, coll, backend="plotly", return_fig=True, **kw)
                    return [
                        {k: (np.array(v) if isinstance(v, (list, tuple, np.ndarray)) and k in "xyzijk" else str(v))
                         for k, v in tr.to_plotly_json().items()}
                        for tr in fig.data
                    ] + [str(fig.layout.scene.xaxis.title.text), str(fig.layout.scene.xaxis.range)]
                import matplotlib

                matplotlib.use("Agg")
                import matplotlib.pyplot as plt

                fig = plt.figure()
                ax = fig.add_subplot(projection="3d")
                magpy.show(*segs, coll, canvas=ax, backend="matplotlib", **kw)
                out = [("coll", np.array(getattr(c, "_vec", None))) for c in ax.collections]
                out += [("line", [np.array(d) for d in l.get_data_3d()]) for l in ax.lines]
                out += [ax.get_xlabel(), ax.get_xlim()]
                plt.close(fig)
                return out

            attempt(f"show {backend} frames={frames} units={units}", full)
print("objects unchanged:", before == snapshot())
