import os, sys; sys.path.insert(0, os.getcwd())

# Exercises the label iteration of BaseGeo.copy (initialised / lazy / absent styles,
# invalid pending style arguments) and the helper add_iteration_suffix.
import re

import magpylib as magpy
from magpylib._src.utility import add_iteration_suffix


def clean(txt):
    return re.sub(r"id=\d+", "id=#", str(txt))


print("== add_iteration_suffix")
names = [
    "col", "col_", "col__", "col1", "col9", "col_02", "col_99", "col_099", "007", "0", "9",
    "a_b", "a1b", "a1b2", "x 3", "x_", "_", "12_", "ab12\n", "ab\n", "\n", "٣", "a٣", "a_٠٩",
    "label with spaces", "99999999999999999999", "a-1", "a.5", "é", "é_", " ",
]
for n in names:
    print(repr(n), "->", repr(add_iteration_suffix(n)))
for bad in ("", None, 5, b"ab1", ["a"], 1.5):
    try:
        print(repr(bad), "->", repr(add_iteration_suffix(bad)))
    except Exception as e:
        print(repr(bad), "->", type(e).__name__, e)


def state(o):
    return (getattr(o, "_style", None) is None, dict(o._style_kwargs))


print("== label of copies")
makers = {
    "no style": lambda: magpy.Sensor(),
    "lazy label": lambda: magpy.Sensor(style_label="sens"),
    "lazy label digits": lambda: magpy.Sensor(style_label="sens_09"),
    "lazy no label": lambda: magpy.Sensor(style_color="r"),
    "lazy style dict": lambda: magpy.magnet.Cuboid(style={"label": "c1", "opacity": 0.5}),
    "lazy int label": lambda: magpy.Sensor(style_label=7),
    "lazy empty label": lambda: magpy.Sensor(style_label=""),
    "collection": lambda: magpy.Collection(magpy.Sensor(style_label="in"), style_label="col_"),
    "dipole": lambda: magpy.misc.Dipole(moment=(1, 2, 3)),
}
for name, mk in makers.items():
    for touch in (False, True):
        o = mk()
        if touch:
            _ = o.style  # initialise the style object
        before = state(o)
        try:
            c = o.copy()
            c2 = c.copy()
            o2 = o.copy()
            res = [
                state(c), c.style.label, c2.style.label, o2.style.label,
                o.style.label, c.style is not o.style,
                c.style.as_dict(flatten=True) == {**o.style.as_dict(flatten=True), "label": c.style.label},
            ]
            if isinstance(o, magpy.Collection):
                res.append([ch.style.label for ch in c.children])
        except Exception as e:
            res = [type(e).__name__, clean(e)]
        print(name, touch, before, state(o) if not isinstance(res[0], str) else "", res)

print("== untouched style stays lazy on both sides")
o = magpy.Sensor()
c = o.copy()
print(state(o), state(c), c.style.label, o.style.label)
o = magpy.Sensor()
c = o.copy(style_label="given")
print(state(o), c.style.label, o.style.label)
o = magpy.Sensor(style_label="a")
c = o.copy(style_label="given")
print(c.style.label, o.style.label)

print("== label set to None / changed after init")
o = magpy.Sensor(style_label="a")
o.style.label = None
print(o.copy().style.label, o.style.label)
o.style.label = "zz_7"
c = o.copy()
c.style.label = "other"
print(c.style.label, o.style.label, o.copy().style.label)

print("== invalid pending style arguments")
for kw in ({"style_bad": 1}, {"style_color": "nocolor"}, {"style": {"label": "x", "nope": 2}}):
    o = magpy.Sensor(**kw)
    par = magpy.Collection(o)
    for _ in range(2):
        try:
            o.copy()
            print("no error")
        except Exception as e:
            print(type(e).__name__, clean(e).split("\n")[:2], state(o), o.parent is par, len(par))
