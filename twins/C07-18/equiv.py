import os, sys; sys.path.insert(0, os.getcwd())
import hashlib
import re
import warnings

import numpy as np
from scipy.spatial.transform import Rotation as R

import magpylib as magpy

warnings.simplefilter("ignore")


def h(x):
    x = np.asarray(x)
    flags = "C" if x.flags.c_contiguous else "nonC"
    x = np.ascontiguousarray(x)
    return f"{x.dtype}{x.shape}{flags} {hashlib.sha1(x.tobytes()).hexdigest()[:16]}"


def clean(err):
    return re.sub(r"0x[0-9a-f]+|id=\d+", "ADDR", str(err).replace("\n", " / "))


def flaky(field, observers):
    """passes the validation at construction (2 observers), fails in real computations"""
    if len(observers) > 2:
        raise RuntimeError("field function failed")
    return observers * 1.0


def attempt(label, func, *args, **kwargs):
    try:
        res = func(*args, **kwargs)
    except Exception as err:  # pylint: disable=broad-except
        print(f"{label}: EXC {type(err).__name__}: {clean(err)[:150]}")
        return None
    if hasattr(res, "columns"):
        print(f"{label}: df{res.shape} {h(res.iloc[:, -3:].to_numpy())} {[clean(s) for s in res['source'].unique()]}")
    else:
        print(f"{label}: {h(res)} {np.round(np.asarray(res, dtype=float).ravel()[:3], 10).tolist()}")
    return res


rng = np.random.default_rng(11)


def cuboid(i):
    return magpy.magnet.Cuboid(polarization=rng.normal(size=3), dimension=(1 + 0.1 * i, 2, 3), position=rng.normal(size=3))


def circle(i):
    return magpy.current.Circle(current=1 + i, diameter=2 + 0.3 * i, position=rng.normal(size=3))


def dipole(i):
    return magpy.misc.Dipole(moment=rng.normal(size=3), position=rng.normal(size=3) + 3)


def special():
    """sources whose field contains inf/nan/-0.0 at some observers"""
    return magpy.misc.CustomSource(
        field_func=lambda field, observers: np.where(observers > 0.5, -0.0, observers) * np.array([1.0, np.inf, 1.0])
    )


def nan_source():
    return magpy.misc.CustomSource(field_func=lambda field, observers: observers * np.nan)


cub = [cuboid(i) for i in range(8)]
circ = [circle(i) for i in range(6)]
dip = [dipole(i) for i in range(4)]
cub[1].rotate_from_angax([10, 20, 30], "y", start=0)
circ[2].move([(0.1, 0, 0), (0.2, 0, 0), (0.3, 0.1, 0)], start=0)
dip[0].rotate_from_euler((10, 20, 30), "xyz")

sens = magpy.Sensor(pixel=[(0.1, 0.2, 0.3), (0.4, 0.5, -0.6)], position=(0.2, 0.1, 0.0))
sens_rot = magpy.Sensor(pixel=[(0.1, 0.2, 0.3), (0.4, 0.5, -0.6)], position=[(0, 0, 1), (0, 0, 2)],
                        orientation=R.from_euler("xyz", [(10, 20, 30), (40, 50, 60)], degrees=True))
sens_left = magpy.Sensor(pixel=[(0.3, 0.2, 0.3), (0.4, 0.1, -0.6)], handedness="left").rotate_from_angax(25, "x")
obs = [(0.1, 0.2, 0.3), (2.0, 1.5, -0.7), (0.2, 0.2, 0.2)]


def C(*children):
    return magpy.Collection(*[c.copy() if c.parent is not None else c for c in children])


one = C(cub[0])                                 # collection with a single source (col_len == 1)
two = C(cub[1], circ[0])
three = C(circ[1], cub[2], dip[0])
nested = C(C(cub[3], circ[2]), dip[1], C(C(circ[3]), cub[4]))
with_sensor = C(cub[5], magpy.Sensor(position=(1, 1, 1)), circ[4])
weird = C(special(), cub[6], nan_source())
shifted = C(cub[7], dip[2]).move((0.3, 0.2, 0.1)).rotate_from_angax([15, 30], "z", anchor=(1, 0, 0))

CONFIGS = {
    "[one]": [one],
    "[two]": [two],
    "two bare": two,
    "[cub, one]": [cub[0].copy(), one],
    "[one, one]": [one, one],
    "[two, two]": [two, two],
    "[src, two, src]": [dip[3], two, circ[5]],
    "[two, src, three]": [two, dip[3], three],
    "[three, two, one, nested]": [three, two, one, nested],
    "[nested]": [nested],
    "[src, nested, src, one, src]": [circ[5], nested, dip[3], one, cub[0].copy()],
    "[with_sensor, src]": [with_sensor, dip[3]],
    "[weird, two]": [weird, two],
    "[two, weird]": [two, weird],
    "[shifted, three]": [shifted, three],
    "[one, src] (only single-source collections)": [one, dip[3]],
    "no collection": [cub[0].copy(), circ[5], dip[3]],
    "many": [one, two, three, nested, circ[5], with_sensor, shifted, dip[3], two, one],
}

print("== collections in the sources list: every slot against the collection computed alone")
for name, sources in CONFIGS.items():
    for field in "BH":
        fn = getattr(magpy, "get" + field)
        for lab, o in (("posvec", obs), ("sens", sens), ("sens_rot", sens_rot), ("two sensors", [sens_rot, sens_left])):
            res = attempt(f"{name} get{field} {lab}", fn, sources, o, squeeze=False)
            if res is not None and isinstance(sources, list):
                slots = [h(fn(s, o, squeeze=False)[0]) == h(res[i]) for i, s in enumerate(sources)]
                print("      slot == alone (bit exact):", slots)
    attempt(f"{name} sumup", magpy.getB, sources, [sens, sens_left], sumup=True)
    attempt(f"{name} squeeze", magpy.getJ, sources, sens)
    attempt(f"{name} getM", magpy.getM, sources, obs)
    attempt(f"{name} pixel_agg", magpy.getB, sources, [sens, obs], pixel_agg="mean")
    attempt(f"{name} dataframe", magpy.getB, sources, sens_rot, output="dataframe")
    attempt(f"{name} dataframe sumup", magpy.getH, sources, sens, output="dataframe", sumup=True)
    attempt(f"{name} sens.getB", sens_left.getB, *(sources if isinstance(sources, list) else [sources]))

print("== collection methods")
for name, coll in (("one", one), ("two", two), ("three", three), ("nested", nested), ("weird", weird), ("shifted", shifted)):
    attempt(f"{name}.getB(obs)", coll.getB, obs)
    attempt(f"{name}.getH(sens, sens_left)", coll.getH, sens, sens_left, squeeze=False)
    attempt(f"{name} children one by one summed", lambda c=coll: np.sum([s.getB(obs) for s in c.sources_all], axis=0))
both = C(cub[0], circ[0], magpy.Sensor(pixel=obs))
attempt("collection with sources and sensors", both.getB)
attempt("sensor collection", C(sens, sens_left).getB, [two, dip[3], nested])

print("== state of paths after the calls")
for name, coll in (("two", two), ("nested", nested), ("shifted", shifted)):
    print(name, [h(o._position) + "/" + h(o._orientation.as_quat()) for o in [coll] + coll.sources_all])

print("== error paths")
attempt("empty collection in list", magpy.getB, [two, magpy.Collection()], obs)
attempt("sensor-only collection in list", magpy.getB, [two, C(magpy.Sensor())], obs)
attempt("failing field function inside a collection", magpy.getB,
        [two, C(magpy.misc.CustomSource(field_func=flaky), cub[0])], obs)
attempt("undefined field inside a collection", magpy.getB,
        [C(magpy.misc.CustomSource(), cub[0]), two], obs)
attempt("uninitialised child", magpy.getB, [two, C(magpy.magnet.Cuboid(), cub[0])], obs)
attempt("bad pixel_agg", magpy.getB, [two, three], [sens, obs[:1]], pixel_agg="nope")
attempt("different pixel shapes", magpy.getB, [two, three], [sens, obs[:1]])
print("state after errors", [h(o._position) for o in two.sources_all])
