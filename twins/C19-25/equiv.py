import os, sys; sys.path.insert(0, os.getcwd())
# --- digest helpers (arrays are compared bitwise: dtype, shape, bytes) ---
import hashlib
import re
import warnings

import numpy as np
from scipy.spatial.transform import Rotation as R

warnings.simplefilter("ignore")


def canon(o):
    """deterministic text of nested structures; arrays by dtype/shape/bytes"""
    if isinstance(o, dict):
        return "{" + ",".join(f"{canon(k)}:{canon(v)}" for k, v in o.items()) + "}"
    if isinstance(o, (list, tuple)):
        return type(o).__name__ + "(" + ",".join(canon(v) for v in o) + ")"
    if isinstance(o, np.ndarray):
        if o.dtype.kind == "O":
            return f"ndO{o.shape}[" + ",".join(canon(v) for v in o.ravel().tolist()) + "]"
        data = np.ascontiguousarray(o)
        if data.dtype.kind == "f":
            data = data + 0.0  # -0.0 stays, nothing else changes
        return f"nd<{o.dtype}{o.shape}{hashlib.sha256(data.tobytes()).hexdigest()[:12]}>"
    if isinstance(o, (bool, np.bool_)):
        return f"b{bool(o)}"
    if isinstance(o, (float, np.floating)):
        return f"f{type(o).__name__}{float(o).hex()}"
    if isinstance(o, (int, np.integer)):
        return f"i{type(o).__name__}{int(o)}"
    if o is None:
        return "None"
    if isinstance(o, str):
        return "s" + repr(re.sub(r"id=\d+|0x[0-9a-f]+", "#", o))
    if isinstance(o, R):
        return "rot" + canon(o.as_quat())
    return re.sub(r"id=\d+|0x[0-9a-f]+", "#", repr(o))


def digest(label, o):
    s = canon(o)
    print(f"{label}: {hashlib.sha256(s.encode()).hexdigest()[:16]} len={len(s)}")
    return s


def attempt(label, func, show=False):
    try:
        res = func()
    except BaseException as err:  # pylint: disable=broad-except
        msg = re.sub(r"id=\d+|0x[0-9a-f]+", "#", str(err))
        print(f"{label}: EXC {type(err).__name__}: {msg}")
        return None
    s = digest(label, res)
    if show:
        print("   ", s[:300])
    return res

# --- end of helpers ---
import numpy as np
from scipy.spatial.transform import Rotation as R

import magpylib as magpy
from magpylib._src.display.traces_base import make_Cuboid
from magpylib._src.display.traces_core import make_Pixels
from magpylib.graphics import model3d

dims = {
    "default": None,
    "unit": (1.0, 1.0, 1.0),
    "box": (1.0, 2.0, 3.0),
    "ints": (1, 2, 3),
    "list": [0.5, 0.25, 4.0],
    "ndarray": np.array([1e-3, 2e-3, 3e-3]),
    "int array": np.array([1, 2, 3]),
    "long": (1.0, 2.0, 3.0, 4.0),
    "zero": (0.0, 1.0, 1.0),
    "negative": (-1.0, 1.0, -2.0),
    "nan": (float("nan"), 1.0, 1.0),
    "inf": (1.0, float("inf"), 1.0),
    "float32": tuple(np.float32(v) for v in (1, 2, 3)),
    "huge": (1e308, 1e308, 1e308),
    "tiny": (5e-324, 1e-320, 1e-310),
    "str numbers": ("1", "2.5", "3"),
    "bools": (True, False, True),
    "column": [[1.0], [2.0], [3.0]],
    "2d (3,8)": np.arange(24.0).reshape(3, 8),
    "2d (3,1,1)": np.arange(3.0).reshape(3, 1, 1),
}
for dlabel, dim in dims.items():
    kw = {} if dim is None else {"dimension": dim}
    attempt(f"direct {dlabel}", lambda kw=kw: make_Cuboid(**kw), show=dlabel in ("box", "default"))

m = make_Cuboid("plotly-dict", (1.0, 2.0, 3.0))
print("keys", list(m))
for key in "xyzijk":
    print(key, m[key].dtype, m[key].tolist())

# every call hands out fresh arrays: in-place edits of a result do not leak into the next one
m1 = make_Cuboid("plotly-dict", (1.0, 2.0, 3.0))
for key in "xyzijk":
    m1[key] *= 0
m2 = make_Cuboid("plotly-dict", (1.0, 2.0, 3.0))
print("fresh arrays:", all(m1[k] is not m2[k] for k in "xyzijk"), canon(m2) == canon(m))
g1 = make_Cuboid()
for key in "xyzijk":
    g1["kwargs"][key] *= 0
print("fresh arrays generic:", canon(make_Cuboid()["kwargs"]) == canon({k: v for k, v in make_Cuboid("plotly-dict").items() if k != "type"}))
print("writeable:", [make_Cuboid("plotly-dict")[k].flags.writeable for k in "xyzijk"])

rot = R.from_euler("xyz", [(10, 20, 30)], degrees=True)
rots = R.from_euler("z", [[0], [45], [90]], degrees=True)
for backend in ("generic", "plotly", "matplotlib", "plotly-dict", None):
    attempt(
        f"backend {backend}",
        lambda: make_Cuboid(backend, (1, 2, 3), position=(1, 2, 3), orientation=rot,
                            show=False, scale=2, opacity=0.5, type="x"),
    )
attempt("path placement", lambda: make_Cuboid("plotly-dict", (1, 2, 3), position=[(0, 0, 0), (1, 1, 1), (2, 2, 2)], orientation=rots))
attempt("public api", lambda: model3d.make_Cuboid(dimension=(1, 2, 3), color="red"))
attempt("kwargs overriding x", lambda: make_Cuboid("plotly-dict", (1, 2, 3), x=[1, 2], i=None))
for size in (1, 0.5, 0, -1, None, "a"):
    attempt(f"pixels size={size!r}", lambda: make_Pixels(positions=np.array([(0, 0, 0), (1, 2, 3), (-1, 0, 2.5)]), size=size))

errs = {
    "dimension None": dict(dimension=None),
    "dimension scalar": dict(dimension=2.0),
    "one": dict(dimension=(1,)),
    "two": dict(dimension=(1, 2)),
    "empty": dict(dimension=()),
    "str entry": dict(dimension=("a", 2, 3)),
    "None entry": dict(dimension=(1, None, 3)),
    "ragged": dict(dimension=([1, 2], 2, 3)),
    "2d (3,3)": dict(dimension=np.ones((3, 3))),
    "2d (2,8)": dict(dimension=np.ones((2, 8))),
    "2d (1,8)": dict(dimension=np.ones((1, 8))),
    "dict": dict(dimension={0: 1.0, 1: 2.0, 2: 3.0}),
    "complex": dict(dimension=(1j, 2, 3)),
    "bad position": dict(position=(1, 2)),
    "bad orientation": dict(orientation="x"),
    "short dim, bad position": dict(dimension=(1, 2), position=(1, 2)),
}
for label, kw in errs.items():
    attempt(f"error {label}", lambda kw=kw: make_Cuboid(**kw))

# full models: Cuboid magnets and sensors with pixels (pixel cubes and hull use make_Cuboid)
cube = magpy.magnet.Cuboid(polarization=(0, 0, 1), dimension=(1, 2, 3), position=[(0, 0, 0), (1, 1, 1), (2, 0, 1)])
cube.rotate_from_angax([0, 30, 60], "y", start=0)
cube2 = magpy.magnet.Cuboid(polarization=(1, 0, 0), dimension=(0.5, 0.5, 0.1), position=(4, 0, 0))
cube2.style.magnetization.color.mode = "tricycle"
cube3 = magpy.magnet.Cuboid(polarization=(1, 1, 0), dimension=(1, 1, 1), position=(0, 4, 0), style_magnetization_mode="arrow")
sens = magpy.Sensor(pixel=[(0, 0, 0), (0, 0, 1), (1, 0, 0), (1, 1, 1)], position=(-3, 0, 0))
sens1 = magpy.Sensor(pixel=(0.5, 0, 0), position=(-3, -3, 0))
coll = magpy.Collection(cube2, cube3, sens1)
coll.move([(0, 0, 0), (0, 0, 2)], start=0)
objs = [cube, sens, coll]


def snapshot():
    return canon([(o.position, o.orientation, o.style.as_dict()) for o in [*objs, *coll.children]])


before = snapshot()
for backend in ("plotly", "matplotlib"):
    for frames in (None, [0], 2):
        for units in (None, "cm"):
            kw = {}
            if frames is not None:
                kw["style_path_frames"] = frames
            if units is not None:
                kw["units_length"] = units

            def full():
                if backend == "plotly":
                    fig = magpy.show(*objs, backend="plotly", return_fig=True, **kw)
                    return [
                        {k: (np.array(v) if isinstance(v, (list, tuple, np.ndarray)) and k in "xyzijk" else str(v))
                         for k, v in tr.to_plotly_json().items()}
                        for tr in fig.data
                    ] + [str(fig.layout.scene.xaxis.title.text), str(fig.layout.scene.xaxis.range)]
                import matplotlib

                matplotlib.use("Agg")
                import matplotlib.pyplot as plt

                fig = plt.figure()
                ax = fig.add_subplot(projection="3d")
                magpy.show(*objs, canvas=ax, backend="matplotlib", **kw)
                out = [("coll", np.array(getattr(c, "_vec", None))) for c in ax.collections]
                out += [("line", [np.array(d) for d in l.get_data_3d()]) for l in ax.lines]
                out += [ax.get_xlabel(), ax.get_xlim()]
                plt.close(fig)
                return out

            attempt(f"show {backend} frames={frames} units={units}", full)
# twice the same figure: no state is carried over between calls
a = magpy.show(*objs, backend="plotly", return_fig=True)
b = magpy.show(*objs, backend="plotly", return_fig=True)
print("repeatable:", str(a.to_dict()) == str(b.to_dict()))
print("objects unchanged:", before == snapshot())
