import os, sys; sys.path.insert(0, os.getcwd())
import itertools
import numpy as np
import magpylib as magpy
from magpylib._src.input_checks import check_array_shape, check_format_input_vector


def run(f, *a, **k):
    try:
        r = f(*a, **k)
    except Exception as e:  # digest: type + message
        return f"EXC {type(e).__name__}: {e}"
    if isinstance(r, np.ndarray):
        return f"ARR {r.dtype} {r.shape} {np.round(r, 6).tolist()}"
    return f"RET {r!r}"


arrays = [
    np.array(1.0),
    np.zeros(3),
    np.zeros(2),
    np.zeros((1, 3)),
    np.zeros((3, 3)),
    np.zeros((4, 3)),
    np.zeros((3, 4)),
    np.zeros((0, 3)),
    np.zeros((2, 2, 3)),
    np.zeros(0),
]
dimss = [(1,), (2,), (1, 2), range(1, 20), (0,), (0, 1, 2)]
shape_m1s = [3, 2, 5, "any", 0]
lengths = [None, 3, 4, 0, 1]
for a, d, s, l in itertools.product(arrays, dimss, shape_m1s, lengths):
    print(a.shape, tuple(d)[:3], s, l, "->", run(check_array_shape, a, dims=d, shape_m1=s, length=l, msg="bad shape"))

# through the public classes
vals = [None, (1, 2, 3), [(1, 2, 3)] * 3, [(1, 2, 3)] * 4, [(1, 2)] * 3, 1, "abc", [[[1, 2, 3]]], (1, 2), [], [[]], (1, 2, 3, 4, 5)]
for v in vals:
    print("Tri", repr(v), run(lambda: magpy.misc.Triangle(vertices=v).vertices))
    print("Tet", repr(v), run(lambda: magpy.magnet.Tetrahedron(vertices=v).vertices))
    print("Cub", repr(v), run(lambda: magpy.magnet.Cuboid(dimension=v).dimension))
    print("Cyl", repr(v), run(lambda: magpy.magnet.Cylinder(dimension=v).dimension))
    print("Sens", repr(v), run(lambda: magpy.Sensor(pixel=v).pixel))
    print("Pos", repr(v), run(lambda: magpy.Sensor(position=v).position))
    print("Poly", repr(v), run(lambda: magpy.current.Polyline(vertices=v).vertices))
    print("ang", repr(v), run(lambda: magpy.Sensor().rotate_from_angax(v, "z").orientation.as_quat()))
