import os, sys; sys.path.insert(0, os.getcwd())
import hashlib
import json
import re
import warnings

import numpy as np
from scipy.spatial.transform import Rotation as R

import magpylib as magpy
from magpylib._src.display.traces_generic import get_frames
from magpylib._src.display.traces_utility import DEFAULT_ROW_COL_PARAMS
from magpylib._src.display.traces_utility import process_show_input_objs

warnings.simplefilter("ignore")


def norm(o):
    """deterministic, JSON-able view of nested trace structures (keeps dict key order)"""
    if isinstance(o, dict):
        return ["dict", [[str(k), norm(v)] for k, v in o.items()]]
    if isinstance(o, (list, tuple)):
        return [type(o).__name__, [norm(v) for v in o]]
    if isinstance(o, np.ndarray):
        if o.dtype.kind in "fiu":
            return ["nd", str(o.dtype.kind), list(o.shape), np.round(o.astype(float), 9).tolist()]
        return ["nd", str(o.dtype.kind), list(o.shape), [norm(v) for v in o.ravel().tolist()]]
    if isinstance(o, (bool, np.bool_)):
        return bool(o)
    if isinstance(o, (float, np.floating)):
        return ["f", round(float(o), 9)]
    if isinstance(o, (int, np.integer)):
        return ["i", int(o)]
    if o is None:
        return None
    if isinstance(o, str):
        return re.sub(r"id=\d+|0x[0-9a-f]+", "#", o)
    if isinstance(o, R):
        return ["rot", np.round(o.as_quat(), 9).tolist()]
    return re.sub(r"id=\d+|0x[0-9a-f]+", "#", repr(o))


def digest(label, o):
    s = json.dumps(norm(o))
    print(f"{label}: {hashlib.sha256(s.encode()).hexdigest()[:16]} len={len(s)}")
    return s


def attempt(label, func):
    try:
        res = func()
    except Exception as err:  # pylint: disable=broad-except
        msg = re.sub(r"id=\d+|0x[0-9a-f]+", "#", str(err))
        print(f"{label}: EXC {type(err).__name__}: {msg}")
        return None
    digest(label, res)
    return res


def model(*objs, backend="plotly", colorgrad=True, **kw):
    objects, *_ = process_show_input_objs(
        objs, **{k: v for k, v in kw.items() if k in DEFAULT_ROW_COL_PARAMS})
    style_kw = {k: v for k, v in kw.items() if k.startswith("style")}
    kw = {k: v for k, v in kw.items() if k not in DEFAULT_ROW_COL_PARAMS and k not in style_kw}
    return get_frames(objects, backend=backend, supports_colorgradient=colorgrad,
                      style_kwargs=style_kw, **kw)


def state(objs):
    return json.dumps(norm([[o.style.as_dict(), o.position, o.orientation] for o in objs]
                           + [magpy.defaults.as_dict()]))

from magpylib._src.display.traces_generic import make_mag_arrows
from magpylib._src.display.traces_generic import update_magnet_mesh
from magpylib._src.display.traces_base import make_Cuboid as base_cuboid
from magpylib._src.display.traces_base import make_Prism as base_prism


def mesh(color="#123456", **extra):
    tr = base_cuboid("plotly-dict", dimension=(1, 2, 3), position=(0.1, 0.2, 0.3))
    if color is not None:
        tr["color"] = color
    tr.update(extra)
    return tr


def magstyle(**kw):
    style = magpy.magnet.Cuboid(polarization=(0, 0, 1), dimension=(1, 1, 1)).style.magnetization
    style.update(**kw)
    return style


# --- update_magnet_mesh: modes x show x slicing x magnetization
mags = {"None": None, "zero": np.zeros(3), "z": np.array((0, 0, 1.0)), "obl": np.array((1.0, -2.0, 0.5)),
        "tuple": (0, 1, 0), "x": np.array((1e6, 0, 0))}
for mode in ("tricolor", "bicolor", "tricycle"):
    for show in (True, False):
        for slicing in (True, False, 0, 1):
            for mname, mag in mags.items():
                style = magstyle(color_mode=mode, show=show, color_transition=0.3)
                inp = mesh(color_slicing="x")
                label = f"update mode={mode} show={show} slicing={slicing} mag={mname}"
                try:
                    out = update_magnet_mesh(inp, mag_style=style, magnetization=mag, color_slicing=slicing)
                except Exception as err:  # pylint: disable=broad-except
                    print(f"{label}: EXC {type(err).__name__}: {err}")
                    continue
                digest(label, out)
                print("   same object:", out is inp, "| keys:", list(out))
for kw in ({"color_north": "#000000", "color_south": "#ffffff", "color_middle": "#888888"},
           {"color_transition": 0}, {"color_transition": 1}):
    for slicing in (True, False):
        attempt(f"update colors {kw} slicing={slicing}", lambda: update_magnet_mesh(
            mesh(), mag_style=magstyle(**kw), magnetization=np.array((0.0, 1.0, 1.0)), color_slicing=slicing))
prism = base_prism("plotly-dict", base=7, diameter=2, height=1, color="k")
attempt("update prism sliced", lambda: update_magnet_mesh(
    dict(prism), mag_style=magstyle(), magnetization=np.array((1.0, 0, 1.0)), color_slicing=True))


class FakeColor:
    """stands for a magnetization color style with arbitrary (also unhashable) values"""

    def __init__(self, **kw):
        self.north, self.south, self.middle = "#E71111", "#00B050", "#DDDDDD"
        self.mode, self.transition = "tricolor", 0.2
        self.__dict__.update(kw)


class FakeStyle:
    def __init__(self, show=True, **kw):
        self.show = show
        self.color = FakeColor(**kw)


no_x = {k: v for k, v in mesh().items() if k != "x"}
errs = {
    "err no style": lambda: update_magnet_mesh(mesh()),
    "err no style hidden mesh": lambda: update_magnet_mesh({}, magnetization=np.ones(3)),
    "hidden, empty mesh": lambda: update_magnet_mesh({}, mag_style=FakeStyle(show=False)),
    "hidden, falsy show 0": lambda: update_magnet_mesh({"a": 1}, mag_style=FakeStyle(show=0)),
    "err show array": lambda: update_magnet_mesh(mesh(), mag_style=FakeStyle(show=np.array([1, 0]))),
    "err missing x": lambda: update_magnet_mesh(dict(no_x), mag_style=FakeStyle(), magnetization=np.ones(3)),
    "err tricycle without color": lambda: update_magnet_mesh(
        mesh(color=None), mag_style=FakeStyle(mode="tricycle"), magnetization=np.ones(3)),
    "err missing x before tricycle color": lambda: update_magnet_mesh(
        {k: v for k, v in no_x.items() if k != "color"}, mag_style=FakeStyle(mode="tricycle")),
    "err unhashable north": lambda: update_magnet_mesh(mesh(), mag_style=FakeStyle(north=[1, 2]),
                                                      magnetization=np.ones(3)),
    "err missing x before unhashable": lambda: update_magnet_mesh(dict(no_x), mag_style=FakeStyle(north=[1])),
    "err unhashable tricycle color": lambda: update_magnet_mesh(
        mesh(color=[1, 2, 3]), mag_style=FakeStyle(mode="tricycle"), magnetization=np.ones(3)),
    "err no transition attr": lambda: update_magnet_mesh(mesh(), mag_style=FakeStyle(transition=None),
                                                         magnetization=np.ones(3), color_slicing=False),
    "None transition sliced": lambda: update_magnet_mesh(mesh(), mag_style=FakeStyle(transition=None),
                                                         magnetization=np.ones(3), color_slicing=True),
    "err bad magnetization shape": lambda: update_magnet_mesh(mesh(), mag_style=FakeStyle(),
                                                              magnetization=np.ones(2)),
    "err bad magnetization shape sliced": lambda: update_magnet_mesh(
        mesh(), mag_style=FakeStyle(), magnetization=np.ones(2), color_slicing=True),
    "err slicing array": lambda: update_magnet_mesh(mesh(), mag_style=FakeStyle(), magnetization=np.ones(3),
                                                    color_slicing=np.array([1, 0])),
    "err mesh without faces sliced": lambda: update_magnet_mesh(
        {k: v for k, v in mesh().items() if k not in "ijk"}, mag_style=FakeStyle(),
        magnetization=np.ones(3), color_slicing=True),
    "unknown mode": lambda: update_magnet_mesh(mesh(), mag_style=FakeStyle(mode="other", middle=None),
                                               magnetization=np.ones(3)),
}
for label, func in errs.items():
    attempt(label, func)


# --- make_mag_arrows: all magnet classes, size modes, custom objects
def magnets():
    verts = [(0, 0, 0), (2, 0, 0), (0, 1, 0), (0, 0, 3)]
    return {
        "Cuboid": magpy.magnet.Cuboid(polarization=(1, 2, 3), dimension=(1, 2, 3)),
        "Cylinder": magpy.magnet.Cylinder(polarization=(0, 0, -1), dimension=(3, 1)),
        "CylinderSegment": magpy.magnet.CylinderSegment(polarization=(1, 0, 0), dimension=(1, 2, 3, 10, 120)),
        "Sphere": magpy.magnet.Sphere(polarization=(0, 1, 0), diameter=2.5),
        "Tetrahedron": magpy.magnet.Tetrahedron(polarization=(1, 1, 1), vertices=verts),
        "Triangle": magpy.misc.Triangle(polarization=(0, 0, 1), vertices=[(0, 0, 0), (2, 0, 0), (0, 1, 5)]),
        "TriangularMesh": magpy.magnet.TriangularMesh.from_ConvexHull(
            polarization=(1, 0, 1), points=verts + [(1, 1, 1)]),
    }


for name in magnets():
    for sizemode in ("scaled", "absolute"):
        for size in (1, 0.5, 0):
            for offset in (0, 0.3, 1):
                obj = magnets()[name]
                obj.position = [(1, 2, 3), (3, 2, 1)]
                obj.rotate_from_angax([20, 40], "y", start=0)
                obj.style.magnetization.arrow.update(sizemode=sizemode, size=size, offset=offset)
                before = state([obj])
                attempt(f"arrows {name} {sizemode} size={size} offset={offset}", lambda: make_mag_arrows(obj))
                if before != state([obj]):
                    print("   OBJECT CHANGED")
obj = magnets()["Cuboid"]
obj.style.magnetization.arrow.update(color="blue", width=5, style="dashed", size=2, sizemode="scaled",
                                     offset=0.2)
obj.style.color = "red"
attempt("arrows colors", lambda: make_mag_arrows(obj))
obj.magnetization = None
attempt("err arrows no magnetization", lambda: make_mag_arrows(obj))
obj = magnets()["Cylinder"]
obj.style.magnetization.arrow.update(size=2, sizemode="scaled", offset=0.2)
obj.dimension = None
attempt("err arrows no dimension", lambda: make_mag_arrows(obj))
obj.style.magnetization.arrow.sizemode = "absolute"
attempt("arrows no dimension absolute", lambda: make_mag_arrows(obj))
sph = magnets()["Sphere"]
sph.style.magnetization.arrow.update(size=2, sizemode="scaled", offset=0.2)
sph.diameter = None
attempt("err arrows no diameter", lambda: make_mag_arrows(sph))


class Custom:
    """minimal magnet-like object; mutable array attributes reveal in-place operations"""

    def __init__(self, **attrs):
        ref = magpy.magnet.Cuboid(polarization=(0, 0, 1), dimension=(1, 1, 1), position=(1, 1, 1))
        self.style = ref.style
        self.style.magnetization.arrow.update(size=0.7, sizemode="scaled", offset=0.4)
        self._position, self._orientation = ref._position, ref._orientation
        self.magnetization = np.array((0.0, 3.0, 4.0))
        self.__dict__.update(attrs)


customs = {
    "array diameter": {"diameter": np.array(2.0)},
    "array diameter 1d": {"diameter": np.array([2.0])},
    "diameter and mesh": {"diameter": 4, "mesh": np.arange(18.0).reshape(2, 3, 3)},
    "mesh": {"mesh": np.arange(18.0).reshape(2, 3, 3) ** 1.5},
    "mesh and vertices": {"mesh": np.arange(18.0).reshape(2, 3, 3), "vertices": np.eye(3)},
    "vertices": {"vertices": np.array([(0, 0, 0), (1, 5, 0), (2, 0, 7.0)])},
    "dimension long": {"dimension": np.array((1.0, 2.0, 3.0, 100.0, 200.0))},
    "dimension list": {"dimension": [4, 1]},
    "barycenter": {"dimension": (1, 1, 1), "_barycenter": np.array([(2.0, 2.0, 2.0)])},
    "err nothing": {},
    "err mesh list": {"mesh": [[(0, 0, 0), (1, 0, 0), (0, 1, 0)]]},
    "err dimension scalar": {"dimension": 3.0},
}
for label, attrs in customs.items():
    obj = Custom(**attrs)
    attempt(f"custom {label}", lambda: make_mag_arrows(obj))
    print("   attrs after:", json.dumps(norm(attrs)))

# --- full models: magnetization display modes for both colour capabilities
for mode in ("auto", "arrow", "color", "color+arrow", "arrow+color"):
    for backend, cg in (("plotly", True), ("matplotlib", False), ("plotly", False)):
        objs = list(magnets().values())
        for i, o in enumerate(objs):
            o.position = [(3 * i, 0, 0), (3 * i, 1, 1)]
            o.rotate_from_angax([0, 50], (1, 1, 1), start=0)
        before = state(objs)
        attempt(f"model mode={mode} {backend} colorgradient={cg}", lambda: model(
            *objs, backend=backend, colorgrad=cg, style_magnetization_mode=mode, style_path_frames=1,
            units_length="cm"))
        print("   unchanged:", before == state(objs))
attempt("model hidden magnetization", lambda: model(
    *magnets().values(), backend="matplotlib", colorgrad=False, style_magnetization_show=False))
attempt("model zero polarization", lambda: model(
    magpy.magnet.Cuboid(polarization=(0, 0, 0), dimension=(1, 2, 3)),
    magpy.magnet.Sphere(diameter=1, position=(2, 0, 0)), backend="matplotlib", colorgrad=False))
attempt("show plotly", lambda: magpy.show(*magnets().values(), backend="plotly", return_fig=True,
                                          style_magnetization_mode="color+arrow").to_dict())
