import os, sys; sys.path.insert(0, os.getcwd())
import re
import warnings
from decimal import Decimal
from fractions import Fraction

import numpy as np
from scipy.spatial.transform import Rotation as R

import magpylib as magpy
from magpylib._src.input_checks import check_format_input_scalar

warnings.simplefilter("ignore")


def dig(r):
    if isinstance(r, np.ndarray):
        return f"ARR {r.dtype} {r.shape} {np.round(r, 12).tolist()}"
    if isinstance(r, float):
        return f"RET {type(r).__name__} {r.hex() if r == r and abs(r) != np.inf else r!r}"
    return f"RET {type(r).__name__} {r!r}"


def run(f):
    try:
        out = dig(f())
    except Exception as e:  # pylint: disable=broad-except
        out = f"EXC {type(e).__name__}: {e!s} | cause={type(e.__cause__).__name__}"
    return re.sub(r"0x[0-9a-f]{6,}|id=\d+", "ADDR", out)


def emit(*args):
    print(re.sub(r"0x[0-9a-f]{6,}|id=\d+", "ADDR", " ".join(str(a) for a in args)))


LOG = []


class MyFloat(float):
    def __lt__(self, other):
        LOG.append("lt")
        return True

    def __float__(self):
        LOG.append("float")
        return 2.5


class MyNumber:
    """registered as a Number below; conversion is configurable"""

    def __init__(self, val):
        self.val = val

    def __float__(self):
        LOG.append("float")
        if isinstance(self.val, Exception):
            raise self.val
        return self.val

    def __repr__(self):
        LOG.append("repr")
        return f"MyNumber({self.val!r})"


import numbers

numbers.Number.register(MyNumber)


class Flag:
    def __init__(self, val):
        self.val = val

    def __bool__(self):
        LOG.append(("flag", self.val))
        return self.val


values = [
    None, 0, 1, -1, 2.5, -2.5, 0.0, -0.0, 1e-320, -1e-320, 1e308, True, False, 10**400, -(10**400), Fraction(-1, 3), Fraction(7, 2), Decimal("1.5"), Decimal("-1.5"),
    1j, complex(2, 0), np.float32(1.5), np.float64(-3), np.int8(-4), np.uint8(200), np.bool_(True), np.float16(-0.0), np.inf, -np.inf, np.nan, -np.nan,
    MyFloat(-7.0), MyFloat(7.0), MyNumber(3.0), MyNumber(-3.0), MyNumber(ValueError("conv")), MyNumber("nofloat"),
    "1", "", b"1", (), [], [1], (1,), (1, 2), [[1]], np.array(2.0), np.array(-2.0), np.array([2.0]), np.array([1, 2]), {1}, {1: 2}, range(2), object, len,
]
options = [
    {}, {"allow_None": True}, {"forbid_negative": True}, {"allow_None": True, "forbid_negative": True}, {"allow_None": 1, "forbid_negative": "yes"},
    {"allow_None": 0, "forbid_negative": []}, {"allow_None": Flag(True), "forbid_negative": Flag(True)}, {"allow_None": Flag(False), "forbid_negative": Flag(False)},
]

emit("== validator: values x options")
for v in values:
    for opt in options:
        LOG.clear()
        r = run(lambda: check_format_input_scalar(v, sig_name="NAME", sig_type="TYPE", **opt))
        emit(type(v).__name__, run(lambda: repr(v))[:40], "|", {k: (x.val if isinstance(x, Flag) else x) for k, x in opt.items()}, "|", r, "| log", LOG)
emit(run(lambda: check_format_input_scalar(-1, "n", "t", True, True)), run(lambda: check_format_input_scalar(-1, "n", "t", True)),
     run(lambda: check_format_input_scalar(None, "n", "t")), run(lambda: check_format_input_scalar(None, "n", "t", True)))

emit("== diameter / current through constructor and setter")
cases = [
    ("Circle.diameter", lambda **kw: magpy.current.Circle(current=1.5, **kw), "diameter", 2.0),
    ("Sphere.diameter", lambda **kw: magpy.magnet.Sphere(polarization=(0.1, 0.2, 0.3), **kw), "diameter", 2.0),
    ("Circle.current", lambda **kw: magpy.current.Circle(diameter=2, **kw), "current", 1.5),
    ("Polyline.current", lambda **kw: magpy.current.Polyline(vertices=[(0, 0, 0), (1, 1, 1)], **kw), "current", 1.5),
]
LOG.clear()
for name, mk, attr, good in cases:
    for v in values:
        r_ctor = run(lambda: getattr(mk(**{attr: v}), attr))
        o1 = mk()
        r_set1 = run(lambda: setattr(o1, attr, v))
        o2 = mk(**{attr: good})
        before = dig(getattr(o2, attr))
        r_set2 = run(lambda: setattr(o2, attr, v))
        after = dig(getattr(o2, attr))
        emit(name, type(v).__name__, run(lambda: repr(v))[:40], "| ctor", r_ctor, "| set(None)", r_set1, dig(getattr(o1, attr)), "| set(valid)", r_set2,
             "UNCHANGED" if before == after else after, "| type", type(getattr(o2, attr)).__name__, "| desc", run(lambda: o2._default_style_description),
             "| getB", run(lambda: o2.getB((0.3, 0.4, 0.5))))

emit("== constructors: argument routing to the base classes")
rot = R.from_rotvec((0.1, 0.2, 0.3))
coll = magpy.Collection()
ctor_calls = {
    "Circle": [
        lambda: magpy.current.Circle(),
        lambda: magpy.current.Circle((1, 2, 3), rot, 2, 1.5),
        lambda: magpy.current.Circle((1, 2, 3), rot, 2, 1.5, "red"),
        lambda: magpy.current.Circle([(1, 2, 3), (2, 3, 4)], None, diameter=2, current=-1, style={"color": "red"}, style_label="lbl"),
        lambda: magpy.current.Circle(position=(1, 2, 3), orientation=rot, diameter=2, current=1, style_color="blue", parent=coll),
        lambda: magpy.current.Circle(diameter=2, current=1, bad_kw=1),
        lambda: magpy.current.Circle(diameter=2, current=1, magnetization=(1, 2, 3)),
        lambda: magpy.current.Circle(diameter=2, current=1, field_func=lambda field, observers: None),
        lambda: magpy.current.Circle(diameter=2, current=1, position="a"),
        lambda: magpy.current.Circle(diameter=2, current=1, orientation="a"),
        lambda: magpy.current.Circle(diameter=-2, current="a", position="a"),
        lambda: magpy.current.Circle(diameter=2, current="a", position="a"),
        lambda: magpy.current.Circle(diameter=2, current="a", style="a"),
        lambda: magpy.current.Circle(diameter=2, current=1, style="a"),
        lambda: magpy.current.Circle(diameter=2, current=1, style={"nope": 1}),
        lambda: magpy.current.Loop((1, 2, 3), rot, 2, 1.5),
        lambda: magpy.current.Loop(diameter=3, current=2, style_label="loop"),
        lambda: magpy.current.Circle(diameter=2, current=1).copy(diameter=3, position=(1, 1, 1)),
        lambda: magpy.current.Circle(diameter=2, current=1).copy(diameter=-3),
    ],
    "Sphere": [
        lambda: magpy.magnet.Sphere(),
        lambda: magpy.magnet.Sphere((1, 2, 3), rot, 2, (0.1, 0.2, 0.3)),
        lambda: magpy.magnet.Sphere((1, 2, 3), rot, 2, None, (1e5, 2e5, 3e5)),
        lambda: magpy.magnet.Sphere((1, 2, 3), rot, 2, (0.1, 0.2, 0.3), None, {"color": "red"}),
        lambda: magpy.magnet.Sphere((1, 2, 3), rot, 2, (0.1, 0.2, 0.3), (1, 2, 3)),
        lambda: magpy.magnet.Sphere([(1, 2, 3), (2, 3, 4)], diameter=2, magnetization=(1e5, 0, 0), style_label="lbl", parent=coll),
        lambda: magpy.magnet.Sphere(diameter=2, polarization=(1, 2, 3), bad_kw=1),
        lambda: magpy.magnet.Sphere(diameter=2, polarization=(1, 2, 3), current=1),
        lambda: magpy.magnet.Sphere(diameter=2, polarization=(1, 2), position="a"),
        lambda: magpy.magnet.Sphere(diameter=-2, polarization=(1, 2), position="a"),
        lambda: magpy.magnet.Sphere(diameter=2, polarization=(1, 2)),
        lambda: magpy.magnet.Sphere(diameter=2, magnetization=(1, 2), polarization=(1, 2)),
        lambda: magpy.magnet.Sphere(diameter=2, magnetization=(1, 2, 3)),
        lambda: magpy.magnet.Sphere(diameter=2, polarization=(1, 2, 3), style="a"),
        lambda: magpy.magnet.Sphere(diameter=2, polarization=(1, 2, 3)).copy(diameter=5, polarization=(3, 2, 1)),
    ],
}
for name, fs in ctor_calls.items():
    for i, f in enumerate(fs):
        def full():
            o = f()
            exc = o.current if name == "Circle" else (o.polarization, o.magnetization)
            return (dig(o.position), dig(o.orientation.as_quat()), dig(o.diameter), str(exc).replace("\n", " "), o.style.color, o.style.label,
                    type(o.parent).__name__, type(o).__name__)
        with warnings.catch_warnings(record=True) as w:
            warnings.simplefilter("always")
            r = run(full)
        emit(name, i, r, "| warnings", sorted({type(x.message).__name__ for x in w}))
emit("children", [type(c).__name__ for c in coll.children])

emit("== None is accepted and reported at field computation")
for o in (magpy.current.Circle(current=1), magpy.current.Circle(diameter=1), magpy.magnet.Sphere(polarization=(1, 2, 3)), magpy.magnet.Sphere(diameter=1)):
    emit(run(lambda: o.getB((1, 2, 3))), "|", run(lambda: magpy.getH(o, (1, 2, 3))))
