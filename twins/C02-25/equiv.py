import os, sys; sys.path.insert(0, os.getcwd())
import hashlib
import warnings

import numpy as np

import magpylib as magpy
from magpylib._src.fields.field_BH_cylinder_segment import BHJM_cylinder_segment
from magpylib._src.fields.field_BH_cylinder_segment import BHJM_cylinder_segment_internal

warnings.simplefilter("ignore")
np.seterr(all="ignore")


def digest(name, arr):
    arr = np.asarray(arr)
    h = hashlib.sha256(np.ascontiguousarray(arr).tobytes()).hexdigest()[:16]
    print(name, arr.shape, arr.dtype, h)
    with np.printoptions(precision=10, linewidth=200):
        print(np.round(arr, 12))


def attempt(name, fn):
    try:
        digest(name, fn())
    except Exception as e:  # noqa: BLE001
        print(name, type(e).__name__, str(e).replace("\n", " | ")[:160])


def cyl(r, phi_deg, z):
    p = np.deg2rad(phi_deg)
    return (r * np.cos(p), r * np.sin(p), z)


rng = np.random.default_rng(3)
n = 18
obs = rng.uniform(-2, 2, (n, 3))
dim = np.tile((0.5, 1.5, 1.0, 30.0, 250.0), (n, 1))
pol = rng.uniform(-1, 1, (n, 3))
obs[0] = cyl(1.0, 100, 0.1)  # inside
obs[1] = cyl(1.0, 100, 0.5)  # on top
obs[2] = cyl(1.0, 100, -0.5)  # on bottom
obs[3] = cyl(0.5, 100, 0.1)  # on inner shell
obs[4] = cyl(1.5, 100, 0.1)  # on outer shell
obs[5] = cyl(1.0, 30, 0.1)  # on phi1 face
obs[6] = cyl(1.0, 250, 0.2)  # on phi2 face (250 deg -> -110 deg)
obs[7] = cyl(1.5, 30, 0.5)  # corner
obs[8] = cyl(1.0, 10, 0.0)  # outside in angle
obs[9] = cyl(3.0, 100, 0.0)  # outside in r
obs[10] = (0, 0, 0)  # on axis
obs[11] = (np.nan, 1, 0)
dim[12] = (-0.5, 1.5, -1.0, -100.0, 20.0)  # negative r1/h are taken as abs
obs[12] = cyl(1.0, -50, 0.2)
dim[13] = (0.0, 1.0, 2.0, 0.0, 90.0)
obs[13] = cyl(0.5, 45, 0.0)
dim[14] = (0.0, 1.0, 2.0, 0.0, 90.0)
obs[14] = (0, 0, 0.3)  # on the edge r=0
pol[15] = 0
obs[15] = cyl(1.0, 120, 0.0)
pol[16] = (0, 0, 1)
obs[16] = cyl(1.2, 200, -0.3)
dim[17] = (0.5, 1.5, 1.0, 300.0, 420.0)  # angles beyond 360
obs[17] = cyl(1.0, 0, 0.0)

for field in "BHJM":
    attempt(f"core-{field}", lambda: BHJM_cylinder_segment(field, obs, dim, pol))
    attempt(
        f"internal-{field}",
        lambda: BHJM_cylinder_segment_internal(field, obs, pol, dim),
    )
    # only surface points -> early return of zeros for B and H
    attempt(
        f"allsurf-{field}",
        lambda: BHJM_cylinder_segment(field, obs[1:8], dim[1:8], pol[1:8]),
    )
    attempt(
        f"int-{field}",
        lambda: BHJM_cylinder_segment(
            field,
            np.array([(0, 1, 0), (0, 2, 0), (3, 3, 3)]),
            np.array([(0, 2, 2, 0, 180)] * 3),
            np.array([(1, 2, 3)] * 3),
        ),
    )
    attempt(f"empty-{field}", lambda: BHJM_cylinder_segment(field, obs[:0], dim[:0], pol[:0]))

B, H, J, M = (BHJM_cylinder_segment(f, obs, dim, pol) for f in "BHJM")
ok = np.isfinite(B).all(axis=1) & np.isfinite(H).all(axis=1)
print("BHJ core", np.allclose(B[ok], magpy.mu_0 * H[ok] + J[ok], rtol=1e-10, atol=1e-14))
print("JM core", np.array_equal(J / magpy.mu_0, M))

o2, d2, p2 = obs.copy(), dim.copy(), pol.copy()
for field in "BHJM":
    res = BHJM_cylinder_segment(field, o2, d2, p2)
    print(field, "alias", np.shares_memory(res, p2), np.shares_memory(res, o2), np.shares_memory(res, d2))
print(
    "inputs unchanged",
    np.array_equal(o2, obs, equal_nan=True),
    np.array_equal(d2, dim),
    np.array_equal(p2, pol),
)

seg = magpy.magnet.CylinderSegment(dimension=(0.3, 1, 0.8, -40, 130), polarization=(0.1, -0.2, 0.3))
seg.rotate_from_angax([10, 33, 77], (1, 2, 3)).move((0.1, 0.2, -0.1))
pts = rng.uniform(-1, 1, (20, 3))
for f in "BHJM":
    digest(f"obj-{f}", getattr(seg, f"get{f}")(pts))
print("BHJ obj", np.allclose(seg.getB(pts), magpy.mu_0 * seg.getH(pts) + seg.getJ(pts), rtol=1e-10, atol=1e-14))

for bad in ("X", "BH", "", 5, None):
    attempt(f"bad-{bad!r}", lambda: BHJM_cylinder_segment(bad, obs, dim, pol))
for f in "BJ":
    attempt(f"dim-4col-{f}", lambda: BHJM_cylinder_segment(f, obs, dim[:, :4], pol))
    attempt(f"dim-list-{f}", lambda: BHJM_cylinder_segment(f, obs, dim.tolist(), pol))
    attempt(f"pol-list-{f}", lambda: BHJM_cylinder_segment(f, obs, dim[:, :4], pol.tolist()))
    attempt(f"shape-dim-{f}", lambda: BHJM_cylinder_segment(f, obs, dim[:3], pol))
    attempt(f"shape-pol-{f}", lambda: BHJM_cylinder_segment(f, obs, dim, pol[:3]))
    attempt(f"shape-obs-{f}", lambda: BHJM_cylinder_segment(f, obs[:5], dim, pol))
    attempt(f"obs-4col-{f}", lambda: BHJM_cylinder_segment(f, np.ones((n, 4)), dim, pol))

# ---- batch 5 additions: the zeroing / early return / B tail on surface points
surf_pts = np.array([cyl(1.0, 100, 0.5), cyl(1.0, 100, -0.5), cyl(0.5, 100, 0.1), cyl(1.5, 100, 0.1), cyl(1.0, 30, 0.1), cyl(1.0, 250, 0.2), cyl(1.5, 30, 0.5)])
reg_pts = np.array([cyl(1.0, 100, 0.1), cyl(1.2, 200, -0.3), cyl(3.0, 100, 0.0), cyl(1.0, 10, 0.0), (0.0, 0.0, 0.0), cyl(0.7, 60, 0.49)])
d1 = (0.5, 1.5, 1.0, 30.0, 250.0)
pol_kinds = {
    "pos": (0.3, 0.2, 0.7),
    "neg": (-0.3, -0.2, -0.7),
    "zero": (0.0, 0.0, 0.0),
    "negzero": (-0.0, -0.0, -0.0),
    "nan": (np.nan, 0.2, 0.7),
    "inf": (0.3, np.inf, -np.inf),
    "axial": (0.0, 0.0, 1.0),
    "int": (1, -2, 3),
}
for kname, kp in pol_kinds.items():
    for tag, pts_ in (("surf", surf_pts), ("reg", reg_pts), ("both", np.concatenate((surf_pts[:3], reg_pts, surf_pts[3:])))):
        k = len(pts_)
        P = np.tile(np.array(kp), (k, 1))
        D = np.tile(d1, (k, 1))
        for field in "BHJM":
            attempt(f"tail-{kname}-{tag}-{field}", lambda: BHJM_cylinder_segment(field, pts_, D, P))
        res = BHJM_cylinder_segment("B", pts_, D, P)
        print("signbits", kname, tag, np.signbit(res).astype(int).ravel().tolist())
        print("fresh", np.shares_memory(res, P), res.flags["OWNDATA"] or res.base is not None, res.flags["WRITEABLE"])
# one row each (masks with a single element), 1-D inputs
for field in "BHJM":
    attempt(f"one-surf-{field}", lambda: BHJM_cylinder_segment(field, surf_pts[:1], np.array([d1]), np.array([(0.3, 0.2, 0.7)])))
    attempt(f"one-reg-{field}", lambda: BHJM_cylinder_segment(field, reg_pts[:1], np.array([d1]), np.array([(0.3, 0.2, 0.7)])))
    attempt(f"1d-{field}", lambda: BHJM_cylinder_segment(field, reg_pts[0], np.array(d1), np.array((0.3, 0.2, 0.7))))
    attempt(f"1d-surf-{field}", lambda: BHJM_cylinder_segment(field, surf_pts[0], np.array(d1), np.array((0.3, 0.2, 0.7))))
    attempt(f"pol-1d-{field}", lambda: BHJM_cylinder_segment(field, reg_pts, np.tile(d1, (len(reg_pts), 1)), np.array((0.3, 0.2, 0.7))))
    attempt(f"pol-2col-{field}", lambda: BHJM_cylinder_segment(field, reg_pts, np.tile(d1, (len(reg_pts), 1)), np.ones((len(reg_pts), 2))))
    attempt(f"pol-4col-{field}", lambda: BHJM_cylinder_segment(field, reg_pts, np.tile(d1, (len(reg_pts), 1)), np.ones((len(reg_pts), 4))))
    attempt(f"pol-4col-surf-{field}", lambda: BHJM_cylinder_segment(field, surf_pts, np.tile(d1, (len(surf_pts), 1)), np.ones((len(surf_pts), 4))))
    attempt(f"pol-short-{field}", lambda: BHJM_cylinder_segment(field, reg_pts, np.tile(d1, (len(reg_pts), 1)), np.ones((2, 3))))
    attempt(f"pol-short-surf-{field}", lambda: BHJM_cylinder_segment(field, surf_pts, np.tile(d1, (len(surf_pts), 1)), np.ones((2, 3))))
    attempt(f"pol-cplx-{field}", lambda: BHJM_cylinder_segment(field, reg_pts, np.tile(d1, (len(reg_pts), 1)), np.ones((len(reg_pts), 3)) * 1j))
    attempt(f"f32-{field}", lambda: BHJM_cylinder_segment(field, reg_pts.astype(np.float32), np.tile(d1, (len(reg_pts), 1)).astype(np.float32), np.ones((len(reg_pts), 3), np.float32)))
# objects touching each other: sensor pixels on the shared faces, with path
s1 = magpy.magnet.CylinderSegment(dimension=(0.5, 1.5, 1, 0, 90), polarization=(0.1, 0.2, 0.3))
s2 = magpy.magnet.CylinderSegment(dimension=(0.5, 1.5, 1, 90, 200), polarization=(-0.3, 0.1, 0.2))
coll = magpy.Collection(s1, s2)
coll.move([(0, 0, 0), (0, 0, 0.5)])
pix = [cyl(1.0, 90, 0.0), cyl(1.0, 45, 0.5), cyl(1.0, 45, 0.0), cyl(1.5, 120, 0.2), cyl(1.0, 150, 1.0), (0, 0, 0)]
for field in "BHJM":
    attempt(f"coll-{field}", lambda: getattr(magpy, "get" + field)(coll, pix))
    attempt(f"func-{field}", lambda: getattr(magpy, "get" + field)("CylinderSegment", pix, dimension=d1, polarization=(0.1, 0.2, 0.3)))
