import os, sys; sys.path.insert(0, os.getcwd())
import hashlib
import json
import re

import numpy as np
from scipy.spatial.transform import Rotation as R

import magpylib as magpy
from magpylib._src.display.traces_generic import get_generic_traces3D
from magpylib._src.display.traces_generic import MagpyMarkers
from magpylib._src.defaults.defaults_classes import default_settings
from magpylib._src.style import get_style
from magpylib._src.utility import style_temp_edit
import warnings
warnings.simplefilter("ignore")


def norm(o):
    """deterministic, JSON-able view of nested trace structures"""
    if isinstance(o, dict):
        return {str(k): norm(v) for k, v in sorted(o.items(), key=lambda kv: str(kv[0]))}
    if isinstance(o, (list, tuple)):
        return [type(o).__name__, [norm(v) for v in o]]
    if isinstance(o, np.ndarray):
        if o.dtype.kind in "fiu":
            return ["nd", list(o.shape), np.round(o.astype(float), 9).tolist()]
        return ["nd", list(o.shape), [norm(v) for v in o.ravel().tolist()]]
    if isinstance(o, (float, np.floating)):
        return round(float(o), 9)
    if isinstance(o, (int, np.integer, bool, type(None))):
        return o
    if isinstance(o, str):
        return re.sub(r"id=\d+|0x[0-9a-f]+", "#", o)
    if isinstance(o, R):
        return ["rot", np.round(o.as_quat(), 9).tolist()]
    return re.sub(r"id=\d+|0x[0-9a-f]+", "#", repr(o))


def digest(label, o):
    s = json.dumps(norm(o), sort_keys=True)
    print(f"{label}: {hashlib.sha256(s.encode()).hexdigest()[:16]} len={len(s)}")
    return s


def attempt(label, func):
    try:
        res = func()
    except Exception as err:  # pylint: disable=broad-except
        print(f"{label}: EXC {type(err).__name__}: {err}")
        return None
    digest(label, res)
    return res



def with_path(obj):
    obj.position = [(0, 0, 0), (1, 2, 3), (2, 4, 6), (3, 6, 9)]
    obj.rotate_from_angax([0, 30, 60, 90], (1, 1, 0), start=0)
    return obj


def two_boxes():
    """disconnected mesh made of two cuboids -> traces with name_suffix"""
    verts, faces = [], []
    for shift in (0, 3):
        b = magpy.magnet.TriangularMesh.from_ConvexHull(
            polarization=(0, 0, 1),
            points=np.array([(x + shift, y, z) for x in (0, 1) for y in (0, 1) for z in (0, 1)]))
        faces.append(b.faces + len(verts) * 8)
        verts.append(b.vertices)
    return magpy.magnet.TriangularMesh(
        polarization=(0, 0, 1), vertices=np.concatenate(verts), faces=np.concatenate(faces),
        check_disconnected="ignore", reorient_faces="ignore")


def objects():
    cube = with_path(magpy.magnet.Cuboid(polarization=(0, 0, 1), dimension=(1, 2, 3)))
    cube.style.model3d.add_trace(backend="matplotlib", constructor="plot", kwargs={"ls": "--"},
                                 args=([0, 1], [0, 1], [0, 2]))
    cube.style.model3d.add_trace(backend="generic", constructor="scatter3d",
                                 kwargs={"x": [0, 1], "y": [0, 0], "z": [0, 0], "mode": "lines"})
    mesh2 = with_path(two_boxes())
    mesh2.style.mesh.grid.show = True
    mesh2.style.mesh.disconnected.show = True
    mesh2.style.orientation.show = True
    return {
        "cube": cube,
        "cyl": with_path(magpy.magnet.Cylinder(polarization=(1, 0, 0), dimension=(1, 2))),
        "circle": with_path(magpy.current.Circle(current=1, diameter=2)),
        "line": with_path(magpy.current.Polyline(current=-1, vertices=[(0, 0, 0), (1, 1, 1), (2, 0, 1)])),
        "sensor": with_path(magpy.Sensor(pixel=[(0, 0, 0), (0, 0, 1)])),
        "dipole": with_path(magpy.misc.Dipole(moment=(1, 1, 1))),
        "tri": with_path(magpy.misc.Triangle(polarization=(0, 0, 1), vertices=[(0, 0, 0), (1, 0, 0), (0, 1, 0)])),
        "mesh2": mesh2,
        "static": magpy.magnet.Sphere(polarization=(0, 0, 1), diameter=1, position=(1, 1, 1)),
    }


def run_generic(obj, style_kw=None, **kw):
    """mimics get_traces_3D: work on a resolved temporary style copy"""
    style = get_style(obj, default_settings, **(style_kw or {}))
    if style.color is None:
        style.color = "#123456"
    with style_temp_edit(obj, style_temp=style, copy=True):
        return get_generic_traces3D(obj, legendgroup="LG", **kw)


for name, obj in objects().items():
    before = json.dumps(norm([obj.style.as_dict(), obj.position, obj.orientation, magpy.defaults.as_dict()]))
    for frames in (1, [0, 2], None):
        for legendtext in (None, "my text"):
            for showlegend in (None, True, False):
                for legshow in (True, False):
                    for extra in (False, "matplotlib"):
                        label = f"{name} fr={frames} lt={legendtext} sl={showlegend} ls={legshow} ex={extra}"
                        attempt(label, lambda: run_generic(
                            obj, {"path_frames": frames, "legend_show": legshow},
                            legendtext=legendtext, showlegend=showlegend, extra_backend=extra,
                            supports_colorgradient=not extra, autosize=0.5, row=1, col=2))
    after = json.dumps(norm([obj.style.as_dict(), obj.position, obj.orientation, magpy.defaults.as_dict()]))
    print(f"{name} unchanged:", before == after)

# markers (no path), via show with nested collections and style legend settings
objs = objects()
coll = magpy.Collection(objs["cube"], magpy.Collection(objs["mesh2"], objs["line"]), objs["sensor"])
coll.style.legend.show = False
attempt("markers", lambda: get_generic_traces3D(MagpyMarkers((1, 2, 3), (2, 3, 4)), row=2, col=1, extra_backend="plotly"))
attempt("show nested plotly", lambda: magpy.show(
    coll, objs["dipole"], backend="plotly", return_fig=True, markers=[(1, 2, 3)], style_path_frames=2).to_dict()["data"])
coll.style.legend.show = True
attempt("show nested plotly legend", lambda: magpy.show(
    coll, objs["dipole"], backend="plotly", return_fig=True, style_legend_show=False).to_dict()["data"])

# error paths: extra trace without coordinates cannot be placed, extra backend trace likewise
bad = with_path(magpy.magnet.Cuboid(polarization=(0, 0, 1), dimension=(1, 1, 1)))
bad.style.model3d.add_trace(backend="generic", constructor="scatter3d", kwargs={"x": [0, 1], "y": [0, 0]})
attempt("err generic extra", lambda: run_generic(bad))
bad2 = with_path(magpy.magnet.Cuboid(polarization=(0, 0, 1), dimension=(1, 1, 1)))
bad2.style.model3d.add_trace(backend="matplotlib", constructor="plot", kwargs={"xs": [0, 1]})
attempt("err mpl extra", lambda: run_generic(bad2, extra_backend="matplotlib"))
attempt("ok mpl extra ignored", lambda: run_generic(bad2, extra_backend="plotly"))
attempt("err no style", lambda: get_generic_traces3D(object()))
