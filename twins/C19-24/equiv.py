import os, sys; sys.path.insert(0, os.getcwd())
# --- digest helpers (arrays are compared bitwise: dtype, shape, bytes) ---
import hashlib
import re
import warnings

import numpy as np
from scipy.spatial.transform import Rotation as R

warnings.simplefilter("ignore")


def canon(o):
    """deterministic text of nested structures; arrays by dtype/shape/bytes"""
    if isinstance(o, dict):
        return "{" + ",".join(f"{canon(k)}:{canon(v)}" for k, v in o.items()) + "}"
    if isinstance(o, (list, tuple)):
        return type(o).__name__ + "(" + ",".join(canon(v) for v in o) + ")"
    if isinstance(o, np.ndarray):
        if o.dtype.kind == "O":
            return f"ndO{o.shape}[" + ",".join(canon(v) for v in o.ravel().tolist()) + "]"
        data = np.ascontiguousarray(o)
        if data.dtype.kind == "f":
            data = data + 0.0  # -0.0 stays, nothing else changes
        return f"nd<{o.dtype}{o.shape}{hashlib.sha256(data.tobytes()).hexdigest()[:12]}>"
    if isinstance(o, (bool, np.bool_)):
        return f"b{bool(o)}"
    if isinstance(o, (float, np.floating)):
        return f"f{type(o).__name__}{float(o).hex()}"
    if isinstance(o, (int, np.integer)):
        return f"i{type(o).__name__}{int(o)}"
    if o is None:
        return "None"
    if isinstance(o, str):
        return "s" + repr(re.sub(r"id=\d+|0x[0-9a-f]+", "#", o))
    if isinstance(o, R):
        return "rot" + canon(o.as_quat())
    return re.sub(r"id=\d+|0x[0-9a-f]+", "#", repr(o))


def digest(label, o):
    s = canon(o)
    print(f"{label}: {hashlib.sha256(s.encode()).hexdigest()[:16]} len={len(s)}")
    return s


def attempt(label, func, show=False):
    try:
        res = func()
    except BaseException as err:  # pylint: disable=broad-except
        msg = re.sub(r"id=\d+|0x[0-9a-f]+", "#", str(err))
        print(f"{label}: EXC {type(err).__name__}: {msg}")
        return None
    s = digest(label, res)
    if show:
        print("   ", s[:300])
    return res

# --- end of helpers ---
import numpy as np
from scipy.spatial.transform import Rotation as R

import magpylib as magpy
from magpylib._src.display.traces_base import make_Ellipsoid
from magpylib.graphics import model3d

dims = {
    "default": None,
    "unit": (1.0, 1.0, 1.0),
    "ellipsoid": (1.0, 2.0, 3.0),
    "ints": (1, 2, 3),
    "list": [0.5, 0.25, 4.0],
    "ndarray": np.array([1e-3, 2e-3, 3e-3]),
    "long": (1.0, 2.0, 3.0, 4.0),
    "zero": (0.0, 1.0, 1.0),
    "negative": (-1.0, 1.0, -2.0),
    "nan": (float("nan"), 1.0, 1.0),
    "inf": (1.0, float("inf"), 1.0),
    "float32": tuple(np.float32(v) for v in (1, 2, 3)),
    "huge": (1e300, 1e300, 1e300),
}
verts = (15, 4, 5, 8, 30, 3, 2, 1, 0, -1, True, 15.0, np.int64(6), None, "5")
for dlabel, dim in dims.items():
    for vert in verts:
        kw = {"vert": vert}
        if dim is not None:
            kw["dimension"] = dim
        attempt(f"direct {dlabel} vert={vert!r}", lambda kw=kw: make_Ellipsoid(**kw),
                show=(dlabel, vert) == ("ellipsoid", 4))

# explicit look at a small mesh (values, not only hashes)
m = make_Ellipsoid("plotly-dict", (1.0, 2.0, 3.0), 5)
for key in "xyz":
    print(key, [float(v).hex() for v in m[key]])
for key in "ijk":
    print(key, m[key].dtype, m[key].tolist())

rot = R.from_euler("xyz", [(10, 20, 30)], degrees=True)
for backend in ("generic", "plotly", "matplotlib", "plotly-dict", None):
    attempt(
        f"backend {backend}",
        lambda: make_Ellipsoid(backend, (1, 2, 3), 9, position=(1, 2, 3), orientation=rot,
                               show=False, scale=2, opacity=0.5, type="x"),
    )
attempt("public api", lambda: model3d.make_Ellipsoid(dimension=(1, 2, 3), vert=12, color="red"))

errs = {
    "dimension None": dict(dimension=None),
    "dimension scalar": dict(dimension=2.0),
    "too short": dict(dimension=(1, 2)),
    "empty": dict(dimension=()),
    "str entry x": dict(dimension=("a", 2, 3)),
    "str entry y": dict(dimension=(1, "b", 3)),
    "str entry z": dict(dimension=(1, 2, "c")),
    "str entries y z": dict(dimension=(1, "b", "c")),
    "None entry": dict(dimension=(1, None, 3)),
    "None z, short vert": dict(dimension=(1, 2, None), vert=2),
    "list entry": dict(dimension=([1, 2], 2, 3)),
    "array entry vert": dict(dimension=(np.arange(6.0), 2, 3), vert=6),
    "array entry mismatch": dict(dimension=(np.arange(4.0), 2, 3), vert=6),
    "2d dimension": dict(dimension=np.ones((3, 3)), vert=3),
    "2d dimension, vert 6": dict(dimension=np.ones((3, 6)), vert=6),
    "dict dimension": dict(dimension={0: 1.0, 1: 2.0, 2: 3.0}),
    "dict dimension short": dict(dimension={0: 1.0, 1: 2.0}),
    "vert nan": dict(vert=float("nan")),
    "vert list": dict(vert=[5]),
    "short dim and vert 2": dict(dimension=(1, 2), vert=2),
    "bad position": dict(position=(1, 2)),
    "bad orientation": dict(orientation="x"),
    "complex": dict(dimension=(1j, 2, 3)),
}
for label, kw in errs.items():
    attempt(f"error {label}", lambda kw=kw: make_Ellipsoid(**kw))

# full models with Sphere magnets (drawn through make_Ellipsoid)
sph = magpy.magnet.Sphere(polarization=(0, 0, 1), diameter=2, position=[(0, 0, 0), (1, 1, 1), (2, 0, 1)])
sph.rotate_from_angax([0, 30, 60], "y", start=0)
sph2 = magpy.magnet.Sphere(polarization=(1, 0, 0), diameter=0.5, position=(4, 0, 0))
sph2.style.magnetization.color.mode = "tricycle"
sph3 = magpy.magnet.Sphere(polarization=(1, 1, 0), diameter=1, position=(0, 4, 0), style_magnetization_mode="arrow")
coll = magpy.Collection(sph2, sph3)
coll.move([(0, 0, 0), (0, 0, 2)], start=0)
objs = [sph, coll]


def snapshot():
    return canon([(o.position, o.orientation, o.style.as_dict()) for o in [*objs, *coll.children]])


before = snapshot()
for backend in ("plotly", "matplotlib"):
    for frames in (None, [0], 2):
        for units in (None, "cm"):
            kw = {}
            if frames is not None:
                kw["style_path_frames"] = frames
            if units is not None:
                kw["units_length"] = units

            def full():
                if backend == "plotly":
                    fig = magpy.show(*objs, backend="plotly", return_fig=True, **kw)
                    return [
                        {k: (np.array(v) if isinstance(v, (list, tuple, np.ndarray)) and k in "xyzijk" else str(v))
                         for k, v in tr.to_plotly_json().items()}
                        for tr in fig.data
                    ] + [str(fig.layout.scene.xaxis.title.text), str(fig.layout.scene.xaxis.range)]
                import matplotlib

                matplotlib.use("Agg")
                import matplotlib.pyplot as plt

                fig = plt.figure()
                ax = fig.add_subplot(projection="3d")
                magpy.show(*objs, canvas=ax, backend="matplotlib", **kw)
                out = [("coll", np.array(getattr(c, "_vec", None))) for c in ax.collections]
                out += [("line", [np.array(d) for d in l.get_data_3d()]) for l in ax.lines]
                out += [ax.get_xlabel(), ax.get_xlim()]
                plt.close(fig)
                return out

            attempt(f"show {backend} frames={frames} units={units}", full)
print("objects unchanged:", before == snapshot())
