import os, sys; sys.path.insert(0, os.getcwd())
import hashlib
import re
import warnings

import numpy as np
from scipy.spatial.transform import Rotation as R

import magpylib as magpy
from magpylib._src.obj_classes.class_BaseTransform import apply_rotation

warnings.simplefilter("ignore")


def sha(a):
    a = np.ascontiguousarray(np.asarray(a, dtype=float))
    return f"{a.shape}:{hashlib.sha256(a.tobytes()).hexdigest()[:12]}:{np.sum(a):.10e}"


def state(objs):
    return "\n".join(
        f"     {type(o).__name__} pos {sha(o._position)} ori {sha(o._orientation.as_quat())}"
        for o in objs
    )


def run(name, objs, func):
    pos_ids = [o._position for o in objs]
    try:
        res = func()
        print(f"{name}: ok returns-first-obj={res is objs[0]}")
    except Exception as err:  # pylint: disable=broad-except
        msg = re.sub(r"id=\d+|0x[0-9a-f]+", "#", str(err))
        print(f"{name}: EXC {type(err).__name__}: {msg[:100]!r}")
    print("     same position array kept:", [o._position is p for o, p in zip(objs, pos_ids)])
    print(state(objs))


def sensor(n=1):
    s = magpy.Sensor(position=[(1 + 0.1 * i, 2, 3) for i in range(n)])
    return s


rz = R.from_euler("z", 30, degrees=True)
rvec = R.from_rotvec([[0.1, 0.2, 0.3], [0.5, -0.4, 0.3], [1.0, 2.0, -0.5]])
anchors = {
    "None": None,
    "0": 0,
    "vec": (0.5, -0.5, 1.0),
    "path2": [(0, 0, 1), (0, 1, 0)],
    "path4": [(0, 0, 1), (0, 1, 0), (1, 0, 0), (1, 1, 1)],
}

# single objects: scalar / vector rotation x anchors x start
for rname, rot in (("scalar", rz), ("vector", rvec), ("None", None), ("len1", rvec[:1])):
    for aname, anc in anchors.items():
        for start in ("auto", 0, 1, -1, -7, 6):
            s = sensor(3)
            s.rotate_from_angax([5, 10, 15], "x", start=0)
            run(
                f"rot={rname} anchor={aname} start={start}",
                [s],
                lambda s=s, rot=rot, anc=anc, start=start: s.rotate(rot, anchor=anc, start=start),
            )


# collections: compound rotation uses parent_path
def collection():
    c1 = magpy.magnet.Cuboid(polarization=(1, 2, 3), dimension=(1, 1, 1), position=(1, 0, 0))
    c2 = magpy.current.Circle(current=1, diameter=1, position=[(0, 1, 0), (0, 2, 0)])
    inner = magpy.Collection(c2, position=(0, 0, 1))
    outer = magpy.Collection(c1, inner, position=[(3, 3, 3), (4, 4, 4), (5, 5, 5)])
    return [outer, inner, c1, c2]


for rname, rot in (("scalar", rz), ("vector", rvec)):
    for aname in ("None", "0", "path2"):
        for start in ("auto", 0, -1, -5, 2):
            objs = collection()
            run(
                f"coll rot={rname} anchor={aname} start={start}",
                objs,
                lambda objs=objs, rot=rot, aname=aname, start=start: objs[0].rotate(
                    rot, anchor=anchors[aname], start=start
                ),
            )

# orientation setter of a collection goes through child.rotate(anchor=path, start=0)
objs = collection()
run("coll orientation setter", objs, lambda: setattr(objs[0], "orientation", rvec))

# direct apply_rotation calls with parent_path
for start in ("auto", 0, 1, -4):
    s = sensor(2)
    run(
        f"apply_rotation parent_path start={start}",
        [s],
        lambda s=s, start=start: apply_rotation(
            s, rvec, start=start, parent_path=np.array([[1.0, 1, 1], [2, 2, 2]])
        ),
    )

# error paths
s = sensor(2)
run("err bad rotation", [s], lambda: s.rotate((1, 2, 3)))
run("err bad anchor", [s], lambda: s.rotate(rz, anchor=(1, 2)))
run("err bad anchor str", [s], lambda: s.rotate(rz, anchor="x"))
run("err bad start", [s], lambda: s.rotate(rz, start=1.5))
run("err bad start str", [s], lambda: s.rotate(rz, start="begin"))
run(
    "err bad parent_path shape (fails at anchor subtraction)",
    [s],
    lambda: apply_rotation(s, rz, parent_path=np.zeros((2, 2))),
)
run(
    "err bad parent_path shape vector",
    [s],
    lambda: apply_rotation(s, rvec, parent_path=np.zeros((2, 2))),
)
s = sensor(2)
s._position = np.array([[1, 2, 3], [4, 5, 6]])  # integer path: in-place float ops fail
run("err int position with anchor", [s], lambda: s.rotate(rz, anchor=(0.5, 0, 0)))
run("int position without anchor", [s], lambda: s.rotate(rz))
