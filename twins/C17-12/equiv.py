import os, sys; sys.path.insert(0, os.getcwd())
import re
import warnings

import numpy as np

import magpylib as magpy

warnings.simplefilter("ignore")


def run(f):
    try:
        r = f()
        out = f"RET {type(r).__name__} {r!r}"
    except Exception as e:  # pylint: disable=broad-except
        out = f"EXC {type(e).__name__}: {e} | cause={type(e.__cause__).__name__}"
    return re.sub(r"0x[0-9a-f]+|id=\d+", "ADDR", out)


def emit(*args):
    print(re.sub(r"0x[0-9a-f]+|id=\d+", "ADDR", " ".join(str(a) for a in args)))


class MyStr(str):
    """plain str subclass: must be accepted and stored as the very same object"""


class Chameleon:
    """hashable object equal to 'left'"""

    def __hash__(self):
        return hash("left")

    def __eq__(self, other):
        return other == "left"

    def __repr__(self):
        return "Chameleon()"


class NoHash:
    __hash__ = None

    def __repr__(self):
        return "NoHash()"


class BadHash:
    def __hash__(self):
        raise RuntimeError("hash exploded")

    def __repr__(self):
        return "BadHash()"


values = [
    "right", "left", "Right", "LEFT", "", " right", "right ", "r", "up", b"right", None, 0, 1, True, False, 1.5, np.nan,
    ("right",), ["right"], {"right"}, frozenset({"right"}), {"right": 1}, np.array(["right"]), np.array("right"), np.str_("left"),
    np.str_("nope"), MyStr("right"), MyStr("wrong"), Chameleon(), NoHash(), BadHash(), object, ("right", "left"), [],
    bytearray(b"left"), 3 + 1j, slice(None),
]

# 1) constructor
for v in values:
    emit("ctor", repr(v), "->", run(lambda: magpy.Sensor(handedness=v).handedness))

# 2) setter: readback / old value kept after rejection / identity of the stored object
for start in ("right", "left"):
    for v in values:
        s = magpy.Sensor(handedness=start)
        res = run(lambda: setattr(s, "handedness", v))
        emit("set", start, repr(v), "->", res, "| now", repr(s.handedness), "| same object", s.handedness is v, s._handedness is s.handedness)

# 3) positional constructor argument, copy(), default
emit("positional", run(lambda: magpy.Sensor((0, 0, 0), None, None, "left").handedness))
emit("positional bad", run(lambda: magpy.Sensor((0, 0, 0), None, None, "bad").handedness))
emit("default", magpy.Sensor().handedness)
s = magpy.Sensor(handedness="left")
emit("copy", s.copy().handedness, run(lambda: s.copy(handedness="right").handedness), run(lambda: s.copy(handedness="x").handedness))

# 4) error precedence in the constructor: pixel is checked before handedness, handedness before position
emit("prec1", run(lambda: magpy.Sensor(pixel="bad", handedness="bad")))
emit("prec2", run(lambda: magpy.Sensor(position="bad", handedness="bad")))
emit("prec3", run(lambda: magpy.Sensor(handedness="bad", style_color=3.3)))

# 5) downstream use: left-handed sensors flip the x-component
src = magpy.magnet.Cuboid(dimension=(1, 2, 3), polarization=(0.1, 0.2, 0.3))
for h in ("right", "left", MyStr("left"), np.str_("left"), Chameleon()):
    sens = magpy.Sensor(position=(2, 3, 4), pixel=[(0, 0, 0), (0.1, 0, 0)], handedness=h)
    emit("getB", repr(h), np.round(sens.getB(src), 12).tolist(), np.round(magpy.getH(src, sens), 6).tolist())

# 6) the validator lives next to the other input checks: exception class identity
from magpylib._src.exceptions import MagpylibBadUserInput

try:
    magpy.Sensor(handedness="bad")
except Exception as e:  # pylint: disable=broad-except
    emit("exc class", type(e) is MagpylibBadUserInput, type(e).__module__, e.args)
