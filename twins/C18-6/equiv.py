import os, sys; sys.path.insert(0, os.getcwd())

# Exercises the parent detachment around the deep copy in BaseGeo.copy:
# all kinds of objects with / without parent, nested trees, failing deep copies,
# deep copies that meddle with the tree while they run, `parent=` keyword.
import re

import numpy as np

import magpylib as magpy
from magpylib._src.exceptions import MagpylibBadUserInput


def clean(txt):
    return re.sub(r"id=\d+", "id=#", str(txt))


def r(a):
    return np.round(np.asarray(a, dtype=float), 10).tolist()


def tree(c):
    return clean(c.describe(format="type+label", return_string=True)).split("\n")


def links_ok(c):
    """parent/children links consistent in the whole subtree"""
    ok = True
    for ch in c.children:
        ok = ok and ch._parent is c
        if isinstance(ch, magpy.Collection):
            ok = ok and links_ok(ch)
    return ok


def make_objs():
    verts = [(0, 0, 0), (1, 0, 0), (0, 1, 0), (0, 0, 1)]
    return [
        magpy.magnet.Cuboid(polarization=(0.1, 0.2, 0.3), dimension=(1, 2, 3)),
        magpy.magnet.Cylinder(polarization=(0, 0, 1), dimension=(1, 2), style_label="cyl"),
        magpy.magnet.CylinderSegment(polarization=(0, 1, 0), dimension=(1, 2, 1, 0, 90)),
        magpy.magnet.Sphere(polarization=(1, 2, 3), diameter=1, style={"color": "g", "label": "sp_1"}),
        magpy.magnet.Tetrahedron(polarization=(1, 0, 0), vertices=verts),
        magpy.misc.Triangle(polarization=(0, 0, 1), vertices=verts[:3], style_label="tri_"),
        magpy.current.Circle(current=2.5, diameter=1.5, position=[(0, 0, 0), (1, 1, 1)]),
        magpy.current.Polyline(current=1.5, vertices=[(0, 0, 0), (1, 1, 1), (2, 0, 1)]),
        magpy.misc.Dipole(moment=(1, 2, 3), style_color="r"),
        magpy.misc.CustomSource(field_func=None, style_label="custom"),
        magpy.Sensor(pixel=[(0, 0, 0), (0.1, 0, 0)], style_label="s_09"),
        magpy.Collection(
            magpy.Sensor(style_label="in_s"),
            magpy.Collection(magpy.misc.Dipole(moment=(1, 0, 0)), style_label="in_c"),
        ),
    ]


obs = np.array([(0.3, 0.4, 2.5), (-1.2, 0.7, 1.9)])

print("== copies with / without parent")
for with_parent in (False, True):
    for o in make_objs():
        o.rotate_from_angax([10, 20, 30], "y", anchor=(1, 0, 0), start=0)
        sib = magpy.Sensor(style_label="sib")
        par = magpy.Collection(sib, o, style_label="par") if with_parent else None
        grand = magpy.Collection(par, style_label="grand") if with_parent else None
        dict_keys_before = list(o.__dict__)
        c = o.copy()
        line = [
            type(c).__name__,
            c.parent is None,
            c._parent is None,
            o.parent is par,
            o._parent is par,
            list(o.__dict__) == dict_keys_before,
            list(c.__dict__) == list(o.__dict__) or sorted(set(c.__dict__) ^ set(o.__dict__)),
            (par is None) or [x is y for x, y in zip(par.children, (sib, o))],
            (par is None) or (par.parent is grand and links_ok(grand)),
            c is not o,
            c._position is not o._position,
            r(c._position),
            r(c._orientation.as_quat()),
            c.style.label,
            o._style_kwargs,
            getattr(o, "_style", None) is None,
        ]
        if isinstance(o, magpy.Collection):
            line += [links_ok(c), links_ok(o), tree(c), tree(o)]
            line.append([a is not b for a, b in zip(c.children_all, o.children_all)])
        elif not isinstance(o, (magpy.Sensor, magpy.misc.CustomSource)):
            line.append(r(c.getB(obs)) == r(o.getB(obs)))
        print(line)
        # later mutations stay invisible on the other side
        c.move((1, 2, 3))
        c.style.color = "blue"
        o.rotate_from_angax(45, "z")
        print("   ", r(c._position[-1]), r(o._position[-1]), c.style.color, o.style.color,
              o.parent is par, c.parent is None)

print("== copy of inner members of a deep tree")
s1, s2, s3 = (magpy.Sensor(style_label=f"s{i}") for i in (1, 2, 3))
d1 = magpy.misc.Dipole(moment=(1, 2, 3), style_label="d1")
low = magpy.Collection(s1, d1, style_label="low")
mid = magpy.Collection(low, s2, style_label="mid")
top = magpy.Collection(mid, s3, style_label="top")
for member in (s1, d1, low, mid, top, s3):
    before = tree(top)
    c = member.copy()
    print(type(c).__name__, c.style.label, c.parent is None, member.parent is not None or member is top,
          tree(top) == before, links_ok(top), not isinstance(c, magpy.Collection) or links_ok(c),
          not isinstance(c, magpy.Collection) or tree(c))
cm = mid.copy(position=(5, 5, 5))
cm[0].add(magpy.Sensor(style_label="extra"))
cm[0][0].style.label = "changed"
print(r(cm.position), r(cm[0].position), r(mid.position), r(low.position), tree(cm), tree(top))

print("== failing deep copy")


class Bomb:
    """attribute whose deep copy fails"""

    def __init__(self, exc):
        self.exc = exc

    def __deepcopy__(self, memo):
        raise self.exc("boom")


for exc in (ValueError, KeyboardInterrupt, RuntimeError, StopIteration, GeneratorExit, SystemExit):
    for with_parent in (False, True):
        o = magpy.Sensor(style_label="x")
        par = magpy.Collection(o) if with_parent else None
        o.extra = Bomb(exc)
        try:
            o.copy()
            res = "no error"
        except BaseException as e:  # noqa: B036
            res = type(e).__name__ + ":" + str(e)
        print(exc.__name__, with_parent, res, o.parent is par, o._parent is par,
              par is None or par.children == [o])

print("== deep copy that changes the tree while it runs")


class Meddler:
    """attribute whose deep copy changes the parent of its owner"""

    def __init__(self, action):
        self.action = action

    def __deepcopy__(self, memo):
        self.action()
        return "meddled"


for with_parent in (False, True):
    for kind in ("add", "private", "detach"):
        o = magpy.Sensor(style_label="x")
        par = magpy.Collection(o, style_label="par") if with_parent else None
        other = magpy.Collection(style_label="other")
        if kind == "add":
            o.extra = Meddler(lambda o=o, other=other: other.add(o))
        elif kind == "private":
            o.extra = Meddler(lambda o=o, other=other: setattr(o, "_parent", other))
        else:
            o.extra = Meddler(lambda o=o: setattr(o, "_parent", None))
        try:
            c = o.copy()
            res = [c.extra, c.parent is None]
        except Exception as e:
            res = type(e).__name__ + ":" + clean(e)
        print(with_parent, kind, res, o._parent is par, o._parent is other, o._parent is None,
              [x is o for x in other.children], par is None or [x is o for x in par.children])

print("== copy with parent keyword")
o = magpy.Sensor()
p1 = magpy.Collection(o)
p2 = magpy.Collection()
c = o.copy(parent=p2)
print(c.parent is p2, p2.children == [c], o.parent is p1, p1.children == [o])
c = o.copy(parent=None)
print(c.parent is None, o.parent is p1)
c = o.copy(parent=p1)
print(c.parent is p1, [x is y for x, y in zip(p1.children, (o, c))], o.parent is p1)
for bad in ("bad", 1, o):
    try:
        o.copy(parent=bad)
    except MagpylibBadUserInput as e:
        print(type(e).__name__, clean(e), o.parent is p1, len(p1), len(p2))

print("== objects that lost their private attribute")
o = magpy.Sensor()
del o._parent
try:
    o.copy()
except Exception as e:
    print(type(e).__name__, e)
