import os, sys; sys.path.insert(0, os.getcwd())

# Exercises Model3d._validate_data (style.py): directly, through `add_trace`, the
# `data` setter, style updates, and through `copy()` of objects that carry extra
# 3d-model traces (with style keyword overrides, lazily and eagerly created styles).
import re

import magpylib as magpy
from magpylib._src.style import Model3d, Trace3d


def clean(txt):
    txt = re.sub(r"id=\d+", "id=#", str(txt))
    txt = re.sub(r" at 0x[0-9a-f]+", " at 0x#", txt)
    return txt


def upd_ok():
    return {"constructor": "Mesh3d", "scale": 2}


def upd_bad_keys():
    return {"nokey": 1}


def upd_not_dict():
    return 5


class CallableTrace(Trace3d):
    """a Trace3d that is also callable: must be taken as a trace, not as updatefunc"""

    def __call__(self):
        return {"scale": 7}


def trace_digest(t):
    d = t.as_dict()
    d["updatefunc"] = getattr(d["updatefunc"], "__name__", repr(d["updatefunc"]))
    return type(t).__name__, sorted(d.items(), key=lambda kv: kv[0])


def run(label, func):
    try:
        res = func()
    except BaseException as e:  # noqa: B036
        res = type(e).__name__ + ":" + clean(e).split("\n")[0][:110]
    print(label, res)


t_inst = Trace3d(backend="matplotlib", constructor="plot", args=(1, 2), kwargs={"a": 1})
t_call = CallableTrace(constructor="callme")
d_trace = {"backend": "plotly", "constructor": "Scatter3d", "kwargs": {"x": [1], "y": [2], "z": [3]}}

INPUTS = [
    ("none", None),
    ("empty list", []),
    ("empty tuple", ()),
    ("single instance", t_inst),
    ("single dict", d_trace),
    ("single callable", upd_ok),
    ("callable trace", t_call),
    ("list mixed", [t_inst, d_trace, upd_ok, t_call, None]),
    ("tuple mixed", (d_trace, upd_ok)),
    ("nested list", [[d_trace]]),
    ("bad callable keys", [d_trace, upd_bad_keys]),
    ("bad callable output", upd_not_dict),
    ("bad type int", 3),
    ("bad type str", "trace"),
    ("bad dict key", {"nokey": 3}),
    ("bad dict value", {"scale": -1}),
    ("class as callable", dict),
    ("lambda", lambda: {"show": False}),
]

print("== _validate_data directly")
for label, inp in INPUTS:
    for kw in ({}, {"scale": 3}, {"show": False, "backend": "pyvista"}, {"nokey": 1}, {"scale": 0}):
        m = Model3d()

        def call(m=m, inp=inp, kw=kw):
            out = m._validate_data(inp, **kw)
            same = [o is i for o, i in zip(out, inp)] if isinstance(inp, (list, tuple)) else [out[0] is inp] if out else []
            return [type(out).__name__, same, [trace_digest(t) for t in out]]

        run(f"{label} {kw}", call)
        # a Trace3d instance handed in is updated in place: reset it
        t_inst.update(scale=1, show=True, backend="matplotlib")
        t_call.update(scale=1, show=True, backend="generic")

print("== data setter / add_trace / constructor")
for label, inp in INPUTS:
    run(f"setter {label}", lambda inp=inp: [trace_digest(t) for t in Model3d(data=inp).data])

    def add(inp=inp):
        m = Model3d(data=[{"constructor": "first"}])
        lst = m.data
        out = m.add_trace(inp, scale=4)
        return [out is m, m.data is lst, [trace_digest(t) for t in m.data]]

    run(f"add_trace {label}", add)
    t_inst.update(scale=1, show=True, backend="matplotlib")
    t_call.update(scale=1, show=True, backend="generic")
run("add_trace kwargs only", lambda: [trace_digest(t) for t in Model3d().add_trace(constructor="c", backend="plotly").data])
run("add_trace bad kw", lambda: Model3d().add_trace(d_trace, nokey=2))

print("== objects with traces: copy, overrides, independence")


def model_digest(obj):
    return [obj.style.model3d.showdefault, [trace_digest(t) for t in obj.style.model3d.data]]


for lazy in (True, False):
    for with_parent in (False, True):
        src = magpy.magnet.Cuboid(
            polarization=(0, 0, 1),
            dimension=(1, 1, 1),
            style_label="cube",
            style_model3d_data=[dict(d_trace), upd_ok],
            style_model3d_showdefault=False,
        )
        if not lazy:
            src.style.model3d.add_trace(Trace3d(constructor="added"))
        par = magpy.Collection(src) if with_parent else None
        c1 = src.copy()
        c2 = src.copy(style_model3d_showdefault=True, style_color="r")
        c3 = src.copy(style_model3d_data=[{"constructor": "override"}, upd_ok])
        c4 = src.copy(style={"model3d": {"data": []}, "label": "given"})
        for k, c in enumerate((c1, c2, c3, c4)):
            print(lazy, with_parent, k, c.style.label, c.style.color, model_digest(c), c.parent is None)
        print("   orig", src.style.label, src.style.color, model_digest(src), src.parent is par)
        shared = [
            any(a is b for a in c.style.model3d.data for b in src.style.model3d.data) for c in (c1, c2, c3, c4)
        ]
        shared_kwargs = [
            any(a.kwargs is b.kwargs and a.kwargs is not None for a in c.style.model3d.data for b in src.style.model3d.data)
            for c in (c1, c2, c3, c4)
        ]
        print("   shared", shared, shared_kwargs)
        # later changes on either side
        c1.style.model3d.data[0].kwargs["x"].append(99)
        c1.style.model3d.add_trace(constructor="late")
        src.style.model3d.data[0].scale = 5
        src.style.model3d.data = src.style.model3d.data[:1]
        print("   after", model_digest(c1), model_digest(src), model_digest(c2))
        for bad in ({"style_model3d_data": 3}, {"style_model3d_data": [upd_bad_keys]}, {"style_model3d_nokey": 1}):
            run(f"   bad override {sorted(bad)}", lambda bad=bad: src.copy(**bad))
        print("   orig after bad", src.style.label, model_digest(src), src.parent is par, par is None or len(par))

print("== style update keeps / rebuilds traces")
s = magpy.Sensor(style_model3d_data=[t_inst, upd_ok])
first = s.style.model3d.data
s.style.update(model3d_showdefault=False)
print(model_digest(s), [a is b for a, b in zip(first, s.style.model3d.data)], t_inst in s.style.model3d.data)
