import os, sys; sys.path.insert(0, os.getcwd())
import hashlib
import json
import re
import warnings

import numpy as np
from scipy.spatial.transform import Rotation as R

import magpylib as magpy
from magpylib._src.display.traces_generic import get_frames
from magpylib._src.display.traces_utility import DEFAULT_ROW_COL_PARAMS
from magpylib._src.display.traces_utility import process_show_input_objs

warnings.simplefilter("ignore")


def norm(o):
    """deterministic, JSON-able view of nested trace structures (keeps dict key order)"""
    if isinstance(o, dict):
        return ["dict", [[str(k), norm(v)] for k, v in o.items()]]
    if isinstance(o, (list, tuple)):
        return [type(o).__name__, [norm(v) for v in o]]
    if isinstance(o, np.ndarray):
        if o.dtype.kind in "fiu":
            return ["nd", str(o.dtype.kind), list(o.shape), np.round(o.astype(float), 9).tolist()]
        return ["nd", str(o.dtype.kind), list(o.shape), [norm(v) for v in o.ravel().tolist()]]
    if isinstance(o, (bool, np.bool_)):
        return bool(o)
    if isinstance(o, (float, np.floating)):
        return ["f", round(float(o), 9)]
    if isinstance(o, (int, np.integer)):
        return ["i", int(o)]
    if o is None:
        return None
    if isinstance(o, str):
        return re.sub(r"id=\d+|0x[0-9a-f]+", "#", o)
    if isinstance(o, R):
        return ["rot", np.round(o.as_quat(), 9).tolist()]
    return re.sub(r"id=\d+|0x[0-9a-f]+", "#", repr(o))


def digest(label, o):
    s = json.dumps(norm(o))
    print(f"{label}: {hashlib.sha256(s.encode()).hexdigest()[:16]} len={len(s)}")
    return s


def attempt(label, func):
    try:
        res = func()
    except Exception as err:  # pylint: disable=broad-except
        msg = re.sub(r"id=\d+|0x[0-9a-f]+", "#", str(err))
        print(f"{label}: EXC {type(err).__name__}: {msg}")
        return None
    digest(label, res)
    return res


def model(*objs, backend="plotly", colorgrad=True, **kw):
    objects, *_ = process_show_input_objs(
        objs, **{k: v for k, v in kw.items() if k in DEFAULT_ROW_COL_PARAMS})
    style_kw = {k: v for k, v in kw.items() if k.startswith("style")}
    kw = {k: v for k, v in kw.items() if k not in DEFAULT_ROW_COL_PARAMS and k not in style_kw}
    return get_frames(objects, backend=backend, supports_colorgradient=colorgrad,
                      style_kwargs=style_kw, **kw)


def state(objs):
    return json.dumps(norm([[o.style.as_dict(), o.position, o.orientation] for o in objs]
                           + [magpy.defaults.as_dict()]))


# ---------------------------------------------------------------- twin4-3
from magpylib._src.display.traces_core import make_Polyline, make_Circle
from magpylib._src.style import get_style
from magpylib._src.defaults.defaults_classes import default_settings


def resolved(obj, **kw):
    """give the object the fully resolved style show() would draw it with"""
    obj._style = get_style(obj, default_settings, **kw)  # pylint: disable=protected-access
    return obj


VERTS = [(0, 0, 0), (1, 0, 0), (1, 2, 0), (1, 2, 0), (1, 2, -3)]


def snapshot(o):
    return json.dumps(norm([o.style.as_dict(), o.position, o.orientation, o.current,
                            getattr(o, "vertices", None), getattr(o, "diameter", None)]))


print("== make_Polyline / make_Circle direct")
for maker, cls, geo in ((make_Polyline, magpy.current.Polyline, {"vertices": VERTS}),
                        (make_Circle, magpy.current.Circle, {"diameter": 3})):
    for cur in (1.5, -2, 0, None):
        for a_show in (True, False):
            for l_show in (True, False):
                for sizemode in ("scaled", "absolute"):
                    for extra in ({}, {"style_arrow_color": "red"}, {"style_line_color": "green", "style_color": "blue"},
                                  {"style_arrow_offset": 0.2, "style_arrow_size": 3, "style_arrow_width": 5,
                                   "style_line_width": 7, "style_line_style": "dotted", "style_arrow_style": "dashed"}):
                        o = cls(current=cur, position=[(0, 0, 0), (1, 1, 1)], **geo)
                        resolved(o, style_arrow_show=a_show, style_line_show=l_show, style_arrow_sizemode=sizemode, **extra)
                        snap = snapshot(o)
                        attempt(f"{cls.__name__} cur={cur} arrow={a_show} line={l_show} {sizemode} {extra}", lambda: maker(o))
                        if snap != snapshot(o):
                            print("  OBJECT CHANGED")
    o = resolved(cls(current=1, **geo))
    attempt(f"{cls.__name__} kwargs", lambda: maker(o, legendgroup="lg", name="nm", opacity=0.3))
    attempt(f"{cls.__name__} kwargs override", lambda: maker(
        o, x=[1], line_width=99, mode="markers", type="other", color="c", coords=1, line_style=2, kwargs=3))
    res = maker(o, legendgroup="lg")
    print("  result types", type(res).__name__, [type(t).__name__ for t in res], [list(t) for t in res],
          res[0] is not res[1])
    attempt(f"{cls.__name__} get_trace", lambda: o.get_trace(legendgroup="a"))
    attempt(f"{cls.__name__} unresolved style", lambda: maker(cls(current=1, **geo)))
    o = resolved(cls(current=1))
    attempt(f"{cls.__name__} null dim", lambda: maker(o, name="n"))
    attempt(f"{cls.__name__} err no style", lambda: maker(object()))

print("== fake styles: error precedence")


class NS:
    def __init__(self, **kw):
        self.__dict__.update(kw)


def fake(arrow=None, line=None, vertices=np.array(VERTS, dtype=float), current=1, diameter=2, **style):
    full_a = {"show": True, "color": None, "size": 1, "offset": 0.5, "sizemode": "scaled", "width": 2, "style": "solid"}
    full_l = {"show": True, "color": None, "width": 1, "style": "dash"}
    st = NS(color="k", **style)
    if arrow is not False:
        st.arrow = NS(**{k: v for k, v in {**full_a, **(arrow or {})}.items() if v != "DEL"})
    if line is not False:
        st.line = NS(**{k: v for k, v in {**full_l, **(line or {})}.items() if v != "DEL"})
    return NS(style=st, vertices=vertices, current=current, diameter=diameter)


cases = {
    "ok": fake(),
    "no arrow attr": fake(arrow=False),
    "no line attr": fake(line=False),
    "no line attr, arrow hidden": fake(line=False, arrow={"show": False}),
    "arrow no show": fake(arrow={"show": "DEL"}),
    "arrow no color": fake(arrow={"color": "DEL"}),
    "arrow no size": fake(arrow={"size": "DEL"}),
    "arrow no offset": fake(arrow={"offset": "DEL"}),
    "arrow no sizemode": fake(arrow={"sizemode": "DEL"}),
    "arrow no width": fake(arrow={"width": "DEL"}),
    "arrow no style": fake(arrow={"style": "DEL"}),
    "arrow no width + no line": fake(arrow={"width": "DEL"}, line=False),
    "line no width": fake(line={"width": "DEL"}),
    "line no style": fake(line={"style": "DEL"}),
    "line no color": fake(line={"color": "DEL"}),
    "hidden arrow broken": fake(arrow={"show": 0, "size": "DEL", "width": "DEL"}),
    "hidden line broken": fake(line={"show": "", "width": "DEL"}),
    "arrow size None": fake(arrow={"size": None}),
    "arrow offset None": fake(arrow={"offset": None}),
    "vertices 2 cols": fake(vertices=np.ones((4, 2))),
    "vertices 2 cols no arrow": fake(vertices=np.ones((4, 2)), arrow={"show": False}),
    "vertices one": fake(vertices=np.ones((1, 3))),
    "vertices one no arrow": fake(vertices=np.ones((1, 3)), arrow={"show": False}),
    "vertices list": fake(vertices=VERTS),
    "vertices list no arrow": fake(vertices=VERTS, arrow={"show": False}),
    "current str": fake(current="a"),
    "colors": fake(arrow={"color": "ac"}, line={"color": "lc"}),
    "show truthy": fake(arrow={"show": "yes"}, line={"show": 2}),
}
for label, o in cases.items():
    attempt(f"polyline fake {label}", lambda: make_Polyline(o, legendgroup="g"))
    attempt(f"circle fake {label}", lambda: make_Circle(o, legendgroup="g"))

print("== full models")
l1 = magpy.current.Polyline(current=1, vertices=VERTS, position=[(0, i, 0) for i in range(3)])
l2 = magpy.current.Polyline(current=-1, vertices=[(0, 0, 0), (0, 0, 0), (0, 0, 2)])
l2.rotate_from_angax([10, 20, 30], "y")
l3 = magpy.current.Polyline(current=1)
c1 = magpy.current.Circle(current=2, diameter=2, position=[(0, i, 1) for i in range(3)])
c2 = magpy.current.Circle(current=-2, diameter=1).rotate_from_angax([10, 20, 30], "x")
cub = magpy.magnet.Cuboid(polarization=(0, 0, 1), dimension=(1, 1, 1), position=(4, 4, 4))
objs = [l1, l2, l3, c1, c2, cub, magpy.Collection(l1.copy(), c1.copy())]
before = state(objs)
for backend, cg in (("plotly", True), ("matplotlib", False)):
    for frames in (1, 2, [0, 2]):
        for kw in ({}, {"style_arrow_show": False}, {"style_line_show": False},
                   {"style_arrow_sizemode": "absolute", "style_arrow_size": 0.2, "style_arrow_color": "red"},
                   {"units_length": "mm", "style_arrow_offset": 0.9, "style_line_width": 4}):
            attempt(f"model {backend} frames={frames} {kw}", lambda: model(*objs, backend=backend, colorgrad=cg, style_path_frames=frames, **kw))
attempt("model animation", lambda: model(l1, c1, animation=True))
print("objects/defaults unchanged:", before == state(objs))
fig = magpy.show(*objs, backend="plotly", return_fig=True, style_path_frames=1)
digest("plotly fig", fig.to_dict()["data"])
import matplotlib
matplotlib.use("Agg")
mfig = magpy.show(*objs, backend="matplotlib", return_fig=True, style_path_frames=2)
ax = mfig.axes[0]
digest("matplotlib lines", [np.array(l.get_data_3d()) for l in ax.lines])
print("objects/defaults unchanged:", before == state(objs))
