import os, sys; sys.path.insert(0, os.getcwd())
import hashlib
import re
import warnings

import numpy as np
from scipy.spatial.transform import Rotation as R

import magpylib as magpy

warnings.simplefilter("ignore")


def h(x):
    x = np.ascontiguousarray(np.asarray(x))
    return f"{x.shape} {hashlib.sha1(x.tobytes()).hexdigest()[:16]}"


def dig(x):
    x = np.asarray(x)
    return f"{h(x)} {np.round(x.astype(float), 10).ravel()[:6].tolist()}"


def state(objs):
    """bit-exact digest of the path state (and identity of the orientation objects)"""
    return [(h(o._position), h(o._orientation.as_quat()), len(o._position), len(o._orientation)) for o in objs]


def run(name, objs, fn):
    before = state(objs)
    ids_before = [id(o._orientation) for o in objs]
    try:
        print(name, "->", dig(fn()))
    except Exception as err:  # pylint: disable=broad-except
        print(name, "-> EXC", type(err).__name__, "|", re.sub(r"0x[0-9a-f]+|id=\d+", "ADDR", str(err).replace("\n", " / "))[:160])
    after = state(objs)
    print("   paths restored bit-exactly:", before == after,
          "| same orientation objects:", ids_before == [id(o._orientation) for o in objs])
    print("   state:", after)


def make():
    cub = magpy.magnet.Cuboid(polarization=(0.1, 0.2, 0.3), dimension=(1, 2, 3), position=(0.1, 0.2, 0.3))
    cub.rotate_from_angax(33, (1, 2, 3))
    cyl = magpy.magnet.Cylinder(polarization=(0.3, 0.2, 0.1), dimension=(1, 2))
    cyl.move(np.linspace((0, 0, 0), (1, 1, 1), 5))  # path length 6
    cyl.rotate_from_angax(np.linspace(0, 77, 6), "y", start=0)
    circ = magpy.current.Circle(current=2, diameter=3)
    circ.position = [(0, 0, 0.1 * i) for i in range(3)]  # path length 3
    circ.orientation = R.from_rotvec([(0.1 * i, 0.2, 0.3) for i in range(3)])
    s1 = magpy.Sensor(pixel=[(0, 0, 0), (0.1, 0.1, 0.1)], position=(2, 2, 2))
    s1.rotate_from_angax(17, (1, 1, 0))
    s2 = magpy.Sensor(pixel=[(0, 0, 0), (0.1, 0.1, 0.1)])
    s2.position = [(3, 0.1 * i, 0) for i in range(4)]  # path length 4
    s2.orientation = R.from_euler("xyz", [(3 * i, 5 * i, 7 * i) for i in range(4)], degrees=True)
    s3 = magpy.Sensor(position=(1, 1, 1), handedness="left")
    return cub, cyl, circ, s1, s2, s3


cub, cyl, circ, s1, s2, s3 = make()
allobj = [cub, cyl, circ, s1, s2, s3]
col = magpy.Collection(cub, circ)

for field in "BHJM":
    f = getattr(magpy, "get" + field)
    run(f"{field}.static-only", allobj, lambda: f([cub], [s1, s3], pixel_agg="mean"))
    run(f"{field}.mixed", allobj, lambda: f([cub, cyl, circ], [s1, s2]))
    run(f"{field}.coll", allobj, lambda: f([col, cyl], [s1, s2], sumup=True))
    run(f"{field}.src-method", allobj, lambda: getattr(cyl, "get" + field)(s1, s2))
    run(f"{field}.sens-method", allobj, lambda: getattr(s2, "get" + field)(cub, circ))
    run(f"{field}.agg", allobj, lambda: f([cub, cyl], [s1, s2, s3], pixel_agg="max", squeeze=False))
run("same-obj-twice", allobj, lambda: magpy.getB([cub, cub, cyl], [s1, s1]))
run("posvec-observer", allobj, lambda: magpy.getB([cub, cyl], (1, 2, 3)))
run("dataframe", allobj, lambda: magpy.getB([cub, cyl], [s1, s2], output="dataframe")[["Bx", "By", "Bz"]].to_numpy())


# error paths inside the computation: tiled paths must be restored
ARMED = []


def bad_field_func(field, observers):
    if ARMED:
        raise RuntimeError("boom")
    return np.zeros_like(observers, dtype=float)


def none_field_func(field, observers):
    return None


custom = magpy.misc.CustomSource(field_func=bad_field_func, position=(1, 2, 3))
custom.rotate_from_angax(12, "x")
run("custom ok", allobj + [custom], lambda: magpy.getB([cub, custom, cyl], [s1, s2]))
ARMED.append(1)
run("err.field_func raises", allobj + [custom], lambda: magpy.getB([cub, custom, cyl], [s1, s2]))
custom.field_func = none_field_func
run("err.field_func returns None", allobj + [custom], lambda: magpy.getH([cub, custom, cyl], [s1, s2]))
custom2 = magpy.misc.CustomSource(position=(1, 2, 3))
run("err.field_func is None", allobj + [custom2], lambda: magpy.getH([cub, custom2, cyl], [s1, s2]))
run("err.pixel shapes", allobj, lambda: magpy.getB([cub, cyl], [s1, s3]))
run("err.bad output", allobj, lambda: magpy.getB([cub, cyl], [s1, s2], output="xx"))
# error during tiling itself: broken position array on a static object
brk = magpy.Sensor(position=(0, 0, 1), pixel=[(0, 0, 0), (0.1, 0.1, 0.1)])
brk._position = np.zeros((1, 2))
run("err.during tiling", [cub, cyl, s2], lambda: magpy.getB([cub, cyl], [s2, brk]))
print("broken sensor position shape afterwards:", brk._position.shape, len(brk._orientation))
brk2 = magpy.Sensor(position=(0, 0, 1), pixel=[(0, 0, 0), (0.1, 0.1, 0.1)])
brk2._position = np.zeros((1,))
run("err.during tiling (concatenate fails)", [cub, cyl, s2], lambda: magpy.getB([cub, cyl], [s2, brk2]))
print("broken sensor 2 position shape afterwards:", brk2._position.shape, len(brk2._orientation))
