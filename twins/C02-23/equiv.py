import os, sys; sys.path.insert(0, os.getcwd())
import hashlib
import warnings

import numpy as np

import magpylib as magpy
from magpylib._src.fields.field_BH_cylinder import BHJM_magnet_cylinder

warnings.simplefilter("ignore")
np.seterr(all="ignore")


def digest(name, arr):
    arr = np.asarray(arr)
    h = hashlib.sha256(np.ascontiguousarray(arr).tobytes()).hexdigest()[:16]
    print(name, arr.shape, arr.dtype, h)
    with np.printoptions(precision=10, linewidth=200):
        print(np.round(arr, 12))


def attempt(name, fn):
    try:
        digest(name, fn())
    except Exception as e:  # noqa: BLE001
        print(name, type(e).__name__, str(e).replace("\n", " | ")[:160])


rng = np.random.default_rng(2)
n = 16
obs = rng.uniform(-2, 2, (n, 3))
dim = np.tile((2.0, 2.0), (n, 1))  # d=2 -> r0=1, h=2 -> z0=1
pol = rng.uniform(-1, 1, (n, 3))
obs[0] = (0, 0, 0)  # centre, on axis
obs[1] = (1, 0, 1)  # on edge
obs[2] = (0, -1, -1)  # on edge
obs[3] = (1, 0, 0.3)  # on hull
obs[4] = (0.2, 0.1, 1)  # on top base
obs[5] = (0, 0, 3)  # on axis outside
obs[6] = (np.nan, 0, 0)
obs[7] = (0.3, 0.3, 0.3)
pol[7] = 0  # zero polarization inside
pol[8] = (0, 0, 1)  # axial only
pol[9] = (1, -1, 0)  # transversal only
obs[9] = (0.1, 0.2, -0.3)
dim[10] = (0, 1)  # zero diameter
dim[11] = (1, 0)  # zero height
dim[12] = (3, 0.5)
obs[12] = (-1.5 / np.sqrt(2), 1.5 / np.sqrt(2), 0.25)  # near edge after scaling
obs[13] = (1e-300, -1e-300, 0.5)
obs[14] = (-0.0, 0.0, -0.0)

for field in "BHJM":
    attempt(f"core-{field}", lambda: BHJM_magnet_cylinder(field, obs, dim, pol))
    attempt(
        f"core-int-{field}",
        lambda: BHJM_magnet_cylinder(
            field,
            np.array([(0, 0, 0), (1, 2, 3), (1, 0, 1), (0, 0, 2)]),
            np.array([(2, 2)] * 4),
            np.array([(1, 2, 3)] * 4),
        ),
    )

# consistency B = mu0*H + J on the core function
B, H, J, M = (BHJM_magnet_cylinder(f, obs, dim, pol) for f in "BHJM")
ok = np.isfinite(B).all(axis=1) & np.isfinite(H).all(axis=1)
print("BHJ core", np.allclose(B[ok], magpy.mu_0 * H[ok] + J[ok], rtol=1e-10, atol=1e-14))
print("JM core", np.array_equal(J / magpy.mu_0, M))

# inputs must not be modified / outputs must not alias inputs
o2, d2, p2 = obs.copy(), dim.copy(), pol.copy()
for field in "BHJM":
    res = BHJM_magnet_cylinder(field, o2, d2, p2)
    print(field, "alias", np.shares_memory(res, p2), np.shares_memory(res, o2))
print(
    "inputs unchanged",
    np.array_equal(o2, obs, equal_nan=True),
    np.array_equal(d2, dim),
    np.array_equal(p2, pol),
)

# object interface, rotated + path, incl. CylinderSegment with full 360 deg (falls back)
cyl = magpy.magnet.Cylinder(dimension=(1.3, 0.7), polarization=(0.1, -0.2, 0.3))
cyl.rotate_from_angax([10, 33, 77], (1, 2, 3)).move((0.1, 0.2, -0.1))
pts = rng.uniform(-1, 1, (20, 3))
for f in "BHJM":
    digest(f"obj-{f}", getattr(cyl, f"get{f}")(pts))
seg = magpy.magnet.CylinderSegment(dimension=(0.2, 1, 1, 0, 360), magnetization=(1e5, 2e5, -3e5))
for f in "BHJM":
    digest(f"seg360-{f}", getattr(seg, f"get{f}")(pts))
print("BHJ obj", np.allclose(cyl.getB(pts), magpy.mu_0 * cyl.getH(pts) + cyl.getJ(pts), rtol=1e-10, atol=1e-14))

# error paths
for bad in ("X", "BH", "", 5, None):
    attempt(f"bad-{bad!r}", lambda: BHJM_magnet_cylinder(bad, obs, dim, pol))
for f in "BJ":
    attempt(f"shape-dim-{f}", lambda: BHJM_magnet_cylinder(f, obs, dim[:3], pol))
    attempt(f"shape-pol-{f}", lambda: BHJM_magnet_cylinder(f, obs, dim, pol[:3]))
    attempt(f"shape-pol1-{f}", lambda: BHJM_magnet_cylinder(f, obs, dim, pol[:1]))
    attempt(f"shape-obs-{f}", lambda: BHJM_magnet_cylinder(f, obs[:5], dim, pol))
    attempt(f"obs-1d-{f}", lambda: BHJM_magnet_cylinder(f, obs[0], dim, pol))
    attempt(f"obs-4col-{f}", lambda: BHJM_magnet_cylinder(f, np.ones((n, 4)), dim, pol))
    attempt(f"obs-list-{f}", lambda: BHJM_magnet_cylinder(f, obs.tolist(), dim, pol))
    attempt(f"empty-{f}", lambda: BHJM_magnet_cylinder(f, obs[:0], dim[:0], pol[:0]))

# ---- batch 5 additions: inside / hull / bases / edge / outside x polarization kinds
r0, z0 = 1.0, 1.0
rad = [0.0, 0.4, np.nextafter(1.0, 0), 1.0, np.nextafter(1.0, 2), 1 + 1e-15, 1 + 3e-15, 1.6]
zz = [0.0, -0.4, np.nextafter(1.0, 0), 1.0, -1.0, np.nextafter(1.0, 2), -(1 + 1e-15), 1 + 3e-15, 2.0]
ang = [0.0, 0.7, 2.5, -1.9]
grid = np.array([(rr * np.cos(a), rr * np.sin(a), q) for rr in rad for q in zz for a in ang])
m = len(grid)
gd = np.tile((2.0, 2.0), (m, 1))
kinds = {
    "ax": (0, 0, 0.8),
    "tv": (0.5, -0.3, 0),
    "mixed": (0.5, -0.3, 0.8),
    "zero": (0, 0, 0),
    "negzero": (-0.0, 0.0, -0.0),
    "nan": (np.nan, 0.1, 0.2),
    "inf": (0.1, 0.2, np.inf),
}
for kname, kp in kinds.items():
    gp = np.tile(np.array(kp, float), (m, 1))
    for field in "BHJM":
        attempt(f"grid-{kname}-{field}", lambda: BHJM_magnet_cylinder(field, grid, gd, gp))
# rows with different polarization kinds interleaved (masks select subsets)
gp = np.array([list(kinds.values())[i % 4] for i in range(m)], float)
for field in "BHJM":
    attempt(f"grid-interleaved-{field}", lambda: BHJM_magnet_cylinder(field, grid, gd, gp))
Bg, Hg, Jg, Mg = (BHJM_magnet_cylinder(f, grid, gd, gp) for f in "BHJM")
print("grid BHJ", np.allclose(Bg, magpy.mu_0 * Hg + Jg, rtol=1e-10, atol=1e-14), "JM", np.allclose(Jg, magpy.mu_0 * Mg))
print("grid counts", int((Jg != 0).any(axis=1).sum()), int((Bg == 0).all(axis=1).sum()))
# only outside points / only inside points / all on edge (guards of the +-J corrections)
far = grid[np.hypot(grid[:, 0], grid[:, 1]) > 1.5]
inn = grid[(np.hypot(grid[:, 0], grid[:, 1]) < 0.5) & (abs(grid[:, 2]) < 0.5)]
edg = np.array([(np.cos(a), np.sin(a), s) for a in ang for s in (1.0, -1.0)])
for tag, pts_ in (("far", far), ("inn", inn), ("edge", edg)):
    for kname in ("ax", "tv", "mixed", "zero"):
        pp = np.tile(np.array(kinds[kname], float), (len(pts_), 1))
        for field in "BHJM":
            attempt(f"{tag}-{kname}-{field}", lambda: BHJM_magnet_cylinder(field, pts_, np.tile((2.0, 2.0), (len(pts_), 1)), pp))
# integer polarization (in-place update of float rows with int shifts), float32
for field in "BHJM":
    attempt(f"intpol-{field}", lambda: BHJM_magnet_cylinder(field, grid[:40], gd[:40], np.tile((1, -2, 3), (40, 1))))
    attempt(f"f32-{field}", lambda: BHJM_magnet_cylinder(field, grid[:40].astype(np.float32), gd[:40].astype(np.float32), np.tile((1, -2, 3), (40, 1)).astype(np.float32)))
    # 1-D inputs (no batch axis)
    for pt in ((0.1, 0.2, 0.3), (1.0, 0.0, 1.0), (1.0, 0.0, 0.2), (3.0, 0.0, 0.2)):
        attempt(f"1d-{field}-{pt}", lambda: BHJM_magnet_cylinder(field, np.array(pt), np.array((2.0, 2.0)), np.array((0.3, -0.2, 0.7))))
    attempt(f"pol-1d-{field}", lambda: BHJM_magnet_cylinder(field, grid[:4], gd[:4], np.array((0.3, -0.2, 0.7))))
    attempt(f"pol-4col-{field}", lambda: BHJM_magnet_cylinder(field, grid[:4], gd[:4], np.ones((4, 4))))
    attempt(f"pol-2col-{field}", lambda: BHJM_magnet_cylinder(field, grid[:4], gd[:4], np.ones((4, 2))))
    attempt(f"pol-list-{field}", lambda: BHJM_magnet_cylinder(field, grid[:4], gd[:4], np.ones((4, 3)).tolist()))
    attempt(f"pol-cplx-{field}", lambda: BHJM_magnet_cylinder(field, grid[:4], gd[:4], np.ones((4, 3)) * 1j))
    attempt(f"pol-cplx-ax-{field}", lambda: BHJM_magnet_cylinder(field, grid[:4], gd[:4], np.array([(0, 0, 1j)] * 4)))
    attempt(f"obs-3d-{field}", lambda: BHJM_magnet_cylinder(field, np.ones((4, 1, 3)) * 0.1, gd[:4], np.ones((4, 3))))
    attempt(f"dim-3col-{field}", lambda: BHJM_magnet_cylinder(field, grid[:4], np.ones((4, 3)), np.ones((4, 3))))
# functional interface + Collection
for field in "BHJM":
    attempt(f"func-{field}", lambda: getattr(magpy, "get" + field)("Cylinder", grid[:30], dimension=(2, 2), polarization=(0.1, 0.2, 0.3)))
