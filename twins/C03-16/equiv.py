import os, sys; sys.path.insert(0, os.getcwd())
import hashlib
import re
import warnings

import numpy as np
from scipy.spatial.transform import Rotation as R

import magpylib as magpy

warnings.simplefilter("ignore")


def dig(name, val):
    """print a deterministic (bit-exact) digest of an array or exception"""
    if isinstance(val, BaseException):
        msg = re.sub(r"id=\d+|0x[0-9a-f]+", "#", str(val))
        print(f"{name}: EXC {type(val).__name__}: {msg[:120]!r}")
    elif val is None:
        print(f"{name}: None")
    else:
        a = np.asarray(val, dtype=float)
        h = hashlib.sha256(np.ascontiguousarray(a).tobytes()).hexdigest()[:16]
        print(f"{name}: shape={a.shape} sha={h} sum={np.sum(a):.12e}")


def run(name, func):
    try:
        dig(name, func())
    except Exception as err:  # pylint: disable=broad-except
        dig(name, err)


def state(objs):
    parts = []
    for o in objs:
        parts.append(o._position.tobytes())
        parts.append(o._orientation.as_quat().tobytes())
    return hashlib.sha256(b"".join(parts)).hexdigest()[:16]


rot3 = R.from_rotvec([[0.1, 0.2, 0.3], [0.5, -0.4, 0.3], [1.0, 2.0, -0.5]])
pix = [(0, 0, 0), (0.1, 0, 0), (0, 0.1, 0.2)]
pix_grid = np.mgrid[0:0.2:2j, 0:0.3:3j, 0:1:1j].T.reshape(3, 2, 3) * 1.0

cub = magpy.magnet.Cuboid(
    polarization=(0.1, 0.2, 0.3), dimension=(1, 2, 3), position=(0.1, 0.2, 0.3)
).rotate_from_angax(33, (1, 2, 3))
circ = magpy.current.Circle(current=12.0, diameter=2.5, position=(0, 0, -2))
circ.rotate_from_angax([10, 20, 30], "x", anchor=0)
dip = magpy.misc.Dipole(moment=(1, 2, 3), position=(-3, 1, 1))
sph = magpy.magnet.Sphere(polarization=(0.3, 0, 0.1), diameter=0.7, position=(2, -3, 1))
col = magpy.Collection(dip, sph).rotate_from_angax(25, "y", anchor=(0, 0, 1))
srcs = [cub, col, circ]


def make_sensors(pixel):
    """sensors of every kind with respect to unrotated / static / rotating, both hands"""
    return {
        "unrot": magpy.Sensor(pixel=pixel, position=(4, 4, 4)),
        "unrot-left": magpy.Sensor(pixel=pixel, position=(4, 4, 4), handedness="left"),
        "unrot-path": magpy.Sensor(pixel=pixel).move([(5, 0, k) for k in range(3)], start=0),
        "static": magpy.Sensor(pixel=pixel, position=(-4, 3, 2)).rotate_from_angax(70, (1, 0, 1)),
        "static-left": magpy.Sensor(
            pixel=pixel, position=(-4, 3, 2), handedness="left"
        ).rotate_from_angax(70, (1, 0, 1)),
        "static-path": magpy.Sensor(pixel=pixel, position=(-4, 3, 2), handedness="left")
        .rotate_from_angax(50, (0, 1, 1))
        .move([(0, 0, 1), (0, 1, 1), (1, 1, 1)], start=0),
        "rot-path": magpy.Sensor(pixel=pixel, position=(4, 4, 4)).rotate(rot3, anchor=0, start=0),
        "rot-path-left": magpy.Sensor(pixel=pixel, position=(4, -4, 4), handedness="left").rotate(
            rot3, anchor=(1, 1, 1), start=0
        ),
        "rot-path-short": magpy.Sensor(pixel=pixel, position=(4, -4, 4)).rotate(
            rot3[:2], anchor=(1, 1, 1), start=0
        ),
        "minus-unit": magpy.Sensor(pixel=pixel, position=(1, 5, 1)).rotate_from_angax(360, "z"),
        "unit-then-rot": magpy.Sensor(pixel=pixel, position=(1, 5, 1)).rotate_from_angax(
            [0, 0, 40], "z", start=0
        ),
    }


for pname, pixel in (("none", None), ("one", (0.1, 0.2, 0.3)), ("n3", pix), ("grid", pix_grid)):
    sensors = make_sensors(pixel)
    objs = [cub, dip, sph, col, circ, *sensors.values()]
    before = state(objs)
    for name, sens in sensors.items():
        for field in "BH":
            run(
                f"{pname}/{name}/{field}",
                lambda: magpy.getB(srcs, sens) if field == "B" else magpy.getH(srcs, sens),
            )
    allsens = list(sensors.values())
    run(f"{pname}/all", lambda: magpy.getB(srcs, allsens))
    run(f"{pname}/all-rev-sumup", lambda: magpy.getH(srcs, allsens[::-1], sumup=True))
    run(f"{pname}/all-nosqueeze", lambda: magpy.getB(cub, allsens, squeeze=False))
    run(f"{pname}/twice", lambda: magpy.getB(srcs, [allsens[6], allsens[3], allsens[6]]))
    run(f"{pname}/single-src", lambda: magpy.getB(circ, allsens))
    run(f"{pname}/col-only", lambda: magpy.getB(col, allsens))
    run(f"{pname}/sens-col", lambda: magpy.getB(srcs, magpy.Collection(*allsens[:5])))
    run(f"{pname}/from-sensor", lambda: allsens[7].getB(cub, col, circ))
    run(f"{pname}/from-col", lambda: col.getH(allsens[8]))
    print(f"{pname}/state-unchanged:", before == state(objs))

# mixed pixel shapes with aggregation
mixed = [
    magpy.Sensor(pixel=pix, position=(4, 4, 4)).rotate(rot3, anchor=0, start=0),
    magpy.Sensor(pixel=pix_grid, position=(-4, 3, 2), handedness="left").rotate_from_angax(
        70, (1, 0, 1)
    ),
    magpy.Sensor(position=(1, 5, 1), handedness="left").rotate_from_angax([0, 0, 40], "z", start=0),
    magpy.Sensor(pixel=(0.5, 0.5, 0.5)),
]
for agg in ("mean", "max", "sum"):
    run(f"mixed/{agg}", lambda: magpy.getB(srcs, mixed, pixel_agg=agg))
    run(f"mixed/{agg}/nosqueeze", lambda: magpy.getH(srcs, mixed, pixel_agg=agg, squeeze=False))
run("mixed/noagg", lambda: magpy.getB(srcs, mixed))
run(
    "dataframe",
    lambda: magpy.getB(srcs, mixed[:1], output="dataframe")[["Bx", "By", "Bz"]].to_numpy(),
)

# covariance check of the property itself through rotated sensors
glob = R.from_rotvec((0.3, -0.7, 0.2))
shift = np.array((0.3, -1.2, 2.2))
s0 = magpy.Sensor(pixel=pix, position=(4, 4, 4)).rotate(rot3, anchor=0, start=0)
c0 = cub.copy()
B0 = magpy.getB(c0, s0)
s1 = s0.copy().rotate(glob, anchor=0).move(shift)
c1 = c0.copy().rotate(glob, anchor=0).move(shift)
B1 = magpy.getB(c1, s1)
print("covariant (sensor frame sees the same field):", bool(np.allclose(B0, B1, rtol=1e-10, atol=1e-16)))
dig("cov/B0", B0)
dig("cov/B1", B1)


# error paths inside the sensor rotation block
class BrokenRot:
    """stands in for a Rotation that fails when the rotation stack is built"""

    def __init__(self, rot, fail_getitem=False, fail_as_quat_at=None):
        self._rot = rot
        self._fail_getitem = fail_getitem
        self._fail_as_quat_at = fail_as_quat_at
        self.calls = 0

    def __len__(self):
        return len(self._rot)

    def __iter__(self):
        return iter(self._rot)

    def __getitem__(self, item):
        if self._fail_getitem:
            raise RuntimeError("getitem failed")
        return self._rot[item]

    def as_quat(self):
        self.calls += 1
        if self.calls == self._fail_as_quat_at:
            raise RuntimeError(f"as_quat failed at call {self.calls}")
        return self._rot.as_quat()


for kind, kwargs in (
    ("static-path", {"fail_getitem": True}),
    ("rot-path", {"fail_as_quat_at": 4}),
    ("rot-path", {"fail_as_quat_at": 3}),
    ("rot-path", {"fail_as_quat_at": 2}),
    ("rot-path", {"fail_as_quat_at": 1}),
):
    sensors = make_sensors(pix)
    bad = sensors[kind]
    good = sensors["rot-path-short"]
    objs = [cub, dip, sph, col, circ, bad, good]
    before = state(objs)
    orig = bad._orientation
    bad._orientation = BrokenRot(orig, **kwargs)
    # sources without path: the broken sensor has the longest path and is not tiled
    run(f"err/{kind}/{kwargs}", lambda: magpy.getB([cub, col], [good, bad]))
    print(f"err/{kind}/{kwargs}/as_quat-calls:", bad._orientation.calls)
    bad._orientation = orig
    print(f"err/{kind}/{kwargs}/state-unchanged:", before == state(objs))

# a bad handedness smuggled in behind the setter: neither 'left' nor an error
weird = magpy.Sensor(pixel=pix, position=(1, 2, 3)).rotate_from_angax(20, "x")
weird._handedness = "LEFT"
run("weird-handedness", lambda: magpy.getB(srcs, weird))
run("bad-observer", lambda: magpy.getB(srcs, "nope"))
run("bad-handedness", lambda: magpy.Sensor(handedness="up"))
