import os, sys; sys.path.insert(0, os.getcwd())
import builtins
import hashlib
import re
import warnings

import numpy as np
from scipy.spatial.transform import Rotation as R

import magpylib as magpy
from magpylib._src.fields.field_wrap_BH import getBH_dict_level2

warnings.simplefilter("ignore")
_print = builtins.print


def print(*args):  # deterministic: strip object ids / addresses
    txt = " ".join(str(a) for a in args)
    txt = re.sub(r"id=\d+", "id=#", txt)
    txt = re.sub(r"0x[0-9a-f]+", "0x#", txt)
    _print(txt)


def run(name, fn):
    try:
        res = fn()
        if res is None:
            print(name, "-> None")
        else:
            arr = np.asarray(res)
            h = hashlib.sha256(np.ascontiguousarray(arr).tobytes()).hexdigest()[:16]
            print(name, arr.dtype, arr.shape, h, np.round(arr.ravel()[:6], 12).tolist())
        return res
    except BaseException as e:  # pylint: disable=broad-except
        print(name, "raised", type(e).__name__, "|", str(e)[:230].replace("\n", " / "), "| cause:", type(e.__cause__).__name__)
        return None


obs1 = (0.5, 0.6, 0.7)
obs4 = [(0.5, 0.6, 0.7), (1.5, -0.6, 0.7), (-2.5, 0.6, 1.7), (0.1, 0.2, -3.0)]
pos4 = [(0, 0, 0), (0.1, 0, 0), (0, 0.2, 0), (0, 0, 0.3)]
rot4 = R.from_rotvec([(0, 0, 0.1 * i) for i in range(4)])
rot1 = R.from_rotvec((0.3, 0.2, 0.1))
pol4 = [(0.1, 0.2, 0.3), (1, 0, 0), (0, 1, 0), (-0.5, 0.5, 2)]

print("==== every source type: scalar inputs, vector inputs, mixed, all four fields")
types = {
    "Cuboid": dict(polarization=(0.1, 0.2, 0.3), dimension=(1, 2, 3)),
    "Cylinder": dict(polarization=(0.1, 0.2, 0.3), dimension=(1, 2)),
    "CylinderSegment": dict(polarization=(0.1, 0.2, 0.3), dimension=(0.5, 1, 2, 0, 90)),
    "Sphere": dict(polarization=(0.1, 0.2, 0.3), diameter=0.8),
    "Tetrahedron": dict(polarization=(0.1, 0.2, 0.3), vertices=[(0, 0, 0), (1, 0, 0), (0, 1, 0), (0, 0, 1)]),
    "Triangle": dict(polarization=(0.1, 0.2, 0.3), vertices=[(0, 0, 0), (1, 0, 0), (0, 1, 0)]),
    "Circle": dict(current=2.5, diameter=0.8),
    "Loop": dict(current=2.5, diameter=0.8),
    "Polyline": dict(current=2.5, segment_start=(0, 0, 0), segment_end=(1, 1, 1)),
    "Line": dict(current=2.5, segment_start=(0, 0, 0), segment_end=(1, 1, 1)),
    "Dipole": dict(moment=(1, 2, 3)),
    "CustomSource": dict(),
}
exc_key = {"Circle": "current", "Loop": "current", "Polyline": "current", "Line": "current", "Dipole": "moment"}
for tname, kw in types.items():
    for f in "BHJM":
        fn = getattr(magpy, "get" + f)
        run(f"{tname} {f} scalar", lambda: fn(tname, obs1, **kw))
        run(f"{tname} {f} obs4", lambda: fn(tname, obs4, **kw))
        run(f"{tname} {f} obs4 pos4 rot4", lambda: fn(tname, obs4, position=pos4, orientation=rot4, **kw))
        run(f"{tname} {f} obs1 pos4", lambda: fn(tname, obs1, position=pos4, orientation=rot1, **kw))
        run(f"{tname} {f} nosqueeze", lambda: fn(tname, obs1, squeeze=False, **kw))
        run(f"{tname} {f} len1 arrays", lambda: fn(tname, [obs1], position=[(0, 0, 0)], orientation=R.from_rotvec([(0, 0, 0.5)]), **kw))
    if tname == "CustomSource":
        continue
    ek = exc_key.get(tname, "polarization")
    # vectorised excitation
    if ek == "current":
        run(f"{tname} B current vector", lambda: magpy.getB(tname, obs4, **{**kw, "current": [1, 2, 3, 4]}))
        run(f"{tname} B current len1", lambda: magpy.getB(tname, obs4, **{**kw, "current": [2.5]}))
    else:
        run(f"{tname} B {ek} vector", lambda: magpy.getB(tname, obs4, **{**kw, ek: pol4}))
        run(f"{tname} B {ek} len1", lambda: magpy.getB(tname, obs4, **{**kw, ek: [pol4[0]]}))
    # linear in excitation: scaling by 4 is exact, sum of excitations
    base = np.asarray(kw[ek], dtype=float)
    other = base[::-1] * 0.5 if base.ndim else base * 0.5 + 1
    for f in "BH":
        fn = getattr(magpy, "get" + f)
        b1 = fn(tname, obs4, **kw)
        b4 = fn(tname, obs4, **{**kw, ek: 4 * base})
        b2 = fn(tname, obs4, **{**kw, ek: other})
        b12 = fn(tname, obs4, **{**kw, ek: base + other})
        print(f"{tname} {f} 4x exact:", bool((b4 == 4 * b1).all()), "sum close:", bool(np.allclose(b12, b1 + b2, rtol=1e-10, atol=1e-18)))
        run(f"{tname} {f} sum residual", lambda: b12 - b1 - b2)
    # agreement with the object oriented interface
    cls = getattr(magpy.magnet, tname, None) or getattr(magpy.current, tname, None) or getattr(magpy.misc, tname)
    okw = dict(kw)
    if "segment_start" in okw:
        okw["vertices"] = [okw.pop("segment_start"), okw.pop("segment_end")]
    run(f"{tname} H object interface minus dict", lambda: cls(**okw).getH(obs4) - magpy.getH(tname, obs4, **kw))

print("==== in_out")
for io in ("auto", "inside", "outside"):
    run(f"Cuboid in_out={io}", lambda: magpy.getB("Cuboid", obs4, in_out=io, **types["Cuboid"]))
    run(f"Tetrahedron in_out={io}", lambda: magpy.getH("Tetrahedron", obs4, in_out=io, **types["Tetrahedron"]))
    run(f"Circle in_out={io}", lambda: magpy.getB("Circle", obs4, in_out=io, **types["Circle"]))

print("==== ragged inputs (vertices of different length per instance)")
v_a = [(0, 0, 0), (1, 1, 1), (2, 0, 1)]
v_b = [(0, 0, 0), (1, 0, 0)]
run("Polyline vertices single", lambda: magpy.getB("Polyline", obs1, current=1.0, vertices=v_a))
run("Polyline vertices same length x2", lambda: magpy.getB("Polyline", obs4[:2], current=[1.0, 2.0], vertices=[v_a, v_a]))
run("Polyline vertices ragged x2", lambda: magpy.getB("Polyline", obs4[:2], current=[1.0, 2.0], vertices=[v_a, v_b]))
run("Polyline vertices ragged x2, scalar current", lambda: magpy.getH("Polyline", obs4[:2], current=3.0, vertices=[v_a, v_b]))
run("Polyline vertices ragged x2 vs 4 observers", lambda: magpy.getB("Polyline", obs4, current=1.0, vertices=[v_a, v_b]))
run("Polyline vertices ragged len1", lambda: magpy.getB("Polyline", obs1, current=1.0, vertices=[v_a]))

print("==== error paths")
run("unknown source", lambda: magpy.getB("Banana", obs1, current=1))
run("unknown source empty", lambda: magpy.getB("", obs1))
run("BaseMagnet not registered", lambda: magpy.getB("BaseMagnet", obs1, polarization=(1, 2, 3)))
run("length mismatch", lambda: magpy.getB("Cuboid", obs4, polarization=pol4[:3], dimension=(1, 2, 3)))
run("length mismatch pos", lambda: magpy.getB("Circle", obs4, position=pos4[:2], current=1, diameter=1))
run("length mismatch orientation", lambda: magpy.getB("Circle", obs4, orientation=rot4[:3], current=1, diameter=1))
run("observers None", lambda: magpy.getB("Circle", None, current=1, diameter=1))
run("current None", lambda: magpy.getB("Circle", obs1, current=None, diameter=1))
run("current string", lambda: magpy.getB("Circle", obs1, current="abc", diameter=1))
run("current list of strings", lambda: magpy.getB("Circle", obs1, current=["a", "b"], diameter=1))
run("diameter object", lambda: magpy.getB("Circle", obs1, current=1, diameter=object()))
run("missing excitation", lambda: magpy.getB("Circle", obs1, diameter=1))
run("missing dimension", lambda: magpy.getB("Cuboid", obs1, polarization=(1, 2, 3)))
run("unknown kwarg", lambda: magpy.getB("Circle", obs1, current=1, diameter=1, banana=3))
run("unknown kwarg vector", lambda: magpy.getB("Circle", obs4, current=1, diameter=1, banana=[1, 2, 3]))
run("orientation None", lambda: magpy.getB("Circle", obs1, current=1, diameter=1, orientation=None))
run("orientation quaternion array", lambda: magpy.getB("Circle", obs1, current=1, diameter=1, orientation=[0, 0, 0, 1]))
run("polarization 3D", lambda: magpy.getB("Cuboid", obs1, polarization=[[(1, 2, 3)]], dimension=(1, 2, 3)))
run("empty observers", lambda: magpy.getB("Circle", [], current=1, diameter=1))
run("empty current", lambda: magpy.getB("Circle", obs1, current=[], diameter=1))
run("dict as value", lambda: magpy.getB("Circle", obs1, current={"a": 1}, diameter=1))
run("kwargs with object interface", lambda: magpy.getB(magpy.misc.Dipole(moment=(1, 2, 3)), obs1, current=1))
run("sumup / pixel_agg / output are ignored for str sources", lambda: magpy.getB("Circle", obs4, sumup=True, pixel_agg="mean", output="nope", current=1, diameter=1))

print("==== direct calls of getBH_dict_level2: caller's inputs are not modified")
o = np.array(obs4)
p = np.array(pos4)
c = [1.0, 2.0, 3.0, 4.0]
before = (o.copy(), p.copy(), list(c))
run("direct", lambda: getBH_dict_level2("Circle", o, field="B", position=p, orientation=rot4, current=c, diameter=2))
print("inputs untouched:", bool((o == before[0]).all()), bool((p == before[1]).all()), c == before[2], len(rot4))
run("direct defaults", lambda: getBH_dict_level2("Dipole", obs1, field="H", moment=(1, 2, 3)))
run("direct squeeze False", lambda: getBH_dict_level2("Dipole", obs1, field="H", moment=(1, 2, 3), squeeze=False))
run("direct custom (no field_func)", lambda: getBH_dict_level2("CustomSource", obs1, field="B"))
