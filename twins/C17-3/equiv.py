import os, sys; sys.path.insert(0, os.getcwd())
import warnings
from fractions import Fraction
import numpy as np
import magpylib as magpy
from magpylib._src.input_checks import (
    check_format_input_scalar,
    check_format_input_vector,
    make_float_array,
)

warnings.simplefilter("ignore")


def dig(r):
    if isinstance(r, np.ndarray):
        return f"ARR {r.dtype} {r.shape} {r.tolist()}"
    return f"RET {type(r).__name__} {r!r}"


def run(f):
    try:
        return dig(f())
    except Exception as e:
        return f"EXC {type(e).__name__}: {e} | cause={type(e.__cause__).__name__}"


values = [
    None, 0, 1, -1, 1.5, -0.0, True, 1 + 2j, Fraction(1, 3), np.float32(2.5), np.int64(-3), "1", "abc", b"1",
    (), [], [[]], (1,), (1, 2), (1, 2, 3), [1, 2, 3], (0, 1, 2), (-1, 2, 3), (1, 2, 3, 4, 5),
    [(1, 2, 3)], [(1, 2, 3)] * 2, [(1, 2, 3)] * 3, [(1, 2, 3)] * 4, [[(1, 2, 3)] * 2] * 2,
    (1, "a", 3), ("1", "2", "3"), (1, None, 3), [(1, 2, 3), (1, 2)], {1, 2, 3}, {"a": 1}, range(3),
    np.array([1, 2, 3]), np.array([1.0, 2.0]), np.array([[1, 2, 3]] * 3, dtype=np.float32), np.array(5.0),
    np.array(["a", "b", "c"]), np.array([1, 2, 3], dtype=object), np.array([True, False, True]),
]

# validators directly
for v in values:
    for kw in [dict(), dict(allow_None=True), dict(forbid_negative=True), dict(allow_None=True, forbid_negative=True)]:
        print("scalar", repr(v), kw, run(lambda: check_format_input_scalar(v, sig_name="sn", sig_type="st", **kw)))
    for kw in [
        dict(dims=(1,), shape_m1=3),
        dict(dims=(1,), shape_m1=3, allow_None=True, forbid_negative0=True),
        dict(dims=(1, 2), shape_m1=3, reshape=(-1, 3)),
        dict(dims=(1, 2), shape_m1=3, reshape=(-1, 3), forbid_negative0=True),
        dict(dims=(2,), shape_m1=3, length=3, allow_None=True),
        dict(dims=(1,), shape_m1="any"),
        dict(dims=range(1, 20), shape_m1=3, allow_None=True, reshape=True),
    ]:
        print("vector", repr(v), sorted(kw), run(lambda: check_format_input_vector(v, sig_name="sn", sig_type="st", **kw)))
    print("mfa", repr(v), run(lambda: make_float_array(v, "msg:")))

# through every public attribute: constructor and setter, readback, copy independence
specs = [
    (magpy.magnet.Cuboid, "dimension"), (magpy.magnet.Cylinder, "dimension"), (magpy.magnet.CylinderSegment, "dimension"),
    (magpy.magnet.Sphere, "diameter"), (magpy.magnet.Tetrahedron, "vertices"), (magpy.misc.Triangle, "vertices"),
    (magpy.current.Circle, "diameter"), (magpy.current.Circle, "current"), (magpy.current.Polyline, "vertices"),
    (magpy.current.Polyline, "current"), (magpy.misc.Dipole, "moment"), (magpy.Sensor, "pixel"),
    (magpy.Sensor, "position"), (magpy.magnet.Cuboid, "polarization"), (magpy.magnet.Sphere, "magnetization"),
]
for cls, attr in specs:
    for v in values:
        r1 = run(lambda: getattr(cls(**{attr: v}), attr))
        obj = cls()
        before = dig(getattr(obj, attr))

        def setit():
            setattr(obj, attr, v)
            return getattr(obj, attr)

        r2 = run(setit)
        after = dig(getattr(obj, attr))
        print(cls.__name__, attr, repr(v), "| ctor:", r1, "| set:", r2, "| same:", r1 == r2, "| unchanged_on_err:", (not r2.startswith("EXC")) or before == after)
        if isinstance(v, np.ndarray) and isinstance(getattr(obj, attr), np.ndarray):
            print("   shares_memory:", np.shares_memory(getattr(obj, attr), v))
