import os, sys; sys.path.insert(0, os.getcwd())
import re

import magpylib as magpy
from magpylib._src.style import BaseStyle, MagnetStyle, SensorStyle


def run(label, func):
    try:
        res = func()
    except BaseException as e:  # deterministic digest of the error path
        msg = re.sub(r"id=\d+", "id=N", str(e))[:150]
        res = f"EXC {type(e).__name__}: {msg!r}"
    print(f"{label}: {res}")


def digest(style):
    flat = style.as_dict(flatten=True, separator="_")
    return type(style).__name__, [(k, flat[k]) for k in sorted(flat) if not (flat[k] is None or flat[k] == [])]


def cub(**kw):
    return magpy.magnet.Cuboid(polarization=(0, 0, 1), dimension=(1, 1, 1), **kw)


# ---- the three notations at init, lazily applied ---------------------------
a = cub(style_color="red", style_path_line_width=3)
b = cub(style={"color": "red", "path": {"line": {"width": 3}}})
c = cub(style={"color": "blue", "path_line_width": 3}, style_color="red")
d = cub()
d.style.color = "red"
d.style.path.line.width = 3
print("pending:", a._style_kwargs, b._style_kwargs, c._style_kwargs, d._style_kwargs)
print("no style yet:", [getattr(o, "_style", None) is None for o in (a, b, c)])
print("equal:", digest(a.style) == digest(b.style) == digest(c.style) == digest(d.style), digest(a.style))
print("flushed:", a._style_kwargs, a.style is a.style, a._style is a.style)

# caller's values stay independent of the pending arguments
sty = {"path": {"line": {"width": 1}}, "model3d": {"data": []}}
e = cub(style=sty, style_label="e")
sty["path"]["line"]["width"] = 99
sty["color"] = "green"
print("independent:", digest(e.style), sty)

# ---- invalid arguments are reported at every access ------------------------
bad_name = magpy.Sensor(style_nope=1, style_size=3)
for i in range(2):
    run(f"bad name access {i}", lambda: bad_name.style)
    print("   still pending:", bad_name._style_kwargs)
bad_nested = magpy.Sensor(style={"pixel": {"nope": 1}})
run("bad nested", lambda: bad_nested.style)
run("bad nested again", lambda: bad_nested.style.pixel)
bad_color = cub(style_color="nocolor")
run("bad value (ValueError)", lambda: str(bad_color.style)[:0])
run("bad value again", lambda: bad_color.style)
print("   still pending:", bad_color._style_kwargs)
bad_assert = cub(style_opacity=3, style_label="x")
for i in range(2):
    run(f"bad value (AssertionError) access {i}", lambda: bad_assert.style)
    print("   still pending:", bad_assert._style_kwargs)
run("repr works", lambda: re.sub(r"id=\d+", "id=N", repr(bad_assert)))
run("copy of bad", lambda: bad_assert.copy())
run("setter on bad", lambda: setattr(bad_assert, "style", {"color": "r"}))
# a repaired pending dict is applied on the next access
bad_assert._style_kwargs["opacity"] = 0.5
print("repaired:", digest(bad_assert.style), bad_assert._style_kwargs)
run("not style_ kwarg", lambda: cub(stile_color="r"))
run("not style_ kwarg after uncopyable", lambda: cub(style_label=(i for i in ()), foo=1))
run("style + bad kwarg", lambda: cub(style={"color": "r"}, styl=1))
run("style not a dict + kwargs", lambda: cub(style=[1], style_color="r"))
run("style not a dict", lambda: cub(style="red").style)
run("style obj at init", lambda: digest(cub(style=MagnetStyle(color="r")).style))

# ---- setter / _validate_style ---------------------------------------------
s = magpy.Sensor(style_size=2)
before = s.style
path_before = s.style.path
s.style = {"color": "blue", "pixel_size": 4}
print("setter dict:", digest(s.style), s.style is before)
s.style = None
print("setter None:", digest(s.style), s.style is before, s.style.path is path_before)
s.style = SensorStyle(color="yellow")
print("setter style object:", digest(s.style), s.style is before)
s.style = dict(label="last", color="g")
s.style.update(color="k")
print("last wins:", digest(s.style))
run("setter wrong type", lambda: setattr(s, "style", 3))
run("setter other style class", lambda: setattr(s, "style", MagnetStyle()))
run("setter base style class", lambda: setattr(s, "style", BaseStyle()))
run("setter bad key", lambda: setattr(s, "style", {"nope": 1}))
run("setter bad value", lambda: setattr(s, "style", {"opacity": -1}))
print("after errors:", digest(s.style))
lazy = magpy.Sensor(style_size=5)
lazy.style = {"color": "red"}
print("setter flushes pending first:", digest(lazy.style), lazy._style_kwargs)
lazy2 = magpy.Sensor(style_size=5, style_color="blue")
lazy2.style = {"color": "red"}
print("setter wins over init:", digest(lazy2.style))

# ---- copies ----------------------------------------------------------------
src = cub(style_label="mag", style_color="r")
cp = src.copy(style_color="g", position=(1, 2, 3), style={"opacity": 0.5})
print("copy:", digest(src.style), digest(cp.style), cp.position.tolist(), cp.style is not src.style)
cp.style.color = "b"
cp.style.path.line.width = 8
print("independent copy:", digest(src.style), digest(cp.style))
cp2 = cub().copy()
print("copy without style:", getattr(cp2, "_style", None), cp2._style_kwargs, digest(cp2.style))
cp3 = cub(style_color="k").copy(style_label="named", style_path={"line": {"width": 2}})
print("copy pending:", digest(cp3.style))
nested = {"line": {"width": 2}}
cp4 = src.copy(style_path=nested)
nested["line"]["width"] = 77
print("copy kwargs independent:", digest(cp4.style))
run("copy bad style kwarg", lambda: src.copy(style_nope=1))
run("copy bad kwarg name", lambda: src.copy(stylecolor="r"))
run("copy bad attr then style", lambda: src.copy(style_color="b", position="x"))
run("copy order", lambda: src.copy(style_color="b", dimension=(2, 2, 2), style_label="zz").style.label)
coll = magpy.Collection(style_label="C")
cp5 = src.copy(parent=coll, style_label="in")
print("copy parent:", [ch.style.label for ch in coll.children], src.parent)
run("copy parent with bad style", lambda: src.copy(parent=coll, style_nope=3))
print("copy parent unchanged:", [ch.style.label for ch in coll.children])
print("labels:", src.copy().style.label, src.copy().copy().style.label, cub().copy().style.label, cub(style_color="r").copy().style.label)
