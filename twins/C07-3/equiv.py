import os, sys; sys.path.insert(0, os.getcwd())
import hashlib
import re
import warnings

import numpy as np

import magpylib as magpy

warnings.simplefilter("ignore")


def clean(s):
    return re.sub(r"0x[0-9a-f]+|id=\d+", "ADDR", str(s))


def dig_df(df):
    vals = df[[c for c in df.columns if c[0] in "BHJM" and len(c) == 2]].to_numpy()
    print("   columns:", list(df.columns), "shape:", df.shape, "dtypes:", [str(t) for t in df.dtypes])
    print("   index:", type(df.index).__name__, df.index[0], df.index[-1])
    print("   values sha:", hashlib.sha1(np.ascontiguousarray(vals).tobytes()).hexdigest()[:16])
    rows = [
        f"{clean(row[0])} {row[1]} {clean(row[2])} {row[3]} {[round(float(v), 12) for v in row[4:]]}"
        for row in df.itertuples(index=False)
    ]
    print("   all rows sha:", hashlib.sha1("\n".join(rows).encode()).hexdigest()[:16])
    for row in rows[:3] + rows[-2:]:
        print("   ", row)


def run(name, fn, ref=None):
    try:
        out = fn()
        print(name, "->", type(out).__name__)
        if hasattr(out, "columns"):
            dig_df(out)
            if ref is not None:
                r = np.asarray(ref())
                vals = out.iloc[:, 4:].to_numpy()
                print("   equals ndarray output reshaped:", np.array_equal(vals, r.reshape(-1, 3)))
        else:
            out = np.asarray(out)
            print("  ", out.shape, hashlib.sha1(np.ascontiguousarray(out).tobytes()).hexdigest()[:16])
    except Exception as err:  # pylint: disable=broad-except
        print(name, "-> EXC", type(err).__name__, "|", clean(err).replace("\n", " / ")[:200])


cub = magpy.magnet.Cuboid(polarization=(0.1, 0.2, 0.3), dimension=(1, 2, 3), style_label="mycube")
cyl = magpy.magnet.Cylinder(polarization=(0.3, 0.2, 0.1), dimension=(1, 2), position=[(0, 0, 0), (0.1, 0, 0), (0.2, 0, 0)])
circ = magpy.current.Circle(current=2, diameter=3, style_label="")
sph = magpy.magnet.Sphere(polarization=(0, 0, 1), diameter=1, position=(3, 3, 3))
col = magpy.Collection(circ, sph, style_label="mycol")
col_nolabel = magpy.Collection(magpy.current.Circle(current=1, diameter=1), sph.copy())
s1 = magpy.Sensor(pixel=[[(0, 0, 0), (0.1, 0.1, 0.1)], [(0, 0, 1), (0.1, 0.1, 1.1)]], position=(2, 2, 2), style_label="S-one")
s2 = magpy.Sensor(pixel=[[(0, 0, 0), (0.1, 0.1, 0.1)], [(0, 0, 1), (0.1, 0.1, 1.1)]], position=(-2, 2, 2))
s3 = magpy.Sensor(position=(1, 1, 1), handedness="left")
scol = magpy.Collection(s1, s2)
mixed = magpy.Collection(cub.copy(), s3.copy())

for field in "BHJM":
    f = getattr(magpy, "get" + field)
    kw = dict(output="dataframe")
    run(f"{field}.top", lambda: f([cub, cyl, col], [s1, s2], **kw), lambda: f([cub, cyl, col], [s1, s2], squeeze=False))
    run(f"{field}.top.sumup", lambda: f([cub, cyl, col], [s1, s2], sumup=True, **kw),
        lambda: f([cub, cyl, col], [s1, s2], sumup=True, squeeze=False))
    run(f"{field}.top.sumup.single", lambda: f(cub, [s1, s2], sumup=True, **kw), lambda: f(cub, [s1, s2], sumup=True, squeeze=False))
    run(f"{field}.top.agg", lambda: f([cub, cyl], [s1, s3], pixel_agg="mean", **kw),
        lambda: f([cub, cyl], [s1, s3], pixel_agg="mean", squeeze=False))
    run(f"{field}.top.agg.same", lambda: f([cub, cyl], [s1, s2], pixel_agg="max", **kw),
        lambda: f([cub, cyl], [s1, s2], pixel_agg="max", squeeze=False))
    run(f"{field}.top.posvec", lambda: f(col_nolabel, [(1, 2, 3), (2, 3, 4)], **kw), lambda: f(col_nolabel, [(1, 2, 3), (2, 3, 4)], squeeze=False))
    run(f"{field}.src", lambda: getattr(cyl, "get" + field)(s1, s2, **kw), lambda: getattr(cyl, "get" + field)(s1, s2, squeeze=False))
    run(f"{field}.sens", lambda: getattr(s1, "get" + field)(cub, cyl, **kw), lambda: getattr(s1, "get" + field)(cub, cyl, squeeze=False))
    run(f"{field}.sens.sumup", lambda: getattr(s1, "get" + field)(cub, cyl, sumup=True, **kw))
    run(f"{field}.coll.src", lambda: getattr(col, "get" + field)(s1, s2, **kw), lambda: getattr(col, "get" + field)(s1, s2, squeeze=False))
    run(f"{field}.coll.sens", lambda: getattr(scol, "get" + field)(cub, cyl, **kw), lambda: getattr(scol, "get" + field)(cub, cyl, squeeze=False))
    run(f"{field}.coll.mixed", lambda: getattr(mixed, "get" + field)(**kw), lambda: getattr(mixed, "get" + field)(squeeze=False))
    run(f"{field}.squeeze-ignored", lambda: f(cub, s3, squeeze=False, **kw))
    run(f"{field}.ndarray", lambda: f([cub, cyl, col], [s1, s2]))
    run(f"{field}.ndarray.agg.nosqueeze", lambda: f([cub, cyl], [s1, s3], pixel_agg="mean", squeeze=False))

# error paths
run("err.output", lambda: magpy.getB(cub, s1, output="frame"))
run("err.output.None", lambda: magpy.getB(cub, s1, output=None))
run("err.output.after-compute", lambda: magpy.getB(magpy.misc.CustomSource(), s1, output="frame"))
run("err.kwargs", lambda: magpy.getB(cub, s1, output="dataframe", foo=1))
