import os, sys; sys.path.insert(0, os.getcwd())
import hashlib
import re
import warnings

import numpy as np


def noid(txt):
    """object ids differ from run to run"""
    return re.sub(r"id=\d+", "id=#", re.sub(r"0x[0-9a-f]+", "0x#", txt))


def dig(x):
    """deterministic digest of an array / dataframe / anything"""
    try:
        import pandas as pd

        if isinstance(x, pd.DataFrame):
            return (
                f"df{x.shape} cols={list(x.columns)} "
                + hashlib.sha1(noid(x.to_csv()).encode()).hexdigest()[:12]
            )
    except ImportError:
        pass
    a = np.asarray(x)
    if a.dtype == object:
        return f"obj {a!r}"
    a = np.ascontiguousarray(a, dtype=float)
    return (
        f"{a.shape} sum={np.round(np.nansum(a), 12)!r} "
        + hashlib.sha1(a.tobytes()).hexdigest()[:12]
    )


def run(label, func, *args, **kwargs):
    """call and print digest or exception (type, first and last message line)"""
    with warnings.catch_warnings(record=True) as wlist:
        warnings.simplefilter("always")
        try:
            res = func(*args, **kwargs)
            out = dig(res)
        except BaseException as err:  # pylint: disable=broad-except
            msg = str(err).strip().splitlines() or [""]
            out = noid(f"!! {type(err).__name__}: {msg[0][:150]} || {msg[-1][:150]}")
            res = None
    wtxt = "".join(
        noid(f" [W {w.category.__name__}: {str(w.message)[:60]}]") for w in wlist
    )
    print(f"{label}: {out}{wtxt}")
    return res

import inspect

import magpylib as magpy

METHODS = ("getB", "getH", "getM", "getJ")


def make():
    s1 = magpy.magnet.Cuboid(polarization=(0.1, 0.2, 0.3), dimension=(1, 2, 3), position=(0.5, 0, 0))
    s2 = magpy.current.Circle(current=3.0, diameter=2.0, position=[(0, 0, 0.1), (0, 0, 0.2), (0, 0, 0.3)])
    s3 = magpy.misc.Dipole(moment=(1, 2, 3), position=(-1, 0.3, 0))
    s4 = magpy.magnet.Sphere(polarization=(0, 0, 1), diameter=1.0).rotate_from_angax(30, "x")
    tet = magpy.magnet.Tetrahedron(polarization=(0, 0, 1), vertices=[(0, 0, 0), (1, 0, 0), (0, 1, 0), (0, 0, 1)])
    for i, o in enumerate((s1, s2, s3, s4, tet)):
        o.style.label = f"s{i}"
    return s1, s2, s3, s4, tet


s1, s2, s3, s4, tet = make()
col = magpy.Collection(s2, magpy.Collection(s3, s4, style_label="in"), style_label="col")
sensors = {
    "plain": magpy.Sensor(position=(0, 0, 2), style_label="x0"),
    "pix": magpy.Sensor(position=(0, 0, 2), pixel=[(0, 0, 0), (0.1, 0, 0)], style_label="x1"),
    "left_rot_path": magpy.Sensor(position=[(1, 1, 1), (1, 1, 2)], pixel=[[(0, 0, 0), (0, 0.1, 0)]], handedness="left", style_label="x2").rotate_from_angax([10, 40], "y", start=0),
    "inside_tet": magpy.Sensor(position=(0.1, 0.1, 0.1), style_label="x3"),
}
SRC = {
    "none": (),
    "one": (s1,),
    "two": (s1, s2),
    "list": ([s1, s2],),
    "tuple": ((s1, s2),),
    "one-list": ([s1],),
    "col": (col,),
    "col+bare": (s1, col, s1),
    "[col,bare]": ([col, s1],),
    "dup": (s1, s1),
    "nested list": ([s1, [s2]],),
    "two lists": ([s1], [s2]),
    "tet": (tet, s1),
    "str": ("Cuboid",),
    "sensor": (sensors["plain"],),
    "None": (None,),
    "empty list": ([],),
    "empty col": (magpy.Collection(style_label="ec"),),
    "generator": ((s for s in (s1, s2)),),
}
KW = (
    {},
    {"sumup": True},
    {"squeeze": False},
    {"sumup": True, "squeeze": False},
    {"pixel_agg": "mean"},
    {"sumup": 1, "pixel_agg": "max", "squeeze": 0},
    {"output": "dataframe"},
    {"output": "dataframe", "sumup": True},
    {"in_out": "inside"},
    {"in_out": "outside", "sumup": True},
)
print("signatures", [str(inspect.signature(getattr(magpy.Sensor, m))) for m in METHODS])
for xname, sens in sensors.items():
    for meth in METHODS:
        for sname, srcs in SRC.items():
            if sname == "generator":
                srcs = ((s for s in (s1, s2)),)
            for kw in KW:
                if xname != "pix" and kw not in KW[:4] and sname not in ("two", "col+bare", "tet"):
                    continue
                run(f"{xname}.{meth}({sname},{kw})", getattr(sens, meth), *srcs, **kw)

print("== agreement with the functional form, sumup == sum, collection == sum of members")
x = sensors["left_rot_path"]
for meth in METHODS:
    top = getattr(magpy, meth)
    a = getattr(x, meth)(s1, col, s1, squeeze=False)
    b = top([s1, col, s1], x, squeeze=False)
    c = getattr(x, meth)(s1, col, s1, squeeze=False, sumup=True)
    d = top([s1, col, s1], x, squeeze=False, sumup=True)
    e = getattr(x, meth)(s2, s3, s4, squeeze=False, sumup=True)
    print(meth, np.array_equal(a, b), np.array_equal(c, d), np.array_equal(c, np.sum(a, axis=0, keepdims=True)), np.allclose(e[0], a[1], rtol=1e-12, atol=1e-20), dig(a), dig(c))

print("== bad keywords")
x = sensors["pix"]
for meth in METHODS:
    run(f"{meth} field kw", getattr(x, meth), s1, field="H")
    run(f"{meth} unknown kw", getattr(x, meth), s1, foo=1)
    run(f"{meth} dict kw", getattr(x, meth), s1, polarization=(1, 2, 3))
    run(f"{meth} bad output", getattr(x, meth), s1, output="x")
    run(f"{meth} bad agg", getattr(x, meth), s1, pixel_agg="x")
    run(f"{meth} bad in_out", getattr(x, meth), tet, in_out="x")
    run(f"{meth} str + kwargs", getattr(x, meth), "Dipole", moment=(1, 2, 3))
    run(f"{meth} sumup array", getattr(x, meth), s1, s2, sumup=np.array([1, 1]))
    run(f"{meth} positional only", getattr(x, meth), s1, True)
    run(f"{meth} uninit", getattr(x, meth), magpy.magnet.Cuboid(), s1)
print("paths", [len(o._position) for o in (s1, s2, s3, s4, tet)], [len(v._position) for v in sensors.values()])
