import os, sys; sys.path.insert(0, os.getcwd())
import hashlib
import warnings

import numpy as np

import magpylib as magpy
from magpylib._src.fields.field_BH_triangularmesh import BHJM_magnet_trimesh

warnings.simplefilter("ignore")
np.set_printoptions(precision=10, linewidth=200)


def digest(tag, arr):
    arr = np.asarray(arr)
    kind = arr.dtype.kind
    arr = np.ascontiguousarray(arr.astype(float))
    h = hashlib.sha256(arr.tobytes()).hexdigest()[:16]
    print(tag, arr.shape, kind, h)
    print(np.array2string(arr.ravel()[:18], precision=10))


def attempt(tag, func):
    try:
        digest(tag, func())
    except Exception as err:  # pylint: disable=broad-except
        print(tag, "EXC", type(err).__name__, str(err)[:120].replace("\n", " | "))


rng = np.random.default_rng(2202)

cube_v = (
    np.array(
        [(0, 0, 0), (1, 0, 0), (1, 1, 0), (0, 1, 0), (0, 0, 1), (1, 0, 1), (1, 1, 1), (0, 1, 1)],
        dtype=float,
    )
    - 0.5
)
cube_f = np.array(
    [
        (0, 2, 1), (0, 3, 2), (4, 5, 6), (4, 6, 7), (0, 1, 5), (0, 5, 4),
        (2, 3, 7), (2, 7, 6), (1, 2, 6), (1, 6, 5), (0, 4, 7), (0, 7, 3),
    ]
)
cube = cube_v[cube_f]  # (12,3,3)
tet_v = np.array([(0, 0, 0), (1, 0, 0), (0, 1, 0), (0, 0, 1)], dtype=float)
tet_f = np.array([(0, 2, 1), (0, 1, 3), (1, 2, 3), (0, 3, 2)])
tet = tet_v[tet_f]  # (4,3,3)

obs_cube = np.array(
    [
        (0, 0, 0),
        (0.1, 0.2, -0.3),
        (0.5, 0, 0),  # on face
        (0.5, 0.5, 0.1),  # on edge
        (0.7, 0.1, 0.2),
        (3, 2, 1),
        (-0.49999, 0.2, 0.1),
    ],
    dtype=float,
)
obs_tet = np.array([(0.1, 0.1, 0.1), (0.3, 0.3, 0.3), (1, 1, 1), (0.2, 0.2, 0), (-1, 0.2, 0.3)])


def regular_input(scale):
    """all instances have the same number of faces -> 4D ndarray; 3 groups of meshes"""
    obs = np.concatenate([obs_cube, obs_cube[:3] + 0.01, obs_cube[:4]]) * scale
    n1, n2, n3 = len(obs_cube), 3, 4
    cube2 = cube * (1.0, 2.0, 0.5)
    mesh = np.concatenate(
        [np.tile(cube, (n1, 1, 1, 1)), np.tile(cube2, (n2, 1, 1, 1)), np.tile(cube, (n3, 1, 1, 1))]
    ) * scale
    pol = rng.uniform(-1, 1, size=(len(obs), 3))
    pol[1] = 0
    return obs, mesh, pol


def ragged_input(scale):
    """instances with different numbers of faces -> 1D object array of (mi,3,3)"""
    obs = np.concatenate([obs_cube, obs_tet, obs_cube[:2]]) * scale
    parts = [cube * scale] * len(obs_cube) + [tet * scale] * len(obs_tet) + [cube * scale] * 2
    mesh = np.empty(len(parts), dtype=object)
    for i, part in enumerate(parts):
        mesh[i] = part
    pol = rng.uniform(-1, 1, size=(len(obs), 3))
    return obs, mesh, pol


for scale in (1.0, 1e-9, 1e-3, 1e6, 1e9):
    for pscale in (1.0, 1e-12, 1e12):
        for kind, make in (("reg", regular_input), ("rag", ragged_input)):
            obs, mesh, pol = make(scale)
            for field in "BHJM":
                for in_out in ("auto", "inside", "outside"):
                    attempt(
                        f"{kind} s={scale:g} p={pscale:g} {field} {in_out}",
                        lambda: BHJM_magnet_trimesh(field, obs, mesh, pol * pscale, in_out=in_out),
                    )

# inputs not modified / result object properties
obs, mesh, pol = regular_input(1.0)
o0, m0, p0 = obs.copy(), mesh.copy(), pol.copy()
res = BHJM_magnet_trimesh("B", obs, mesh, pol)
print("untouched", np.array_equal(o0, obs), np.array_equal(m0, mesh), np.array_equal(p0, pol),
      res.dtype, res.shape, res.flags["C_CONTIGUOUS"], res.flags["OWNDATA"])
obs, mesh, pol = ragged_input(1.0)
res = BHJM_magnet_trimesh("H", obs, mesh, pol)
print("ragged props", res.dtype, res.shape, res.flags["C_CONTIGUOUS"], res.flags["OWNDATA"])

# single instance, empty input, integer polarization
obs, mesh, pol = regular_input(1.0)
attempt("single", lambda: BHJM_magnet_trimesh("B", obs[:1], mesh[:1], pol[:1]))
attempt("int pol", lambda: BHJM_magnet_trimesh("B", obs[:3], mesh[:3], np.array([(1, 2, 3)] * 3)))
attempt("empty B", lambda: BHJM_magnet_trimesh("B", obs[:0], mesh[:0], pol[:0]))
attempt("empty J", lambda: BHJM_magnet_trimesh("J", obs[:0], mesh[:0], pol[:0]))

# object interface at three units (regular and ragged through a collection of two meshes)
for scale in (1.0, 1e-6, 1e6):
    def build():
        m1 = magpy.magnet.TriangularMesh(polarization=(0.1, -0.2, 0.3), vertices=cube_v * scale, faces=cube_f)
        m2 = magpy.magnet.TriangularMesh(
            polarization=(0.3, 0.2, 0.1), vertices=tet_v * scale, faces=tet_f, position=(0.1 * scale, 0, 0)
        )
        o = obs_cube * scale
        return np.concatenate([magpy.getB([m1, m2], o).ravel(), magpy.getH([m1, m2], o).ravel(),
                               magpy.getJ([m1, m2], o).ravel(), magpy.getM(m1, o).ravel()])
    attempt(f"obj s={scale:g}", build)

# error paths
obs, mesh, pol = regular_input(1.0)
robs, rmesh, rpol = ragged_input(1.0)
attempt("err field X", lambda: BHJM_magnet_trimesh("X", obs, mesh, pol))
attempt("err field empty", lambda: BHJM_magnet_trimesh("", obs, mesh, pol))
attempt("err field BH", lambda: BHJM_magnet_trimesh("BH", obs, mesh, pol))
attempt("err field X ragged", lambda: BHJM_magnet_trimesh("X", robs, rmesh, rpol))
attempt("err field None", lambda: BHJM_magnet_trimesh(None, obs, mesh, pol))
attempt("err obs short", lambda: BHJM_magnet_trimesh("B", obs[:5], mesh, pol))
attempt("err pol short", lambda: BHJM_magnet_trimesh("B", obs, mesh, pol[:5]))
attempt("err pol short H", lambda: BHJM_magnet_trimesh("H", obs, mesh, pol[:5]))
attempt("err pol short J", lambda: BHJM_magnet_trimesh("J", obs, mesh, pol[:5]))
attempt("err mesh short", lambda: BHJM_magnet_trimesh("B", obs, mesh[:5], pol))
attempt("err ragged obs short", lambda: BHJM_magnet_trimesh("B", robs[:5], rmesh, rpol))
attempt("err ragged pol short", lambda: BHJM_magnet_trimesh("B", robs, rmesh, rpol[:5]))
attempt("err mesh list", lambda: BHJM_magnet_trimesh("B", obs, list(mesh), pol))
attempt("err mesh 3d", lambda: BHJM_magnet_trimesh("B", obs[:1], cube, pol[:1]))
attempt("err obs scalar J", lambda: BHJM_magnet_trimesh("J", np.float64(1.0), mesh, pol))
attempt("in_out other", lambda: BHJM_magnet_trimesh("B", obs, mesh, pol, in_out="sometimes"))
