import os, sys; sys.path.insert(0, os.getcwd())
import hashlib
import re
import warnings

import numpy as np
from scipy.spatial.transform import Rotation as R

import magpylib as magpy

warnings.simplefilter("ignore")


def h(x):
    x = np.ascontiguousarray(np.asarray(x))
    return f"{x.dtype}{x.shape} {hashlib.sha1(x.tobytes()).hexdigest()[:16]}"


def clean(err):
    return re.sub(r"0x[0-9a-f]+|id=\d+", "ADDR", str(err).replace("\n", " / "))


def attempt(label, func, *args, **kwargs):
    try:
        res = func(*args, **kwargs)
    except Exception as err:  # pylint: disable=broad-except
        ctx = type(err.__context__).__name__
        print(f"{label}: EXC {type(err).__name__} ctx={ctx}: {clean(err)[:160]}")
        return None
    if hasattr(res, "columns"):
        print(f"{label}: df{res.shape} {h(res.iloc[:, -3:].to_numpy())} {[clean(s) for s in res['sensor'].unique()][:3]}")
    else:
        print(f"{label}: {h(res)} {np.round(np.asarray(res, dtype=float).ravel()[:4], 9).tolist()}")
    return res


SEEN = []


def echo(field, observers):
    """field function of a source in the origin: returns the observer positions it receives"""
    SEEN.append(h(observers))
    return observers * 1.0


probe = magpy.misc.CustomSource(field_func=echo)  # static, unrotated, in the origin
probe_path = magpy.misc.CustomSource(field_func=echo, position=[(0, 0, 0)] * 4)
cub = magpy.magnet.Cuboid(polarization=(0.1, 0.2, 0.3), dimension=(1, 2, 3), position=(0.5, 0.1, -0.2))
cub.rotate_from_angax([10, 20, 30], "y", start=0)
circ = magpy.current.Circle(current=2, diameter=3, position=(0, 0, -1))

rot3 = R.from_euler("xyz", [(10, 20, 30), (40, 50, 60), (70, 80, 90)], degrees=True)
pix1 = (0.1, 0.2, 0.3)
pix2 = [(0.1, 0.2, 0.3), (0.4, 0.5, 0.6)]
pix23 = np.arange(18).reshape(2, 3, 3) / 10.0
pix1213 = np.arange(6).reshape(1, 2, 1, 3) / 3.0

SENSORS = {
    "nopix static": magpy.Sensor(),
    "nopix moved": magpy.Sensor(position=(1, 2, 3)),
    "nopix rotated": magpy.Sensor(position=(1, 2, 3), orientation=rot3[0]),
    "nopix path": magpy.Sensor(position=[(1, 2, 3), (2, 3, 4), (3, 4, 5)]),
    "nopix path rot": magpy.Sensor(position=[(1, 2, 3), (2, 3, 4), (3, 4, 5)], orientation=rot3),
    "pix(3,) static": magpy.Sensor(pixel=pix1),
    "pix(3,) rot path": magpy.Sensor(pixel=pix1, position=[(1, 2, 3), (2, 3, 4), (3, 4, 5)], orientation=rot3),
    "pix(2,3) static rot": magpy.Sensor(pixel=pix2, position=(0.3, 0.2, 0.1), orientation=rot3[1]),
    "pix(2,3) path": magpy.Sensor(pixel=pix2, position=[(1, 2, 3), (2, 3, 4), (3, 4, 5)], orientation=rot3),
    "pix(2,3,3) path": magpy.Sensor(pixel=pix23, position=[(1, 2, 3), (2, 3, 4), (3, 4, 5)], orientation=rot3),
    "pix(1,2,1,3) path2": magpy.Sensor(pixel=pix1213, position=[(1, 2, 3), (2, 3, 4)], orientation=rot3[:2]),
    "pix(2,3) left": magpy.Sensor(pixel=pix2, position=(0.3, 0.2, 0.1), orientation=rot3[2], handedness="left"),
    "pix int input": magpy.Sensor(pixel=[(1, 2, 3), (4, 5, 6)], position=[(0, 0, 1), (0, 0, 2)]),
}


def state(objs):
    return " ".join(h(o._position)[-8:] + "/" + h(o._orientation.as_quat())[-8:] for o in objs)


print("== single sensors")
for name, sens in SENSORS.items():
    before = state([sens, probe, probe_path])
    for src_name, src in (("probe", probe), ("probe_path", probe_path)):
        SEEN.clear()
        attempt(f"[{name}] getB({src_name})", magpy.getB, src, sens)
        print("     observers handed to field_func:", SEEN)
        SEEN.clear()
        attempt(f"[{name}] sens.getH({src_name})", sens.getH, src, squeeze=False)
        attempt(f"[{name}] {src_name}.getJ(sens)", src.getJ, sens)
        print("     observers handed to field_func:", SEEN)
    attempt(f"[{name}] getB(cub)", magpy.getB, cub, sens)
    attempt(f"[{name}] getH([cub, circ], sumup)", magpy.getH, [cub, circ], sens, sumup=True)
    attempt(f"[{name}] dataframe", magpy.getB, [cub, probe], sens, output="dataframe")
    attempt(f"[{name}] pixel_agg", magpy.getB, cub, sens, pixel_agg="mean")
    print("     state unchanged:", before == state([sens, probe, probe_path]))

print("== several sensors / collections / mixed pixel shapes")
same_shape = [SENSORS[k] for k in ("pix(2,3) static rot", "pix(2,3) path", "pix(2,3) left", "pix int input")]
one_pix = [SENSORS[k] for k in ("nopix static", "nopix path rot", "pix(3,) rot path", "nopix rotated")]
mixed = [SENSORS[k] for k in ("nopix path", "pix(2,3) path", "pix(2,3,3) path", "pix(1,2,1,3) path2")]
for lab, group in (("same_shape", same_shape), ("one_pix", one_pix)):
    SEEN.clear()
    attempt(f"{lab}: getB(probe)", magpy.getB, probe, group)
    print("     observers:", SEEN)
    attempt(f"{lab}: getB([cub, circ, probe_path])", magpy.getB, [cub, circ, probe_path], group)
    attempt(f"{lab}: cub.getH(*group)", cub.getH, *group)
    attempt(f"{lab}: duplicate sensors", magpy.getB, cub, group + group[:2])
    scol = magpy.Collection(*[s.copy() for s in group])
    attempt(f"{lab}: sensor collection getB(cub)", scol.getB, cub)
    attempt(f"{lab}: getM(cub, sensor collection)", magpy.getM, cub, scol)
    attempt(f"{lab}: sensors + posvec", magpy.getB, cub, group + [np.zeros(group[0].pixel.shape if group[0].pixel is not None else (3,))])
    attempt(f"{lab}: dataframe", magpy.getH, [cub, circ], group, output="dataframe")
SEEN.clear()
attempt("mixed: pixel_agg mean", magpy.getB, [probe, cub], mixed, pixel_agg="mean")
print("     observers:", SEEN)
attempt("mixed: pixel_agg max squeeze=False", magpy.getH, cub, mixed, pixel_agg="max", squeeze=False)
attempt("mixed: dataframe pixel_agg", magpy.getB, cub, mixed, pixel_agg="min", output="dataframe")
both = magpy.Collection(cub.copy(), SENSORS["pix(2,3) path"].copy(), SENSORS["pix(2,3) static rot"].copy())
attempt("collection with sources and sensors", both.getB)

print("== position vectors as observers")
for shape in [(3,), (1, 3), (4, 3), (2, 2, 3), (1, 1, 1, 3)]:
    obs = np.arange(int(np.prod(shape)), dtype=float).reshape(shape) / 5 + 0.05
    SEEN.clear()
    attempt(f"posvec {shape} probe", magpy.getB, probe, obs)
    print("     observers:", SEEN)
    attempt(f"posvec {shape} cub", cub.getB, obs)
    attempt(f"posvec {shape} list form", magpy.getH, [cub, circ], obs.tolist())

print("== error paths")


def boom(field, observers):
    if len(observers) > 2:
        raise RuntimeError(f"boom {observers.shape}")
    return observers * 1.0


bad = magpy.misc.CustomSource(field_func=boom)
s_path = SENSORS["pix(2,3) path"]
before = state([s_path, bad, cub])
attempt("field_func raises", magpy.getB, [cub, bad], s_path)
print("     state unchanged:", before == state([s_path, bad, cub]))
attempt("different pixel shapes, no pixel_agg", magpy.getB, cub, mixed)
attempt("bad observer", magpy.getB, cub, [SENSORS["nopix static"], "x"])
attempt("empty observers", magpy.getB, cub, [])
attempt("sensor-less collection as observer", magpy.getB, cub, magpy.Collection(circ.copy()))
