import os, sys; sys.path.insert(0, os.getcwd())
import hashlib
import warnings

import numpy as np

import magpylib as magpy
from magpylib._src.fields.field_BH_tetrahedron import BHJM_magnet_tetrahedron

warnings.simplefilter("ignore")


def digest(name, arr):
    arr = np.asarray(arr)
    h = hashlib.sha256(np.ascontiguousarray(arr).tobytes()).hexdigest()[:16]
    print(name, arr.shape, arr.dtype, h)
    with np.printoptions(precision=10, linewidth=200):
        print(np.round(arr, 12))


rng = np.random.default_rng(3)
n = 16
base = np.array([(0, 0, 0), (1, 0, 0), (0, 1, 0), (0, 0, 1)], dtype=float)
verts = np.tile(base, (n, 1, 1))
# half of them left-handed (p2 <-> p3 swapped) so that check_chirality acts
verts[::2] = verts[::2][:, (0, 1, 3, 2)]
verts[10:] += rng.uniform(-0.2, 0.2, (n - 10, 4, 3))
obs = rng.uniform(-0.3, 1.0, (n, 3))
obs[0] = (0.1, 0.1, 0.1)  # inside
obs[1] = (0.2, 0.2, 0.2)  # inside
obs[2] = (0.25, 0.25, 0.0)  # on a face
obs[3] = (0.5, 0.0, 0.0)  # on an edge
obs[4] = (0.0, 0.0, 0.0)  # on a vertex
obs[5] = (2, 2, 2)  # outside
obs[6] = (1 / 3, 1 / 3, 1 / 3)  # on the slanted face
pol = rng.uniform(-1, 1, (n, 3))
pol[7] = 0

for in_out in ("auto", "inside", "outside"):
    for field in "BHJM":
        v = verts.copy()
        res = BHJM_magnet_tetrahedron(field, obs, v, pol, in_out=in_out)
        digest(f"core-{in_out}-{field}", res)
        # in-place effect on the vertices input (chirality fix) must be the same
        digest(f"verts-after-{in_out}-{field}", v)
        print("alias", np.shares_memory(res, pol), np.shares_memory(res, obs))

# default in_out and integer inputs
v = verts.copy()
digest("default-B", BHJM_magnet_tetrahedron("B", obs, v, pol))
pol_int = np.array([(1, -2, 3)] * n)
for field in "BHJM":
    digest(f"int-{field}", BHJM_magnet_tetrahedron(field, obs, verts.copy(), pol_int))

# unknown in_out value behaves like 'auto' in the core function
digest("weird-in_out-J", BHJM_magnet_tetrahedron("J", obs, verts.copy(), pol, in_out="bla"))

# object interface
tet = magpy.magnet.Tetrahedron(
    vertices=[(0, 0, 0), (1, 0, 0), (0, 0, 1), (0, 1, 0)], polarization=(0.2, -0.4, 0.9)
)
tet.rotate_from_angax(27, (1, 2, -1)).move((0.1, -0.1, 0.05))
pts = rng.uniform(-0.2, 0.8, (25, 3))
for in_out in ("auto",):
    B, H, J, M = (getattr(tet, f"get{f}")(pts, in_out=in_out) for f in "BHJM")
    for nme, arr in zip("BHJM", (B, H, J, M)):
        digest(f"obj-{nme}", arr)
    print("BHJ", np.allclose(B, magpy.mu_0 * H + J, rtol=1e-12, atol=1e-15))
    print("JM", np.allclose(J, magpy.mu_0 * M, rtol=1e-14, atol=0))
digest("obj-vertices", tet.vertices)

# error paths
for bad in ("X", "BH", 5, None):
    try:
        BHJM_magnet_tetrahedron(bad, obs, verts.copy(), pol)
        print("no error", bad)
    except Exception as e:  # noqa: BLE001
        print(repr(bad), type(e).__name__, str(e).replace("\n", " | "))
for args in ((obs, verts[:3].copy(), pol), (obs[:5], verts.copy(), pol), (obs, verts.copy(), pol[:2])):
    for field in "BHJ":
        try:
            BHJM_magnet_tetrahedron(field, *args)
            print("no error")
        except Exception as e:  # noqa: BLE001
            print("shape", field, type(e).__name__, str(e)[:90])
# degenerate (flat) tetrahedron -> singular matrix in point_inside
flat = np.tile(np.array([(0, 0, 0), (1, 0, 0), (0, 1, 0), (1, 1, 0)], dtype=float), (2, 1, 1))
for field in "BHJM":
    try:
        res = BHJM_magnet_tetrahedron(field, obs[:2], flat.copy(), pol[:2])
        digest(f"flat-{field}", res)
    except Exception as e:  # noqa: BLE001
        print("flat", field, type(e).__name__, str(e)[:90])

# --- additions for batch 2: check_chirality directly, tiny and empty inputs
from magpylib._src.fields.field_BH_tetrahedron import check_chirality


def attempt(name, fn):
    try:
        digest(name, fn())
    except Exception as e:  # noqa: BLE001
        print(name, type(e).__name__, str(e).replace("\n", " | ")[:160])


v = verts.copy()
out = check_chirality(v)
digest("chir-out", out)
print("chir same object", out is v)
vi = np.array([[(0, 0, 0), (2, 0, 0), (0, 0, 2), (0, 2, 0)], [(0, 0, 0), (2, 0, 0), (0, 2, 0), (0, 0, 2)]])
digest("chir-int", check_chirality(vi))
digest("chir-int-inplace", vi)
attempt("chir-empty", lambda: check_chirality(np.zeros((0, 4, 3))))
attempt("chir-3pts", lambda: check_chirality(np.zeros((2, 3, 3))))
attempt("chir-2d", lambda: check_chirality(np.zeros((2, 4, 2))))
attempt("chir-list", lambda: check_chirality(verts.tolist()))
attempt("chir-nan", lambda: check_chirality(np.full((2, 4, 3), np.nan)))
for field in "BHJM":
    attempt(f"one-{field}", lambda: BHJM_magnet_tetrahedron(field, obs[:1], verts[:1].copy(), pol[:1]))
    attempt(f"empty-{field}", lambda: BHJM_magnet_tetrahedron(field, obs[:0], verts[:0].copy(), pol[:0]))
    attempt(f"n1-m5-{field}", lambda: BHJM_magnet_tetrahedron(field, obs[:1], verts[:5].copy(), pol[:5]))
    attempt(f"n0-m1-{field}", lambda: BHJM_magnet_tetrahedron(field, obs[:0], verts[:1].copy(), pol[:1]))
    attempt(f"n4-m1-{field}", lambda: BHJM_magnet_tetrahedron(field, obs[:4], verts[:1].copy(), pol[:1]))
