import os, sys; sys.path.insert(0, os.getcwd())
import builtins
import hashlib
import re
import warnings

import numpy as np

import magpylib as magpy

_print = builtins.print


def print(*args):  # deterministic: strip object ids / addresses
    txt = " ".join(str(a) for a in args)
    txt = re.sub(r"id=\d+", "id=#", txt)
    txt = re.sub(r"0x[0-9a-f]+", "0x#", txt)
    _print(txt)


def hx(arr):
    if arr is None:
        return "None"
    arr = np.asarray(arr)
    return f"{arr.dtype}{arr.shape}:{arr.tobytes().hex()}"


def dig(name, arr):
    arr = np.asarray(arr)
    h = hashlib.sha256(np.ascontiguousarray(arr).tobytes()).hexdigest()[:16]
    print(name, arr.shape, h, np.round(arr.ravel()[:6], 12).tolist())


def show(name, fn):
    """run fn under a recording warnings filter, print result / exception / warnings"""
    with warnings.catch_warnings(record=True) as rec:
        warnings.simplefilter("always")
        try:
            res = fn()
            print(name, "->", res)
        except BaseException as e:  # pylint: disable=broad-except
            print(name, "raised", type(e).__name__, "|", str(e)[:220].replace("\n", " / "))
        for w in rec:
            print(
                "    warning:",
                w.category.__name__,
                "|",
                str(w.message)[:150],
                "|",
                os.path.basename(w.filename),
            )


def attrs(m):
    return (
        f"J={hx(m.polarization)} M={hx(m.magnetization)} "
        f"same_obj={m.polarization is m._polarization, m.magnetization is m._magnetization}"
    )


geo = {
    "Cuboid": (magpy.magnet.Cuboid, {"dimension": (1, 2, 3)}),
    "Cylinder": (magpy.magnet.Cylinder, {"dimension": (1, 2)}),
    "CylinderSegment": (magpy.magnet.CylinderSegment, {"dimension": (1, 2, 3, 0, 90)}),
    "Sphere": (magpy.magnet.Sphere, {"diameter": 1.5}),
    "Tetrahedron": (magpy.magnet.Tetrahedron, {"vertices": [(0, 0, 0), (1, 0, 0), (0, 1, 0), (0, 0, 1)]}),
    "Triangle": (magpy.misc.Triangle, {"vertices": [(0, 0, 0), (1, 0, 0), (0, 1, 0)]}),
}

vectors = {
    "tuple": (0.1, 0.2, 0.3),
    "ints": [1, 2, 3],
    "big": (1e6, -2e6, 3.3e5),
    "just below 2000": (0, 0, 1999.999),
    "exactly 2000": (2000, 0, 0),
    "zero": (0, 0, 0),
    "negzero": (-0.0, 0.0, -0.0),
    "nan": (np.nan, 1, 2),
    "inf": (np.inf, 1, 2),
    "ndarray f8": np.array([0.25, -0.5, 4e5]),
    "ndarray i4": np.array([1, 2, 3], dtype="int32"),
    "ndarray f4": np.array([0.1, 0.2, 0.3], dtype="float32"),
    "bools": [True, False, True],
    "strings": ["1", "2", "3"],
    "tiny": (1e-310, 5e-324, 1e-300),
    "huge": (1e308, 1.7e308, -1e308),
}
bad_vectors = {
    "scalar": 1.0,
    "str": "abc",
    "len2": (1, 2),
    "len4": (1, 2, 3, 4),
    "2d": [(1, 2, 3)],
    "2d n": [(1, 2, 3), (4, 5, 6)],
    "empty": [],
    "ragged": [1, (2, 3), 4],
    "words": ["a", "b", "c"],
    "dict": {"a": 1},
    "set": {1, 2, 3},
    "generator": (i for i in range(3)),
    "complex": [1j, 2, 3],
    "None in list": [None, 1, 2],
}

print("==== constructor")
for gname, (cls, kw) in geo.items():
    for vname, vec in vectors.items():
        show(f"{gname}(polarization={vname})", lambda: attrs(cls(polarization=vec, **kw)))
        show(f"{gname}(magnetization={vname})", lambda: attrs(cls(magnetization=vec, **kw)))
    if gname in ("Cuboid", "Sphere"):
        for vname, vec in bad_vectors.items():
            show(f"{gname}(polarization=bad {vname})", lambda: attrs(cls(polarization=vec, **kw)))
            show(f"{gname}(magnetization=bad {vname})", lambda: attrs(cls(magnetization=vec, **kw)))
    show(f"{gname}(nothing)", lambda: attrs(cls(**kw)))
    show(f"{gname}(both)", lambda: attrs(cls(polarization=(1, 2, 3), magnetization=(1e6, 2e6, 3e6), **kw)))
    show(f"{gname}(both, low magnetization)", lambda: attrs(cls(polarization=(1, 2, 3), magnetization=(1, 2, 3), **kw)))
    show(f"{gname}(both, bad magnetization)", lambda: attrs(cls(polarization=(1, 2, 3), magnetization=(1, 2), **kw)))
    show(f"{gname}(both, bad polarization)", lambda: attrs(cls(polarization="x", magnetization=(1e6, 2e6, 3e6), **kw)))
    show(f"{gname}(positional)", lambda: attrs(cls(None, None, *kw.values(), (0.5, 0.5, 0.5))))

print("==== setters after construction, sequences of assignments")


def seq(steps):
    m = magpy.magnet.Cuboid(dimension=(1, 2, 3))
    out = []
    for attr, val in steps:
        try:
            setattr(m, attr, val)
            out.append("ok")
        except Exception as e:  # pylint: disable=broad-except
            out.append(type(e).__name__)
        out.append(attrs(m))
    return " ; ".join(out)


P, M = "polarization", "magnetization"
show("P then M", lambda: seq([(P, (1, 2, 3)), (M, (1e6, 2e6, 3e6))]))
show("M then P", lambda: seq([(M, (1e6, 2e6, 3e6)), (P, (1, 2, 3))]))
show("P then None via M", lambda: seq([(P, (1, 2, 3)), (M, None)]))
show("M then None via P", lambda: seq([(M, (1e6, 2e6, 3e6)), (P, None)]))
show("P then bad P keeps state", lambda: seq([(P, (1, 2, 3)), (P, (1, 2))]))
show("M then bad M keeps state", lambda: seq([(M, (1e6, 2e6, 3e6)), (M, "abc")]))
show("low M", lambda: seq([(M, (1, 2, 3))]))
show("None None", lambda: seq([(P, None), (M, None)]))


def alias():
    src = np.array([0.1, 0.2, 0.3])
    m = magpy.magnet.Cuboid(dimension=(1, 2, 3), polarization=src)
    src[0] = 99.0
    a = hx(m.polarization)
    m.polarization[1] = 7.0  # in-place edit of the stored array does not touch magnetization
    return a, attrs(m), hx(src)


show("input array is copied, stored arrays independent", alias)


def alias_m():
    src = np.array([1e5, 2e5, 3e5])
    m = magpy.magnet.Sphere(diameter=1, magnetization=src)
    src[0] = 99.0
    return attrs(m), hx(src), m.polarization is not m.magnetization


show("input array is copied (magnetization)", alias_m)

print("==== round trip and exact constants")
for vname, vec in vectors.items():
    def rt(vec=vec):
        a = magpy.magnet.Cuboid(dimension=(1, 1, 1), polarization=vec)
        b = magpy.magnet.Cuboid(dimension=(1, 1, 1), magnetization=a.magnetization)
        c = magpy.magnet.Cuboid(dimension=(1, 1, 1), polarization=b.polarization)
        return hx(a.magnetization), hx(b.polarization), hx(c.magnetization)

    show(f"roundtrip {vname}", rt)

print("==== fields: linear in excitation, J and M consistent, copies")
obs = np.array([(5.5, 4.0, 3.0), (-2.0, 6.5, 2.0), (0.2, 0.1, 0.3)])
warnings.simplefilter("ignore")
for gname, (cls, kw) in geo.items():
    j1 = np.array([0.25, -0.5, 1.0])
    j2 = np.array([1.5, 0.125, -0.75])
    a, b, ab = cls(polarization=j1, **kw), cls(polarization=j2, **kw), cls(polarization=j1 + j2, **kw)
    a4 = cls(polarization=4 * j1, **kw)
    am = cls(magnetization=a.magnetization, **kw)
    for f in "BHJM":
        fn = getattr(magpy, "get" + f)
        dig(f"{gname} {f}(a)", fn(a, obs))
        dig(f"{gname} {f}(a via magnetization)", fn(am, obs))
        print(f"{gname} {f}(4a)==4{f}(a)", bool((fn(a4, obs) == 4 * fn(a, obs)).all()))
        dig(f"{gname} {f}(a+b)-{f}(a)-{f}(b)", fn(ab, obs) - fn([a, b], obs, sumup=True))
        dig(f"{gname} {f} coll", fn(magpy.Collection(a.copy(), b.copy()), obs))
    c = a.copy(magnetization=(1e6, 0, 0))
    print(gname, "copy with magnetization:", attrs(c))
    c = a.copy(polarization=(1, 0, 0))
    print(gname, "copy with polarization:", attrs(c))
    print(gname, "repr/describe:", [ln.strip() for ln in a.describe(return_string=True).splitlines() if "ization" in ln])
