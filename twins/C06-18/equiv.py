import os, sys; sys.path.insert(0, os.getcwd())
import hashlib
import itertools
import re
import warnings

import numpy as np

import magpylib as magpy
from magpylib._src.fields.field_BH_cuboid import BHJM_magnet_cuboid
from magpylib._src.fields.field_BH_cuboid import magnet_cuboid_Bfield

warnings.simplefilter("ignore")
np.seterr(all="ignore")


def dig(name, arr):
    arr = np.ascontiguousarray(np.asarray(arr, dtype=float))
    h = hashlib.sha256(arr.tobytes()).hexdigest()[:16]
    print(name, arr.shape, arr.dtype, h, np.round(arr.ravel()[:6], 12).tolist())


def attempt(name, func, *args, **kwargs):
    try:
        dig(name, func(*args, **kwargs))
    except Exception as err:  # pylint: disable=broad-except
        msg = re.sub(r"id=\d+|0x[0-9a-fA-F]+", "ID", str(err).replace("\n", " "))
        print(name, type(err).__name__, msg[:110])


# all octants, coordinate planes (zeros and negative zeros), NaN
vals = (-1.3, -0.0, 0.0, 0.7)
octants = np.array(list(itertools.product(vals, vals, vals)))
octants = np.vstack([octants, [(np.nan, 1, 1), (1, np.nan, -1), (2, 2, np.inf)]])
n = len(octants)
rng = np.random.default_rng(3)
dims = rng.uniform(0.5, 2, (n, 3))
pols = rng.normal(size=(n, 3))

attempt("core-octants", magnet_cuboid_Bfield, octants, dims, pols)
B_joint = magnet_cuboid_Bfield(octants, dims, pols)
B_rows = np.concatenate(
    [magnet_cuboid_Bfield(octants[i : i + 1], dims[i : i + 1], pols[i : i + 1]) for i in range(n)]
)
print("core rows==joint", np.array_equal(B_joint, B_rows, equal_nan=True))
perm = rng.permutation(n)
print(
    "core perm",
    np.array_equal(magnet_cuboid_Bfield(octants[perm], dims[perm], pols[perm]), B_joint[perm], equal_nan=True),
)
o_copy = octants.copy()
magnet_cuboid_Bfield(o_copy, dims, pols)
print("core observers untouched", np.array_equal(o_copy, octants, equal_nan=True), np.array_equal(np.signbit(o_copy), np.signbit(octants)))
attempt("core-one", magnet_cuboid_Bfield, octants[5:6], dims[5:6], pols[5:6])
attempt("core-empty", magnet_cuboid_Bfield, octants[:0], dims[:0], pols[:0])
attempt(
    "core-int",
    magnet_cuboid_Bfield,
    np.array([(2, 3, 4), (-2, 3, -4), (2, -3, 4), (-2, -3, -4), (0, 0, 5)]),
    np.array([(1, 2, 3)] * 5),
    np.array([(1, 0, 0), (0, 1, 0), (0, 0, 1), (1, 1, 1), (-1, 2, 3)]),
)
attempt("core-only-bottQ4", magnet_cuboid_Bfield, np.array([(1.0, -2, -3), (0.5, -0.1, -0.2)]), dims[:2], pols[:2])
attempt("core-only-x", magnet_cuboid_Bfield, np.array([(-1.0, -2, -3), (-0.5, -0.1, -0.2)]), dims[:2], pols[:2])
attempt("core-only-y", magnet_cuboid_Bfield, np.array([(1.0, 2, -3), (0.5, 0.1, -0.2)]), dims[:2], pols[:2])
attempt("core-only-z", magnet_cuboid_Bfield, np.array([(1.0, -2, 3), (0.5, -0.1, 0.2)]), dims[:2], pols[:2])
attempt("core-err-obs", magnet_cuboid_Bfield, octants[:, :2], dims, pols)
attempt("core-err-dim", magnet_cuboid_Bfield, octants, dims[:5], pols)
attempt("core-err-none", magnet_cuboid_Bfield, None, dims, pols)

# BHJM level: general, zero polarization, zero dimension, edge, corner, surface,
# inside, outside, negative dimension
obs = np.array(
    [
        (2.0, 1.0, 0.5),
        (0.1, 0.2, 0.3),
        (2.0, 1.0, 0.5),
        (2.0, 1.0, 0.5),
        (0.5, 1.0, 0.3),  # edge along z
        (0.5, 1.0, 1.5),  # corner
        (0.5, 0.3, 0.2),  # on surface
        (-0.2, 0.4, -1.0),  # inside
        (-3.0, -2.0, 4.0),
        (0.1, 0.1, 0.1),  # inside, zero pol
        (-0.5, -1.0, -0.3),  # edge
        (0.2, 1.0, 1.5),  # edge along x
        (0.1, 0.1, 0.1),  # negative dimension, inside
        (np.nan, 0.0, 0.0),
    ]
)
m = len(obs)
dim = np.array([(1.0, 2.0, 3.0)] * m)
dim[3] = (1, 0, 3)
dim[12] = (-1, 2, -3)
pol = rng.normal(size=(m, 3))
pol[2] = 0
pol[9] = 0
pol[4] = (0, 0, 1)

for f in "BHJM":
    attempt(f"bhjm-{f}", BHJM_magnet_cuboid, f, obs, dim, pol)
for f in "BH":
    joint = BHJM_magnet_cuboid(f, obs, dim, pol)
    rows = np.concatenate(
        [BHJM_magnet_cuboid(f, obs[i : i + 1], dim[i : i + 1], pol[i : i + 1]) for i in range(m)]
    )
    print(f"bhjm-{f} rows==joint", np.array_equal(joint, rows, equal_nan=True))
    print(
        f"bhjm-{f} signbits",
        hashlib.sha256(np.signbit(joint).tobytes()).hexdigest()[:12],
    )
attempt("bhjm-all-special", BHJM_magnet_cuboid, "H", obs[[2, 3, 4, 5]], dim[[2, 3, 4, 5]], pol[[2, 3, 4, 5]])
attempt("bhjm-none-inside", BHJM_magnet_cuboid, "H", obs[[0, 8]], dim[[0, 8]], pol[[0, 8]])
attempt("bhjm-all-inside", BHJM_magnet_cuboid, "H", obs[[1, 7]], dim[[1, 7]], pol[[1, 7]])
attempt("bhjm-empty", BHJM_magnet_cuboid, "B", obs[:0], dim[:0], pol[:0])
attempt("bhjm-int-pol", BHJM_magnet_cuboid, "H", obs[:3], dim[:3], np.array([(1, 2, 3), (0, 0, 1), (0, 0, 0)]))
p_copy, o_copy, d_copy = pol.copy(), obs.copy(), dim.copy()
BHJM_magnet_cuboid("H", o_copy, d_copy, p_copy)
print(
    "bhjm inputs untouched",
    np.array_equal(p_copy, pol),
    np.array_equal(o_copy, obs, equal_nan=True),
    np.array_equal(d_copy, dim),
)
attempt("bhjm-err-field", BHJM_magnet_cuboid, "X", obs, dim, pol)
attempt("bhjm-err-obs", BHJM_magnet_cuboid, "B", obs[:, :2], dim, pol)
attempt("bhjm-err-dim", BHJM_magnet_cuboid, "B", obs, dim[:3], pol)
attempt("bhjm-err-none", BHJM_magnet_cuboid, "B", obs, dim, None)

# object oriented
c1 = magpy.magnet.Cuboid(polarization=(0.1, -0.2, 0.3), dimension=(1, 2, 3))
c1.move([(0.2 * i, 0, 0) for i in range(1, 4)])
c2 = magpy.magnet.Cuboid(polarization=(0, 0, 0), dimension=(1, 1, 1), position=(0, 2, 0))
c3 = magpy.magnet.Cuboid(polarization=(0.5, 0.5, 0), dimension=(2, 2, 2), position=(-1, -1, 1))
c3.rotate_from_angax([30, 60], "z")
sens = magpy.Sensor(pixel=[(0.5, 1, 1.5), (0, 0, 0), (-2, 3, 1), (1, -1, -2), (0.5, 1, 0)])
sens2 = magpy.Sensor(pixel=[(0, 0, 3), (0, -2, 0), (-1, 0, 0), (1, 1, 1), (-1, -1, 1)], position=(0.1, 0, 0))
attempt("oo-B", magpy.getB, [c1, c2, c3], [sens, sens2], squeeze=False)
attempt("oo-H", magpy.getH, [c3, c1, c2, c1], [sens2, sens])
attempt("oo-J", magpy.getJ, [c1, c3], sens)
attempt("oo-M", magpy.getM, [c1, c3], sens)
B = magpy.getH([c1, c2, c3], [sens, sens2], squeeze=False)
for i, c in enumerate((c1, c2, c3)):
    Bc = magpy.getH(c, [sens, sens2], squeeze=False)[0]
    k = Bc.shape[0]
    print("oo source alone", i, np.array_equal(B[i, :k], Bc), np.array_equal(B[i, k:], np.repeat(Bc[-1:], 4 - k, axis=0)))
attempt(
    "dict-H",
    magpy.getH,
    "Cuboid",
    [(0, 0, 1), (1, 1, 1), (0, 0, 0), (-1, 2, -3)],
    polarization=[(1, 2, 3), (0, 0, 1), (1, 0, 0), (0, 1, 0)],
    dimension=(1, 2, 3),
)
