import os, sys; sys.path.insert(0, os.getcwd())
import hashlib
import warnings

import numpy as np

import magpylib as magpy
from magpylib._src.fields.field_BH_cuboid import BHJM_magnet_cuboid

warnings.simplefilter("ignore")
np.set_printoptions(precision=10, linewidth=200)


def digest(tag, arr):
    arr = np.ascontiguousarray(np.asarray(arr, dtype=float))
    h = hashlib.sha256(arr.tobytes()).hexdigest()[:16]
    print(tag, arr.shape, h)
    print(np.array2string(arr.ravel()[:12], precision=10))


def attempt(tag, func):
    try:
        digest(tag, func())
    except Exception as err:  # pylint: disable=broad-except
        print(tag, "EXC", type(err).__name__, str(err)[:120].replace("\n", " | "))


rng = np.random.default_rng(12)

# observers: random, on faces, on edges, on corners, centre, just off the surface
base_dim = np.array([1.0, 2.0, 3.0])
special = np.array(
    [
        (0, 0, 0),
        (0.5, 0, 0),  # face
        (-0.5, 0.3, 0.1),  # face
        (0.5, 1.0, 0.2),  # z-edge
        (0.5, 0.4, 1.5),  # y-edge
        (0.1, 1.0, -1.5),  # x-edge
        (0.5, 1.0, 1.5),  # corner
        (-0.5, -1.0, -1.5),  # corner
        (0.5 * (1 + 1e-15), 1.0, 1.5),
        (0.5 * (1 - 1e-15), 1.0 * (1 + 2e-15), 1.5),
        (0.5 * (1 + 1e-14), 0.2, 0.3),
        (0.5 * (1 - 1e-14), 0.2, 0.3),
        (0.5, 1.0, 3.0),  # edge extension
        (0.5, 2.0, 3.0),
        (7, 8, 9),
    ],
    dtype=float,
)
rand = rng.uniform(-2, 2, size=(25, 3))
obs0 = np.concatenate([special, rand])
n = len(obs0)
pol0 = rng.uniform(-1, 1, size=(n, 3))
pol0[3] = 0  # zero polarization row
pol0[20] = (0, 0, 1)
dim0 = np.tile(base_dim, (n, 1))
dim0[25] = (1, 0, 3)  # zero dimension row
dim0[26] = (-1, 2, 3)  # negative dimension -> abs

for scale in (1.0, 1e-9, 1e-3, 1e6, 1e9):
    for pscale in (1.0, 1e-12, 1e12):
        for field in "BHJM":
            attempt(
                f"cub s={scale:g} p={pscale:g} {field}",
                lambda: BHJM_magnet_cuboid(
                    field=field,
                    observers=obs0 * scale,
                    dimension=dim0 * scale,
                    polarization=pol0 * pscale,
                ),
            )

# integer inputs (astype(float) copy behaviour)
obs_i = np.array([(0, 0, 0), (1, 1, 1), (1, 2, 3), (4, 0, 0)])
dim_i = np.array([(2, 2, 2), (2, 2, 2), (2, 4, 6), (2, 2, 2)])
pol_i = np.array([(1, 2, 3), (0, 0, 1), (1, 0, 0), (0, 0, 0)])
for field in "BHJM":
    attempt(f"cub int {field}", lambda: BHJM_magnet_cuboid(field, obs_i, dim_i, pol_i))
print("inputs untouched", obs_i.tolist(), dim_i.tolist(), pol_i.tolist())

# empty input
for field in "BHJM":
    attempt(
        f"cub empty {field}",
        lambda: BHJM_magnet_cuboid(
            field, np.zeros((0, 3)), np.zeros((0, 3)), np.zeros((0, 3))
        ),
    )

# error paths
attempt("err field", lambda: BHJM_magnet_cuboid("X", obs0, dim0, pol0))
attempt("err field type", lambda: BHJM_magnet_cuboid(1, obs0, dim0, pol0))
attempt("err shape obs/dim", lambda: BHJM_magnet_cuboid("B", obs0[:5], dim0[:4], pol0[:5]))
attempt("err shape pol", lambda: BHJM_magnet_cuboid("H", obs0[:5], dim0[:5], pol0[:4]))
attempt("err cols", lambda: BHJM_magnet_cuboid("J", obs0[:, :2], dim0, pol0))
attempt("err dim cols", lambda: BHJM_magnet_cuboid("J", obs0, dim0[:, :2], pol0))
attempt(
    "err str pol",
    lambda: BHJM_magnet_cuboid("B", obs0[:2], dim0[:3], np.array([["a", "b", "c"]] * 2)),
)

# through the object interface, with rotation and several length units
for scale in (1.0, 1e-9, 1e9):
    cub = magpy.magnet.Cuboid(
        polarization=(0.1, -0.2, 0.3), dimension=base_dim * scale, position=(0, 0, 0)
    )
    cub.rotate_from_angax(33, (1, 2, 3))
    grid = rand[:10] * scale
    attempt(f"obj B s={scale:g}", lambda: magpy.getB(cub, grid))
    attempt(f"obj H s={scale:g}", lambda: magpy.getH(cub, grid))
    attempt(f"obj J s={scale:g}", lambda: magpy.getJ(cub, grid))
    attempt(f"obj M s={scale:g}", lambda: magpy.getM(cub, grid))
