import os, sys; sys.path.insert(0, os.getcwd())

# Exercises Collection.add (pre-checks of new children), the BaseGeo.parent setter and
# the places where copy() relies on them (copy(parent=...), copies of collection trees).
import re

import numpy as np

import magpylib as magpy


def clean(txt):
    return re.sub(r"id=\d+", "id=#", str(txt))


def tree(c):
    return c.describe(format="label", return_string=True).split("\n")


def links(c):
    """parent/children consistency of a whole tree"""
    ok = []
    for ch in c.children:
        ok.append(ch.parent is c)
        if isinstance(ch, magpy.Collection):
            ok.extend(links(ch))
    ok.append(c.children == c.sources + c.sensors + c.collections or sorted(map(id, c.children))
              == sorted(map(id, c.sources + c.sensors + c.collections)))
    return ok


def fresh():
    s1 = magpy.Sensor(style_label="s1")
    s2 = magpy.Sensor(style_label="s2")
    d1 = magpy.misc.Dipole(moment=(1, 2, 3), style_label="d1")
    inner = magpy.Collection(s1, d1, style_label="inner")
    outer = magpy.Collection(inner, s2, style_label="outer")
    free = magpy.Sensor(style_label="free")
    other = magpy.Collection(style_label="other")
    return dict(s1=s1, s2=s2, d1=d1, inner=inner, outer=outer, free=free, other=other)


def attempt(label, fn, env):
    try:
        out = fn(env)
        res = ["ok", clean(out)[:40]]
    except BaseException as e:  # noqa: B036
        res = [type(e).__name__, clean(e).split("\n")]
    print(label, res)
    print("    ", tree(env["outer"]), tree(env["other"]),
          [None if env[k].parent is None else env[k].parent.style.label
           for k in ("s1", "s2", "d1", "inner", "outer", "free", "other")],
          all(links(env["outer"])), all(links(env["other"])))


class Truth:
    """override_parent value that records / fails its truth test"""

    log = []

    def __init__(self, val=True, fail=False):
        self.val, self.fail = val, fail

    def __bool__(self):
        Truth.log.append("bool")
        if self.fail:
            raise RuntimeError("no truth")
        return self.val


print("== Collection.add")
adds = {
    "free": lambda e: e["other"].add(e["free"]),
    "two free": lambda e: e["other"].add(e["free"], magpy.Sensor(style_label="n")),
    "list": lambda e: e["other"].add([e["free"], magpy.Sensor(style_label="n")]),
    "tuple": lambda e: e["other"].add((e["free"],)),
    "nothing": lambda e: e["other"].add(),
    "has parent": lambda e: e["other"].add(e["s1"]),
    "has parent override": lambda e: e["other"].add(e["s1"], override_parent=True),
    "free then owned": lambda e: e["other"].add(e["free"], e["s2"]),
    "free then owned override": lambda e: e["other"].add(e["free"], e["s2"], e["inner"], override_parent=True),
    "own child again": lambda e: e["outer"].add(e["s2"]),
    "own child again override": lambda e: e["outer"].add(e["s2"], override_parent=True),
    "duplicate": lambda e: e["other"].add(e["free"], e["free"]),
    "duplicate later": lambda e: e["other"].add(e["free"], magpy.Sensor(), e["free"]),
    "duplicate owned": lambda e: e["other"].add(e["s1"], e["s1"]),
    "duplicate owned override": lambda e: e["other"].add(e["s1"], e["s1"], override_parent=True),
    "self": lambda e: e["other"].add(e["other"]),
    "self override": lambda e: e["other"].add(e["other"], override_parent=True),
    "free then self": lambda e: e["other"].add(e["free"], e["other"]),
    "ancestor into descendant": lambda e: e["inner"].add(e["outer"]),
    "ancestor into descendant override": lambda e: e["inner"].add(e["outer"], override_parent=True),
    "owned collection": lambda e: e["other"].add(e["inner"]),
    "owned collection override": lambda e: e["other"].add(e["inner"], override_parent=True),
    "self-ref beats parent": lambda e: e["inner"].add(e["s2"], e["outer"]),
    "bad type": lambda e: e["other"].add(e["free"], "text"),
    "bad type first": lambda e: e["other"].add(5, e["free"]),
    "override 0": lambda e: e["other"].add(e["s1"], override_parent=0),
    "override 'yes'": lambda e: e["other"].add(e["s1"], override_parent="yes"),
    "override []": lambda e: e["other"].add(e["s1"], override_parent=[]),
    "override array": lambda e: e["other"].add(e["s1"], override_parent=np.array([1, 2])),
    "override array free": lambda e: e["other"].add(e["free"], override_parent=np.array([1, 2])),
}
for label, fn in adds.items():
    attempt(label, fn, fresh())

for tv in (Truth(True), Truth(False), Truth(fail=True)):
    for key in ("free", "s1"):
        Truth.log.clear()
        env = fresh()
        attempt(f"truth {tv.val} {tv.fail} {key}", lambda e: e["other"].add(e["free"], e[key], magpy.Sensor(), override_parent=tv)
                if key != "free" else e["other"].add(e["free"], override_parent=tv), env)
        print("    ", Truth.log)

print("== parent setter")
sets = {
    "free -> coll": lambda e: setattr(e["free"], "parent", e["other"]),
    "owned -> coll": lambda e: setattr(e["s1"], "parent", e["other"]),
    "owned -> same": lambda e: setattr(e["s1"], "parent", e["inner"]),
    "owned -> None": lambda e: setattr(e["s1"], "parent", None),
    "free -> None": lambda e: setattr(e["free"], "parent", None),
    "coll -> None": lambda e: setattr(e["inner"], "parent", None),
    "coll -> other": lambda e: setattr(e["inner"], "parent", e["other"]),
    "coll -> itself": lambda e: setattr(e["inner"], "parent", e["inner"]),
    "coll -> descendant": lambda e: setattr(e["outer"], "parent", e["inner"]),
    "owned -> str": lambda e: setattr(e["s1"], "parent", "text"),
    "owned -> 0": lambda e: setattr(e["s1"], "parent", 0),
    "owned -> False": lambda e: setattr(e["s1"], "parent", False),
    "owned -> sensor": lambda e: setattr(e["s1"], "parent", e["s2"]),
    "owned -> list": lambda e: setattr(e["s1"], "parent", [e["other"]]),
}
for label, fn in sets.items():
    attempt(label, fn, fresh())

print("== copy with parent keyword and copies of trees")
copies = {
    "copy child": lambda e: e["s1"].copy(),
    "copy child parent=other": lambda e: e["s1"].copy(parent=e["other"]),
    "copy child parent=own": lambda e: e["s1"].copy(parent=e["inner"]),
    "copy child parent=None": lambda e: e["s1"].copy(parent=None),
    "copy child parent=bad": lambda e: e["s1"].copy(parent="bad"),
    "copy inner": lambda e: e["inner"].copy(),
    "copy inner parent=outer": lambda e: e["inner"].copy(parent=e["outer"]),
    "copy inner parent=inner": lambda e: e["inner"].copy(parent=e["inner"]),
    "copy outer parent=inner": lambda e: e["outer"].copy(parent=e["inner"]),
    "copy outer": lambda e: e["outer"].copy(),
    "copy outer children=": lambda e: e["outer"].copy(children=[e["free"]]),
    "copy outer children= owned": lambda e: e["outer"].copy(children=[e["s1"]]),
}
for label, fn in copies.items():
    attempt(label, fn, fresh())

env = fresh()
co = env["outer"].copy()
print(tree(co), all(links(co)), co.parent, [c is not o for c, o in zip(co.children_all, env["outer"].children_all)])
co[0].add(magpy.Sensor(style_label="added"))
co[0][0].parent = None
co.remove(co[1])
print(tree(co), tree(env["outer"]), all(links(co)), all(links(env["outer"])))
env["outer"].add(magpy.Sensor(style_label="late"))
env["s1"].parent = env["other"]
print(tree(co), tree(env["outer"]), tree(env["other"]), all(links(co)), all(links(env["outer"])))
