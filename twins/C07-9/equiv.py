import os, sys; sys.path.insert(0, os.getcwd())
import hashlib
import re
import warnings

import numpy as np
from scipy.spatial.transform import Rotation as R

import magpylib as magpy


def h(x):
    x = np.ascontiguousarray(np.asarray(x))
    return f"{x.shape} {x.dtype} {hashlib.sha1(x.tobytes()).hexdigest()[:16]}"


def dig(x):
    if hasattr(x, "columns"):  # dataframe
        cols = list(x.columns)
        ids = ["|".join(re.sub(r"id=\d+", "ID", str(v)) for v in row) for row in x[cols[:4]].to_numpy()[:3]]
        return f"DF {cols} {ids} {dig(x[cols[4:]].to_numpy())}"
    x = np.asarray(x)
    return f"{h(x)} {np.round(x.astype(float), 10).ravel()[:6].tolist()}"


def run(name, fn):
    with warnings.catch_warnings(record=True) as wlist:
        warnings.simplefilter("always")
        try:
            print(name, "->", dig(fn()))
        except Exception as err:  # pylint: disable=broad-except
            msg = re.sub(r"0x[0-9a-f]+|id=\d+", "ADDR", str(err).replace("\n", " / "))
            print(name, "-> EXC", type(err).__name__, "|", msg[:200])
    for w in wlist:
        msg = re.sub(r"0x[0-9a-f]+|id=\d+", "ADDR", str(w.message).replace("\n", " / "))
        print("    WARN", w.category.__name__, "|", msg[:120])


rot = R.from_rotvec((0.3, 0.2, 0.1))
tetra = [(0, 0, 0), (1, 0, 0), (0, 1, 0), (0, 0, 1)]
tri = [(0, 0, 0), (1, 0, 0), (0, 1, 0)]
SOURCES = {
    "Cuboid": magpy.magnet.Cuboid(polarization=(0.1, 0.2, 0.3), dimension=(1, 2, 3)),
    "Cylinder": magpy.magnet.Cylinder(polarization=(0.1, 0.2, 0.3), dimension=(1, 2)),
    "CylinderSegment": magpy.magnet.CylinderSegment(polarization=(0.1, 0.2, 0.3), dimension=(1, 2, 3, 10, 170)),
    "Sphere": magpy.magnet.Sphere(polarization=(0.1, 0.2, 0.3), diameter=1.5),
    "Tetrahedron": magpy.magnet.Tetrahedron(polarization=(0.1, 0.2, 0.3), vertices=tetra),
    "Triangle": magpy.misc.Triangle(polarization=(0.1, 0.2, 0.3), vertices=tri),
    "TriangularMesh": magpy.magnet.TriangularMesh.from_ConvexHull(polarization=(0.1, 0.2, 0.3), points=tetra),
    "Circle": magpy.current.Circle(current=2.5, diameter=1.2),
    "Polyline": magpy.current.Polyline(current=2.5, vertices=[(0, 0, 0), (1, 1, 1), (2, 0, 1)]),
    "Dipole": magpy.misc.Dipole(moment=(1, 2, 3)),
    "CustomSource": magpy.misc.CustomSource(field_func=lambda field, observers: observers * (2.0 if field == "B" else 3.0)),
}
for k, src in enumerate(SOURCES.values()):
    src.position = [(0.1 * k, 0.05 * i, -0.1) for i in range(1 + k % 3)]
    src.rotate(rot, anchor=(0.2, 0.1, 0))

s1 = magpy.Sensor(pixel=[(0.3, 0.2, 0.7), (0.1, -0.2, 0.4)], position=(0.5, 0.5, 0.5)).rotate_from_angax(30, (1, 1, 1))
s2 = magpy.Sensor(pixel=[(0.3, 0.2, 0.7), (0.1, -0.2, 0.4)], handedness="left")
s2.position = [(1, 0.1 * i, 0) for i in range(3)]
s3 = magpy.Sensor(position=(1, 1, 1))
scol = magpy.Collection(s1.copy(), s2.copy())
obs = [(0.3, 0.2, 0.7), (1.3, 0.2, -0.7)]

for name, src in SOURCES.items():
    for field in "BHJM":
        meth = getattr(src, "get" + field)
        top = getattr(magpy, "get" + field)
        run(f"{name}.{field}.posvec", lambda: meth(obs))
        run(f"{name}.{field}.one-sensor", lambda: meth(s1))
        run(f"{name}.{field}.star-sensors", lambda: meth(s1, s2))
        run(f"{name}.{field}.list-sensors", lambda: meth([s1, s2]))
        run(f"{name}.{field}.sensor-collection", lambda: meth(scol))
        run(f"{name}.{field}.nosqueeze", lambda: meth(s1, s2, squeeze=False))
        run(f"{name}.{field}.agg", lambda: meth(s1, s3, s2, pixel_agg="mean"))
        run(f"{name}.{field}.df", lambda: meth(s1, s2, output="dataframe"))
        print(f"{name}.{field} method == top-level:", np.array_equal(meth(s1, s2), top(src, [s1, s2])),
              "| == sensor methods:", [np.array_equal(meth(s), getattr(s, "get" + field)(src)) for s in (s1, s2, s3)],
              "| == collection form:", np.array_equal(meth(s2), getattr(magpy.Collection(src.copy()), "get" + field)(s2)))
    run(f"{name}.in_out", lambda: src.getB(obs, in_out="outside"))
    run(f"{name}.in_out.H", lambda: src.getH(s1, in_out="inside"))

# state of the sources is unchanged
for name, src in SOURCES.items():
    print("state", name, h(src._position), h(src._orientation.as_quat()))

# error paths
cub = SOURCES["Cuboid"]
run("err.no-observers", lambda: cub.getB())
run("err.empty-list", lambda: cub.getH([]))
run("err.bad-observer", lambda: cub.getJ("nope"))
run("err.source-as-observer", lambda: cub.getM(SOURCES["Sphere"]))
run("err.sumup-kw", lambda: cub.getB(obs, sumup=True))
run("err.unknown-kw", lambda: cub.getB(obs, polarization=(1, 2, 3)))
run("err.shape-mix", lambda: cub.getB(s1, s3))
run("err.output", lambda: cub.getB(s1, output="table"))
run("err.pixel_agg", lambda: cub.getH(s1, pixel_agg="nope"))
run("err.pixel_agg2", lambda: cub.getH(s1, pixel_agg="array"))
run("err.in_out", lambda: SOURCES["Tetrahedron"].getB(s1, in_out="nope"))
run("err.no-dimension", lambda: magpy.magnet.Cuboid(polarization=(1, 2, 3)).getB(obs))
run("err.no-excitation", lambda: magpy.current.Circle(diameter=1).getH(obs))
run("err.custom-no-func", lambda: magpy.misc.CustomSource().getB(obs))
run("err.custom-no-M", lambda: magpy.misc.CustomSource(field_func=lambda field, observers: None if field in "MJ" else observers).getM(obs))
open_mesh = magpy.magnet.TriangularMesh(polarization=(0, 0, 1), vertices=tetra, faces=[(0, 1, 2), (0, 1, 3), (0, 2, 3)],
                                        check_open="ignore", check_disconnected="ignore", reorient_faces="ignore")
run("warn.open-mesh", lambda: open_mesh.getB(obs))
run("warn.open-mesh.H", lambda: open_mesh.getH(obs))
print("signature:", __import__("inspect").signature(magpy.magnet.Cuboid.getB), magpy.magnet.Cuboid.getB.__doc__[:60])
