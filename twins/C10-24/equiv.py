import os, sys; sys.path.insert(0, os.getcwd())
# Deterministic digest of the Collection transform machinery (C10).
# Output must be identical with and without the refactoring patch.
import hashlib
import warnings

import numpy as np
from scipy.spatial.transform import Rotation as R

import magpylib as magpy
from magpylib._src.obj_classes import class_BaseGeo as bg
from magpylib._src.obj_classes import class_BaseTransform as bt

warnings.simplefilter("ignore")
np.set_printoptions(precision=9, suppress=True, linewidth=200)

LINES = []


def emit(tag, *vals):
    parts = [tag]
    for v in vals:
        if isinstance(v, R):
            v = v.as_quat()
        if isinstance(v, np.ndarray):
            # exact bytes (bitwise equality expected) + rounded view for readability
            h = hashlib.sha1(np.ascontiguousarray(v).tobytes()).hexdigest()[:12]
            parts.append(f"{v.shape}{v.dtype}#{h}:{np.round(v, 9).tolist()}")
        else:
            parts.append(repr(v))
    LINES.append(" | ".join(parts))


def state(tag, *objs):
    for i, o in enumerate(objs):
        emit(f"{tag}[{i}]", o._position, o._orientation.as_quat())


def attempt(tag, fn):
    try:
        out = fn()
        LINES.append(f"{tag} -> ok {type(out).__name__}")
    except BaseException as err:  # pylint: disable=broad-except
        LINES.append(f"{tag} -> {type(err).__name__}: {str(err)[:160]!r}")


def tree(pathlen=1):
    """nested collection tree: top(c_in(cube, sens2), sphere, sens)"""
    cube = magpy.magnet.Cuboid(
        polarization=(0.1, 0.2, 0.3), dimension=(1, 2, 3), position=(1, 2, 3)
    )
    sph = magpy.magnet.Sphere(
        polarization=(0.3, 0, 0.1), diameter=1.5, position=(-2, 0.5, 1)
    )
    sens = magpy.Sensor(position=(0.3, -0.2, 4), pixel=[(0, 0, 0), (0.1, 0.2, 0.3)])
    sens2 = magpy.Sensor(position=(3, 3, -1), pixel=[(0, 0, 0.1), (0.2, 0, 0)])
    sens.rotate_from_angax(33, (1, 2, 3))
    cube.rotate_from_euler((10, 20, 30), "xyz")
    c_in = magpy.Collection(cube, sens2, position=(0.5, 0.5, 0.5))
    c_in.rotate_from_rotvec((5, 10, 15))
    top = magpy.Collection(c_in, sph, sens, position=(-1, 1, 0.25))
    if pathlen > 1:
        top.move(np.linspace((0, 0, 0), (1, 2, 3), pathlen)[1:], start=1)
    return top, c_in, cube, sph, sens, sens2


def allobjs(t):
    return t


# ---------------------------------------------------------------- module helpers
for start in ["auto", 0, 1, 3, 7, -1, -3, -7, np.int64(2), np.int64(-9)]:
    for scalar in (True, False):
        for lenop, lenip in [(1, 1), (4, 1), (4, 3), (2, 6)]:
            pad, st = bt.path_padding_param(scalar, lenop, lenip, start)
            emit("ppp", start, scalar, lenop, lenip, pad, type(pad).__name__, st)

s0 = magpy.Sensor(position=[(1, 2, 3), (2, 3, 4), (3, 4, 5)])
for inp, start in [
    (np.array([1.0, 1, 1]), "auto"),
    (np.array([[1.0, 1, 1]] * 2), "auto"),
    (np.array([[1.0, 1, 1]] * 2), 1),
    (np.array([[1.0, 1, 1]] * 5), -5),
    (np.array([1.0, 1, 1]), -6),
    (np.array([0.0, 0, 0, 1]), 2),
]:
    pp, op, st, en, padded = bt.path_padding(inp, start, s0)
    emit("pp", start, pp, op, st, en, padded)

p1 = np.arange(12.0).reshape(4, 3)
for p2 in [np.arange(6.0).reshape(2, 3), np.arange(18.0).reshape(6, 3), p1 + 1]:
    out = bg.pad_slice_path(p1, p2)
    emit("psp", out, out is p2, np.shares_memory(out, p2))

# ---------------------------------------------------------------- move on collections
for pathlen in (1, 4):
    for disp, start in [
        ((1, 2, 3), "auto"),
        ((1, 2, 3), 2),
        ((1, 2, 3), -2),
        ([(1, 2, 3), (2, 3, 4)], "auto"),
        ([(1, 2, 3), (2, 3, 4), (0, 0, 1)], 1),
        ([(1, 2, 3), (2, 3, 4), (0, 0, 1)], -6),
        (np.array([(0.5, 0, 0)] * 3), np.int64(3)),
    ]:
        t = tree(pathlen)
        t[0].move(disp, start=start)
        state(f"move top L{pathlen} {start}", *t)
        t = tree(pathlen)
        t[1].move(disp, start=start)
        state(f"move inner L{pathlen} {start}", *t)
        t = tree(pathlen)
        t[2].move(disp, start=start)
        state(f"move child L{pathlen} {start}", *t)

# ---------------------------------------------------------------- rotate on collections
ROTS = [
    ("rotate", lambda o, a, s: o.rotate(R.from_rotvec((0.2, -0.1, 0.4)), anchor=a, start=s)),
    ("rotateN", lambda o, a, s: o.rotate(None, anchor=a, start=s)),
    (
        "rotateV",
        lambda o, a, s: o.rotate(
            R.from_rotvec([(0.2, -0.1, 0.4), (0.1, 0.1, 0.1), (0, 0, 1)]), anchor=a, start=s
        ),
    ),
    ("angax", lambda o, a, s: o.rotate_from_angax(37, "y", anchor=a, start=s)),
    ("angaxV", lambda o, a, s: o.rotate_from_angax([10, 20, 30, 40], (1, 1, 0), anchor=a, start=s)),
    ("angaxR", lambda o, a, s: o.rotate_from_angax(0.3, (0, 2, 1), anchor=a, start=s, degrees=False)),
    ("angaxI", lambda o, a, s: o.rotate_from_angax(np.int64(45), [0, 0, 1], anchor=a, start=s)),
    ("rotvec", lambda o, a, s: o.rotate_from_rotvec([(10, 20, 30), (5, 5, 5)], anchor=a, start=s)),
    ("euler", lambda o, a, s: o.rotate_from_euler((15, 25), "zx", anchor=a, start=s)),
    ("matrix", lambda o, a, s: o.rotate_from_matrix([(0, -1, 0), (1, 0, 0), (0, 0, 1)], anchor=a, start=s)),
    ("mrp", lambda o, a, s: o.rotate_from_mrp((0.1, 0.2, 0.3), anchor=a, start=s)),
    ("quat", lambda o, a, s: o.rotate_from_quat([(0, 0, 1, 1), (1, 0, 0, 1)], anchor=a, start=s)),
]
ANCHORS = [
    None,
    0,
    (1, -2, 0.5),
    [(1, 0, 0), (0, 1, 0)],
    [(1, 0, 0), (0, 1, 0), (0, 0, 1), (1, 1, 1), (2, 2, 2)],
]
STARTS = ["auto", 0, 2, -1, -7, 5]
for pathlen in (1, 4):
    for name, op in ROTS:
        for anc in ANCHORS:
            for st in STARTS:
                for target in (0, 1, 2):
                    t = tree(pathlen)
                    op(t[target], anc, st)
                    h = hashlib.sha1()
                    for o in t:
                        h.update(np.ascontiguousarray(o._position).tobytes())
                        h.update(np.ascontiguousarray(o._orientation.as_quat()).tobytes())
                    LINES.append(
                        f"rot {name} L{pathlen} a={anc!r} s={st!r} t={target} "
                        f"lens={[len(o._position) for o in t]} #{h.hexdigest()[:16]}"
                    )
# a few in full
t = tree(4)
t[0].rotate_from_angax([10, 20, 30], "z", start=2)
state("full angax top", *t)
t = tree(4)
t[1].rotate_from_angax([10, 20, 30], "z", anchor=None, start=-6)
state("full angax inner", *t)
t = tree(1)
t[0].rotate_from_rotvec([(0, 0, 10), (0, 20, 0)], anchor=[(1, 1, 1)] * 4, start=1)
state("full rotvec top", *t)

# ---------------------------------------------------------------- setters / reset_path
for pathlen in (1, 4):
    for target in (0, 1, 2):
        t = tree(pathlen)
        t[target].position = (7, 8, 9)
        state(f"pos= scalar L{pathlen} t{target}", *t)
        t = tree(pathlen)
        t[target].position = [(7, 8, 9), (1, 1, 1)]
        state(f"pos= short L{pathlen} t{target}", *t)
        t = tree(pathlen)
        t[target].position = np.arange(18.0).reshape(6, 3)
        state(f"pos= long L{pathlen} t{target}", *t)
        t = tree(pathlen)
        t[target].orientation = R.from_rotvec((0.3, 0.2, 0.1))
        state(f"ori= scalar L{pathlen} t{target}", *t)
        t = tree(pathlen)
        t[target].orientation = R.from_rotvec([(0.3, 0.2, 0.1), (0, 0, 1)])
        state(f"ori= short L{pathlen} t{target}", *t)
        t = tree(pathlen)
        t[target].orientation = R.from_rotvec([(0.3, 0.2, 0.1)] * 6)
        state(f"ori= long L{pathlen} t{target}", *t)
        t = tree(pathlen)
        t[target].orientation = None
        state(f"ori= None L{pathlen} t{target}", *t)
        t = tree(pathlen)
        t[target].reset_path()
        state(f"reset L{pathlen} t{target}", *t)

# sequences + field invariance seen by own sensor
t = tree(3)
top = t[0]
B0 = top.getB()
top.move((1, 2, 3)).rotate_from_angax(40, (1, 2, 3), anchor=(1, 0, 0))
top.position = [(0, 0, 1), (0, 1, 0), (1, 0, 0)]
top.orientation = R.from_rotvec([(0.1, 0, 0), (0, 0.2, 0), (0, 0, 0.3)])
t[1].rotate_from_euler(12, "y").move((0.1, 0.1, 0.1))
state("seq", *t)
emit("seq B", top.getB())
t2 = tree(3)
B0 = t2[0].getB()
t2[0].move((1, 2, 3)).rotate_from_angax(40, (1, 2, 3), anchor=(1, 0, 0))
t2[0].position = [(0, 0, 1), (0, 1, 0), (1, 0, 0)]
t2[0].orientation = R.from_rotvec([(0.1, 0, 0), (0, 0.2, 0), (0, 0, 0.3)])
emit("seq invariance", bool(np.allclose(B0, t2[0].getB(), rtol=1e-10, atol=1e-14)))

# aliasing: anchor slice of parent path must not be modified, returns self
t = tree(2)
ppos = t[0]._position
pid = id(ppos)
ret = t[0].rotate_from_angax(10, "z")
emit("alias", ret is t[0], id(t[0]._position) == pid, t[0]._position)
ret = t[0].move((1, 1, 1))
emit("alias2", ret is t[0], id(t[0]._position) == pid)
user_anchor = np.array([(1.0, 2, 3), (4, 5, 6)])
user_disp = np.array([(1.0, 2, 3), (4, 5, 6)])
t[0].rotate_from_angax([10, 20, 30], "x", anchor=user_anchor)
t[0].move(user_disp)
emit("user inputs untouched", user_anchor, user_disp)

# ---------------------------------------------------------------- error paths
def fresh():
    return tree(2)[0]


attempt("err move str", lambda: fresh().move("abc"))
attempt("err move shape", lambda: fresh().move((1, 2)))
attempt("err move 3d", lambda: fresh().move(np.zeros((2, 2, 3))))
attempt("err move start", lambda: fresh().move((1, 2, 3), start=1.5))
attempt("err move start str", lambda: fresh().move((1, 2, 3), start="x"))
attempt("err rotate type", lambda: fresh().rotate((1, 2, 3)))
attempt("err rotate anchor", lambda: fresh().rotate(None, anchor=(1, 2)))
attempt("err rotate anchor1", lambda: fresh().rotate(None, anchor=1))
attempt("err rotate start", lambda: fresh().rotate(None, start=None))
attempt("err angax angle", lambda: fresh().rotate_from_angax("a", "z"))
attempt("err angax angle2d", lambda: fresh().rotate_from_angax([[1, 2]], "z"))
attempt("err angax axis", lambda: fresh().rotate_from_angax(10, "w"))
attempt("err angax axis0", lambda: fresh().rotate_from_angax(10, (0, 0, 0)))
attempt("err angax axis shape", lambda: fresh().rotate_from_angax(10, (0, 1)))
attempt("err angax start", lambda: fresh().rotate_from_angax(10, "z", start=0.5))
attempt("err angax degrees", lambda: fresh().rotate_from_angax(10, "z", degrees=1))
attempt("err angax anchor", lambda: fresh().rotate_from_angax(10, "z", anchor="a"))
attempt(
    "err anchor/rot mismatch",
    lambda: fresh().rotate(R.from_rotvec([(0, 0, 1)] * 3), anchor=[(0, 0, 0)] * 2),
)


def _setpos(v):
    f = fresh()
    f.position = v


def _setori(v):
    f = fresh()
    f.orientation = v


attempt("err pos=", lambda: _setpos((1, 2)))
attempt("err pos= str", lambda: _setpos("a"))
attempt("err ori=", lambda: _setori((1, 2, 3)))
# state after a rejected operation is unchanged
f = tree(2)
attempt("err keep", lambda: f[0].rotate_from_angax(10, "z", anchor=(1, 2)))
state("after rejected", *f)
attempt("err keep2", lambda: f[0].move((1, 2, 3), start=2.0))
state("after rejected2", *f)



import re
# ---------------------------------------------------------------- direct apply_rotation / apply_move grid
def sensor(pathlen):
    s = magpy.Sensor(position=np.linspace((1, 2, 3), (2, 0, 1), pathlen))
    s.orientation = R.from_rotvec(np.linspace((0.1, 0.2, 0.3), (0.3, -0.2, 0.1), pathlen))
    return s


ROT_IN = {
    "None": None,
    "scalar": R.from_rotvec((0.2, -0.1, 0.4)),
    "vec1": R.from_rotvec([(0.2, -0.1, 0.4)]),
    "vec2": R.from_rotvec([(0.2, -0.1, 0.4), (0, 0.5, 0)]),
    "vec3": R.from_rotvec([(0.2, -0.1, 0.4), (0, 0.5, 0), (1, 0, 0)]),
}
ANC_IN = {
    "None": None,
    "0": 0,
    "0.0": 0.0,
    "s": (1, -2, 0.5),
    "v1": [(1, -2, 0.5)],
    "v2": [(1, -2, 0.5), (0, 1, 0)],
    "v3": np.array([(1, -2, 0.5), (0, 1, 0), (3, 3, 3)]),
    "v4": [(1, -2, 0.5), (0, 1, 0), (3, 3, 3), (0, 0, -1)],
}
PARENTS = {
    "None": None,
    "p1": np.array([(0.5, 0.5, 0.5)]),
    "p3": np.array([(0.5, 0.5, 0.5), (1, 0, 0), (0, 2, 0)]),
}
for pathlen in (1, 3):
    for rn, rot in ROT_IN.items():
        for an, anc in ANC_IN.items():
            for st in ("auto", 0, 1, -2, -5, 4, np.int32(2)):
                for pn, par in PARENTS.items():
                    s = sensor(pathlen)
                    pid = id(s._position)
                    par_in = None if par is None else par.copy()
                    tag = f"ar L{pathlen} r={rn} a={an} s={st!r} p={pn}"
                    try:
                        ret = bt.apply_rotation(s, rot, anchor=anc, start=st, parent_path=par_in)
                    except BaseException as err:  # pylint: disable=broad-except
                        LINES.append(f"{tag} -> {type(err).__name__}: {str(err)[:120]!r}")
                        state(tag + " after-err", s)
                        continue
                    h = hashlib.sha1()
                    h.update(np.ascontiguousarray(s._position).tobytes())
                    h.update(np.ascontiguousarray(s._orientation.as_quat()).tobytes())
                    LINES.append(
                        f"{tag} ret_is_obj={ret is s} same_arr={id(s._position) == pid} "
                        f"shape={s._position.shape}/{s._orientation.as_quat().shape} "
                        f"par_untouched={par is None or bool(np.array_equal(par, par_in))} "
                        f"#{h.hexdigest()[:16]}"
                    )
# a few in full, incl. user anchor / rotation objects left untouched
user_anchor = np.array([(1.0, 2, 3), (4, 5, 6), (7, 8, 9)])
user_rot = R.from_rotvec([(0.1, 0, 0), (0, 0.2, 0)])
q_before = user_rot.as_quat().copy()
s = sensor(2)
bt.apply_rotation(s, user_rot, anchor=user_anchor, start=1)
state("ar full anchors>rots", s)
emit("ar user inputs", user_anchor, bool(np.array_equal(q_before, user_rot.as_quat())))
s = sensor(2)
bt.apply_rotation(s, R.from_rotvec([(0.1, 0, 0)] * 4), anchor=(1, 1, 1), start=-3)
state("ar full rots>anchor", s)
s = sensor(3)
bt.apply_rotation(s, R.from_rotvec((0, 0, 0.5)), parent_path=np.array([(1.0, 1, 1), (2, 2, 2)]), start=1)
state("ar full compound", s)
s = sensor(3)
bt.apply_move(s, [(1, 1, 1), (2, 2, 2)], start=2)
state("am full", s)
attempt("ar err rot type", lambda: bt.apply_rotation(sensor(2), "z"))
attempt("ar err anchor", lambda: bt.apply_rotation(sensor(2), None, anchor=(1, 2)))
attempt("ar err anchor 3d", lambda: bt.apply_rotation(sensor(2), None, anchor=np.zeros((2, 2, 3))))
attempt("ar err start", lambda: bt.apply_rotation(sensor(2), None, start=1.0))
attempt("ar err parent", lambda: bt.apply_rotation(sensor(2), None, parent_path=[(0, 0, 0)]))
attempt(
    "ar err mismatch",
    lambda: bt.apply_rotation(sensor(2), R.from_rotvec([(0, 0, 1)] * 3), anchor=[(0, 0, 0)] * 2),
)
attempt("ar err no paths", lambda: bt.apply_rotation(object(), None))

# ---------------------------------------------------------------- twins5-4: more parent paths, store order, partial effects
MORE_PARENTS = {
    "p2": np.array([(0.5, 0.5, 0.5), (1, 0, 0)]),
    "p5": np.arange(15.0).reshape(5, 3) / 4,
    "p0": np.zeros((0, 3)),
    "pint": np.arange(9).reshape(3, 3),
}
for pathlen in (1, 2, 4):
    for rn in ("None", "scalar", "vec2", "vec3"):
        for st in ("auto", 0, 1, -1, -6, 3, 6):
            for pn, par in MORE_PARENTS.items():
                s = sensor(pathlen)
                pos_obj = s._position
                par_in = par.copy()
                tag = f"ar2 L{pathlen} r={rn} s={st!r} p={pn}"
                try:
                    bt.apply_rotation(s, ROT_IN[rn], start=st, parent_path=par_in)
                except BaseException as err:  # pylint: disable=broad-except
                    LINES.append(f"{tag} -> {type(err).__name__}: {str(err)[:120]!r}")
                    state(tag + " after-err", s)
                    emit(tag + " old array", pos_obj)
                    continue
                state(tag, s)
                emit(tag + " old array", pos_obj, s._position is pos_obj, bool(np.array_equal(par, par_in)))


class Logged:
    """bare path object that records attribute traffic"""

    def __init__(self, n):
        object.__setattr__(self, "log", [])
        object.__setattr__(self, "_position", np.linspace((1.0, 2, 3), (3, 2, 1), n))
        object.__setattr__(self, "_orientation", R.from_rotvec(np.linspace((0.1, 0, 0), (0, 0.3, 0), n)))

    def __setattr__(self, name, value):
        self.log.append(("set", name, type(value).__name__))
        object.__setattr__(self, name, value)

    def __getattribute__(self, name):
        if name in ("_position", "_orientation"):
            object.__getattribute__(self, "log").append(("get", name))
        return object.__getattribute__(self, name)


for n in (1, 3):
    for rn in ("scalar", "vec2"):
        for anc in (None, (1, 1, 1)):
            for par in (None, np.ones((n, 3))):
                for st in ("auto", 1):
                    lg = Logged(n)
                    bt.apply_rotation(lg, ROT_IN[rn], anchor=anc, start=st, parent_path=par)
                    LINES.append(f"logged n={n} r={rn} a={anc} p={par is not None} s={st} {object.__getattribute__(lg, 'log')}")
                    emit("logged state", object.__getattribute__(lg, "_position"), object.__getattribute__(lg, "_orientation"))

# mismatching parent path (shorter slice than the section): rejected in the position part
for n, par in [(3, np.ones((2, 3))), (4, np.ones((3, 3)))]:
    s = sensor(n)
    s._position = s._position[: n]
    pos_obj, q0 = s._position, s._orientation.as_quat()
    attempt(f"mismatch n={n}", lambda: bt.apply_rotation(s, R.from_rotvec([(0, 0, 1)] * n), start=0, parent_path=par[:1].repeat(2, 0)))
    emit(f"mismatch state n={n}", s._position, s._orientation, s._position is pos_obj, bool(np.array_equal(q0, s._orientation.as_quat())))

# public API on trees with members of unequal path length (outside the quantifier, still deterministic)
for st in ("auto", 0, 2, -1):
    short = magpy.Sensor(position=(1, 1, 1))
    long = magpy.Sensor(position=np.arange(15.0).reshape(5, 3))
    col = magpy.Collection(short, long, position=[(0, 0, 1), (0, 1, 0), (1, 0, 0)])
    attempt(f"unequal {st}", lambda: col.rotate_from_angax([10, 20], "z", start=st))
    state(f"unequal {st}", col, short, long)
    attempt(f"unequal s {st}", lambda: col.rotate_from_angax(33, "x", start=st))
    state(f"unequal s {st}", col, short, long)

LINES[:] = [re.sub(r"id=\d+", "id=#", line) for line in LINES]
digest = hashlib.sha256("\n".join(LINES).encode()).hexdigest()
for line in LINES:
    print(line)
print("N_LINES", len(LINES))
print("DIGEST", digest)
