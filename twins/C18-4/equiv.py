import os, sys; sys.path.insert(0, os.getcwd())

# Exercises the lazy style creation of BaseGeo.style (pending style arguments applied
# on first access, rejected arguments staying pending) directly and through copy().
import re

import magpylib as magpy
from magpylib._src.style import SensorStyle


def clean(txt):
    return re.sub(r"id=\d+", "id=#", str(txt))


def state(o):
    sk = o._style_kwargs
    return (getattr(o, "_style", None) is None, clean(sk) if not isinstance(sk, dict) else dict(sk))


class Weird:
    """label value whose str() fails in a chosen way"""

    def __init__(self, exc):
        self.exc = exc

    def __str__(self):
        raise self.exc("weird label")

    def __deepcopy__(self, memo):
        return self

    def __repr__(self):
        return f"Weird({self.exc.__name__})"


class MyAttrErr(AttributeError):
    pass


class MyValErr(ValueError):
    def __str__(self):
        return "custom text"


kwsets = [
    dict(),
    dict(style_label="a"),
    dict(style_label="a", style_color="r", style_opacity=0.5),
    dict(style={"label": "d", "path": {"line": {"width": 2}}}, style_path_line_style="--"),
    dict(style={}),
    dict(style_bad=1),
    dict(style_color="nocolor"),
    dict(style_opacity=3),
    dict(style_label="ok", style_path_nope=1),
    dict(style_label=Weird(ValueError)),
    dict(style_label=Weird(MyAttrErr)),
    dict(style_label=Weird(MyValErr)),
    dict(style_label=Weird(TypeError)),
    dict(style_label=Weird(KeyboardInterrupt)),
    dict(style_label=Weird(RuntimeError)),
    dict(style=SensorStyle(label="obj")),
]

print("== direct style access")
for kw in kwsets:
    o = magpy.Sensor(**kw)
    print(sorted(kw), "initial", state(o))
    for i in range(2):
        try:
            st = o.style
            res = ["ok", st.label, st.color, st.opacity, st.path.line.width, st.path.line.style,
                   st is o.style, type(st).__name__]
        except BaseException as e:  # noqa: B036
            res = [type(e).__name__, [clean(a) for a in e.args], clean(e)]
        print("   access", i, res, state(o))

print("== style setter / _validate_style on lazy objects")
for val in ({"color": "g"}, None, SensorStyle(label="new"), "bad", {"nope": 1}):
    for kw in (dict(), dict(style_label="a"), dict(style_bad=1)):
        o = magpy.Sensor(**kw)
        try:
            o.style = val
            res = ["ok", o.style.label, o.style.color]
        except Exception as e:
            res = [type(e).__name__, clean(e).split("\n")[:2]]
        print(clean(val)[:40], sorted(kw), res, state(o))

print("== repairing pending arguments")
o = magpy.Sensor(style_bad=1, style_label="keep")
for _ in range(2):
    try:
        o.style
    except AttributeError as e:
        print(clean(e).split("\n")[:2], state(o))
o._style_kwargs.pop("bad")
print(o.style.label, state(o))

print("== copy() of objects with lazy / pending / rejected styles")
for kw in kwsets:
    o = magpy.Sensor(**kw)
    par = magpy.Collection(o)
    try:
        c = o.copy()
        res = ["ok", state(c), c.style.label, c.style.color, c.style is not o.style, c.parent is None]
    except BaseException as e:  # noqa: B036
        res = [type(e).__name__, clean(e).split("\n")[:2]]
    print(sorted(kw), res, state(o), o.parent is par)
    try:
        c = o.copy(style_label="override", style_color="b")
        res = ["ok", state(c), c.style.label, c.style.color]
    except BaseException as e:  # noqa: B036
        res = [type(e).__name__, clean(e).split("\n")[:2]]
    print("   with overrides", res, state(o), o.parent is par)

print("== lazy children inside a copied collection stay independent")
s = magpy.Sensor(style_label="child", style_color="r")
col = magpy.Collection(s, style_label="col")
cc = col.copy()
print(state(s), state(cc[0]), cc[0]._style_kwargs is not s._style_kwargs)
cc[0].style.label = "changed"
print(s.style.label, cc[0].style.label, state(s), state(cc[0]))
print(col.describe(format="label", return_string=True).split("\n"),
      cc.describe(format="label", return_string=True).split("\n"))
