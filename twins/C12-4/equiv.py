import os, sys; sys.path.insert(0, os.getcwd())
import hashlib
import warnings

import numpy as np

import magpylib as magpy
from magpylib._src.fields.field_BH_circle import BHJM_circle
from magpylib._src.fields.field_BH_circle import current_circle_Hfield

warnings.simplefilter("ignore")
np.set_printoptions(precision=10, linewidth=200)


def digest(tag, arr):
    arr = np.ascontiguousarray(np.asarray(arr, dtype=float))
    h = hashlib.sha256(arr.tobytes()).hexdigest()[:16]
    print(tag, arr.shape, h)
    print(np.array2string(arr.ravel()[:12], precision=10))


def attempt(tag, func):
    try:
        digest(tag, func())
    except Exception as err:  # pylint: disable=broad-except
        print(tag, "EXC", type(err).__name__, str(err)[:120].replace("\n", " | "))


rng = np.random.default_rng(124)

special = np.array(
    [
        (0, 0, 0),  # centre, on axis
        (0, 0, 1.3),  # on axis
        (0, 0, -4.0),  # on axis
        (1, 0, 0),  # on the wire (singular)
        (0, -1, 0),  # on the wire
        (0.6, 0.8, 0),  # on the wire (r approx r0)
        (1, 0, 1e-12),  # just above the wire
        (1 + 1e-15, 0, 0),
        (1 + 1e-14, 0, 0),
        (0.5, 0, 0),  # in the loop plane
        (3, 0, 0),
        (1, 0, 2),  # r == r0 off plane
        (1e-9, 0, 0.2),  # tiny r
        (5, 6, 7),
    ],
    dtype=float,
)
rand = rng.uniform(-2, 2, size=(20, 3))
obs0 = np.concatenate([special, rand])
n = len(obs0)
dia0 = np.full(n, 2.0)
cur0 = rng.uniform(-5, 5, size=n)
dia_mixed = dia0.copy()
dia_mixed[0] = 0  # zero radius and on axis
dia_mixed[9] = 0  # zero radius off axis
dia_mixed[15] = -2.0  # negative diameter -> abs
dia_mixed[16] = 0.3
cur_mixed = cur0.copy()
cur_mixed[1] = 0

for scale in (1.0, 1e-9, 1e-3, 1e6, 1e9):
    for cscale in (1.0, 1e-12, 1e12):
        for field in "BHJM":
            attempt(
                f"circ s={scale:g} c={cscale:g} {field}",
                lambda: BHJM_circle(field, obs0 * scale, dia_mixed * scale, cur_mixed * cscale),
            )

for field in "BH":
    # no on-axis observer, only general case
    attempt(f"circ general only {field}", lambda: BHJM_circle(field, rand, dia0[:20], cur0[:20]))
    # only on-axis observers
    attempt(f"circ axis only {field}", lambda: BHJM_circle(field, special[:3], dia_mixed[:3], cur0[:3]))
    # only singular observers
    attempt(f"circ singular only {field}", lambda: BHJM_circle(field, special[3:6], dia0[:3], cur0[:3]))
    # all zero radius
    attempt(f"circ zero radius {field}", lambda: BHJM_circle(field, obs0, dia0 * 0, cur0))
    # n >= 15 / n < 15 (cel_iter branches)
    attempt(f"circ n<15 {field}", lambda: BHJM_circle(field, rand[:7], dia0[:7], cur0[:7]))
    attempt(f"circ empty {field}", lambda: BHJM_circle(field, np.zeros((0, 3)), np.zeros(0), np.zeros(0)))
    attempt(
        f"circ int {field}",
        lambda: BHJM_circle(
            field,
            np.array([(0, 0, 0), (1, 0, 0), (0, 0, 2), (2, 1, 1)]),
            np.array([2, 2, 4, 0]),
            np.array([1, 2, 3, 4]),
        ),
    )

# core function directly
r0c = np.array([1.0, 2.0, 0.5, 3.0, 1.0, 1.0, 2.5, 1.0, 1.0, 1.0, 4.0, 1.0, 0.1, 1.0, 1.0, 2.0])
rc = np.array([1.0, 1.0, 0.2, 5.0, 1e-6, 1.0, 2.5, 0.3, 7.0, 0.99, 1.0, 1.01, 3.0, 1e3, 0.5, 2.0])
zc = np.array([1.0, 2.0, 0.0, -1.0, 0.5, 1e-6, 0.1, 0.0, 3.0, 0.0, 2.0, 0.0, 0.1, 1e3, -0.5, 1.0])
ic = np.linspace(-3, 3, 16)
for scale in (1.0, 1e-9, 1e9):
    attempt(
        f"core n=16 s={scale:g}",
        lambda: current_circle_Hfield(r0c * scale, rc * scale, zc * scale, ic),
    )
    attempt(
        f"core n=5 s={scale:g}",
        lambda: current_circle_Hfield(r0c[:5] * scale, rc[:5] * scale, zc[:5] * scale, ic[:5]),
    )
attempt("core int", lambda: current_circle_Hfield(np.array([1, 2]), np.array([1, 1]), np.array([1, 2]), np.array([1, 3])))
attempt("core empty", lambda: current_circle_Hfield(np.zeros(0), np.zeros(0), np.zeros(0), np.zeros(0)))
snap = (r0c.copy(), rc.copy(), zc.copy(), ic.copy())
current_circle_Hfield(r0c, rc, zc, ic)
print("inputs untouched", all(np.array_equal(a, b) for a, b in zip(snap, (r0c, rc, zc, ic))))

# error paths
attempt("err field", lambda: BHJM_circle("X", obs0, dia0, cur0))
attempt("err field list", lambda: BHJM_circle(["B"], obs0, dia0, cur0))
attempt("err shape dia", lambda: BHJM_circle("B", obs0[:5], dia0[:4], cur0[:5]))
attempt("err shape cur axis", lambda: BHJM_circle("H", obs0[:5], dia0[:5], cur0[:4]))
attempt("err shape cur general", lambda: BHJM_circle("H", rand[:5], dia0[:5], cur0[:4]))
attempt("err dia size1 axis", lambda: BHJM_circle("H", obs0[:5], dia0[:1], cur0[:4]))
attempt("err dia size1 general", lambda: BHJM_circle("H", rand[:5], dia0[:1], cur0[:4]))
attempt("err obs cols", lambda: BHJM_circle("B", obs0[:, :2], dia0, cur0))
attempt("shape MJ wrong dia", lambda: BHJM_circle("M", obs0[:5], dia0[:4], cur0[:3]))
attempt("err core shapes", lambda: current_circle_Hfield(r0c, rc[:5], zc, ic))
attempt("err core scalar", lambda: current_circle_Hfield(1.0, 2.0, 3.0, 4.0))

# object interface at several length units
for scale in (1.0, 1e-9, 1e9):
    loop = magpy.current.Circle(current=1.7, diameter=2.0 * scale)
    loop.rotate_from_angax(25, (1, 0, 2))
    grid = np.concatenate([rand[:8], [(0, 0, 0), (0, 0, 0.3)]]) * scale
    for func in (magpy.getB, magpy.getH, magpy.getJ, magpy.getM):
        attempt(f"obj {func.__name__} s={scale:g}", lambda: func(loop, grid))
