import os, sys; sys.path.insert(0, os.getcwd())
# Deterministic digest of Sensor / pixel / pixel_agg behaviour (property C04).
import hashlib
import re
import warnings

import numpy as np
from scipy.spatial.transform import Rotation as R

import magpylib as magpy
from magpylib._src.input_checks import check_format_input_observers
from magpylib._src.input_checks import check_format_pixel_agg

warnings.simplefilter("ignore")


def dig(name, arr):
    arr = np.asarray(arr)
    h = hashlib.sha256(np.ascontiguousarray(arr).tobytes()).hexdigest()[:16]
    print(name, arr.shape, arr.dtype, np.round(float(np.sum(arr)), 10), h)


def err(name, func):
    try:
        out = func()
        print(name, "no error", type(out).__name__)
    except Exception as e:  # pylint: disable=broad-except
        cause = type(e.__cause__).__name__
        msg = re.sub(r"id=\d+", "id=#", str(e)).replace("\n", "|")
        msg = re.sub(r"0x[0-9a-f]+", "0x#", msg)
        print(name, type(e).__name__, cause, msg[:260])


def state(name, obj):
    dig(name + ".pos", obj._position)
    dig(name + ".ori", obj._orientation.as_quat())
    print(name, "ids", len(obj._position), len(obj._orientation))


rng = np.random.default_rng(4)


def sources():
    s1 = magpy.magnet.Cuboid(polarization=(0.1, -0.2, 0.3), dimension=(1, 2, 3))
    s1.position = (0.3, 0.1, -0.2)
    s1.rotate_from_angax(33, (1, 2, 3))
    s2 = magpy.current.Circle(current=2.5, diameter=1.5, position=(-0.5, 0.2, 1))
    s2.move(np.linspace((0, 0, 0), (0.4, 0.3, 0.2), 4), start=0)
    s3 = magpy.magnet.Sphere(polarization=(0.3, 0.2, 0.1), diameter=0.7)
    s4 = magpy.misc.Dipole(moment=(1, 2, 3), position=(2, 2, 2))
    col = magpy.Collection(s3, s4)
    col.rotate_from_angax(12, "y", anchor=(1, 0, 0))
    return s1, s2, col


def sensors():
    pix_a = rng.uniform(-0.3, 0.3, size=(2, 3, 3))
    pix_b = rng.uniform(-0.3, 0.3, size=(5, 3))
    pix_c = rng.uniform(-0.3, 0.3, size=(3,))
    # static, unrotated, no pixel
    a = magpy.Sensor(position=(1.5, 0.2, 0.4))
    # static, rotated
    b = magpy.Sensor(position=(1.2, -1.9, 0.7), pixel=pix_a)
    b.rotate_from_rotvec((0.3, -0.5, 0.8), degrees=False)
    # translation-only path, rotated
    c = magpy.Sensor(position=(0, 2.5, 0.1), pixel=pix_a, handedness="left")
    c.rotate_from_angax(71, (1, -1, 0.2))
    c.move(np.linspace((0, 0, 0), (1, 0.5, -0.3), 4), start=0)
    # rotating path
    d = magpy.Sensor(position=(-2.1, 0.3, 0.3), pixel=pix_a)
    d.rotate_from_angax(np.linspace(0, 200, 4), (0.1, 1, 0.5), start=0, anchor=0)
    # rotating path, left handed, different pixel shape
    e = magpy.Sensor(position=(0.2, 0.3, -2.3), pixel=pix_b, handedness="left")
    e.rotate_from_angax(np.linspace(10, 100, 4), "x", start=0)
    # translation path without rotation, pixel shape (3,)
    f = magpy.Sensor(position=(0.2, 3, 1), pixel=pix_c)
    f.move(np.linspace((0, 0, 0), (0.3, 0.3, 0.3), 3), start=0)
    # path of length 2 (shorter than the others -> tiled)
    g = magpy.Sensor(position=[(2, 2, -1), (2, 2.2, -1)], pixel=pix_b)
    g.orientation = R.from_rotvec([(0.1, 0.2, 0.3), (0.3, 0.2, 0.1)])
    return a, b, c, d, e, f, g


def extra():
    # collection summation: many layouts of collections inside the source list
    s1, s2, col = sources()
    a, b, c, d, e, f, g = sensors()
    s3, s4 = col.children
    one = magpy.Collection(s1.copy(position=(0.1, 0.2, 0.3)))
    three = magpy.Collection(s1.copy(), s2.copy(), s4.copy(), b.copy())
    nested = magpy.Collection(magpy.Collection(s1.copy(), s3.copy()), s2.copy(), a.copy())
    nested.move(np.linspace((0, 0, 0), (0.2, 0.1, 0.3), 5), start=0)
    deep = magpy.Collection(magpy.Collection(magpy.Collection(s4.copy())), magpy.Collection(s3.copy(), s3.copy()))
    layouts = {
        "c": [col],
        "1": [one],
        "1c": [one, col],
        "c1": [col, one],
        "sc": [s1, col],
        "cs": [col, s1],
        "scs": [s1, col, s2],
        "c3": [col, three],
        "3sc1": [three, s2, col, one],
        "n": [nested],
        "snsd": [s1, nested, s2, deep],
        "cc": [col, col],
        "dup": [s1, col, s1, col, three],
        "11": [one, one, s1],
        "flat": [s1, s2, s3, s4],
        "tuple": (col, s1, three),
    }
    for name, srcs in layouts.items():
        dig(f"lay {name} same", magpy.getB(srcs, [b, c, d]))
        dig(f"lay {name} mixed agg", magpy.getH(srcs, [a, e, g, c], pixel_agg="mean"))
        dig(f"lay {name} sumup", magpy.getB(srcs, [d, e], pixel_agg="max", sumup=True))
        dig(f"lay {name} nosq", magpy.getB(srcs, c, squeeze=False))
        dig(f"lay {name} pos", magpy.getB(srcs, (0.4, 0.5, 0.6), squeeze=False))
    # a collection's entry is the sum of its members (sequential sum over the flattened members)
    parts = magpy.getB([s1, s2, s3, s4, s1], [b, c, d])
    tog = magpy.getB([s1, magpy.Collection(s2.copy(), s3.copy(), s4.copy()), s1], [b, c, d])
    print("coll sum bit exact", np.array_equal(tog[1], (parts[1] + parts[2]) + parts[3]), np.array_equal(tog[0], parts[0]), np.array_equal(tog[2], parts[4]))
    # collection methods / source methods
    dig("col.getB", col.getB(b, c, d))
    dig("three.getH", three.getH(pixel_agg="min"))
    dig("nested.getB", nested.getB())
    df = magpy.getB([s1, col, three], [b, c], output="dataframe")
    dig("df coll", df[["Bx", "By", "Bz"]].to_numpy())
    print("df coll", df.shape, [re.sub(r"id=\d+", "id=#", v) for v in df["source"].unique()])
    # error paths
    err("empty coll src", lambda: magpy.getB([s1, magpy.Collection()], b))
    err("sensor-only coll src", lambda: magpy.getB([magpy.Collection(a.copy()), s1], b))
    err("nested empty coll src", lambda: magpy.getB([s1, magpy.Collection(magpy.Collection())], b))
    err("missing field_func in coll", lambda: magpy.getB([s1, magpy.Collection(s2.copy(), magpy.misc.CustomSource())], [d, g]))
    err("no sources", lambda: magpy.getB([], b))
    for name, obj in (("nested", nested), ("three", three), ("col", col), ("d", d), ("g", g)):
        state("after " + name, obj)


def common():
    s1, s2, col = sources()
    a, b, c, d, e, f, g = sensors()
    allsens = (a, b, c, d, e, f, g)

    # single sensors, all fields
    for name, sens in zip("abcdefg", allsens):
        for field in ("getB", "getH"):
            dig(f"{field} [{name}]", getattr(magpy, field)([s1, s2, col], sens))
        dig(f"sens.getB [{name}]", sens.getB(s1, s2, col, sumup=True))
        dig(f"nosqueeze [{name}]", magpy.getB(s2, sens, squeeze=False))
    dig("getJ", magpy.getJ([s1, col], [b, c, d]))
    dig("getM", magpy.getM([s1, col], [b, c, d]))

    # several sensors with same pixel shape
    dig("same-shape", magpy.getB([s1, s2, col], [b, c, d]))
    dig("same-shape sumup", magpy.getH([s1, s2, col], [d, c, b, c], sumup=True))
    dig("sensor collection", magpy.getB(s1, magpy.Collection(b.copy(), d.copy())))
    dig("pos_vec + sens", magpy.getB(s1, [b, np.ones((2, 3, 3)), c]))
    dig("bare pos_vec", magpy.getB([s1, col], [(1, 2, 3), (2, 3, 4)]))
    dig("bare pos", magpy.getB(col, (1, 2, 3)))

    # pixel_agg
    for agg in ("mean", "min", "max", "sum", "std", "median", "ptp", "prod", "var"):
        dig(f"agg {agg} same", magpy.getB([s1, s2], [b, c, d], pixel_agg=agg))
        dig(f"agg {agg} mixed", magpy.getB([s1, col], list(allsens), pixel_agg=agg))
        dig(
            f"agg {agg} mixed nosqueeze",
            magpy.getH(s2, [e, a, f, b], pixel_agg=agg, squeeze=False, sumup=True),
        )
        dig(f"agg {agg} single", magpy.getB(s1, e, pixel_agg=agg))
    dig("agg posvec mixed", magpy.getB(s1, [a, (1, 2, 3), np.ones((4, 3))], pixel_agg="mean"))

    # dataframe
    df = magpy.getB([s1, s2], [b, c], output="dataframe")
    dig("df", df[["Bx", "By", "Bz"]].to_numpy())
    print(
        "df cols",
        list(df.columns),
        len(df),
        [re.sub(r"id=\d+", "id=#", v) for v in df["sensor"].unique()],
    )
    df = magpy.getB([s1, s2], [b, e], output="dataframe", pixel_agg="max", sumup=True)
    dig("df agg", df[["Bx", "By", "Bz"]].to_numpy())
    print("df agg cols", list(df.columns), len(df), list(df["source"].unique()))

    # state after computation (tiled paths restored)
    for name, obj in zip("abcdefg", allsens):
        state(name, obj)
    state("s1", s1)
    state("s2", s2)

    # error paths
    err("mixed shapes no agg", lambda: magpy.getB(s1, [b, e]))
    err("bad agg name", lambda: magpy.getB(s1, [b, e], pixel_agg="nope"))
    err("bad agg non reducing", lambda: magpy.getB(s1, b, pixel_agg="array"))
    err("bad agg non reducing 2", lambda: magpy.getB(s1, b, pixel_agg="cumsum"))
    err("bad agg type", lambda: magpy.getB(s1, b, pixel_agg=3))
    err("bad agg newaxis", lambda: magpy.getB(s1, b, pixel_agg="newaxis"))
    err("bad agg pi", lambda: magpy.getB(s1, b, pixel_agg="pi"))
    err("agg fmt None", lambda: check_format_pixel_agg(None))
    print("agg fmt mean", check_format_pixel_agg("mean") is np.mean)
    err("bad observers", lambda: magpy.getB(s1, "xyz"))
    err("empty observers", lambda: magpy.getB(s1, []))
    err("bad observers 2", lambda: magpy.getB(s1, [b, "xyz"]))
    err("bad observers 3", lambda: magpy.getB(s1, [(1, 2), b]))
    err("src in observers", lambda: magpy.getB(s1, [s1, b]))
    err("empty coll observers", lambda: magpy.getB(s1, [magpy.Collection(s2.copy()), b]))
    err("bad pixel", lambda: magpy.Sensor(pixel=(1, 2)))
    err("bad handedness", lambda: magpy.Sensor(handedness="up"))
    err("obs fmt", lambda: check_format_input_observers([b, e], None))
    sens_l, shapes = check_format_input_observers([a, b, f, (1, 2, 3), e], "mean")
    print("obs fmt shapes", shapes, [type(s).__name__ for s in sens_l])
    sens_l, shapes = check_format_input_observers((1, 2, 3))
    print("obs fmt shapes", shapes, len(sens_l))

    # failing computation restores tiled paths
    s_bad = magpy.misc.CustomSource(position=(1, 1, 1))
    err("missing field_func", lambda: magpy.getB([s1, s_bad], [d, g, a], pixel_agg="max"))
    for name, obj in (("d", d), ("g", g), ("a", a), ("s1", s1), ("s_bad", s_bad)):
        state(name + " after fail", obj)

    def bad_func(field, observers):
        raise RuntimeError("boom")

    s_bad2 = magpy.misc.CustomSource(field_func=None, position=(1, 1, 1))
    s_bad2._field_func = bad_func
    err("raising field_func", lambda: magpy.getB([s1, s_bad2], [d, g, a], pixel_agg="mean"))
    for name, obj in (("d", d), ("g", g), ("a", a), ("s1", s1)):
        state(name + " after fail2", obj)

    # --- additional cases (second batch) ---
    # the same sensor object several times, left-handed ones included
    dig("dup sensors", magpy.getB([s1, s2], [c, d, c, e, e], pixel_agg="mean"))
    dig("dup sensors same", magpy.getH([s1, col], [c, d, c, b]))
    # empty pixel array
    z = magpy.Sensor(pixel=np.zeros((0, 3)), position=(1, 1, 1), handedness="left")
    z.rotate_from_angax([10, 20, 30], "z")
    dig("empty pixel", magpy.getB(s1, z))
    dig("empty pixel mixed", magpy.getB([s1, s2], [z, d, a], pixel_agg="sum"))
    # sensors in nested collections with own paths
    inner = magpy.Collection(b.copy(), e.copy(handedness="right"))
    outer = magpy.Collection(inner, d.copy(handedness="left"), s3c := s1.copy())
    outer.rotate_from_angax(np.linspace(0, 90, 6), "z", anchor=(0, 0, 1), start=0)
    dig("nested coll", magpy.getB([s1, s2], outer, pixel_agg="median"))
    dig("nested coll + sens", magpy.getH(outer, [outer, a, (0.1, 0.2, 0.3)], pixel_agg="max"))
    for name, obj in (("inner", inner), ("outer", outer), ("s3c", s3c)):
        state(name, obj)
    # only static objects (max path length 1)
    dig("all static", magpy.getB([s1, col], [a, b], pixel_agg="min"))
    dig("all static 2", magpy.getB(s1, [b, b.copy(handedness="left")]))
    # unit orientation path of length > 1 (unrotated but has a path)
    u = magpy.Sensor(position=[(0, 0, 2), (0, 0, 2.5), (0, 0, 3)], pixel=[(0, 0, 0), (0.1, 0, 0)], handedness="left")
    dig("unrotated path", magpy.getB([s1, s2], u))
    # sensor that is also part of the sources' collection
    mixed = magpy.Collection(s1.copy(), b.copy())
    dig("mixed coll", magpy.getB(mixed, mixed))
    df = magpy.getB([s1, s2], [b, c, d], output="dataframe", pixel_agg="mean")
    dig("df agg2", df[["Bx", "By", "Bz"]].to_numpy())
    print("df agg2 shape", df.shape, list(df["pixel"].unique()), list(df["path"].unique()))
    df = magpy.getH(s1, a, output="dataframe", sumup=True, squeeze=False)
    dig("df single", df[["Hx", "Hy", "Hz"]].to_numpy())
    print("df single", df.shape, [re.sub(r"id=\d+", "id=#", v) for v in df["source"].unique()])
    err("bad output", lambda: magpy.getB(s1, b, output="xarray"))
    err("bad output after fail", lambda: magpy.getB([s1, magpy.misc.CustomSource()], b, output="xarray"))
    err("kwargs", lambda: magpy.getB(s1, b, dimension=(1, 2, 3)))
    dig("agg nosqueeze same", magpy.getB([s1, s2], [b, c], pixel_agg="mean", squeeze=False))
    dig("nosqueeze same", magpy.getB([s1, s2], [b, c], squeeze=False))
    dig("sumup nosqueeze", magpy.getB([s1, s2], [b, c], squeeze=False, sumup=True))
    extra()


if __name__ == "__main__":
    common()
