import os, sys; sys.path.insert(0, os.getcwd())
# Twin2-4: validate_field_func (guard clauses + helper) and BaseSource.field_func setter (early raise)
import functools
import hashlib
import re
import warnings

import numpy as np

import magpylib as magpy
from magpylib._src.input_checks import validate_field_func

warnings.simplefilter("ignore")


def h(a):
    a = np.ascontiguousarray(a)
    return hashlib.sha1(a.tobytes()).hexdigest()[:12] + str(a.dtype) + str(a.shape)


def clean(msg):
    msg = re.sub(r"0x[0-9a-f]+", "0x?", re.sub(r"id=\d+", "id=?", str(msg)))
    return msg.replace("\n", " | ")[:260]


LOG = []


def logged(name):
    """decorator-free logging of (name, field, observers hash, dtype)"""

    def rec(field, observers):
        LOG.append((name, field, h(observers), observers.flags.writeable))

    return rec


def ok(field, observers):
    logged("ok")(field, observers)
    return np.ones_like(observers, dtype=float)


def only_B(field, observers):
    logged("only_B")(field, observers)
    return observers * 2.0 if field == "B" else None


def only_H(field, observers):
    logged("only_H")(field, observers)
    return None if field == "B" else observers * 2.0


def always_none(field, observers):
    logged("always_none")(field, observers)


def returns_list(field, observers):
    logged("returns_list")(field, observers)
    return [[1, 2, 3], [4, 5, 6]]


def returns_list_for_H(field, observers):
    logged("returns_list_for_H")(field, observers)
    return np.zeros((2, 3)) if field == "B" else ((1, 2, 3), (4, 5, 6))


def returns_scalar(field, observers):
    logged("returns_scalar")(field, observers)
    return 0.0


def bad_shape(field, observers):
    logged("bad_shape")(field, observers)
    return np.zeros((3, 2))


def bad_shape_H(field, observers):
    logged("bad_shape_H")(field, observers)
    return np.zeros((2, 3)) if field == "B" else np.zeros((2, 3, 1))


def flat_shape(field, observers):
    logged("flat_shape")(field, observers)
    return np.zeros(6)


def mutates(field, observers):
    logged("mutates")(field, observers)
    observers *= 0
    observers += 7
    return observers


def raises_B(field, observers):
    logged("raises_B")(field, observers)
    raise ZeroDivisionError("in B")


def raises_H(field, observers):
    logged("raises_H")(field, observers)
    if field == "H":
        raise KeyError("in H")
    return np.zeros((2, 3))


def int_output(field, observers):
    logged("int_output")(field, observers)
    return observers  # int dtype ndarray, shape (2,3) -> accepted


def wrong_names(a, b):
    logged("wrong_names")(a, b)
    return np.zeros((2, 3))


def swapped(observers, field):
    return np.zeros((2, 3))


def one_arg(field):
    return None


def extra_args(field, observers, scale=2):
    logged("extra_args")(field, observers)
    return observers * float(scale)


def kwonly(*, field, observers):
    return None


def star(*args):
    return None


class Subarray(np.ndarray):
    pass


def subclass_output(field, observers):
    logged("subclass_output")(field, observers)
    return np.zeros((2, 3)).view(Subarray)


class CallableObj:
    def __call__(self, field, observers):
        return np.zeros((2, 3))


class Holder:
    def method(self, field, observers):
        return np.zeros((2, 3))

    @staticmethod
    def static(field, observers):
        logged("static")(field, observers)
        return np.zeros((2, 3))


CANDIDATES = {
    "None": None,
    "ok": ok,
    "only_B": only_B,
    "only_H": only_H,
    "always_none": always_none,
    "returns_list": returns_list,
    "returns_list_for_H": returns_list_for_H,
    "returns_scalar": returns_scalar,
    "bad_shape": bad_shape,
    "bad_shape_H": bad_shape_H,
    "flat_shape": flat_shape,
    "mutates": mutates,
    "raises_B": raises_B,
    "raises_H": raises_H,
    "int_output": int_output,
    "wrong_names": wrong_names,
    "swapped": swapped,
    "one_arg": one_arg,
    "extra_args": extra_args,
    "kwonly": kwonly,
    "star": star,
    "subclass_output": subclass_output,
    "lambda_ok": lambda field, observers: observers * 1.0,
    "lambda_bad": lambda x, observers: observers * 1.0,
    "partial": functools.partial(extra_args, scale=3),
    "callable_obj": CallableObj(),
    "bound_method": Holder().method,
    "static": Holder.static,
    "builtin_len": len,
    "builtin_print": print,
    "class_dict": dict,
    "np_zeros": np.zeros,
    "string": "B",
    "int": 3,
    "array": np.zeros((2, 3)),
    "list": [ok],
    "zero": 0,
    "empty_str": "",
    "False": False,
}


def attempt(tag, fn):
    del LOG[:]
    try:
        res = fn()
        out = "-> " + (type(res).__name__ if not isinstance(res, np.ndarray) else h(res))
    except BaseException as err:  # pylint: disable=broad-except
        cause = type(err.__cause__).__name__ if err.__cause__ is not None else None
        out = f"raised {type(err).__name__} (cause {cause}): {clean(err)}"
    print(tag, out)
    print("      calls:", LOG)


print("===== validate_field_func directly")
for name, cand in CANDIDATES.items():
    attempt(f"validate {name}:", lambda cand=cand: validate_field_func(cand))

print("===== CustomSource(field_func=...) and the setter")
obs = np.array([(1.0, 2.0, 3.0), (4.0, 5.0, 6.0), (7.0, 8.0, 9.0)])
for name, cand in CANDIDATES.items():
    attempt(f"init {name}:", lambda cand=cand: magpy.misc.CustomSource(field_func=cand, position=(1, 2, 3)))
    src = magpy.misc.CustomSource(field_func=ok)
    attempt(f"set {name}:", lambda cand=cand, src=src: setattr(src, "field_func", cand))
    kept = "ok" if src.field_func is ok else ("new" if src.field_func is cand else "other")
    print("      field_func after set:", kept, "| _field_func is field_func:", src._field_func is src.field_func)
    for field in "BHJ":
        attempt(f"   get{field} after set {name}:", lambda field=field, src=src: getattr(src, "get" + field)(obs))
print("user observers unchanged:", h(obs))

print("===== original Magpylib sources are not editable")
originals = [
    magpy.magnet.Cuboid(polarization=(1, 2, 3), dimension=(1, 2, 3)),
    magpy.magnet.Sphere(),
    magpy.current.Circle(current=1, diameter=1),
    magpy.misc.Dipole(moment=(1, 2, 3)),
    magpy.magnet.Tetrahedron(),
]
for src in originals:
    before = src.field_func
    for name in ("ok", "None", "string", "wrong_names", "raises_B"):
        attempt(f"{type(src).__name__}.field_func = {name}:", lambda src=src, name=name: setattr(src, "field_func", CANDIDATES[name]))
    print("      unchanged:", src.field_func is before, src._field_func is before)
attempt("Cuboid(field_func=ok):", lambda: magpy.magnet.Cuboid(field_func=ok))
attempt("Cuboid(field_func=None):", lambda: type(magpy.magnet.Cuboid(field_func=None)).__name__)


class MyEditable(magpy.magnet.Cuboid):
    _editable_field_func = 1  # truthy non-bool


class MyLocked(magpy.misc.CustomSource):
    _editable_field_func = 0  # falsy non-bool


attempt("truthy flag:", lambda: setattr(MyEditable(), "field_func", bad_shape))
attempt("truthy flag ok:", lambda: setattr(MyEditable(), "field_func", ok))
attempt("falsy flag:", lambda: setattr(MyLocked(), "field_func", ok))
attempt("falsy flag init:", lambda: MyLocked(field_func=ok))
