import os, sys; sys.path.insert(0, os.getcwd())
# Equivalence digest for twins2/3 (input_checks: check_array_shape guard
# clauses, make_float_array try/except/else, message head hoisted in
# check_format_input_vector).
import warnings

import numpy as np
from scipy.spatial.transform import Rotation as R

import magpylib as magpy
from magpylib._src import input_checks as ic

warnings.simplefilter("ignore")


def dig(a):
    return (np.round(np.asarray(a, dtype=float), 9) + 0.0).tolist()


def state(obj):
    return dig(obj._position), dig(obj._orientation.as_quat())


def desc(x):
    if isinstance(x, np.ndarray):
        return ("ndarray", str(x.dtype), x.shape, np.array2string(x, precision=6))
    return (type(x).__name__, repr(x))


def show(tag, fn):
    try:
        print(tag, "->", desc(fn()))
    except BaseException as err:  # pylint: disable=broad-except
        cause = type(err.__cause__).__name__
        print(tag, "-> EXC", type(err).__name__, repr(str(err))[:300], "cause", cause)


# 1) check_array_shape directly
ARRS = {
    "0d": np.array(1.0),
    "(3,)": np.arange(3.0),
    "(4,)": np.arange(4.0),
    "(0,)": np.zeros((0,)),
    "(1,3)": np.zeros((1, 3)),
    "(2,3)": np.zeros((2, 3)),
    "(3,2)": np.zeros((3, 2)),
    "(0,3)": np.zeros((0, 3)),
    "(3,0)": np.zeros((3, 0)),
    "(2,2,3)": np.zeros((2, 2, 3)),
    "(4,3,3)": np.zeros((4, 3, 3)),
}
for ak, arr in ARRS.items():
    for dims in ((1,), (2,), (1, 2), (0, 1), (3,), (), [1, 2], {2, 3}):
        for shape_m1 in (3, "any", 0, 2, None, 3.0):
            for length in (None, 0, 1, 2, 3, 4, "3"):
                show(
                    f"cas {ak} dims={dims} m1={shape_m1!r} len={length!r}",
                    lambda: ic.check_array_shape(arr, dims, shape_m1, length=length, msg="MSG"),
                )
show("cas default msg", lambda: ic.check_array_shape(np.zeros(2), (2,), 3))
show("cas kw", lambda: ic.check_array_shape(inp=np.zeros((2, 3)), dims=(2,), shape_m1=3, length=2, msg="m"))
show("cas list input", lambda: ic.check_array_shape([1, 2, 3], (1,), 3))

# 2) make_float_array directly
src = np.array([1.0, 2.0])
out = ic.make_float_array(src, "M: ")
print("mfa copy", out is not src, np.shares_memory(out, src))
for tag, inp in {
    "ints": (1, 2, 3), "bools": [True, False], "nested": [[1, 2], [3, 4]], "number": 5, "numstr": "1.5",
    "numstrs": ["1", "2"], "str": "abc", "texts": ("a", "b"), "ragged": [(1, 2), (3,)], "None": None,
    "dict": {1: 2}, "complex": [1j], "empty": [], "rotation": R.from_quat((0, 0, 0, 1)), "nan": [np.nan, np.inf],
    "object": object(),
}.items():
    show(f"mfa {tag}", lambda: ic.make_float_array(inp, "M: "))

# 3) check_format_input_vector: option combinations
vec_inputs = {
    "None": None, "tuple": (1, 2, 3), "neg": (1, -2, 3), "zero": (1, 0, 3), "list2d": [(1, 2, 3), (4, 5, 6)],
    "arr int": np.array([1, 2, 3]), "str": "abc", "ragged": [(1, 2), (3,)], "texts": ("a", "b", "c"),
    "2vec": (1, 2), "number": 5, "empty": [], "nan": (np.nan, 1, 2), "bools": (True, False, True),
    "(4,3)": np.ones((4, 3)), "(2,2,3)": np.ones((2, 2, 3)), "(0,3)": np.zeros((0, 3)),
}
for k, v in vec_inputs.items():
    for dims in ((1, 2), (2,), (1,)):
        for shape_m1 in (3, "any"):
            for length in (None, 3, 4):
                for allow_None, forbid, reshape in (
                    (False, False, False), (True, True, False), (False, True, (-1, 3)), (True, False, (3, -1)),
                ):
                    show(
                        f"vec {k} dims={dims} m1={shape_m1} len={length} None={allow_None} forbid={forbid} rs={reshape}",
                        lambda: ic.check_format_input_vector(
                            v, dims=dims, shape_m1=shape_m1, sig_name="NAME", sig_type="TYPE", length=length,
                            reshape=reshape, allow_None=allow_None, forbid_negative0=forbid,
                        ),
                    )
show("vec odd names", lambda: ic.check_format_input_vector("x", (1,), 3, sig_name=7, sig_type=None))
show("vec odd names shape", lambda: ic.check_format_input_vector((1, 2), (1,), 3, sig_name=(1,), sig_type=["t"]))

# 4) the checks built on top of it
for tag, inp in {"0": 0, "0.0": 0.0, "False": False, "None": None, "vec": (1, 2, 3), "path": [(1, 2, 3)] * 2,
                 "1": 1, "str": "0", "2vec": (1, 2), "3d": np.zeros((1, 1, 3)), "empty": []}.items():
    show(f"anchor {tag}", lambda: ic.check_format_input_anchor(inp))
for tag, inp in {"int": 3, "list": [1, 2], "empty": [], "2d": [[1]], "str": "a", "None": None, "arr": np.arange(4)}.items():
    show(f"angle {tag}", lambda: ic.check_format_input_angle(inp))
for tag, inp in {"x": "x", "vec": (1, 2, 3), "zero": (0, 0, 0), "2vec": (1, 2), "path": [(1, 2, 3)], "w": "w", "None": None}.items():
    show(f"axis {tag}", lambda: ic.check_format_input_axis(inp))

# 5) through the public API (length= is used by Triangle / Tetrahedron vertices)
show("triangle ok", lambda: magpy.misc.Triangle(polarization=(1, 2, 3), vertices=[(0, 0, 0), (1, 0, 0), (0, 1, 0)]).vertices)
show("triangle 4 vert", lambda: magpy.misc.Triangle(polarization=(1, 2, 3), vertices=[(0, 0, 0)] * 4))
show("triangle 2d vert", lambda: magpy.misc.Triangle(polarization=(1, 2, 3), vertices=[(0, 0), (1, 0), (0, 1)]))
show("tetra ok", lambda: magpy.magnet.Tetrahedron(polarization=(1, 2, 3), vertices=[(0, 0, 0), (1, 0, 0), (0, 1, 0), (0, 0, 1)]).vertices)
show("tetra 3 vert", lambda: magpy.magnet.Tetrahedron(polarization=(1, 2, 3), vertices=[(0, 0, 0), (1, 0, 0), (0, 1, 0)]))
show("cuboid dim ok", lambda: magpy.magnet.Cuboid(polarization=(1, 2, 3), dimension=(1, 2, 3)).dimension)
show("cuboid dim neg", lambda: magpy.magnet.Cuboid(polarization=(1, 2, 3), dimension=(1, -2, 3)))
show("cuboid dim 2", lambda: magpy.magnet.Cuboid(polarization=(1, 2, 3), dimension=(1, 2)))
show("cuboid pol str", lambda: magpy.magnet.Cuboid(polarization="x", dimension=(1, 2, 3)))
show("sensor pixel", lambda: magpy.Sensor(pixel=[[(1, 2, 3), (4, 5, 6)]]).pixel)
show("sensor pixel bad", lambda: magpy.Sensor(pixel=[(1, 2), (3, 4)]))

s = magpy.Sensor(position=[(1, 2, 3), (4, 5, 6)])
c = magpy.Collection(s, position=(1, 1, 1))
s.move((1, 1, 1)).move([(1, 0, 0), (2, 0, 0)], start=1).rotate_from_angax([10, 20], (1, 1, 0), anchor=[(0, 0, 1)] * 3)
s.position = [(0, 0, 0), (1, 1, 1)]
print("ok ops", state(s), state(c))
ref = state(s), state(c)
for tag, call in {
    "move 2vec": lambda: s.move((1, 2)), "move str": lambda: s.move("abc"), "move None": lambda: s.move(None),
    "move 3d": lambda: c.move(np.zeros((2, 2, 3))), "move texts": lambda: c.move(("a", "b", "c")),
    "move ragged": lambda: s.move([(1, 2, 3), (1, 2)]), "move scalar": lambda: s.move(1),
    "anchor 2vec": lambda: c.rotate(None, anchor=(1, 2)), "anchor 3d": lambda: s.rotate(None, anchor=np.zeros((1, 1, 3))),
    "anchor texts": lambda: s.rotate(None, anchor=("a", "b", "c")), "anchor 1": lambda: s.rotate(None, anchor=1),
    "angax angle 2d": lambda: s.rotate_from_angax([[1, 2]], "x"), "angax axis 4": lambda: c.rotate_from_angax(1, (1, 2, 3, 4)),
    "pos 2vec": lambda: setattr(s, "position", (1, 2)), "pos 3d": lambda: setattr(c, "position", np.zeros((1, 2, 3))),
    "pos texts": lambda: setattr(s, "position", ["a", "b", "c"]), "pos None": lambda: setattr(c, "position", None),
    "init pos": lambda: magpy.Sensor(position=(1, 2, 3, 4)), "init coll pos": lambda: magpy.Collection(position="abc"),
}.items():
    show(f"api {tag}", call)
    print("    unchanged", (state(s), state(c)) == ref)
