import os, sys; sys.path.insert(0, os.getcwd())
import subprocess

# the error text contains printed sets: fix the string hashing so that the digest is deterministic,
# and compare the exact element order of the printed sets under three different seeds
if os.environ.get("PYTHONHASHSEED") not in ("0", "1", "2"):
    for seed in ("0", "1", "2"):
        print(f"===== PYTHONHASHSEED={seed}", flush=True)
        subprocess.run([sys.executable, os.path.abspath(__file__)], env={**os.environ, "PYTHONHASHSEED": seed}, check=False)
    sys.exit(0)

import hashlib
import re
from collections import OrderedDict
from copy import deepcopy

import magpylib as magpy
from magpylib._src.defaults import defaults_utility
from magpylib._src.defaults.defaults_utility import validate_style_keys
from magpylib._src.defaults.defaults_values import DEFAULTS
from magpylib._src.style import get_style


def run(label, func):
    try:
        res = repr(func())
    except BaseException as e:
        msg = re.sub(r"id=\d+", "id=N", str(e))
        res = f"EXC {type(e).__name__}: len={len(msg)} sha={hashlib.sha256(msg.encode()).hexdigest()[:12]}\n      {msg[:420]!r}"
    print(f"{label}: {res}")


snapshot = deepcopy(DEFAULTS)

INPUTS = [
    {}, {"color": 1}, {"color": 1, "opacity": 2}, {"magnetization_color_north": 1}, {"path": {}, "arrows_x_color": 1},
    {"mesh_grid_show": True, "orientation_size": 1, "pixel_size": 1, "marker_symbol": "x", "sizemode": 1, "pivot": 1, "arrow": 1, "line": 1},
    {"bad": 1}, {"bad_color": 1}, {"color_bad": 1}, {"_color": 1}, {"": 1}, {"_": 1}, {"color_": 1}, {"Color": 1},
    {"bad_a": 1, "bad_b": 2}, {"bad_b": 1, "bad_a": 2}, {"bad_a": 1, "color": 3, "bad_b": 2, "other": 4},
    {f"wrong{i}_x{j}": i for i in range(12) for j in range(3)},
    {"color": 1, **{f"w{i}": i for i in range(40)}, "opacity": 1},
    {"style": 1}, {"style_color": 1}, {"magnet": 1}, {"base_color": 1}, {"display": 1},
    OrderedDict([("zzz_1", 1), ("color", 2), ("zzz_2", 3)]),
    ["color", "bad_1", "opacity"], ("color", "path_line"), "color", "xy", iter(["color", "nope"]), {"color", "opacity"},
    {1: 2}, {None: 1}, {("a",): 1}, {b"color": 1}, {"color": 1, 2: 3}, None, 5,
]

for i, inp in enumerate(INPUTS):
    before = repr(inp)

    def call(inp=inp):
        out = validate_style_keys(inp)
        return (out is inp, repr(out))

    run(f"vsk[{i}]", call)
    if repr(inp) != before:
        print("   INPUT MODIFIED")

print("defaults table untouched:", DEFAULTS == snapshot)

# the table is looked up at call time, not at import time
saved = DEFAULTS["display"]["style"]["dipole"].pop("pivot")
run("after removing a default leaf", lambda: validate_style_keys({"pivot": 1, "size": 1}))
DEFAULTS["display"]["style"]["dipole"]["pivot"] = saved
DEFAULTS["display"]["style"]["base"]["brandnew"] = None
run("after adding a default leaf", lambda: validate_style_keys({"brandnew_x": 1}))
run("message lists it", lambda: validate_style_keys({"nope": 1}))
del DEFAULTS["display"]["style"]["base"]["brandnew"]
run("restored", lambda: validate_style_keys({"brandnew_x": 1}))
orig = defaults_utility.DEFAULTS
defaults_utility.DEFAULTS = {"display": {"style": {"fam": {"only": None}}}}
run("module table replaced", lambda: validate_style_keys({"only_x": 1, "color": 2}))
defaults_utility.DEFAULTS = orig
print("defaults table untouched:", DEFAULTS == snapshot, list(DEFAULTS["display"]["style"]["dipole"]))

# callers: show-level style kwargs in get_style, Collection.set_children_styles
cube = magpy.magnet.Cuboid(polarization=(0, 0, 1), dimension=(1, 1, 1), style_color="r")
sens = magpy.Sensor()
coll = magpy.Collection(cube, sens)
run("get_style ok", lambda: get_style(cube, magpy.defaults, style_color="g", style_pixel_size=3).color)
run("get_style other family", lambda: get_style(cube, magpy.defaults, style_arrows_x_color="g").color)
run("get_style bad", lambda: get_style(cube, magpy.defaults, style_colour="g"))
run("get_style bad2", lambda: get_style(cube, magpy.defaults, style_colour="g", style_opacity_x=1, style_wrong_a=1, style_wrong_b=2))
run("children ok", lambda: (coll.set_children_styles(color="b", pixel_size=2), cube.style.color, sens.style.pixel.size)[1:])
run("children dict", lambda: (coll.set_children_styles({"opacity": 0.5}, magnetization_show=False), cube.style.opacity, sens.style.opacity, cube.style.magnetization.show)[1:])
run("children bad", lambda: coll.set_children_styles(colour="b", opacity=0.1))
run("children unchanged after bad", lambda: (cube.style.opacity, sens.style.opacity))
run("children bad dict", lambda: coll.set_children_styles({"no_such": 1, "no_other": 2}))
run("children bad value", lambda: coll.set_children_styles(opacity=3))
magpy.defaults.reset()
run("reset", lambda: magpy.defaults.display.style.base.opacity)
print("defaults table untouched:", DEFAULTS == snapshot)
