import os, sys; sys.path.insert(0, os.getcwd())
import hashlib
import re
import warnings

import numpy as np

import magpylib as magpy
from magpylib._src.fields.field_BH_polyline import BHJM_current_polyline
from magpylib._src.fields.field_BH_polyline import current_vertices_field

warnings.simplefilter("ignore")
nan = np.nan


def digest(name, arr):
    if arr is None:
        print(name, None)
        return
    arr = np.asarray(arr)
    h = hashlib.sha256(np.ascontiguousarray(arr).tobytes()).hexdigest()[:16]
    print(name, arr.shape, arr.dtype, h, np.array2string(arr, precision=17).replace("\n", ""))


def scrub(msg):
    return re.sub(r"id=\d+", "id=#", str(msg)).replace("\n", " | ")


def attempt(label, fn):
    try:
        res = fn()
    except Exception as e:  # noqa: BLE001
        print(label, "EXC", type(e).__name__, scrub(e))
        return None
    digest(label, res)
    return res


obs = np.array(
    [[0.1, 0.2, 0.3], [1.0, 0.0, 0.0], [0.0, 0.0, 0.0], [0.5, 0.5, 0.0], [2.0, -1.0, 0.5], [0.0, 0.0, 1.0]]
)
start = np.array(
    [[0.0, 0.0, 0.0], [0.0, 0.0, 0.0], [1.0, 1.0, 1.0], [0.0, 0.0, 0.0], [nan, nan, nan], [0.0, 0.0, -1.0]]
)
end = np.array(
    [[1.0, 0.0, 0.0], [0.0, 0.0, 0.0], [2.0, 1.0, 1.0], [1.0, 1.0, 0.0], [1.0, 0.0, 0.0], [nan, nan, nan]]
)
cur = np.array([1.0, 2.0, -3.0, 4.5, 5.0, 6.0])

cases = {
    "mixed": (obs, start, end, cur),
    "none_degenerate": (obs[[0, 2, 3]], start[[0, 2, 3]], end[[0, 2, 3]], cur[[0, 2, 3]]),
    "all_degenerate": (obs[[1, 4, 5]], start[[1, 4, 5]], end[[1, 4, 5]], cur[[1, 4, 5]]),
    "partial_nan_start": (obs[:2], np.array([[nan, 0.0, 0.0], [0.0, 0.0, 0.0]]), end[[0, 0]], cur[:2]),
    "single": (obs[:1], start[:1], end[:1], cur[:1]),
    "empty": (obs[:0], start[:0], end[:0], cur[:0]),
    "int_inputs": (
        np.array([[1, 2, 3], [0, 0, 2]]),
        np.array([[0, 0, 0], [1, 1, 1]]),
        np.array([[1, 0, 0], [1, 1, 1]]),
        np.array([2, 3]),
    ),
    "on_line": (np.array([[0.5, 0.0, 0.0], [3.0, 0.0, 0.0]]), start[[0, 0]], end[[0, 0]], cur[:2]),
    "nan_observer": (np.array([[nan, 0.0, 0.0], [0.0, nan, 1.0]]), start[[0, 1]], end[[0, 1]], cur[:2]),
}

for name, (o, s, e, c) in cases.items():
    for field in "BHJM":
        copies = [x.copy() for x in (o, s, e, c)]
        res = attempt(
            f"{name}.{field}",
            lambda: BHJM_current_polyline(
                field=field, observers=o, segment_start=s, segment_end=e, current=c
            ),
        )
        same = all(
            np.array_equal(x, y, equal_nan=True) and x.dtype == y.dtype
            for x, y in zip((o, s, e, c), copies)
        )
        print(f"{name}.{field} inputs untouched", same, "aliases input", any(res is x for x in (o, s, e, c)))

# consistency B = mu0 * H, J = M = 0
o, s, e, c = cases["mixed"]
B = BHJM_current_polyline("B", o, s, e, c)
H = BHJM_current_polyline("H", o, s, e, c)
print("B == mu0*H", np.array_equal(B, H * magpy.mu_0))

# bad field inputs (error path)
for bad in ("BH", "", "b", "X", 5, None, ("B",), b"B"):
    attempt(f"badfield {bad!r}", lambda: BHJM_current_polyline(bad, o, s, e, c))

# malformed inputs
for field in "BJ":
    attempt(f"short_current.{field}", lambda: BHJM_current_polyline(field, o, s, e, c[:3]))
    attempt(f"short_observers.{field}", lambda: BHJM_current_polyline(field, o[:3], s, e, c))
    attempt(f"short_start.{field}", lambda: BHJM_current_polyline(field, o, s[:3], e, c))
    attempt(f"short_end.{field}", lambda: BHJM_current_polyline(field, o, s, e[:3], c))
    attempt(f"1d_segments.{field}", lambda: BHJM_current_polyline(field, o[0], s[0], e[0], c[0]))
    attempt(f"list_inputs.{field}", lambda: BHJM_current_polyline(field, o.tolist(), s.tolist(), e.tolist(), c.tolist()))
    attempt(f"list_segments_only.{field}", lambda: BHJM_current_polyline(field, o, s.tolist(), e.tolist(), c))
    attempt(f"scalar_current.{field}", lambda: BHJM_current_polyline(field, o, s, e, 2.0))
    attempt(f"none_start.{field}", lambda: BHJM_current_polyline(field, o, None, e, c))
    attempt(f"2col.{field}", lambda: BHJM_current_polyline(field, o[:, :2], s[:, :2], e[:, :2], c))
    attempt(f"3d.{field}", lambda: BHJM_current_polyline(field, o.reshape(2, 3, 3), s.reshape(2, 3, 3), e.reshape(2, 3, 3), c))

# vertices interface (uniform and ragged)
verts_u = np.array(
    [[[0, 0, 0], [1, 0, 0], [1, 0, 0], [1, 1, 0.0]], [[0, 0, 1], [0, 0, 1], [0, 0, 1], [0, 0, 1.0]]]
)
for field in "BHJM":
    attempt(
        f"vertices_uniform.{field}",
        lambda: current_vertices_field(field, obs[:2], cur[:2], vertices=verts_u),
    )
verts_r = np.array(
    [np.array([[0, 0, 0], [1, 0, 0], [1, 1, 0.0]]), np.array([[0, 0, 1], [0, 1, 1.0]])], dtype=object
)
for field in "BHJM":
    attempt(
        f"vertices_ragged.{field}",
        lambda: current_vertices_field(field, obs[:2], cur[:2], vertices=verts_r),
    )

# object interface
line = magpy.current.Polyline(
    current=2.5, vertices=[(0, 0, 0), (1, 0, 0), (1, 0, 0), (1, 2, 0), (0, 0, 0)], position=(0.1, 0.2, 0.3)
)
line.rotate_from_angax([10, 20, 30], "y", anchor=0)
sens = magpy.Sensor(pixel=[(0, 0, 1), (0.5, 0.5, 0.5)], position=(0, 0, 0.2))
sens2 = magpy.Sensor(pixel=[(1, 0, 0), (1, 2, 0)]).rotate_from_angax(33, (1, 2, 3))
for field in "BHJM":
    attempt(f"Polyline.get{field}", lambda: getattr(line, "get" + field)(sens, sens2))
    attempt(f"magpy.get{field} dict", lambda: getattr(magpy, "get" + field)(
        "Polyline", [(0.1, 0.2, 0.3), (1, 1, 1)], current=[1, 2],
        segment_start=[(0, 0, 0), (1, 1, 1)], segment_end=[(1, 0, 0), (1, 1, 1)]))
zero = magpy.current.Polyline(current=1.0, vertices=[(1, 1, 1), (1, 1, 1)])
for field in "BHJM":
    attempt(f"zero-length Polyline.get{field}", lambda: getattr(zero, "get" + field)((1, 2, 3)))
