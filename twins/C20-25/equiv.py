import os, sys; sys.path.insert(0, os.getcwd())
import numpy as np

import magpylib as magpy
from magpylib._src import style as st
from magpylib._src.style import get_style


def run(label, func):
    try:
        res = func()
    except BaseException as e:
        res = f"EXC {type(e).__name__}: {str(e)[:200]!r}"
    print(f"{label}: {res!r}")


class F(float):
    pass


class I(int):
    pass


VALUES = [
    None, 0, 1, 0.0, 1.0, 0.5, -0.0, True, False, 1e-300, 1 - 1e-16, I(1), I(2), F(0.3), F(3.0),
    np.float64(0.25), np.float64(1.5), np.int64(1), np.float32(0.5),
    -1, 2, 7.5, -7.5, 1.0000001, -1e-12, float("nan"), float("inf"), -float("inf"),
    "0.5", "", (0.5,), [0.5], {}, 1j, b"1", np.array(0.5), np.array([0.5]), int,
]

for cls in (st.Arrow, st.Orientation):
    for i, v in enumerate(VALUES):
        def by_attr(v=v):
            o = cls(offset=0.125)
            o.offset = v
            return (type(o.offset).__name__, o.offset is v, repr(o.offset), o._offset is o.offset)

        def by_init(v=v):
            got = cls(offset=v).offset
            return (type(got).__name__, got is v)

        def by_update(v=v):
            got = cls(offset=0.125).update(offset=v).offset
            return (type(got).__name__, got is v)

        def by_failed(v=v):
            o = cls(offset=0.125)
            try:
                o.offset = v
            except AssertionError:
                pass
            return repr(o.offset)

        run(f"{cls.__name__}.offset[{i}] attr", by_attr)
        run(f"{cls.__name__}.offset[{i}] init", by_init)
        run(f"{cls.__name__}.offset[{i}] update", by_update)
        run(f"{cls.__name__}.offset[{i}] after", by_failed)

# None does not replace a value when only unset leaves are filled, and does when assigned
run("fill None only", lambda: st.Arrow(offset=0.25).update(offset=0.75, _replace_None_only=True).offset)
run("fill None only 2", lambda: st.Arrow().update(offset=0.75, _replace_None_only=True).offset)
run("reset to None", lambda: st.Arrow(offset=0.25).update(offset=None).offset)
run("frozen", lambda: setattr(st.Arrow(), "offsett", 1))
run("repr", lambda: repr(st.Orientation(offset=None)) + repr(st.Arrow(offset=1)))

# objects, all notations, defaults, resolution, reset
loop = magpy.current.Circle(current=1, diameter=1, style_arrow_offset=0.25)
tri = magpy.misc.Triangle(polarization=(0, 0, 1), vertices=((0, 0, 0), (1, 0, 0), (0, 1, 0)), style={"orientation": {"offset": 3}})
mesh = magpy.magnet.TriangularMesh.from_ConvexHull(polarization=(0, 0, 1), points=((0, 0, 0), (1, 0, 0), (0, 1, 0), (0, 0, 1)))
mesh.style.orientation.offset = -2
run("objs", lambda: (loop.style.arrow.offset, tri.style.orientation.offset, mesh.style.orientation.offset))
run("obj_bad1", lambda: magpy.current.Circle(current=1, diameter=1, style_arrow_offset=1.25).style)
run("obj_bad2", lambda: tri.style.update(orientation_offset="1"))
run("obj_bad3", lambda: loop.style.update({"arrow": {"offset": -0.25}}))
run("obj_none", lambda: (loop.style.update(arrow_offset=None).arrow.offset, tri.style.update(orientation={"offset": None}).orientation.offset))
run("defaults_bad", lambda: magpy.defaults.display.style.update(current_arrow_offset=2))
run("defaults_bad2", lambda: magpy.defaults.display.style.update(triangle_orientation_offset=[1]))
run("defaults", lambda: (magpy.defaults.display.style.update(current_arrow_offset=1, triangle_orientation_offset=2, triangularmesh_orientation_offset=0).current.arrow.offset))
loop2 = magpy.current.Circle(current=1, diameter=1, style_arrow_offset=0.25)
run("resolved", lambda: (get_style(loop, magpy.defaults).arrow.offset, get_style(loop2, magpy.defaults).arrow.offset,
                         get_style(loop2, magpy.defaults, style_arrow_offset=0).arrow.offset,
                         get_style(tri, magpy.defaults).orientation.offset, get_style(mesh, magpy.defaults).orientation.offset,
                         get_style(tri, magpy.defaults, style_orientation_offset=9).orientation.offset))
run("resolved_bad", lambda: get_style(loop2, magpy.defaults, style_arrow_offset=9))
cp = loop2.copy(style_arrow_offset=0.75)
run("copy independent", lambda: (cp.style.arrow.offset, loop2.style.arrow.offset))
magpy.defaults.reset()
ds = magpy.defaults.display.style
run("reset", lambda: (ds.current.arrow.offset, ds.triangle.orientation.offset, ds.triangularmesh.orientation.offset))
