import os, sys; sys.path.insert(0, os.getcwd())
import hashlib
import json
import re
import warnings

import numpy as np
from scipy.spatial.transform import Rotation as R

import magpylib as magpy
from magpylib._src.display.traces_generic import get_frames
from magpylib._src.display.traces_utility import DEFAULT_ROW_COL_PARAMS
from magpylib._src.display.traces_utility import process_show_input_objs

warnings.simplefilter("ignore")


def norm(o):
    """deterministic, JSON-able view of nested trace structures"""
    if isinstance(o, dict):
        return {str(k): norm(v) for k, v in sorted(o.items(), key=lambda kv: str(kv[0]))}
    if isinstance(o, (list, tuple)):
        return [type(o).__name__, [norm(v) for v in o]]
    if isinstance(o, np.ndarray):
        if o.dtype.kind in "fiu":
            return ["nd", list(o.shape), np.round(o.astype(float), 9).tolist()]
        return ["nd", list(o.shape), [norm(v) for v in o.ravel().tolist()]]
    if isinstance(o, (float, np.floating)):
        return round(float(o), 9)
    if isinstance(o, (int, np.integer, bool, type(None))):
        return o
    if isinstance(o, str):
        return re.sub(r"id=\d+|0x[0-9a-f]+", "#", o)
    if isinstance(o, R):
        return ["rot", np.round(o.as_quat(), 9).tolist()]
    return re.sub(r"id=\d+|0x[0-9a-f]+", "#", repr(o))


def digest(label, o):
    s = json.dumps(norm(o), sort_keys=True)
    print(f"{label}: {hashlib.sha256(s.encode()).hexdigest()[:16]} len={len(s)}")
    return s


def attempt(label, func):
    try:
        res = func()
    except Exception as err:  # pylint: disable=broad-except
        print(f"{label}: EXC {type(err).__name__}: {err}")
        return None
    digest(label, res)
    return res


def model(*objs, backend="plotly", colorgrad=True, **kw):
    objects, *_ = process_show_input_objs(
        objs, **{k: v for k, v in kw.items() if k in DEFAULT_ROW_COL_PARAMS})
    style_kw = {k: v for k, v in kw.items() if k.startswith("style")}
    kw = {k: v for k, v in kw.items() if k not in DEFAULT_ROW_COL_PARAMS and k not in style_kw}
    return get_frames(objects, backend=backend, supports_colorgradient=colorgrad,
                      style_kwargs=style_kw, **kw)


from magpylib._src.display.traces_utility import get_scene_ranges
from magpylib._src.display.traces_utility import get_vertices_from_model
from magpylib._src.display.traces_utility import place_and_orient_model3d
from magpylib._src.display.traces_utility import rescale_traces

xs, ys, zs = [0.0, 1.0, 2.0], np.array([1.0, 1.0, 0.0]), (3, 4, 5)
grid = np.arange(12.0).reshape(3, 4)
kw = {"x": xs, "y": ys, "z": zs, "color": "red"}
kw2 = {"xs": xs, "Y": ys, "zz": zs, "u": grid, "v": grid + 1, "w": grid * 2}

cases = {
    "kwargs default": lambda: get_vertices_from_model(kw),
    "kwargs default, args None": lambda: get_vertices_from_model(kw, None, None),
    "kwargs default, empty args": lambda: get_vertices_from_model(kw, (), None),
    "args default": lambda: get_vertices_from_model({"ls": "--"}, (xs, ys, zs)),
    "args default, kwargs None": lambda: get_vertices_from_model(None, (xs, ys, zs)),
    "args as list": lambda: get_vertices_from_model({}, [xs, ys, zs, "extra"]),
    "custom coordsargs kwargs": lambda: get_vertices_from_model(kw2, None, {"x": "xs", "y": "Y", "z": "zz"}),
    "custom coordsargs 2d": lambda: get_vertices_from_model(kw2, None, {"x": "u", "y": "v", "z": "w"}),
    "custom coordsargs args permuted": lambda: get_vertices_from_model(
        {}, (zs, "fmt", xs, ys), {"x": "args[2]", "y": "args[3]", "z": "args[0]"}),
    "mixed args and kwargs": lambda: get_vertices_from_model(
        {"z": zs}, (xs, ys), {"x": "args[0]", "y": "args[1]", "z": "z"}),
    "mixed kwargs then args": lambda: get_vertices_from_model(
        {"x": xs}, (ys, zs), {"x": "x", "y": "args[0]", "z": "args[1]"}),
    "coordsargs with args given but kwargs keys": lambda: get_vertices_from_model(
        kw, ("ignored",), {"x": "x", "y": "y", "z": "z"}),
    "two points": lambda: get_vertices_from_model({"x": [0.0, 1.0], "y": [0.0, 1.0], "z": [1.0, 2.0]}),
    # error paths
    "err missing z": lambda: get_vertices_from_model({"x": xs, "y": ys}),
    "err missing x first": lambda: get_vertices_from_model({"z": zs}),
    "err missing custom": lambda: get_vertices_from_model(kw, None, {"x": "x", "y": "yy", "z": "z"}),
    "err kwargs None": lambda: get_vertices_from_model(None),
    "err args too short": lambda: get_vertices_from_model({}, (xs, ys)),
    "err args index not a digit": lambda: get_vertices_from_model({}, (xs, ys, zs), {"x": "args[a]", "y": "args[1]", "z": "args[2]"}),
    "err args key too short": lambda: get_vertices_from_model({}, (xs, ys, zs), {"x": "args", "y": "args[1]", "z": "args[2]"}),
    "err args None but args key": lambda: get_vertices_from_model({}, None, {"x": "args[0]", "y": "y", "z": "z"}),
    "err order: missing y before bad args z": lambda: get_vertices_from_model(
        {"x": xs}, (zs,), {"x": "x", "y": "y", "z": "args[9]"}),
    "err order: bad args x before missing y": lambda: get_vertices_from_model(
        {}, (zs,), {"x": "args[9]", "y": "y", "z": "z"}),
    "err coordsargs incomplete": lambda: get_vertices_from_model(kw, None, {"x": "x", "y": "y"}),
    "err coordsargs non str": lambda: get_vertices_from_model(kw, None, {"x": 0, "y": "y", "z": "z"}),
    "err ndarray args truth value": lambda: get_vertices_from_model(kw, np.array([xs, ys, zs]), {"x": "x", "y": "y", "z": "z"}),
    "err ndarray args truth value, no coordsargs": lambda: get_vertices_from_model(kw, np.array([xs, ys, zs])),
    "err inhomogeneous": lambda: get_vertices_from_model({"x": [0.0, 1.0], "y": [0.0], "z": [1.0, 2.0]}),
}
for label, func in cases.items():
    attempt(label, func)

# the returned coordsargs is a fresh dict on every call when defaulted, the given one otherwise
ca1, ca2 = get_vertices_from_model(kw)[1], get_vertices_from_model(kw)[1]
print("fresh default coordsargs (kwargs):", ca1 is not ca2, ca1 == ca2)
ca1, ca2 = get_vertices_from_model({}, (xs, ys, zs))[1], get_vertices_from_model({}, (xs, ys, zs))[1]
print("fresh default coordsargs (args):", ca1 is not ca2, ca1 == ca2)
given = {"x": "x", "y": "y", "z": "z"}
print("given coordsargs returned:", get_vertices_from_model(kw, None, given)[1] is given)
print("inputs untouched:", xs, ys.tolist(), zs, sorted(kw))

# --- callers: placement, scene ranges of extra backend traces, unit rescale
rot = R.from_euler("xyz", (10, 20, 30), degrees=True)
attempt("place kwargs", lambda: place_and_orient_model3d(kw, orientation=rot, position=(1, 2, 3)))
attempt("place args", lambda: place_and_orient_model3d(
    {"ls": "--"}, model_args=(xs, ys, zs, "k-"), orientation=rot, position=(1, 2, 3), scale=2,
    return_model_args=True, return_coordsargs=True))
attempt("place custom", lambda: place_and_orient_model3d(
    kw2, coordsargs={"x": "u", "y": "v", "z": "w"}, position=(1, 2, 3), length_factor=1000,
    return_coordsargs=True))
attempt("err place missing", lambda: place_and_orient_model3d({"x": xs}, position=(1, 2, 3)))
extra = {"constructor": "plot", "args": (xs, ys, zs), "kwargs": {"ls": "--"}, "coordsargs": None,
         "kwargs_extra": {"row": 1, "col": 2}}
attempt("scene ranges", lambda: get_scene_ranges(
    {"x": xs, "y": ys, "z": zs, "row": 1, "col": 1}, dict(extra), zoom=1))
attempt("rescale", lambda: rescale_traces(
    [{"x": xs, "y": ys, "z": zs}, {**extra, "kwargs": {"ls": "--"}}], factors={(1, 1): 100, (1, 2): 1000}))
attempt("err scene ranges", lambda: get_scene_ranges({**extra, "args": (xs, ys)}))


def scene():
    cube = magpy.magnet.Cuboid(polarization=(0, 0, 1), dimension=(1, 2, 3))
    cube.position = [(0, 0, 0), (1, 2, 3), (2, 4, 6)]
    cube.rotate_from_angax([0, 45, 90], (1, 1, 0), start=0)
    cube.style.model3d.add_trace(backend="matplotlib", constructor="plot", kwargs={"ls": "--"},
                                 args=([0, 1], [0, 1], [0, 2]))
    cube.style.model3d.add_trace(backend="matplotlib", constructor="plot_surface",
                                 kwargs={"X": grid, "Y": grid + 1, "Z": grid * 2},
                                 coordsargs={"x": "X", "y": "Y", "z": "Z"})
    cube.style.model3d.add_trace(backend="plotly", constructor="Scatter3d",
                                 kwargs={"x": [0, 1], "y": [0, 0], "z": [0, 5], "mode": "lines"})
    cube.style.model3d.add_trace(backend="generic", constructor="mesh3d", scale=2,
                                 kwargs={"x": [0, 1, 0, 0], "y": [0, 0, 1, 0], "z": [0, 0, 0, 1],
                                         "i": [0], "j": [1], "k": [2]})
    return cube, magpy.Sensor(position=(0, 0, 4))


for backend, cg in (("plotly", True), ("matplotlib", False)):
    for units in ("auto", "mm"):
        objs = scene()
        before = json.dumps(norm([[o.style.as_dict(), o.position, o.orientation] for o in objs]
                                 + [magpy.defaults.as_dict()]))
        attempt(f"model backend={backend} units={units}", lambda: model(
            *objs, backend=backend, colorgrad=cg, units_length=units, style_path_frames=1))
        after = json.dumps(norm([[o.style.as_dict(), o.position, o.orientation] for o in objs]
                                + [magpy.defaults.as_dict()]))
        print("  unchanged:", before == after)
bad = scene()[0]
bad.style.model3d.add_trace(backend="matplotlib", constructor="plot", kwargs={"xs": [0, 1]})
attempt("err model bad extra trace", lambda: model(bad, backend="matplotlib", colorgrad=False))
attempt("show plotly", lambda: magpy.show(*scene(), backend="plotly", return_fig=True).to_dict()["data"])
