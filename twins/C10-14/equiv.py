import os, sys; sys.path.insert(0, os.getcwd())
# Deterministic digest of the Collection transform machinery (C10).
# Output must be identical with and without the refactoring patch.
import hashlib
import warnings

import numpy as np
from scipy.spatial.transform import Rotation as R

import magpylib as magpy
from magpylib._src.obj_classes import class_BaseGeo as bg
from magpylib._src.obj_classes import class_BaseTransform as bt

warnings.simplefilter("ignore")
np.set_printoptions(precision=9, suppress=True, linewidth=200)

LINES = []


def emit(tag, *vals):
    parts = [tag]
    for v in vals:
        if isinstance(v, R):
            v = v.as_quat()
        if isinstance(v, np.ndarray):
            # exact bytes (bitwise equality expected) + rounded view for readability
            h = hashlib.sha1(np.ascontiguousarray(v).tobytes()).hexdigest()[:12]
            parts.append(f"{v.shape}{v.dtype}#{h}:{np.round(v, 9).tolist()}")
        else:
            parts.append(repr(v))
    LINES.append(" | ".join(parts))


def state(tag, *objs):
    for i, o in enumerate(objs):
        emit(f"{tag}[{i}]", o._position, o._orientation.as_quat())


def attempt(tag, fn):
    try:
        out = fn()
        LINES.append(f"{tag} -> ok {type(out).__name__}")
    except BaseException as err:  # pylint: disable=broad-except
        LINES.append(f"{tag} -> {type(err).__name__}: {str(err)[:160]!r}")


def tree(pathlen=1):
    """nested collection tree: top(c_in(cube, sens2), sphere, sens)"""
    cube = magpy.magnet.Cuboid(
        polarization=(0.1, 0.2, 0.3), dimension=(1, 2, 3), position=(1, 2, 3)
    )
    sph = magpy.magnet.Sphere(
        polarization=(0.3, 0, 0.1), diameter=1.5, position=(-2, 0.5, 1)
    )
    sens = magpy.Sensor(position=(0.3, -0.2, 4), pixel=[(0, 0, 0), (0.1, 0.2, 0.3)])
    sens2 = magpy.Sensor(position=(3, 3, -1), pixel=[(0, 0, 0.1), (0.2, 0, 0)])
    sens.rotate_from_angax(33, (1, 2, 3))
    cube.rotate_from_euler((10, 20, 30), "xyz")
    c_in = magpy.Collection(cube, sens2, position=(0.5, 0.5, 0.5))
    c_in.rotate_from_rotvec((5, 10, 15))
    top = magpy.Collection(c_in, sph, sens, position=(-1, 1, 0.25))
    if pathlen > 1:
        top.move(np.linspace((0, 0, 0), (1, 2, 3), pathlen)[1:], start=1)
    return top, c_in, cube, sph, sens, sens2


def allobjs(t):
    return t


# ---------------------------------------------------------------- module helpers
for start in ["auto", 0, 1, 3, 7, -1, -3, -7, np.int64(2), np.int64(-9)]:
    for scalar in (True, False):
        for lenop, lenip in [(1, 1), (4, 1), (4, 3), (2, 6)]:
            pad, st = bt.path_padding_param(scalar, lenop, lenip, start)
            emit("ppp", start, scalar, lenop, lenip, pad, type(pad).__name__, st)

s0 = magpy.Sensor(position=[(1, 2, 3), (2, 3, 4), (3, 4, 5)])
for inp, start in [
    (np.array([1.0, 1, 1]), "auto"),
    (np.array([[1.0, 1, 1]] * 2), "auto"),
    (np.array([[1.0, 1, 1]] * 2), 1),
    (np.array([[1.0, 1, 1]] * 5), -5),
    (np.array([1.0, 1, 1]), -6),
    (np.array([0.0, 0, 0, 1]), 2),
]:
    pp, op, st, en, padded = bt.path_padding(inp, start, s0)
    emit("pp", start, pp, op, st, en, padded)

p1 = np.arange(12.0).reshape(4, 3)
for p2 in [np.arange(6.0).reshape(2, 3), np.arange(18.0).reshape(6, 3), p1 + 1]:
    out = bg.pad_slice_path(p1, p2)
    emit("psp", out, out is p2, np.shares_memory(out, p2))

# ---------------------------------------------------------------- move on collections
for pathlen in (1, 4):
    for disp, start in [
        ((1, 2, 3), "auto"),
        ((1, 2, 3), 2),
        ((1, 2, 3), -2),
        ([(1, 2, 3), (2, 3, 4)], "auto"),
        ([(1, 2, 3), (2, 3, 4), (0, 0, 1)], 1),
        ([(1, 2, 3), (2, 3, 4), (0, 0, 1)], -6),
        (np.array([(0.5, 0, 0)] * 3), np.int64(3)),
    ]:
        t = tree(pathlen)
        t[0].move(disp, start=start)
        state(f"move top L{pathlen} {start}", *t)
        t = tree(pathlen)
        t[1].move(disp, start=start)
        state(f"move inner L{pathlen} {start}", *t)
        t = tree(pathlen)
        t[2].move(disp, start=start)
        state(f"move child L{pathlen} {start}", *t)

# ---------------------------------------------------------------- rotate on collections
ROTS = [
    ("rotate", lambda o, a, s: o.rotate(R.from_rotvec((0.2, -0.1, 0.4)), anchor=a, start=s)),
    ("rotateN", lambda o, a, s: o.rotate(None, anchor=a, start=s)),
    (
        "rotateV",
        lambda o, a, s: o.rotate(
            R.from_rotvec([(0.2, -0.1, 0.4), (0.1, 0.1, 0.1), (0, 0, 1)]), anchor=a, start=s
        ),
    ),
    ("angax", lambda o, a, s: o.rotate_from_angax(37, "y", anchor=a, start=s)),
    ("angaxV", lambda o, a, s: o.rotate_from_angax([10, 20, 30, 40], (1, 1, 0), anchor=a, start=s)),
    ("angaxR", lambda o, a, s: o.rotate_from_angax(0.3, (0, 2, 1), anchor=a, start=s, degrees=False)),
    ("angaxI", lambda o, a, s: o.rotate_from_angax(np.int64(45), [0, 0, 1], anchor=a, start=s)),
    ("rotvec", lambda o, a, s: o.rotate_from_rotvec([(10, 20, 30), (5, 5, 5)], anchor=a, start=s)),
    ("euler", lambda o, a, s: o.rotate_from_euler((15, 25), "zx", anchor=a, start=s)),
    ("matrix", lambda o, a, s: o.rotate_from_matrix([(0, -1, 0), (1, 0, 0), (0, 0, 1)], anchor=a, start=s)),
    ("mrp", lambda o, a, s: o.rotate_from_mrp((0.1, 0.2, 0.3), anchor=a, start=s)),
    ("quat", lambda o, a, s: o.rotate_from_quat([(0, 0, 1, 1), (1, 0, 0, 1)], anchor=a, start=s)),
]
ANCHORS = [
    None,
    0,
    (1, -2, 0.5),
    [(1, 0, 0), (0, 1, 0)],
    [(1, 0, 0), (0, 1, 0), (0, 0, 1), (1, 1, 1), (2, 2, 2)],
]
STARTS = ["auto", 0, 2, -1, -7, 5]
for pathlen in (1, 4):
    for name, op in ROTS:
        for anc in ANCHORS:
            for st in STARTS:
                for target in (0, 1, 2):
                    t = tree(pathlen)
                    op(t[target], anc, st)
                    h = hashlib.sha1()
                    for o in t:
                        h.update(np.ascontiguousarray(o._position).tobytes())
                        h.update(np.ascontiguousarray(o._orientation.as_quat()).tobytes())
                    LINES.append(
                        f"rot {name} L{pathlen} a={anc!r} s={st!r} t={target} "
                        f"lens={[len(o._position) for o in t]} #{h.hexdigest()[:16]}"
                    )
# a few in full
t = tree(4)
t[0].rotate_from_angax([10, 20, 30], "z", start=2)
state("full angax top", *t)
t = tree(4)
t[1].rotate_from_angax([10, 20, 30], "z", anchor=None, start=-6)
state("full angax inner", *t)
t = tree(1)
t[0].rotate_from_rotvec([(0, 0, 10), (0, 20, 0)], anchor=[(1, 1, 1)] * 4, start=1)
state("full rotvec top", *t)

# ---------------------------------------------------------------- setters / reset_path
for pathlen in (1, 4):
    for target in (0, 1, 2):
        t = tree(pathlen)
        t[target].position = (7, 8, 9)
        state(f"pos= scalar L{pathlen} t{target}", *t)
        t = tree(pathlen)
        t[target].position = [(7, 8, 9), (1, 1, 1)]
        state(f"pos= short L{pathlen} t{target}", *t)
        t = tree(pathlen)
        t[target].position = np.arange(18.0).reshape(6, 3)
        state(f"pos= long L{pathlen} t{target}", *t)
        t = tree(pathlen)
        t[target].orientation = R.from_rotvec((0.3, 0.2, 0.1))
        state(f"ori= scalar L{pathlen} t{target}", *t)
        t = tree(pathlen)
        t[target].orientation = R.from_rotvec([(0.3, 0.2, 0.1), (0, 0, 1)])
        state(f"ori= short L{pathlen} t{target}", *t)
        t = tree(pathlen)
        t[target].orientation = R.from_rotvec([(0.3, 0.2, 0.1)] * 6)
        state(f"ori= long L{pathlen} t{target}", *t)
        t = tree(pathlen)
        t[target].orientation = None
        state(f"ori= None L{pathlen} t{target}", *t)
        t = tree(pathlen)
        t[target].reset_path()
        state(f"reset L{pathlen} t{target}", *t)

# sequences + field invariance seen by own sensor
t = tree(3)
top = t[0]
B0 = top.getB()
top.move((1, 2, 3)).rotate_from_angax(40, (1, 2, 3), anchor=(1, 0, 0))
top.position = [(0, 0, 1), (0, 1, 0), (1, 0, 0)]
top.orientation = R.from_rotvec([(0.1, 0, 0), (0, 0.2, 0), (0, 0, 0.3)])
t[1].rotate_from_euler(12, "y").move((0.1, 0.1, 0.1))
state("seq", *t)
emit("seq B", top.getB())
t2 = tree(3)
B0 = t2[0].getB()
t2[0].move((1, 2, 3)).rotate_from_angax(40, (1, 2, 3), anchor=(1, 0, 0))
t2[0].position = [(0, 0, 1), (0, 1, 0), (1, 0, 0)]
t2[0].orientation = R.from_rotvec([(0.1, 0, 0), (0, 0.2, 0), (0, 0, 0.3)])
emit("seq invariance", bool(np.allclose(B0, t2[0].getB(), rtol=1e-10, atol=1e-14)))

# aliasing: anchor slice of parent path must not be modified, returns self
t = tree(2)
ppos = t[0]._position
pid = id(ppos)
ret = t[0].rotate_from_angax(10, "z")
emit("alias", ret is t[0], id(t[0]._position) == pid, t[0]._position)
ret = t[0].move((1, 1, 1))
emit("alias2", ret is t[0], id(t[0]._position) == pid)
user_anchor = np.array([(1.0, 2, 3), (4, 5, 6)])
user_disp = np.array([(1.0, 2, 3), (4, 5, 6)])
t[0].rotate_from_angax([10, 20, 30], "x", anchor=user_anchor)
t[0].move(user_disp)
emit("user inputs untouched", user_anchor, user_disp)

# ---------------------------------------------------------------- error paths
def fresh():
    return tree(2)[0]


attempt("err move str", lambda: fresh().move("abc"))
attempt("err move shape", lambda: fresh().move((1, 2)))
attempt("err move 3d", lambda: fresh().move(np.zeros((2, 2, 3))))
attempt("err move start", lambda: fresh().move((1, 2, 3), start=1.5))
attempt("err move start str", lambda: fresh().move((1, 2, 3), start="x"))
attempt("err rotate type", lambda: fresh().rotate((1, 2, 3)))
attempt("err rotate anchor", lambda: fresh().rotate(None, anchor=(1, 2)))
attempt("err rotate anchor1", lambda: fresh().rotate(None, anchor=1))
attempt("err rotate start", lambda: fresh().rotate(None, start=None))
attempt("err angax angle", lambda: fresh().rotate_from_angax("a", "z"))
attempt("err angax angle2d", lambda: fresh().rotate_from_angax([[1, 2]], "z"))
attempt("err angax axis", lambda: fresh().rotate_from_angax(10, "w"))
attempt("err angax axis0", lambda: fresh().rotate_from_angax(10, (0, 0, 0)))
attempt("err angax axis shape", lambda: fresh().rotate_from_angax(10, (0, 1)))
attempt("err angax start", lambda: fresh().rotate_from_angax(10, "z", start=0.5))
attempt("err angax degrees", lambda: fresh().rotate_from_angax(10, "z", degrees=1))
attempt("err angax anchor", lambda: fresh().rotate_from_angax(10, "z", anchor="a"))
attempt(
    "err anchor/rot mismatch",
    lambda: fresh().rotate(R.from_rotvec([(0, 0, 1)] * 3), anchor=[(0, 0, 0)] * 2),
)


def _setpos(v):
    f = fresh()
    f.position = v


def _setori(v):
    f = fresh()
    f.orientation = v


attempt("err pos=", lambda: _setpos((1, 2)))
attempt("err pos= str", lambda: _setpos("a"))
attempt("err ori=", lambda: _setori((1, 2, 3)))
# state after a rejected operation is unchanged
f = tree(2)
attempt("err keep", lambda: f[0].rotate_from_angax(10, "z", anchor=(1, 2)))
state("after rejected", *f)
attempt("err keep2", lambda: f[0].move((1, 2, 3), start=2.0))
state("after rejected2", *f)


# ---------------------------------------------------------------- twin3-4: BaseGeo constructor / orientation getter / parent setter
import re


def lab(o):
    return None if o is None else o.style.label


POSITIONS = {
    "default": None,
    "p1": (1, 2, 3),
    "p1x1": [(1, 2, 3)],
    "p2": [(1, 2, 3), (4, 5, 6)],
    "p3": np.arange(9.0).reshape(3, 3),
    "p5": np.linspace((0, 0, 0), (1, 2, 3), 5),
    "pint": np.arange(6).reshape(2, 3),
}
ORIENTATIONS = {
    "default": "skip",
    "None": None,
    "o1": R.from_rotvec((0.1, 0.2, 0.3)),
    "o1x1": R.from_rotvec([(0.1, 0.2, 0.3)]),
    "o2": R.from_rotvec([(0.1, 0.2, 0.3), (0.3, 0.2, 0.1)]),
    "o3": R.from_rotvec([(0, 0, 0.1), (0, 0, 0.2), (0, 0, 0.3)]),
    "o5": R.from_rotvec([(0.01 * i, 0, 0) for i in range(1, 6)]),
}
MAKERS = {
    "Sensor": lambda **kw: magpy.Sensor(**kw),
    "Cuboid": lambda **kw: magpy.magnet.Cuboid(polarization=(1, 2, 3), dimension=(1, 1, 1), **kw),
    "Collection": lambda **kw: magpy.Collection(**kw),
    "CollWithChild": lambda **kw: magpy.Collection(magpy.Sensor(position=(1, 1, 1)), **kw),
}
for mname, mk in MAKERS.items():
    for pname, pos in POSITIONS.items():
        for oname, ori in ORIENTATIONS.items():
            kw = {}
            if pos is not None:
                kw["position"] = pos
            if not isinstance(ori, str):
                kw["orientation"] = ori
            o = mk(**kw)
            emit(f"ctor {mname} {pname} {oname}", o._position, o._orientation.as_quat(), o.position)
            g = o.orientation
            LINES.append(
                f"ctor {mname} {pname} {oname} getter: single={g.single} len={len(o._orientation)} "
                f"same_obj={g is o._orientation} flags={o._position.flags.writeable},{o._position.flags.c_contiguous}"
            )
            emit("   getter quat", g.as_quat())
            if hasattr(o, "children") and o.children:
                emit("   child", o.children[0]._position, o.children[0]._orientation.as_quat())

# input arrays are not aliased by the constructor
p_in = np.arange(6.0).reshape(2, 3)
o = magpy.Sensor(position=p_in)
o.move((1, 1, 1))
emit("ctor alias", p_in, bool(np.shares_memory(p_in, o._position)))
r_in = R.from_rotvec([(0.1, 0, 0)] * 3)
o = magpy.Collection(position=p_in, orientation=r_in)
o.rotate_from_angax(10, "z")
emit("ctor alias2", p_in, r_in.as_quat(), o._position, o._orientation.as_quat())

# constructor error paths
for bad_pos in [(1, 2), "a", None, np.zeros((0, 3)), np.zeros((2, 2, 3)), [], 5]:
    attempt(f"ctor bad pos {bad_pos!r}", lambda: magpy.Sensor(position=bad_pos))
    attempt(
        f"ctor bad pos coll {bad_pos!r}",
        lambda: magpy.Collection(position=bad_pos, orientation=R.from_rotvec([(0, 0, 1)] * 2)),
    )
for bad_ori in [(0, 0, 0, 1), "z", 0, np.array([0, 0, 0, 1.0]), [R.identity()]]:
    attempt(f"ctor bad ori {bad_ori!r}", lambda: magpy.Sensor(orientation=bad_ori))
    attempt(f"ctor bad ori coll {bad_ori!r}", lambda: magpy.Collection(position=[(1, 2, 3)] * 3, orientation=bad_ori))
attempt("ctor both bad", lambda: magpy.Sensor(position="a", orientation="b"))

# orientation getter through the setter mechanism (children rotate with `self.orientation`)
for n in (1, 2, 4):
    s1 = magpy.Sensor(position=(1, 2, 3), style_label="s")
    col = magpy.Collection(s1, position=np.arange(3.0 * n).reshape(n, 3), style_label="c")
    g0 = col.orientation
    col.orientation = R.from_rotvec(np.arange(3.0 * n).reshape(n, 3) / 7)
    g1 = col.orientation
    emit(f"getter n={n}", g0.single, g1.single, g1 is col._orientation, g1.as_quat())
    state(f"getter tree n={n}", col, s1)
    col.orientation = None
    emit(f"getter None n={n}", col.orientation.single, col.orientation.as_quat())
    state(f"getter tree None n={n}", col, s1)


# parent setter
def fam():
    a = magpy.Sensor(position=(1, 0, 0), style_label="a")
    b = magpy.magnet.Sphere(polarization=(0, 0, 1), diameter=1, position=(0, 1, 0), style_label="b")
    c1 = magpy.Collection(a, position=(1, 1, 1), style_label="c1")
    c2 = magpy.Collection(b, position=(2, 2, 2), style_label="c2")
    top = magpy.Collection(c1, c2, position=(3, 3, 3), style_label="top")
    free = magpy.Sensor(style_label="free")
    return dict(a=a, b=b, c1=c1, c2=c2, top=top, free=free)


class SubColl(magpy.Collection):
    """user subclass"""


def run_parent(tag, fn):
    f = fam()
    try:
        fn(f)
        LINES.append(f"{tag} -> ok")
    except BaseException as err:  # pylint: disable=broad-except
        LINES.append(f"{tag} -> {type(err).__name__}: {str(err)[:240]!r}")
    for k in ("top", "c1", "c2"):
        c = f[k]
        LINES.append(
            f"{tag} {k}: ch={[lab(o) for o in c._children]} src={[lab(o) for o in c._sources]} "
            f"sens={[lab(o) for o in c._sensors]} coll={[lab(o) for o in c._collections]} parent={lab(c._parent)}"
        )
    LINES.append(f"{tag} parents " + repr({k: lab(v.parent) for k, v in f.items()}))
    f["top"].move((1, 2, 3)).rotate_from_angax([10, 20], "y", anchor=(1, 0, 0))
    f["top"].orientation = R.from_rotvec((0.2, 0.1, 0))
    state(tag, *f.values())


PARENT_OPS = [
    ("free -> c1", lambda f: setattr(f["free"], "parent", f["c1"])),
    ("free -> top", lambda f: setattr(f["free"], "parent", f["top"])),
    ("free -> None", lambda f: setattr(f["free"], "parent", None)),
    ("a -> None", lambda f: setattr(f["a"], "parent", None)),
    ("a -> None twice", lambda f: (setattr(f["a"], "parent", None), setattr(f["a"], "parent", None))),
    ("a -> c2", lambda f: setattr(f["a"], "parent", f["c2"])),
    ("a -> c1 again", lambda f: setattr(f["a"], "parent", f["c1"])),
    ("a -> top", lambda f: setattr(f["a"], "parent", f["top"])),
    ("c1 -> None", lambda f: setattr(f["c1"], "parent", None)),
    ("c1 -> c2", lambda f: setattr(f["c1"], "parent", f["c2"])),
    ("c1 -> c1", lambda f: setattr(f["c1"], "parent", f["c1"])),
    ("top -> c1", lambda f: setattr(f["top"], "parent", f["c1"])),
    ("top -> None", lambda f: setattr(f["top"], "parent", None)),
    ("a -> subclass", lambda f: setattr(f["a"], "parent", SubColl(style_label="sub"))),
    ("a -> sensor", lambda f: setattr(f["a"], "parent", f["free"])),
    ("a -> str", lambda f: setattr(f["a"], "parent", "top")),
    ("a -> 0", lambda f: setattr(f["a"], "parent", 0)),
    ("a -> False", lambda f: setattr(f["a"], "parent", False)),
    ("a -> list", lambda f: setattr(f["a"], "parent", [f["c2"]])),
    ("a -> class", lambda f: setattr(f["a"], "parent", magpy.Collection)),
    ("c1 -> str", lambda f: setattr(f["c1"], "parent", "x")),
    ("stale parent", lambda f: (f["c1"]._children.clear(), setattr(f["a"], "parent", None))),
    ("copy parent", lambda f: f["a"].copy(parent=f["c2"], style_label="a2")),
    ("copy bad parent", lambda f: f["a"].copy(parent="x")),
    ("ctor parent kw", lambda f: magpy.Sensor(parent=f["c1"])),
]
for name, fn in PARENT_OPS:
    run_parent(f"parent {name}", fn)

LINES[:] = [re.sub(r"id=\d+", "id=#", line) for line in LINES]
digest = hashlib.sha256("\n".join(LINES).encode()).hexdigest()
for line in LINES:
    print(line)
print("N_LINES", len(LINES))
print("DIGEST", digest)
