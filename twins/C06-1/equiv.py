import os, sys; sys.path.insert(0, os.getcwd())
import hashlib
import warnings

import numpy as np
from scipy.spatial.transform import Rotation as R

import magpylib as magpy

warnings.simplefilter("ignore")


def dig(name, arr):
    arr = np.ascontiguousarray(np.asarray(arr, dtype=float))
    h = hashlib.sha256(arr.tobytes()).hexdigest()[:16]
    print(name, arr.shape, h, np.round(arr.ravel()[:4], 12).tolist())


def state(objs):
    """exact digest of the paths of all objects (must be restored after getB)"""
    h = hashlib.sha256()
    shapes = []
    for o in objs:
        h.update(np.ascontiguousarray(o._position).tobytes())
        h.update(np.ascontiguousarray(o._orientation.as_quat()).tobytes())
        shapes.append((o._position.shape, o._orientation.as_quat().shape))
    return shapes, h.hexdigest()[:16]


def build():
    cub = magpy.magnet.Cuboid(polarization=(0.1, 0.2, 0.3), dimension=(1, 2, 3))
    cub.move([(0.1 * i, 0, 0) for i in range(1, 5)])  # path length 5
    cub.rotate_from_angax([10, 20, 30, 40, 50], "z", start=0)
    cyl = magpy.magnet.Cylinder(
        polarization=(0.3, 0.2, 0.1), dimension=(1, 2), position=(0, 3, 0)
    )  # path length 1
    cyl.rotate_from_angax(33, (1, 2, 3))
    circ = magpy.current.Circle(current=2.5, diameter=1.5, position=(0, 0, -2))
    circ.move([(0, 0, 0.1), (0, 0, 0.2)])  # path length 3
    circ.rotate_from_angax([5, 7], "x", start=1)
    sph = magpy.magnet.Sphere(polarization=(0, 0, 1), diameter=1)
    sph.position = [(i, i, 5) for i in range(7)]  # path length 7 = max
    s1 = magpy.Sensor(pixel=[(0, 0, 0), (0.1, 0.2, 0.3)], position=(2, 2, 2))
    s1.rotate_from_angax([15, 30, 45], "y")  # path length 4
    s2 = magpy.Sensor(position=(-2, 1, 1), handedness="left")  # path length 1
    s2.rotate_from_angax(70, (1, 1, 0))
    return [cub, cyl, circ, sph], [s1, s2]


srcs, sens = build()
before = state(srcs + sens)
print("before", before)

# 1) mixed path lengths, everything shorter than max gets padded
B = magpy.getB(srcs, sens, squeeze=False, pixel_agg="mean")
dig("B_mixed", B)
print("restored", state(srcs + sens) == before)

# 2) H, with a collection, sumup and duplicates
col = magpy.Collection(srcs[0], srcs[2])
H = magpy.getH([col, srcs[1], srcs[1]], [sens[1], sens[1], (1, 2, 3)], squeeze=False)
dig("H_coll", H)
print("restored", state(srcs + sens) == before)
Hs = magpy.getH(srcs, sens[1], sumup=True)
dig("H_sumup", Hs)

# 3) element-by-element agrees with the joint evaluation
for l, src in enumerate(srcs):
    for k, sn in enumerate(sens):
        b = magpy.getB(src, sn, squeeze=False, pixel_agg="mean")
        m = b.shape[1]
        exact = bool(np.all(b[0, :, 0] == B[l, :m, k]))
        close = bool(np.allclose(b[0, :, 0], B[l, :m, k], rtol=1e-12, atol=0))
        print("elem", l, k, m, exact, close)
print("restored", state(srcs + sens) == before)

# 4) all paths of length one (no padding at all)
c1 = magpy.magnet.Cuboid(polarization=(1, 0, 0), dimension=(1, 1, 1))
c2 = magpy.current.Polyline(current=1, vertices=[(0, 0, 0), (1, 1, 1), (2, 0, 1)])
dig("B_static", magpy.getB([c1, c2], [(1, 2, 3), (2, 3, 4)], squeeze=False))
dig("B_min", magpy.getB(c1, (1, 2, 3), squeeze=False))

# 5) sensor longer than all sources
sl = magpy.Sensor(position=[(1, 1, i) for i in range(1, 4)])
st0 = state([c1, c2, sl])
dig("B_senslong", magpy.getB([c1, c2], sl, squeeze=False))
print("restored", state([c1, c2, sl]) == st0)

# 6) error inside the computation: paths must be restored, exception propagates
custom = magpy.misc.CustomSource(position=[(0, 0, 0), (1, 1, 1)])
objs = [c1, custom, sl]
st0 = state(objs)
try:
    magpy.getB([c1, custom], sl)
except Exception as err:  # pylint: disable=broad-except
    print("error", type(err).__name__, str(err)[:60])
print("restored after error", state(objs) == st0)


def bad_field(field, observers):
    if len(observers) > 2:  # passes the validation call of the setter
        raise ZeroDivisionError("boom")
    return observers * 0.0


custom.field_func = None
custom2 = magpy.misc.CustomSource(field_func=lambda field, observers: observers * 0)
custom2.field_func = bad_field
objs = [c1, custom2, sl]
st0 = state(objs)
try:
    magpy.getH([c1, custom2], sl)
except Exception as err:  # pylint: disable=broad-except
    print("error", type(err).__name__, str(err)[:60])
print("restored after error", state(objs) == st0)

# 7) dataframe output with padded paths
df = magpy.getB(srcs[:2], sens[1], output="dataframe")
print(df.shape, list(df.columns))
dig("df", df[["Bx", "By", "Bz"]].to_numpy())
print("restored", state(srcs + sens) == before)
