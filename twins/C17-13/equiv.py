import os, sys; sys.path.insert(0, os.getcwd())
import re
import warnings
from fractions import Fraction

import numpy as np

import magpylib as magpy

warnings.simplefilter("ignore")


def dig(r):
    if isinstance(r, np.ndarray):
        return f"ARR {r.dtype} {r.shape} {r.tolist()}"
    return f"RET {type(r).__name__} {r!r}"


def run(f):
    try:
        out = dig(f())
    except Exception as e:  # pylint: disable=broad-except
        out = f"EXC {type(e).__name__}: {e} | cause={type(e.__cause__).__name__}"
    return re.sub(r"0x[0-9a-f]+|id=\d+", "ADDR", out)


def emit(*args):
    print(re.sub(r"0x[0-9a-f]+|id=\d+", "ADDR", " ".join(str(a) for a in args)))


class LoudFloat:
    def __float__(self):
        raise RuntimeError("no float for you")


T3 = [(0, 0, 0), (1, 0, 0), (0, 1, 0)]
T4 = [(0, 0, 0), (1, 0, 0), (0, 1, 0), (0, 0, 1)]
values = [
    None, 0, 1.5, True, "abc", Fraction(1, 2), (), [], [[]], (1, 2, 3), [(1, 2, 3)], [(1, 2, 3)] * 2, T3, T4, T4 + [(1, 1, 1)],
    tuple(map(tuple, T3)), np.array(T3), np.array(T4), np.array(T3, dtype=np.int8), np.array(T4, dtype=np.float32),
    np.array(T4)[::-1], np.array(T3).T, [(0, 0), (1, 0), (0, 1)], [(0, 0, 0, 0)] * 3, [(0, 0, 0, 0)] * 4, [[(1, 2, 3)] * 3] * 3,
    [[(1, 2, 3)] * 3] * 4, [(0, 0, 0), (1, 0, 0), (0, "a", 0)], [("0", "0", "0"), ("1", "0", "0"), ("0", "1", "0")],
    [(0, 0, 0), (1, 0, 0), (0, None, 0)], [(0, 0, 0), (1, 0, 0), (0, 1)], [(0, 0, 0), (1, 0, 0), (0, 1, LoudFloat())],
    {1, 2, 3}, range(3), np.zeros((3, 0)), np.zeros((0, 3)), np.zeros((4, 0)), np.array(T3, dtype=object), np.array(T4, dtype=complex),
    [(0, 0, 0)] * 3, [(0, 0, 0)] * 4, [(-1, -2, -3), (4, 5, 6), (7, 8, -9)], [(np.inf, 0, 0), (1, 0, 0), (0, 1, 0)],
    [(1e400, 0, 0), (1, 0, 0), (0, 1, 0), (0, 0, 1)], np.ones((3, 3, 1)), np.ones((1, 3, 3)), np.ones((4, 3))[:, ::-1],
]

classes = [magpy.misc.Triangle, magpy.magnet.Tetrahedron]

for cls in classes:
    good = T3 if cls is magpy.misc.Triangle else T4
    for v in values:
        # constructor
        r_ctor = run(lambda: cls(vertices=v).vertices)
        # setter from "not yet set" and from a valid value
        o1 = cls()
        r_set1 = run(lambda: setattr(o1, "vertices", v))
        o2 = cls(vertices=good, polarization=(0.1, 0.2, 0.3))
        before = dig(o2.vertices)
        r_set2 = run(lambda: setattr(o2, "vertices", v))
        after = dig(o2.vertices)
        shares = isinstance(v, np.ndarray) and o2.vertices is not None and np.shares_memory(o2.vertices, v)
        emit(cls.__name__, repr(v)[:70].replace("\n", " "), "| ctor", r_ctor, "| set(None)", r_set1, dig(o1.vertices),
             "| set(valid)", r_set2, "UNCHANGED" if before == after else after, "| shares", shares,
             "| desc", run(lambda: o2._default_style_description), "| bary", run(lambda: o2.barycenter),
             "| getB", run(lambda: np.round(o2.getB((0.3, 0.4, 0.5)), 12)))

# None is accepted and reported only at field computation
for cls in classes:
    o = cls(polarization=(0, 0, 1))
    emit(cls.__name__, "None ->", run(lambda: o.vertices), run(lambda: o.getB((1, 2, 3))), run(lambda: magpy.getH(o, (1, 2, 3))))

# caller-mutation independence, positional constructor, copy(vertices=...)
for cls, good in zip(classes, (T3, T4)):
    arr = np.array(good, dtype=float)
    o = cls(vertices=arr)
    arr[0, 0] = 77.0
    emit(cls.__name__, "independent", o.vertices.tolist(), o.vertices.flags.owndata, o.vertices.dtype)
    emit(cls.__name__, "positional", run(lambda: cls((1, 1, 1), None, good).vertices), run(lambda: cls((1, 1, 1), None, good[:2]).vertices))
    emit(cls.__name__, "copy", run(lambda: o.copy(vertices=good).vertices), run(lambda: o.copy(vertices=good[:-1]).vertices))

    class Sub(cls):
        """subclass: the error text must keep naming the library class"""

    emit(cls.__name__, "subclass", run(lambda: Sub(vertices=[(1, 2, 3)]).vertices))

# functional interface uses the same field code with raw arrays
emit("dict-style", run(lambda: np.round(magpy.getB("Triangle", (1, 2, 3), vertices=T3, polarization=(0.1, 0.2, 0.3)), 12)))
emit("dict-style", run(lambda: np.round(magpy.getB("Tetrahedron", (1, 2, 3), vertices=T4, polarization=(0.1, 0.2, 0.3)), 12)))
