import os, sys; sys.path.insert(0, os.getcwd())
import hashlib
import re
import warnings

import numpy as np
from scipy.spatial.transform import Rotation as R

import magpylib as magpy

warnings.simplefilter("ignore")


def dig(name, val):
    """print a deterministic digest of an array or exception"""
    if isinstance(val, BaseException):
        msg = re.sub(r"id=\d+|0x[0-9a-f]+", "#", str(val))
        print(f"{name}: EXC {type(val).__name__}: {msg[:120]!r}")
    elif val is None:
        print(f"{name}: None")
    else:
        a = np.asarray(val, dtype=float)
        h = hashlib.sha256(np.ascontiguousarray(a).tobytes()).hexdigest()[:16]
        print(f"{name}: shape={a.shape} sha={h} sum={np.sum(a):.12e}")


def run(name, func):
    try:
        dig(name, func())
    except Exception as err:  # pylint: disable=broad-except
        dig(name, err)


def state(objs):
    """digest of the paths of all objects (must be restored after getBH)"""
    parts = []
    for o in objs:
        parts.append(o._position.tobytes())
        parts.append(o._orientation.as_quat().tobytes())
    return hashlib.sha256(b"".join(parts)).hexdigest()[:16]


def custom_lin(field, observers):
    """custom field: defined for B only"""
    if field == "B":
        return observers * np.array([1.0, -2.0, 3.0])
    return None


def custom_quad(field, observers):
    """second custom field func, B and H"""
    return observers**2 * (1.0 if field == "B" else 0.5)


def make_setup():
    rot = R.from_rotvec([[0.1, 0.2, 0.3], [0.5, -0.4, 0.3], [1.0, 2.0, -0.5]])
    cub1 = magpy.magnet.Cuboid(
        polarization=(0.1, 0.2, 0.3), dimension=(1, 2, 3), position=(0.1, 0.2, 0.3)
    )
    sph = magpy.magnet.Sphere(polarization=(0.3, -0.2, 0.1), diameter=1.5)
    sph.move([(0.1, 0, 0), (0.2, 0.1, 0), (0.3, 0.2, 0.1)], start=0)
    sph.rotate(rot, anchor=(0.5, 0.5, 0.5), start=0)
    cub2 = magpy.magnet.Cuboid(
        polarization=(-0.3, 0.1, 0.2), dimension=(2, 1, 0.5), position=(3, 0, 1)
    ).rotate_from_angax(33, (1, 2, 3))
    circ = magpy.current.Circle(current=12.0, diameter=2.5, position=(0, 0, -2))
    circ.rotate_from_angax([10, 20], "x", anchor=0)
    dip = magpy.misc.Dipole(moment=(1, 2, 3), position=(-3, 1, 1))
    cub3 = magpy.magnet.Cuboid(
        polarization=(0.0, 0.0, 1.0), dimension=(1, 1, 1), position=(-2, -2, 0)
    )
    tet = magpy.magnet.Tetrahedron(
        polarization=(0.1, 0.2, 0.3),
        vertices=[(0, 0, 0), (1, 0, 0), (0, 1, 0), (0, 0, 1)],
        position=(5, 5, 5),
    )
    cust1 = magpy.misc.CustomSource(field_func=custom_lin, position=(1, 1, 1))
    cust2 = magpy.misc.CustomSource(field_func=custom_quad).rotate_from_angax(
        45, "z", anchor=(1, 0, 0)
    )
    cust3 = magpy.misc.CustomSource(field_func=custom_lin, position=(0, 2, 0))
    col = magpy.Collection(dip, cub3, cust2)
    col.rotate_from_angax(25, "y", anchor=(0, 0, 1))
    sens1 = magpy.Sensor(
        pixel=[(0, 0, 0), (0.1, 0, 0), (0, 0.1, 0.2)], position=(4, 4, 4)
    ).rotate_from_angax([5, 10, 15, 20], (1, 1, 0), anchor=0, start=0)
    sens2 = magpy.Sensor(
        pixel=[(0, 0, 0.1), (0.1, 0.1, 0), (0.2, 0.1, 0.2)],
        position=(-4, 3, 2),
        handedness="left",
    )
    return dict(
        cub1=cub1, sph=sph, cub2=cub2, circ=circ, dip=dip, cub3=cub3, tet=tet,
        cust1=cust1, cust2=cust2, cust3=cust3, col=col, sens1=sens1, sens2=sens2,
    )


S = make_setup()
allobjs = list(S.values())
obs = np.array([[4.0, 4.0, 4.0], [-5.0, 1.0, 2.0], [0.3, 8.0, -3.0]])
print("state0", state(allobjs))

# interleaved groups: the order of the sources must be kept in the result
orders = {
    "interleaved": ["cub1", "sph", "cub2", "circ", "col", "tet", "cust1", "cust3"],
    "reversed": ["cust3", "cust1", "tet", "col", "circ", "cub2", "sph", "cub1"],
    "one-group": ["cub1", "cub2", "cub3"],
    "single": ["cub2"],
    "col-first": ["col", "cub1", "col", "sph"],
    "duplicates": ["cub1", "sph", "cub1"],
}
for oname, names in orders.items():
    srcs = [S[n] for n in names]
    for fld in "BHJM":
        if fld != "B" and any(n.startswith("cust1") or n == "cust3" for n in names):
            continue
        func = getattr(magpy, "get" + fld)
        run(f"{oname} {fld} pos", lambda: func(srcs, obs))
        run(f"{oname} {fld} sens", lambda: func(srcs, [S["sens1"], S["sens2"]]))
        run(
            f"{oname} {fld} sumup nosqueeze",
            lambda: func(srcs, S["sens1"], sumup=True, squeeze=False),
        )
        run(
            f"{oname} {fld} agg",
            lambda: func(srcs, [S["sens1"], obs[:2]], pixel_agg="mean"),
        )
    print("state", oname, state(allobjs))

# in_out handed to mixed groups
for io in ("auto", "inside", "outside"):
    run(
        f"in_out {io}",
        lambda io=io: magpy.getH(
            [S["tet"], S["cub1"], S["tet"], S["circ"]], obs, in_out=io
        ),
    )

# dataframe output
run(
    "dataframe",
    lambda: magpy.getB(
        [S["cub1"], S["sph"], S["cub2"]], S["sens1"], output="dataframe"
    ).to_numpy()[:, 4:].astype(float),
)

# error paths
# (a) field_func None in second place of the list -> raised while grouping
nofunc = magpy.misc.CustomSource(position=(1, 2, 3))
run("err no field_func", lambda: magpy.getB([S["cub1"], nofunc, S["sph"]], obs))
print("state err-a", state(allobjs + [nofunc]))
# (b) field_func returns None for H -> raised after level1 of that group
run("err H undefined", lambda: magpy.getH([S["cub1"], S["cust1"], S["sph"]], obs))
print("state err-b", state(allobjs))
# (c) error inside the field computation of a later group
bad = magpy.misc.CustomSource(field_func=custom_quad)
bad._field_func = lambda field, observers: np.zeros((2, 3))  # wrong length
run("err reshape", lambda: magpy.getB([S["sph"], S["cub1"], bad, S["circ"]], obs))
print("state err-c", state(allobjs + [bad]))
# (d) kwargs with object interface
run("err kwargs", lambda: magpy.getB([S["cub1"]], obs, diameter=3))
# (e) bad source
run("err bad source", lambda: magpy.getB([S["cub1"], "x"], obs))


# ---- additions for twins5/5: what each group evaluation sees and how it can fail --------
CALLS = []


def logging_func(tag, result):
    def field_func(field, observers):
        CALLS.append((tag, field, observers.shape, hashlib.sha256(observers.tobytes()).hexdigest()[:12]))
        return result(observers)

    return field_func


def custom(tag, result, **kw):
    src = magpy.misc.CustomSource(field_func=lambda field, observers: observers, **kw)
    src._field_func = logging_func(tag, result)
    return src


results = {
    "ok": lambda o: o * 2.0,
    "none": lambda o: None,
    "list": lambda o: (o * 2.0).tolist(),
    "short": lambda o: o[:-1],
    "flat": lambda o: o.reshape(-1),
    "wide": lambda o: np.concatenate((o, o), axis=1),
    "scalar": lambda o: 1.0,
    "raises": lambda o: 1 / 0,
}
for first in ("ok", "none", "raises", "list"):
    for name, result in results.items():
        CALLS.clear()
        a = custom("a", results[first], position=(1, 1, 1))
        b1 = custom("b", result, position=(0, 2, 0)).rotate_from_angax([10, 20], "x", start=0)
        b2 = custom("b2", result, position=(0, -2, 0))
        b2._field_func = b1._field_func  # same group as b1
        srcs = [S["cub1"], a, b1, S["sph"], b2]
        before = state(allobjs + [a, b1, b2])
        run(f"group a={first} b={name}", lambda: magpy.getB(srcs, [S["sens1"], S["sens2"]]))
        print("   calls:", CALLS, "restored:", before == state(allobjs + [a, b1, b2]))

# C03 on a mixed list of groups
srcs = [S["cub1"], S["sph"], S["circ"], S["col"], S["tet"], S["cub2"]]
B0 = magpy.getB(srcs, obs)
G = R.from_rotvec((0.3, -1.1, 0.7))
T = np.array((0.4, -2.0, 1.5))
moved = [s.copy() for s in srcs]
for m in moved:
    m.rotate(G, anchor=0).move(T)
B1 = magpy.getB(moved, G.apply(obs) + T)
dig("c03 B0", B0)
dig("c03 B1", B1)
print("c03 holds:", np.allclose(G.apply(B0.reshape(-1, 3)), B1.reshape(-1, 3), rtol=1e-9, atol=1e-13))
