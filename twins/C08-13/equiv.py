import os, sys; sys.path.insert(0, os.getcwd())
# Twin3-3: dataframe output of getBH_level2 moved to helpers, check_getBH_output_type / _require_pandas
import hashlib
import re
import warnings

import numpy as np

import magpylib as magpy
from magpylib._src.input_checks import check_getBH_output_type

warnings.simplefilter("ignore")


def h(a):
    a = np.ascontiguousarray(a)
    return hashlib.sha1(a.tobytes()).hexdigest()[:12] + str(a.shape)


def clean(msg):
    msg = re.sub(r"0x[0-9a-f]+", "0x?", re.sub(r"id=\d+", "id=?", str(msg)))
    return msg.replace("\n", " | ")[:150]


def style_state(o):
    st = getattr(o, "_style", None)
    return (st is None, dict(o._style_kwargs), None if st is None else repr(st.label))


def snap(objs):
    return [
        (
            h(o._position),
            h(o._orientation.as_quat()),
            None if getattr(o, "_pixel", None) is None else h(o._pixel),
            None if o._parent is None else id(o._parent),
            [id(c) for c in getattr(o, "_children", [])],
        )
        for o in objs
    ]


def digest(res):
    if isinstance(res, np.ndarray):
        return f"ndarray {h(res)} {np.round(np.ravel(res)[:3], 10).tolist()}"
    cols = list(res.columns)
    idx = [clean(v) for v in res["source"].unique()], [clean(v) for v in res["sensor"].unique()]
    vals = res[cols[4:]].to_numpy()
    keys = "/".join(clean(v) for v in res.iloc[-1, :4].tolist())
    return (
        f"{type(res).__name__} cols={cols} dtypes={[str(t) for t in res.dtypes]} shape={res.shape}"
        f" src={idx[0]} sens={idx[1]} path={sorted(res['path'].unique().tolist())}"
        f" pixel={sorted(res['pixel'].unique().tolist())} last={keys} values={h(vals)}"
        f" index={type(res.index).__name__}({res.index[0]}..{res.index[-1]})"
    )


def make():
    cub = magpy.magnet.Cuboid(polarization=(0.1, 0.2, 0.3), dimension=(1, 2, 3), style_label="the cube")
    cyl = magpy.magnet.Cylinder(polarization=(0.3, 0.2, 0.1), dimension=(1, 2), position=(1, 1, 1))
    cyl.move(np.linspace((0, 0, 0), (1, 0.5, 0.2), 3), start=0)
    loop = magpy.current.Circle(current=3, diameter=2, position=(0, 0, -2), style={"label": ""})
    dip = magpy.misc.Dipole(moment=(1, 2, 3), position=(3, 3, 3), style_color="red")
    s1 = magpy.Sensor(pixel=[(0, 0, 0), (0.1, 0.2, 0.3)], position=(2, 2, 2), style_label="S1")
    s1.rotate_from_angax([10, 20], "z")
    s2 = magpy.Sensor(pixel=[[(0, 0, 0), (0.1, 0.2, 0.3)]] * 3, position=(-2, 1, 3), handedness="left")
    s3 = magpy.Sensor(position=(4, 4, 4))
    s4 = magpy.Sensor(pixel=(0.5, 0.5, 0.5), position=(4, 4, 5), style_label="S4")
    col = magpy.Collection(loop, cyl, style_label="thecol")
    scol = magpy.Collection(s3, s4)
    return cub, cyl, loop, dip, s1, s2, s3, s4, col, scol


def run(tag, fn, objs):
    before = snap(objs)
    orients = [o._orientation for o in objs]
    print(f"{tag}: style before={[style_state(o) for o in objs]}")
    for rep in range(2):
        try:
            print(f"  [{rep}] ->", digest(fn()))
        except Exception as err:  # pylint: disable=broad-except
            cause = type(err.__cause__).__name__ if err.__cause__ is not None else None
            ctx = type(err.__context__).__name__ if err.__context__ is not None else None
            print(f"  [{rep}] raised {type(err).__name__} cause={cause} ctx={ctx} :: {clean(err)}")
        print(
            "      state-same=%s orient-identity=%s style after=%s"
            % (
                before == snap(objs),
                all(o._orientation is r for o, r in zip(objs, orients)),
                [style_state(o) for o in objs],
            )
        )


print("== check_getBH_output_type")
for val in ("ndarray", "dataframe", "DataFrame", "", None, 3, ["ndarray"], ("dataframe",), b"ndarray",
            np.str_("dataframe"), np.array(["ndarray"]), np.array(["ndarray", "dataframe"])):
    try:
        res = check_getBH_output_type(val)
        print(repr(val), "->", repr(res), "same object:", res is val)
    except Exception as err:  # pylint: disable=broad-except
        print(repr(val), "-> raised", type(err).__name__, clean(err))

print("== getB/H/J/M output=dataframe")
scen = {
    "single src pos_vec": lambda o, f, kw: f(o[0], (1, 2, 3), **kw),
    "list srcs sensors same pixel": lambda o, f, kw: f([o[0], o[1], o[2], o[3]], [o[4], o[4]], **kw),
    "collection + sensor collection": lambda o, f, kw: f([o[8], o[0]], o[9], **kw),
    "pixel grid": lambda o, f, kw: f([o[3], o[8]], o[5], **kw),
    "mixed pixel shapes mean": lambda o, f, kw: f([o[0], o[1]], [o[4], o[5], o[6], o[7]], pixel_agg="mean", **kw),
    "same pixel shape max": lambda o, f, kw: f([o[0], o[1]], [o[4]], pixel_agg="max", **kw),
}
for name, call in scen.items():
    for field in "BHJM":
        for kw in ({}, {"sumup": True}, {"squeeze": False}, {"sumup": True, "squeeze": False}):
            objs = make()
            f = getattr(magpy, "get" + field)
            run(f"{name} get{field} {kw} ndarray", lambda: call(objs, f, dict(kw, output="ndarray")), objs)
            objs = make()
            run(f"{name} get{field} {kw} dataframe", lambda: call(objs, f, dict(kw, output="dataframe")), objs)

print("== methods")
objs = make()
run("cub.getB df", lambda: objs[0].getB(objs[4], output="dataframe"), objs)
run("col.getH df", lambda: objs[8].getH(objs[5], objs[5], output="dataframe"), objs)
run("sens.getB df", lambda: objs[4].getB(objs[0], objs[8], output="dataframe", sumup=True), objs)
run("sens.getB df pixel_agg", lambda: objs[5].getB(objs[0], objs[8], output="dataframe", pixel_agg="min"), objs)
run("single source sumup", lambda: magpy.getB([objs[0]], objs[4], output="dataframe", sumup=True), objs)
run("functional interface ignores output", lambda: magpy.getB(
    "Cuboid", (1, 2, 3), dimension=(1, 2, 3), polarization=(1, 2, 3)), objs)

print("== error paths")
objs = make()
for bad in ("nope", None, 3, "Dataframe", ["dataframe"]):
    run(f"output={bad!r}", lambda bad=bad: magpy.getB([objs[0], objs[1]], objs[4], output=bad), objs)
run("dataframe + bad pixel shapes", lambda: magpy.getB(objs[0], [objs[4], objs[5]], output="dataframe"), objs)
run("dataframe + missing dim", lambda: magpy.getB(magpy.magnet.Cuboid(polarization=(1, 2, 3)), objs[4], output="dataframe"), objs)


def boom(field, observers):
    if len(observers) > 2:
        raise RuntimeError("boom")
    return observers * 1.0


cust = magpy.misc.CustomSource(field_func=boom)
run("dataframe + failing field_func", lambda: magpy.getB([objs[1], cust], objs[4], output="dataframe"), objs + (cust,))

# pandas not importable
saved = {k: v for k, v in sys.modules.items() if k == "pandas" or k.startswith("pandas.")}
for k in saved:
    sys.modules[k] = None
sys.modules["pandas"] = None
try:
    objs = make()
    run("no pandas: dataframe", lambda: magpy.getB([objs[0], objs[1]], objs[4], output="dataframe"), objs)
    run("no pandas: ndarray", lambda: magpy.getB([objs[0], objs[1]], objs[4], output="ndarray"), objs)
    run("no pandas: bad output", lambda: magpy.getB([objs[0], objs[1]], objs[4], output="x"), objs)
    try:
        check_getBH_output_type("dataframe")
    except Exception as err:  # pylint: disable=broad-except
        print("direct:", type(err).__name__, type(err.__cause__).__name__, clean(err), "|", clean(err.__cause__))
finally:
    sys.modules.pop("pandas", None)
    sys.modules.update(saved)
objs = make()
run("pandas back", lambda: magpy.getB([objs[0], objs[1]], objs[4], output="dataframe"), objs)
