import os, sys; sys.path.insert(0, os.getcwd())
import builtins
import hashlib
import re
import warnings

import numpy as np

import magpylib as magpy

warnings.simplefilter("ignore")
_print = builtins.print


def print(*args):  # deterministic: strip object ids / addresses
    txt = " ".join(str(a) for a in args)
    txt = re.sub(r"id=\d+", "id=#", txt)
    txt = re.sub(r"0x[0-9a-f]+", "0x#", txt)
    _print(txt)


def dig(name, arr):
    arr = np.asarray(arr)
    h = hashlib.sha256(np.ascontiguousarray(arr).tobytes()).hexdigest()[:16]
    print(name, arr.shape, h, np.round(arr.ravel()[:6], 12).tolist())


def err(name, fn):
    try:
        fn()
        print(name, "no error")
    except Exception as e:  # pylint: disable=broad-except
        print(name, type(e).__name__, str(e).splitlines()[0][:100])


def mk(n=8):
    """n different sources of mixed types"""
    out = []
    for i in range(n):
        kind = i % 4
        pos = (0.3 * i, -0.2 * i, 0.1 * i * i)
        if kind == 0:
            out.append(magpy.magnet.Cuboid(polarization=(0.1, 0.2 * i, 0.3), dimension=(1, 2, 3), position=pos))
        elif kind == 1:
            out.append(magpy.current.Circle(current=1.0 + i, diameter=2.0, position=pos))
        elif kind == 2:
            out.append(magpy.misc.Dipole(moment=(1, i, 3), position=pos))
        else:
            out.append(magpy.magnet.Sphere(polarization=(0.3, -0.2, 0.1 * i), diameter=1.5, position=pos))
    out[1].rotate_from_angax([10, 20, 30], "y", start=0)
    return out


obs = np.array([(5.5, 4.0, 3.0), (-2.0, 6.5, 2.0), (6.0, 0.0, -7.0)])
sens = magpy.Sensor(pixel=[(0, 0, 0), (0.1, 0.2, 0.3)], position=(1, 5, 9)).rotate_from_angax(33, (1, 2, 3))
sens_l = magpy.Sensor(position=(1, -5, 9), handedness="left", pixel=[(0, 0, 0), (0.1, 0, 0)])
Col = magpy.Collection


def layouts(s):
    """name -> (top level sources, index groups in the flattened list)"""
    yield "flat (no collection)", list(s), [[i] for i in range(8)]
    s = mk()
    yield "single-child collections only", [Col(s[0]), s[1], Col(s[2])], [[0], [1], [2]]
    s = mk()
    yield "one collection first", [Col(s[0], s[1], s[2]), s[3], s[4]], [[0, 1, 2], [3], [4]]
    s = mk()
    yield "one collection last", [s[0], s[1], Col(s[2], s[3], s[4])], [[0], [1], [2, 3, 4]]
    s = mk()
    yield "one collection middle", [s[0], Col(s[1], s[2]), s[3]], [[0], [1, 2], [3]]
    s = mk()
    yield "adjacent collections", [Col(s[0], s[1]), Col(s[2], s[3], s[4]), Col(s[5])], [[0, 1], [2, 3, 4], [5]]
    s = mk()
    yield "nested", [Col(Col(s[0], Col(s[1])), s[2]), s[3], Col(Col(Col(s[4], s[5])))], [[0, 1, 2], [3], [4, 5]]
    s = mk()
    yield "with sensors and empty sub-collections inside", [
        s[0],
        Col(magpy.Sensor(), s[1], Col(), Col(magpy.Sensor(), s[2]), s[3]),
        Col(s[4], magpy.Sensor()),
        s[5],
    ], [[0], [1, 2, 3], [4], [5]]
    s = mk()
    yield "only one collection", [Col(*s)], [list(range(8))]
    s = mk()
    yield "single + multi, bare duplicates", [s[0], Col(s[1]), s[0], Col(s[2], s[3]), s[0]], None


for field in ("B", "H"):
    getf = getattr(magpy, "get" + field)
    for name, srcs, groups in layouts(mk()):
        full = getf(srcs, obs, squeeze=False)
        dig(f"{field} {name}", full)
        dig(f"{field} {name} sumup", getf(srcs, obs, sumup=True))
        dig(f"{field} {name} sensors", getf(srcs, [sens, sens_l]))
        dig(f"{field} {name} pixel_agg", getf(srcs, [sens, sens_l], pixel_agg="mean", squeeze=False))
        if groups is not None:
            flat = [x for src in srcs for x in (src.sources_all if isinstance(src, Col) else [src])]
            single = getf(flat, obs, squeeze=False)  # flat evaluation, one entry per source
            # bitwise: same summation order as np.sum over the slice of single fields
            ref = np.array([np.sum(single[g[0] : g[-1] + 1], axis=0) for g in groups])
            print(field, name, "entries == np.sum of member fields:", bool(np.array_equal(full, ref)), len(srcs) == len(full))
    # collection as the only source, bare / via method / in a list
    s = mk()
    c = Col(s[0], Col(s[1], s[2]))
    dig(field + " bare collection", getf(c, obs))
    dig(field + " collection method", getattr(c, "get" + field)(obs))
    dig(field + " tuple input", getf((c, s[3]), obs))
    df = getf([c, s[3], Col(s[4], s[5])], sens, output="dataframe")
    print(field, "df sources", [re.sub(r"id=\d+", "id=#", x) for x in df["source"].unique()])
    dig(field + " df", df[[field + k for k in "xyz"]].to_numpy())

# error paths around the touched block
s = mk()
err("empty collection", lambda: magpy.getB([s[0], Col()], obs))
err("collection of empty collections", lambda: magpy.getB([Col(Col(), Col()), s[0]], obs))
err("sensor-only collection", lambda: magpy.getB([Col(magpy.Sensor()), s[0]], obs))
err("list inside list", lambda: magpy.getB([s[0], [s[1], s[2]]], obs))
bad = magpy.misc.CustomSource()
err("no field_func inside collection", lambda: magpy.getB([s[0], Col(s[1], bad)], obs))
none_src = magpy.misc.CustomSource(field_func=lambda field, observers: None)
err("field_func None inside collection", lambda: magpy.getB([Col(none_src, s[2]), s[0]], obs))
print("paths after errors", [len(x._position) for x in s])
cs = magpy.misc.CustomSource(field_func=lambda field, observers: observers * 2.0)
s = mk()
dig("custom in collection", magpy.getB([Col(cs, s[2]), s[3], Col(s[4], s[5])], obs))
