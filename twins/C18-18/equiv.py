import os, sys; sys.path.insert(0, os.getcwd())

# Exercises BaseDisplayRepr._get_description / describe / _repr_html_ (and the collection
# tree view with properties) for originals and their copies: all object classes, paths of
# length 1 and n, pixel shapes, missing inputs, exclude variants, failing properties.
import contextlib
import io
import re
import warnings

import numpy as np
from scipy.spatial.transform import Rotation as R

import magpylib as magpy
from magpylib._src.obj_classes import class_BaseDisplayRepr as bdr

warnings.simplefilter("ignore")


def clean(txt):
    return re.sub(r" at 0x[0-9a-f]+", " at 0x#", re.sub(r"id=\d+", "id=#", str(txt)))


def attempt(name, func):
    try:
        res = func()
        print(f"--- {name}")
        print(clean(res) if not isinstance(res, list) else "\n".join(clean(x) for x in res))
    except BaseException as err:  # pylint: disable=broad-except
        print(f"--- {name} ERR", type(err).__name__, clean(err).split("\n")[0][:160])


class Counting(magpy.Sensor):
    """property getters that count their calls / return sequences / fail"""

    calls = []

    @property
    def seq_small(self):
        Counting.calls.append("seq_small")
        return [1, 2, 3]

    @property
    def seq_big(self):
        Counting.calls.append("seq_big")
        return ((1, 2, 3), (4, 5, 6))

    @property
    def arr_empty(self):
        Counting.calls.append("arr_empty")
        return np.zeros((0, 3))

    @property
    def scalar(self):
        Counting.calls.append("scalar")
        return 3.5

    @property
    def _hidden(self):
        Counting.calls.append("_hidden")
        return 1

    @property
    def dimension(self):  # a name that has a unit
        Counting.calls.append("dimension")
        return (1, 2, 3, 4, 5)

    @property
    def status_disconnected_data(self):
        Counting.calls.append("status_disconnected_data")
        return [1]


class Failing(magpy.Sensor):
    @property
    def broken(self):
        raise RuntimeError("broken getter")


class Contains:
    """exclude container that logs the membership tests"""

    def __init__(self, *names):
        self.names = names
        self.log = []

    def __contains__(self, item):
        self.log.append(item)
        return item in self.names


def objects():
    verts = [(0, 0, 0), (1, 0, 0), (0, 1, 0), (0, 0, 1)]
    objs = [
        magpy.magnet.Cuboid(polarization=(0.1, 0.2, 0.3), dimension=(1, 2, 3), style_label="cub"),
        magpy.magnet.Cuboid(),
        magpy.magnet.Cylinder(magnetization=(1e5, 0, 0), dimension=(1, 2), position=[(1, 2, 3), (4, 5, 6)]),
        magpy.magnet.CylinderSegment(polarization=(0, 0, 1), dimension=(1, 2, 3, 0, 90)),
        magpy.magnet.Sphere(polarization=(0, 0, 1), diameter=2, orientation=R.from_rotvec([(0, 0, 0.1), (0, 0, 0.2), (0, 0, 0.3)])),
        magpy.magnet.Tetrahedron(polarization=(0, 0, 1), vertices=verts),
        magpy.magnet.TriangularMesh.from_ConvexHull(polarization=(0, 0, 1), points=verts + [(1, 1, 1)]),
        magpy.current.Circle(current=1, diameter=2),
        magpy.current.Polyline(current=1, vertices=[(0, 0, 0), (1, 1, 1), (2, 2, 2)]),
        magpy.current.Polyline(),
        magpy.misc.Dipole(moment=(1, 2, 3), position=np.linspace((0, 0, 0), (1, 1, 1), 7)),
        magpy.misc.Triangle(polarization=(0, 0, 1), vertices=verts[:3]),
        magpy.misc.CustomSource(style_label="custom"),
        magpy.Sensor(),
        magpy.Sensor(pixel=(1, 2, 3)),
        magpy.Sensor(pixel=[(1, 2, 3), (2, 3, 4)], handedness="left"),
        magpy.Sensor(pixel=np.zeros((2, 3, 4, 3)), position=[(0, 0, 0), (1, 1, 1)]),
    ]
    return objs


# 1. every object class: original and copy -----------------------------------------------
for i, obj in enumerate(objects()):
    attempt(f"{i} describe", lambda: obj.describe(return_string=True))
    attempt(f"{i} description all", lambda: obj._get_description())
    cp = obj.copy(position=[(9, 9, 9)] * (2 + i % 2))
    attempt(f"{i} copy describe", lambda: cp.describe(return_string=True))
    attempt(f"{i} html", cp._repr_html_)

# 2. exclude variants -----------------------------------------------------------------------
cub = magpy.magnet.Cuboid(polarization=(0.1, 0.2, 0.3), dimension=(1, 2, 3), style_label="cub")
attempt("exclude None", lambda: cub._get_description(exclude=None))
attempt("exclude ()", lambda: cub._get_description(exclude=()))
attempt("exclude str", lambda: cub._get_description(exclude="position"))
attempt("exclude list", lambda: cub._get_description(exclude=["position", "style", "parent", "nothing"]))
attempt("exclude set", lambda: cub.describe(exclude={"orientation", "dimension"}, return_string=True))
attempt("exclude not a container", lambda: cub._get_description(exclude=3))
cont = Contains("style", "volume")
attempt("exclude logging container", lambda: cub._get_description(exclude=cont))
print("membership tests", cont.log)
attempt("describe positional", lambda: cub.describe(("style",)))
def printed():
    buf = io.StringIO()
    with contextlib.redirect_stdout(buf):
        res = cub.describe()
    return f"returned {res!r}, printed:\n{buf.getvalue()}"


attempt("describe prints", printed)

# 3. property getters: how often, in which order ------------------------------------------------
cnt = Counting(pixel=[(0, 0, 0)] * 5, style_label="cnt")
attempt("counting", lambda: cnt.describe(return_string=True))
print("calls", Counting.calls)
Counting.calls.clear()
cc = cnt.copy()
attempt("counting copy", lambda: cc._get_description(exclude=("seq_big", "style")))
print("calls", Counting.calls)
attempt("failing", lambda: Failing().describe(return_string=True))
attempt("failing excluded", lambda: Failing().describe(exclude=("broken", "style"), return_string=True))

# 4. changed unit table (module global is read at call time) -----------------------------------
saved = dict(bdr.UNITS)
bdr.UNITS["pixel"] = "px"
bdr.UNITS["zzz"] = "never"
bdr.UNITS["scalar"] = ""
Counting.calls.clear()
attempt("units changed", lambda: cnt.describe(return_string=True))
bdr.UNITS.clear()
bdr.UNITS.update(saved)
attempt("units restored", lambda: cnt.describe(return_string=True))

# 5. collections: tree view with properties, original and copy --------------------------------
s1 = magpy.Sensor(style_label="s1", position=[(1, 1, 1), (2, 2, 2)])
m1 = magpy.magnet.Sphere(polarization=(0, 0, 1), diameter=1, style_label="m1")
sub = magpy.Collection(m1, style_label="sub")
top = magpy.Collection(s1, sub, style_label="top", position=(0, 0, 3))
attempt("tree", lambda: top.describe(return_string=True))
attempt("tree properties", lambda: top.describe(format="type+label+properties", return_string=True))
tc = top.copy(position=[(0, 0, 1), (0, 0, 2), (0, 0, 3)])
attempt("copy tree properties", lambda: tc.describe(format="label+properties", return_string=True))
attempt("copy tree html", tc._repr_html_)
attempt("collection description", lambda: top._get_description())
attempt("sub description (has parent)", lambda: sub._get_description(exclude=("style",)))
attempt("sub copy description", lambda: sub.copy()._get_description(exclude=("style",)))
tc.children[0].position = (5, 5, 5)
attempt("after mutation copy", lambda: tc.describe(format="label+properties", return_string=True))
attempt("after mutation original", lambda: top.describe(format="label+properties", return_string=True))

# 6. odd private state ----------------------------------------------------------------------------
odd = magpy.Sensor()
odd._position = np.zeros((0, 3))
attempt("empty path", lambda: odd.describe(return_string=True))
odd2 = magpy.Sensor()
del odd2._orientation
attempt("no orientation", lambda: odd2.describe(return_string=True))
odd3 = magpy.Sensor()
odd3._pixel = 5
attempt("pixel not an array", lambda: odd3.describe(return_string=True))
