import os, sys; sys.path.insert(0, os.getcwd())
import hashlib
import re
import warnings

import numpy as np

import magpylib as magpy
from magpylib._src.utility import format_src_inputs

warnings.simplefilter("ignore")


def h(x):
    x = np.ascontiguousarray(np.asarray(x))
    return f"{x.shape} {hashlib.sha1(x.tobytes()).hexdigest()[:16]}"


def dig(x):
    x = np.asarray(x)
    return f"{h(x)} {np.round(x.astype(float), 10).ravel()[:6].tolist()}"


def clean(err):
    return re.sub(r"0x[0-9a-f]+|id=\d+", "ADDR", str(err).replace("\n", " / "))


cub = magpy.magnet.Cuboid(polarization=(0.1, 0.2, 0.3), dimension=(1, 2, 3), position=(0.1, 0.2, 0.3))
cyl = magpy.magnet.Cylinder(polarization=(0.3, 0.2, 0.1), dimension=(1, 2))
cyl.position = [(0.1 * i, 0, 0.2) for i in range(3)]
circ = magpy.current.Circle(current=2, diameter=3, position=(0, 0, -1))
dip = magpy.misc.Dipole(moment=(1, 2, 3), position=(-1, 0, 1))
sph = magpy.magnet.Sphere(polarization=(0.1, 0.2, 0.3), diameter=1)
sens = magpy.Sensor(pixel=[(1, 2, 3), (2, 3, 4)], position=(0.5, 0.5, 0.5))
sens2 = magpy.Sensor(position=(3, 3, 3))
col_flat = magpy.Collection(cub, circ)
col_mixed = magpy.Collection(dip, sens2)  # source + sensor
col_nested = magpy.Collection(sph, magpy.Collection(cyl.copy(), magpy.Collection(dip.copy())))
col_empty = magpy.Collection()
col_sens = magpy.Collection(sens.copy())
col_empty_nested = magpy.Collection(magpy.Collection(), magpy.Collection(sens.copy()))

NAMES = {}
for nm, ob in list(globals().items()):
    if isinstance(ob, (magpy._src.obj_classes.class_BaseGeo.BaseGeo,)):
        NAMES[id(ob)] = nm


def name(o):
    return NAMES.get(id(o), re.sub(r"id=\d+", "ID", repr(o)))


INPUTS = {
    "bare source": cub,
    "bare collection": col_flat,
    "list": [cub, cyl, circ],
    "tuple": (cub, cyl, circ),
    "one-element list": [dip],
    "duplicates": [cub, cub, col_flat, cub],
    "list with collections": [cyl, col_flat, dip, col_nested],
    "mixed collection": [col_mixed],
    "nested collection": col_nested,
    "collections first": (col_nested, col_mixed, sph),
    # error cases
    "empty list": [],
    "empty tuple": (),
    "None": None,
    "string": "Cuboid",
    "int": 1,
    "int in list": [cub, 1],
    "None in list": [None, cub],
    "sensor": sens,
    "sensor in list": [cub, sens],
    "empty collection": col_empty,
    "empty collection in list": [cub, col_empty, 1],
    "int before empty collection": [cub, 1, col_empty],
    "sensor collection": [cub, col_sens],
    "collection without sources nested": [col_empty_nested],
    "nested list": [[cub, cyl]],
    "nested tuple": (cub, (cyl,)),
    "ndarray of sources": np.array([cub, cyl], dtype=object),
    "set": {cub},
    "generator": (s for s in [cub, cyl]),
    "class": magpy.magnet.Cuboid,
}

for label, inp in INPUTS.items():
    try:
        sources, src_list = format_src_inputs(inp)
        print(label, "->", type(sources).__name__, [name(s) for s in sources], "|", type(src_list).__name__,
              [name(s) for s in src_list], "| new list:", sources is not inp,
              "| same objects:", all(a is b for a, b in zip(sources, inp)) if isinstance(inp, (list, tuple)) else sources[0] is inp)
    except Exception as err:  # pylint: disable=broad-except
        print(label, "-> EXC", type(err).__name__, "|", clean(err)[-110:], "| ctx:", type(err.__context__).__name__,
              "| cause:", type(err.__cause__).__name__)

# the same inputs through the public call forms
for label, inp in INPUTS.items():
    if label == "generator":
        inp = (s for s in [cub, cyl])
    for field in "BH":
        try:
            print(label, field, "top ->", dig(getattr(magpy, "get" + field)(inp, sens)))
        except Exception as err:  # pylint: disable=broad-except
            print(label, field, "top -> EXC", type(err).__name__, "|", clean(err)[-110:])
    try:
        star = inp if isinstance(inp, (list, tuple)) else [inp]
        print(label, "sensor method ->", dig(sens.getB(*star, sumup=True)))
    except Exception as err:  # pylint: disable=broad-except
        print(label, "sensor method -> EXC", type(err).__name__, "|", clean(err)[-110:])
    try:
        print(label, "sensor collection method ->", dig(col_sens.getH(inp)))
    except Exception as err:  # pylint: disable=broad-except
        print(label, "sensor collection method -> EXC", type(err).__name__, "|", clean(err)[-110:])

# collections are summed, order of the rows follows the input order
B = magpy.getB([cyl, col_flat, dip, col_nested], sens)
print("rows:", h(B), [np.allclose(B[1], magpy.getB([cub, circ], sens, sumup=True), rtol=1e-14, atol=0),
                      np.array_equal(B[0], cyl.getB(sens)), np.allclose(B[2], dip.getB(sens), rtol=1e-14, atol=0),
                      np.allclose(B[3], col_nested.getB(sens), rtol=1e-14, atol=0)])
df = magpy.getB([cyl, col_flat], sens, output="dataframe")
print("df sources:", [re.sub(r"id=\d+", "ID", s) for s in df["source"].unique()], dig(df[["Bx", "By", "Bz"]].to_numpy()))
