import os, sys; sys.path.insert(0, os.getcwd())

# Exercises utility.format_obj_input / utility.filter_objects directly (nested inputs, all
# `allow` variants, warnings, error paths) and through their users on copies: the
# sources/sensors/collections overrides of copy(), and the field of copied collections.
import contextlib
import io
import re

import numpy as np

import magpylib as magpy
from magpylib._src.utility import filter_objects, format_obj_input, format_src_inputs


def clean(txt):
    return re.sub(r"id=\d+", "id=#", str(txt))


def r(a):
    return np.round(np.asarray(a, dtype=float), 10).tolist()


def lab(objs):
    return [getattr(getattr(o, "style", None), "label", repr(o)) for o in objs]


def attempt(name, func):
    buf = io.StringIO()
    try:
        with contextlib.redirect_stdout(buf):
            res = func()
        print(name, "ok", lab(res) if isinstance(res, list) else clean(res))
        return res
    except Exception as err:  # pylint: disable=broad-except
        cause = err.__cause__
        print(name, "ERR", type(err).__name__, clean(err).split("\n")[0], "| cause", type(cause).__name__)
        return None
    finally:
        # what the library printed itself (warnings), object ids masked
        for line in buf.getvalue().splitlines():
            print("   printed:", clean(line))


def build():
    o = {
        "s1": magpy.Sensor(position=(0.2, 0.3, 2), style_label="s1"),
        "s2": magpy.Sensor(position=(2, 0.1, 0.3), style_label="s2"),
        "d1": magpy.misc.Dipole(moment=(1, 2, 3), style_label="d1"),
        "m1": magpy.magnet.Cylinder(polarization=(0, 0, 1), dimension=(1, 1), position=(1, 0, 0), style_label="m1"),
        "sub_s": magpy.Sensor(position=(0.1, 2, 0.3), style_label="sub_s"),
        "sub_d": magpy.misc.Dipole(moment=(0, 0, 1), position=(0, 0, -1), style_label="sub_d"),
        "subsub_c": magpy.current.Circle(current=1, diameter=1, position=(0, 0, 1), style_label="subsub_c"),
    }
    o["subsub"] = magpy.Collection(o["subsub_c"], style_label="subsub")
    o["sub"] = magpy.Collection(o["sub_s"], o["sub_d"], o["subsub"], style_label="sub")
    o["empty"] = magpy.Collection(style_label="empty")
    o["col"] = magpy.Collection(o["s1"], o["d1"], o["sub"], o["m1"], o["empty"], o["s2"], style_label="col")
    o["xs"] = magpy.Sensor(style_label="xs")
    o["xd"] = magpy.misc.Dipole(moment=(1, 1, 1), position=(0, 1, 0), style_label="xd")
    o["xc"] = magpy.Collection(magpy.Sensor(style_label="xc_s"), magpy.misc.Dipole(moment=(1, 0, 0), style_label="xc_d"), style_label="xc")
    return o


o = build()
ALLOWS = ["sources", "sensors", "collections", "sources+sensors", "sources+collections", "sensors+collections", "sources+sensors+collections", "", "nothing", "sources+", "Sources"]
INPUTS = [
    ("nothing", lambda: ()),
    ("bare source", lambda: (o["d1"],)),
    ("bare sensor", lambda: (o["s1"],)),
    ("bare collection", lambda: (o["col"],)),
    ("empty collection", lambda: (o["empty"],)),
    ("several", lambda: (o["s1"], o["d1"], o["xc"])),
    ("list", lambda: ([o["s1"], o["d1"], o["sub"]],)),
    ("tuple", lambda: ((o["xd"], o["xs"]),)),
    ("nested", lambda: ([o["s1"], [o["d1"], (o["xs"], [o["xc"]])], o["sub"]], o["m1"])),
    ("duplicates", lambda: (o["s1"], o["s1"], [o["s1"]])),
    ("empty list", lambda: ([],)),
    ("empty nested", lambda: ([[], ()],)),
]
for allow in ALLOWS:
    for name, make in INPUTS:
        attempt(f"foi allow={allow!r} {name}", lambda: format_obj_input(*make(), allow=allow))
attempt("foi default allow", lambda: format_obj_input(o["col"], o["xd"]))
attempt("foi default allow warn False", lambda: format_obj_input([o["col"]], warn=False))
res = format_obj_input([o["d1"]], allow="sources")
res2 = format_obj_input([o["d1"]], allow="sources")
print("fresh lists", res is not res2, type(res).__name__)
src_in = [o["d1"], o["xd"]]
res = format_obj_input(src_in, allow="sources")
print("input untouched", lab(src_in), res is not src_in)

# error paths
for allow in ["sources", "collections", "sources+sensors+collections"]:
    for name, make in [
        ("int", lambda: (1,)),
        ("int in list", lambda: ([o["d1"], 333],)),
        ("None", lambda: (None,)),
        ("deep None", lambda: ([o["d1"], [o["s1"], (None,)]],)),
        ("array", lambda: (np.array([1.0, 2.0]),)),
        ("dict", lambda: ({"a": o["d1"]},)),
        ("generator", lambda: ((x for x in [o["d1"], o["s1"]]),)),
        ("set", lambda: ({o["d1"]},)),
        ("str", lambda: ("ab",)),
        ("object", lambda: (object(),)),
        ("class", lambda: (magpy.Sensor,)),
    ]:
        attempt(f"foi allow={allow!r} bad {name}", lambda: format_obj_input(*make(), allow=allow))
attempt("foi bad allow type", lambda: format_obj_input(o["d1"], allow=None))
attempt("foi bad allow type, no objects", lambda: format_obj_input(allow=3))

# filter_objects
mixed = [o["s1"], o["d1"], o["col"], 5, "x", None, o["m1"], o["sub"], o["s1"]]
for allow in ALLOWS:
    for warn in (True, False, 0, "yes"):
        attempt(f"filter allow={allow!r} warn={warn!r}", lambda: filter_objects(mixed, allow=allow, warn=warn))
attempt("filter default", lambda: filter_objects(mixed))
attempt("filter tuple", lambda: filter_objects(tuple(mixed), allow="sensors"))
attempt("filter generator", lambda: filter_objects((x for x in mixed), allow="collections", warn=False))
attempt("filter empty", lambda: filter_objects([], allow="sensors"))
attempt("filter bad allow", lambda: filter_objects(mixed, allow=None))
attempt("filter not iterable", lambda: filter_objects(5, allow="sensors"))
attempt("format_src_inputs", lambda: [lab(x) for x in format_src_inputs([o["col"], o["xd"]])])
attempt("format_src_inputs empty coll", lambda: format_src_inputs([o["empty"]]))

# users: setters / copy overrides / field -------------------------------------------------


def state(c):
    return [lab(c.children), lab(c.sources), lab(c.sensors), lab(c.collections)]


top = magpy.Collection(o["col"], style_label="top")
for name, kw in [
    ("sources bare", lambda: {"sources": o["xd"].copy()}),
    ("sources nested list", lambda: {"sources": [[o["xd"].copy()], (o["d1"].copy(),)]}),
    ("sources from collection", lambda: {"sources": o["xc"].copy()}),
    ("sources with sensor", lambda: {"sources": [o["xs"].copy(), o["xd"].copy()]}),
    ("sensors from collection", lambda: {"sensors": [o["xc"].copy(), o["xs"].copy()]}),
    ("collections", lambda: {"collections": [o["xc"].copy(), o["xd"].copy()]}),
    ("collections bare", lambda: {"collections": o["xc"].copy()}),
    ("sources bad", lambda: {"sources": [o["xd"].copy(), 7]}),
    ("sensors bad", lambda: {"sensors": None}),
    ("collections bad", lambda: {"collections": 3.5}),
]:
    cp = attempt(f"copy {name}", lambda: o["col"].copy(**kw()))
    if cp is not None:
        print("   copy", state(cp), cp.parent)
        if cp.sources_all and cp.sensors_all:
            print("   B copy", r(cp.getB()))
        cp.sources = []
        cp.add(magpy.Sensor(style_label="late"))
    print("   orig", state(o["col"]), o["col"].parent is top, state(o["xc"]), o["xd"].parent, o["xs"].parent)
cp = top.copy()
print("B", r(top.getB()), r(cp.getB()))
print("H", r(magpy.getH([cp, o["xd"]], [cp, (1, 2, 3)], pixel_agg="mean")))
cp.move((0.1, 0.2, 0.3))
cp[0].remove(cp[0].sources[0])
print("B after", r(top.getB()), r(cp.getB()))
print("B sub", r(magpy.getB(o["sub"], o["sub"])), r(o["subsub"].getB(o["s1"], o["xc"])))
attempt("getB sensors only", lambda: r(magpy.Collection(o["xs"].copy()).getB(o["xd"])))
attempt("getB no sources", lambda: magpy.getB(magpy.Collection(o["xs"].copy()), (0, 0, 0)))
attempt("getB bad observer", lambda: magpy.getB(o["xd"], magpy.Collection(o["xd"].copy())))
