import os, sys; sys.path.insert(0, os.getcwd())
import hashlib
import re
import warnings

import numpy as np

import magpylib as magpy

warnings.simplefilter("ignore")


def dig(name, arr):
    arr = np.ascontiguousarray(np.asarray(arr, dtype=float))
    h = hashlib.sha256(arr.tobytes()).hexdigest()[:16]
    print(name, arr.shape, h, np.round(arr.ravel()[:4], 12).tolist())


def attempt(name, func, *args, **kwargs):
    try:
        res = func(*args, **kwargs)
        print(name, "ok", np.shape(res))
    except Exception as err:  # pylint: disable=broad-except
        msg = re.sub(r"id=\d+|0x[0-9a-fA-F]+", "ID", str(err).replace("\n", " "))
        print(name, type(err).__name__, msg[:100])


def make_sources():
    cub = magpy.magnet.Cuboid(polarization=(0.1, 0.2, 0.3), dimension=(1, 2, 3))
    cub.move([(0.1 * i, 0, 0) for i in range(1, 5)])  # path length 5
    sph = magpy.magnet.Sphere(
        polarization=(0.3, 0.2, 0.1), diameter=1.2, position=(0, 3, 0)
    )
    line = magpy.current.Polyline(
        current=2.5, vertices=[(0, 0, 0), (1, 0, 0), (1, 1, 0), (0, 0, 1)]
    )
    line.rotate_from_angax([5, 7], "x", start=1)  # path length 3
    return cub, sph, line


cub, sph, line = make_sources()
srcs = [cub, sph, line]

grid = np.linspace(-1, 1, 2 * 3 * 3).reshape(2, 3, 3) + (3, 0, 0)
six = grid.reshape(-1, 3)


def sensors_same_count():
    """sensors with 6 pixels each, all pose kinds"""
    s0 = magpy.Sensor(pixel=six)
    s1 = magpy.Sensor(pixel=six, position=(0.2, 0.1, -0.3))
    s1.rotate_from_angax(70, (1, 1, 0))
    s2 = magpy.Sensor(pixel=six, position=(1, -2, 1))
    s2.rotate_from_angax(25, "y")
    s2.move([(0, 0, 0.1 * i) for i in range(1, 3)])  # length 3
    s3 = magpy.Sensor(pixel=six, position=(1, 1, -3), handedness="left")
    s3.rotate_from_angax([10, 20, 30, 40, 50, 60], "z", anchor=0)  # length 7
    return [s0, s1, s2, s3]


# 1) flat pixel lists, joint versus sensor-by-sensor versus step-by-step by hand
sens = sensors_same_count()
for name, func in (("B", magpy.getB), ("H", magpy.getH)):
    out = func(srcs, sens, squeeze=False)
    dig(name + "_flat", out)
    for k, sn in enumerate(sens):
        one = func(srcs, sn, squeeze=False)
        m = one.shape[1]
        print(" alone", k, bool(np.all(one[:, :, 0] == out[:, :m, k])))

# the observer positions the wrapper must have used: a static source seen by a moving sensor
s3 = sens[3]
by_hand = np.array(
    [r.apply(six) + p for r, p in zip(s3._orientation, s3._position)]
)  # (7, 6, 3)
ref = magpy.getB(sph, by_hand.reshape(-1, 3), squeeze=False).reshape(7, 6, 3)
ref = np.array([r.inv().apply(b) for r, b in zip(s3._orientation, ref)])  # sensor frame
got = magpy.getB(sph, magpy.Sensor(pixel=six, position=s3.position, orientation=s3.orientation), squeeze=False)[0, :, 0]
print("by_hand_close", bool(np.allclose(ref, got, rtol=1e-12, atol=1e-18)))
dig("by_hand_positions", by_hand)

# 2) pixel grids of shape (2, 3, 3), bare position arrays, tuples
gsens = [magpy.Sensor(pixel=grid, position=(0, 0, i)) for i in range(3)]
gsens[1].rotate_from_angax([15, 30], (1, 2, 3))
dig("B_grid", magpy.getB(srcs, gsens, squeeze=False))
dig("B_grid_mixed", magpy.getB(srcs, [gsens[1], grid, gsens[0]], squeeze=False))
dig("B_array_obs", magpy.getB(srcs, grid, squeeze=False))
dig("B_single_vec", magpy.getB(srcs, (1, 2, 3), squeeze=False))

# 3) sensors without pixel, with a single (3,) pixel, with a (1, 3) pixel
p_none = magpy.Sensor(position=(1, 1, 1))
p_none.rotate_from_angax([90, 45], "z")
p_vec = magpy.Sensor(pixel=(0.1, 0.2, 0.3), position=(1, 1, 1))
p_vec.rotate_from_angax([90, 45], "z")
p_row = magpy.Sensor(pixel=[(0, 0, 0)], position=(1, 1, 1))
p_row.rotate_from_angax([90, 45], "z")
out = magpy.getB(srcs, [p_none, p_vec, p_row], squeeze=False)
dig("B_nopix", out)
print(" none_equals_zero_pixel", bool(np.all(out[:, :, 0] == out[:, :, 2])))
dig("B_nopix_single", magpy.getB(sph, p_none, squeeze=False))
dig("B_nopix_squeeze", magpy.getB(sph, p_none))

# 4) different pixel counts joined with an aggregator, permutations and duplicates
mix = [gsens[1], p_none, sens[2], p_vec, gsens[1], sens[3]]
for agg in ("mean", "min"):
    dig("B_agg_" + agg, magpy.getB(srcs, mix, pixel_agg=agg, squeeze=False))
perm = [3, 0, 3, 2, 1, 0]
dig("B_perm", magpy.getB(srcs[::-1], [sens[i] for i in perm], squeeze=False))
dig("H_sumup", magpy.getH(srcs, sens, sumup=True, squeeze=False))

# 5) sensors inside collections, sensor methods, dataframe
col = magpy.Collection(sens[1], sens[3], sph)
dig("B_coll", magpy.getB(cub, col, squeeze=False))
dig("B_coll_self", col.getB(squeeze=False))
dig("B_sens_method", sens[2].getB(cub, line, squeeze=False))
df = magpy.getB(srcs, sens[:2], output="dataframe")
dig("B_df", df[["Bx", "By", "Bz"]].to_numpy())

# 6) error paths in the observer stage; object paths must be restored afterwards
broken = magpy.Sensor(pixel=six, position=(0, 1, 0))
broken._pixel = np.zeros((2, 2))  # cannot be cut into rows of 3
attempt("e_bad_pixel", magpy.getB, srcs, [sens[0], broken], pixel_agg="mean")
broken._pixel = np.zeros((4,))
attempt("e_bad_pixel_1d", magpy.getB, srcs, [broken, sens[3]], pixel_agg="mean")
broken._pixel = "abc"
attempt("e_str_pixel", magpy.getB, srcs, [sens[1], broken], pixel_agg="mean")
attempt("e_shapes", magpy.getB, srcs, [sens[0], gsens[0]])
attempt("e_empty", magpy.getB, srcs, [])

print([len(o._position) for o in srcs + sens + gsens + [p_none, p_vec, p_row, broken]])
print([len(o._orientation) for o in srcs + sens + gsens + [p_none, p_vec, p_row, broken]])
