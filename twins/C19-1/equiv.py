import os, sys; sys.path.insert(0, os.getcwd())
import hashlib
import json
import re

import numpy as np
from scipy.spatial.transform import Rotation as R

import magpylib as magpy
from magpylib._src.display.traces_utility import place_and_orient_model3d
from magpylib._src.display.traces_utility import rescale_traces


def norm(o):
    """deterministic, JSON-able view of nested trace structures"""
    if isinstance(o, dict):
        return {str(k): norm(v) for k, v in sorted(o.items(), key=lambda kv: str(kv[0]))}
    if isinstance(o, (list, tuple)):
        return [type(o).__name__, [norm(v) for v in o]]
    if isinstance(o, np.ndarray):
        if o.dtype.kind in "fiu":
            return ["nd", list(o.shape), np.round(o.astype(float), 9).tolist()]
        return ["nd", list(o.shape), [norm(v) for v in o.ravel().tolist()]]
    if isinstance(o, (float, np.floating)):
        return round(float(o), 9)
    if isinstance(o, (int, np.integer, bool, type(None))):
        return o
    if isinstance(o, str):
        return re.sub(r"id=\d+", "id=#", o)
    if isinstance(o, R):
        return ["rot", np.round(o.as_quat(), 9).tolist()]
    return re.sub(r"id=\d+|0x[0-9a-f]+", "#", repr(o))


def digest(label, o):
    s = json.dumps(norm(o), sort_keys=True)
    print(f"{label}: {hashlib.sha256(s.encode()).hexdigest()[:16]} len={len(s)}")
    return s


def attempt(label, func):
    try:
        res = func()
    except Exception as err:  # pylint: disable=broad-except
        print(f"{label}: EXC {type(err).__name__}: {err}")
        return None
    digest(label, res)
    return res


rot = R.from_euler("xyz", (10, 20, 30), degrees=True)
tr = {"type": "mesh3d", "x": [0, 1, 0, 0], "y": [0, 0, 1, 0], "z": [0, 0, 0, 1],
      "i": [0], "j": [1], "k": [2], "color": "red"}

# identity branch: returns shallow merged dict, args untouched
a = attempt("identity", lambda: place_and_orient_model3d(tr, name="n"))
print("identity aliasing x:", a["x"] is tr["x"])
attempt("identity+args", lambda: place_and_orient_model3d(
    tr, model_args=(1, 2), return_model_args=True, return_coordsargs=True))

# transform branches
attempt("pos", lambda: place_and_orient_model3d(tr, position=(1, 2, 3)))
attempt("rot", lambda: place_and_orient_model3d(tr, orientation=rot))
attempt("rot+pos+scale+lf", lambda: place_and_orient_model3d(
    tr, orientation=rot, position=[0.5, -1, 2], scale=2.5, length_factor=1000, extra=1))
attempt("lf only", lambda: place_and_orient_model3d(tr, length_factor=0.01))
print("input untouched:", tr["x"], tr["y"], tr["z"])

# (n,m) shaped coordinates (surface like)
X, Y = np.meshgrid(np.linspace(-1, 1, 4), np.linspace(0, 2, 3))
surf = {"x": X, "y": Y, "z": X * Y}
attempt("surface", lambda: place_and_orient_model3d(surf, orientation=rot, position=(1, 1, 1)))

# integer input coordinates + scalar coordinates
attempt("scalars", lambda: place_and_orient_model3d({"x": 1, "y": 2, "z": 3}, position=(1, 1, 1)))

# args based model (matplotlib style) with default and explicit coordsargs
args = ([0, 1, 2], [1, 1, 1], [3, 2, 1], "extra")
attempt("args default", lambda: place_and_orient_model3d(
    {"ls": "-"}, model_args=args, orientation=rot, position=(0, 0, 1),
    return_model_args=True, return_coordsargs=True))
attempt("args explicit", lambda: place_and_orient_model3d(
    {"ls": "-"}, model_args=args, position=(0, 0, 1), scale=3,
    coordsargs={"x": "args[2]", "y": "args[0]", "z": "args[1]"},
    return_model_args=True, return_coordsargs=True))
attempt("kwargs coordsargs", lambda: place_and_orient_model3d(
    {"xs": [0, 1], "ys": [1, 2], "zs": [2, 3]}, position=(0, 0, 1),
    coordsargs={"x": "xs", "y": "ys", "z": "zs"}, return_coordsargs=True))
attempt("mixed coordsargs", lambda: place_and_orient_model3d(
    {"y": [1, 2], "z": [2, 3]}, model_args=([0, 1],), position=(0, 0, 1),
    coordsargs={"x": "args[0]", "y": "y", "z": "z"}, return_model_args=True))
print("args untouched:", args)

# error paths
attempt("err missing coord", lambda: place_and_orient_model3d({"x": [1], "y": [2]}, position=(0, 0, 1)))
attempt("err bad position", lambda: place_and_orient_model3d(tr, position="abc"))
attempt("err pos shape", lambda: place_and_orient_model3d(tr, position=(1, 2)))
attempt("err ragged", lambda: place_and_orient_model3d(
    {"x": [1, 2], "y": [2], "z": [1, 2, 3]}, position=(0, 0, 1)))
attempt("err bad args index", lambda: place_and_orient_model3d(
    {}, model_args=([0], [1]), position=(0, 0, 1)))

# rescale_traces (generic and extra backend traces)
traces = [
    {**tr, "row": 1, "col": 1},
    {"type": "scatter", "x": [1], "y": [2], "row": 1, "col": 2},
    {"constructor": "plot", "kwargs": {"ls": "-"}, "args": args, "coordsargs": None,
     "kwargs_extra": {"row": 1, "col": 2}},
]
attempt("rescale", lambda: rescale_traces(traces, factors={(1, 1): 1000.0, (1, 2): 0.01}))

# full model through show()
cube = magpy.magnet.Cuboid(polarization=(0, 0, 1), dimension=(1, 2, 3), position=[(0, 0, 0), (1, 2, 3), (2, 4, 6)])
cube.rotate_from_angax([0, 45, 90], "z", start=0)
loop = magpy.current.Circle(current=1, diameter=2, position=(0, 0, -2))
sens = magpy.Sensor(pixel=[(0, 0, 0), (0, 0, 1)], position=(3, 0, 0))
mesh_extra = {"backend": "matplotlib", "constructor": "plot", "args": ([0, 1], [0, 1], [0, 2]), "kwargs": {"ls": "--"}, "show": True}
cube.style.model3d.add_trace(**mesh_extra)
coll = magpy.Collection(loop, sens)
coll.move((0, 0, 1))
before = json.dumps(norm([o.style.as_dict() for o in (cube, loop, sens, coll)] + [magpy.defaults.as_dict()]))
for units in ("auto", "mm", "m"):
    fig = magpy.show(cube, coll, backend="plotly", return_fig=True, style_path_frames=1, units_length=units)
    digest(f"plotly {units}", fig.to_dict()["data"])
    digest(f"plotly {units} scene", fig.to_dict()["layout"]["scene"])
import matplotlib
matplotlib.use("Agg")
fig = magpy.show(cube, coll, backend="matplotlib", return_fig=True, units_length="cm")
ax = fig.axes[0]
digest("mpl lines", [np.array(l.get_data_3d()) for l in ax.lines])
digest("mpl lims", [ax.get_xlim(), ax.get_ylim(), ax.get_zlim(), ax.get_xlabel()])
after = json.dumps(norm([o.style.as_dict() for o in (cube, loop, sens, coll)] + [magpy.defaults.as_dict()]))
print("objects/defaults unchanged:", before == after)
