import os, sys; sys.path.insert(0, os.getcwd())
import hashlib
import warnings

import numpy as np

import magpylib as magpy
from magpylib._src.fields.field_BH_cylinder_segment import (
    BHJM_cylinder_segment_internal as f_int,
)

warnings.simplefilter("ignore")


def run(name, fn):
    try:
        arr = np.asarray(fn())
        h = hashlib.sha256(np.ascontiguousarray(arr).tobytes()).hexdigest()[:16]
        print(name, arr.dtype, arr.shape, h, np.round(arr.ravel()[:9], 12).tolist())
        return arr
    except BaseException as e:  # pylint: disable=broad-except
        print(name, "raised", type(e).__name__, "|", str(e)[:200].replace("\n", " / "))
        return None


rng = np.random.default_rng(7)

# (r1, r2, h, phi1, phi2) rows: segments, full solid cylinders, full hollow cylinders
DIMS = {
    "segment": (0.5, 1.0, 2.0, 0.0, 90.0),
    "segment_solid": (0.0, 1.0, 2.0, -30.0, 200.0),
    "segment_359": (0.3, 1.2, 1.0, 0.0, 359.999),
    "full_solid": (0.0, 1.0, 2.0, 0.0, 360.0),
    "full_hollow": (0.4, 1.0, 2.0, 0.0, 360.0),
    "full_hollow_shift": (0.7, 1.5, 0.5, -180.0, 180.0),
    "full_over": (0.2, 1.0, 1.0, 0.0, 400.0),
    "full_neg_r1": (-0.4, 1.0, 2.0, 10.0, 370.0),
    "full_nan_r1": (np.nan, 1.0, 2.0, 0.0, 360.0),
    "nan_phi": (0.4, 1.0, 2.0, np.nan, 360.0),
}
OBS = np.array(
    [
        (0.1, 0.2, 0.3),
        (0.7, 0.1, 0.2),
        (2.0, 1.0, -0.5),
        (0.0, 0.0, 0.0),
        (0.0, 0.0, 3.0),
        (1.0, 0.0, 1.0),
        (0.4, 0.0, 0.0),
        (-0.6, 0.6, 0.9),
    ]
)

print("==== single kinds, all fields")
for key, dim in DIMS.items():
    n = len(OBS)
    dims = np.tile(np.array(dim, dtype=float), (n, 1))
    pols = np.tile(np.array((0.1, -0.2, 0.3)), (n, 1))
    for field in "BHJM":
        run(f"{key} {field}", lambda: f_int(field, OBS, pols, dims))

print("==== random mixes of all kinds in random order")
keys = list(DIMS)
for trial in range(6):
    n = 40
    pick = rng.integers(0, len(keys), n)
    dims = np.array([DIMS[keys[i]] for i in pick], dtype=float)
    obs = OBS[rng.integers(0, len(OBS), n)] + rng.normal(0, 0.3, (n, 3)) * (rng.random((n, 1)) < 0.7)
    pols = rng.normal(0, 1, (n, 3)) * (rng.random((n, 3)) < 0.8)
    for field in "BHJM":
        full = run(f"mix{trial} {field}", lambda: f_int(field, obs, pols, dims))
        # row by row evaluation must give the very same rows
        rows = np.array([f_int(field, obs[i : i + 1], pols[i : i + 1], dims[i : i + 1])[0] for i in range(n)])
        print("   rowwise identical (informational, batch size may change rounding):", np.array_equal(full, rows, equal_nan=True))
    # linearity in the polarization (scaling by 2 is exact in floating point)
    b1 = f_int("B", obs, pols, dims)
    b2 = f_int("B", obs, 2 * pols, dims)
    print("   B(2J) == 2 B(J):", np.array_equal(b2, 2 * b1, equal_nan=True))

print("==== degenerate batches")
e3, e5 = np.zeros((0, 3)), np.zeros((0, 5))
for field in "BHJM":
    run(f"empty {field}", lambda: f_int(field, e3, e3, e5))
one = np.array([DIMS["full_hollow"]])
run("single hollow H", lambda: f_int("H", OBS[:1], np.array([(0, 0, 1.0)]), one))
run("int dims", lambda: f_int("B", OBS[:3], np.ones((3, 3)), np.array([(0, 1, 2, 0, 360), (1, 2, 2, 0, 360), (1, 2, 2, 0, 90)])))
run("inputs untouched", lambda: (lambda o, p, d: (f_int("B", o, p, d), np.concatenate([o.ravel(), p.ravel(), d.ravel()]))[1])(OBS.copy(), np.ones((8, 3)), np.tile(np.array(DIMS["full_hollow"]), (8, 1))))

print("==== error paths")
dims = np.array([DIMS["segment"], DIMS["full_solid"], DIMS["full_hollow"]])
pols = np.ones((3, 3))
run("bad field X", lambda: f_int("X", OBS[:3], pols, dims))
run("bad field None", lambda: f_int(None, OBS[:3], pols, dims))
run("bad field, only full", lambda: f_int("X", OBS[:2], pols[:2], dims[1:]))
run("bad field, empty", lambda: f_int("X", e3, e3, e5))
run("dims with 4 columns", lambda: f_int("B", OBS[:3], pols, dims[:, :4]))
run("dims 6 columns", lambda: f_int("B", OBS[:3], pols, np.c_[dims, dims[:, :1]]))
run("pols 2 columns", lambda: f_int("B", OBS[:3], pols[:, :2], dims))
run("obs 2 columns", lambda: f_int("H", OBS[:3, :2], pols, dims))
run("list inputs", lambda: f_int("B", OBS[:3].tolist(), pols.tolist(), dims.tolist()))

print("==== through the object interface")
srcs = [
    magpy.magnet.CylinderSegment(polarization=(0.1, 0.2, 0.3), dimension=DIMS["segment"], position=(0.1, 0, 0)),
    magpy.magnet.CylinderSegment(polarization=(0.3, -0.2, 0.1), dimension=DIMS["full_solid"]),
    magpy.magnet.CylinderSegment(polarization=(0, 0, 1), dimension=DIMS["full_hollow"], position=(0, 0.2, 0)),
    magpy.magnet.CylinderSegment(polarization=(1, 0, 0), dimension=DIMS["full_hollow_shift"]),
]
srcs[0].rotate_from_angax([10, 20, 30], "y")
srcs[2].move([(0, 0, 0.1), (0, 0, 0.2)])
sens = magpy.Sensor(pixel=[(0, 0, 0), (0.1, 0.1, 0.1)], position=(0.3, 0.2, 1.5))
col = magpy.Collection(srcs[0], magpy.Collection(srcs[1], srcs[2]))
for field in "BHJM":
    fn = getattr(magpy, "get" + field)
    sep = run(f"obj list {field}", lambda: fn(srcs, [sens, (0.2, 0.2, 0.2)], pixel_agg="mean"))
    tot = run(f"obj sumup {field}", lambda: fn(srcs, OBS, sumup=True))
    lst = run(f"obj per-source {field}", lambda: fn(srcs, OBS))
    print("   sumup == np.sum(list):", np.array_equal(tot, np.sum(lst, axis=0)))
    c = run(f"obj collection {field}", lambda: fn([col, srcs[3]], OBS))
    single = [fn(s, OBS) for s in srcs]
    print("   list == singles (informational):", all(np.array_equal(a, b) for a, b in zip(lst, single)))
run("dict interface", lambda: magpy.getB("CylinderSegment", OBS, polarization=(0.1, 0.2, 0.3), dimension=[DIMS["segment"], DIMS["full_hollow"]] * 4))
