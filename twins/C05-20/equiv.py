import os, sys; sys.path.insert(0, os.getcwd())
import hashlib
import warnings

import numpy as np

import magpylib as magpy

warnings.simplefilter("ignore")


def digest(arr):
    arr = np.asarray(arr)
    h = hashlib.sha256(np.ascontiguousarray(arr).tobytes()).hexdigest()[:16]
    return f"{arr.dtype} {arr.shape} {h} {np.round(arr.ravel()[:6], 12).tolist()}"


def run(name, fn):
    try:
        res = fn()
        if hasattr(res, "columns"):  # dataframe
            print(name, "DF", res.shape, list(res.columns), hashlib.sha256(res.to_csv().encode()).hexdigest()[:16])
        else:
            print(name, digest(res))
        return res
    except BaseException as e:  # pylint: disable=broad-except
        print(name, "raised", type(e).__name__, "|", str(e)[:160].replace("\n", " / "))
        return None


def paths_state(objs):
    return [(len(o._position), o._position.tobytes(), o._orientation.as_quat().tobytes()) for o in objs]


# sources: two bare sources and a nested collection, one with a path
s1 = magpy.magnet.Cuboid(polarization=(0.1, 0.2, 0.3), dimension=(1, 2, 3), position=(0.1, 0.2, 0.3))
s2 = magpy.current.Circle(diameter=2, current=3, position=(0, 0, -1))
s3 = magpy.magnet.Sphere(diameter=1, polarization=(0, 0, 1), position=(2, 0, 0))
s4 = magpy.misc.Dipole(moment=(1, 2, 3), position=(0, -2, 0))
s2.move([(0, 0, 0.1)] * 3)
col = magpy.Collection(s3, magpy.Collection(s4))
SOURCES = {"one": s1, "list": [s1, s2], "with collection": [s1, col, s2]}

grid = np.mgrid[0:2, 0:3, 0:1].T.reshape(1, 3, 2, 3) * 0.3 + 1.0
sens = {
    "none": magpy.Sensor(position=(1, 1, 1)),
    "p1": magpy.Sensor(pixel=(0.1, 0.2, 0.3), position=(1, 1, 1)),
    "p1x": magpy.Sensor(pixel=[(0.1, 0.2, 0.3)], position=(1, -1, 1)),
    "p2": magpy.Sensor(pixel=[(0, 0, 0), (0.1, 0.2, 0.3)], position=(-1, 1, 1)),
    "p2b": magpy.Sensor(pixel=[(0, 0, 0.1), (0.3, 0.2, 0.1)], position=(-1, 1, 2)),
    "p5": magpy.Sensor(pixel=np.linspace((0, 0, 0), (1, 1, 1), 5), position=(0, 3, 0)),
    "grid": magpy.Sensor(pixel=grid, position=(0, 0, 3)),
    "grid2": magpy.Sensor(pixel=grid * 1.5, position=(0, 0, -3), handedness="left"),
}
sens["p2"].rotate_from_angax([10, 20], "z")
sens["p5"].rotate_from_angax(33, (1, 2, 3))
sens["grid"].move([(0.1, 0, 0)] * 2)
sens_col = magpy.Collection(sens["p2"], sens["p5"])
ALL_OBJS = [s1, s2, s3, s4, *sens.values()]
for num, obj in enumerate([*ALL_OBJS, col, sens_col]):  # deterministic dataframe ids
    obj.style.label = f"obj{num}"

OBSERVERS = {
    "same: none": [sens["none"]],
    "same: none+p1+p1x": [sens["none"], sens["p1"], sens["p1x"]],
    "same: p2+p2b": [sens["p2"], sens["p2b"]],
    "same: grids": [sens["grid"], sens["grid2"]],
    "same: positions": [(1, 2, 3), (2, 3, 4)],
    "same: position array": np.linspace((1, 1, 1), (2, 2, 2), 4).reshape(2, 2, 3),
    "ragged: p1+p2": [sens["p1"], sens["p2"]],
    "ragged: p2+grid+none": [sens["p2"], sens["grid"], sens["none"]],
    "ragged: all": list(sens.values()),
    "ragged: reversed": list(sens.values())[::-1],
    "ragged: collection+position+grid": [sens_col, (1, 2, 3), sens["grid2"]],
    "ragged: p5 only in list with array": [sens["p5"], [(1, 2, 3), (2, 3, 4)]],
}
AGGS = [None, "mean", "max", "min", "sum", "std", "median", "ptp", "prod", "var", "nanmean", "amax", "average", "any", "count_nonzero"]

print("==== observers x sources x pixel_agg")
state0 = paths_state(ALL_OBJS)
for oname, obs in OBSERVERS.items():
    for sname, src in SOURCES.items():
        for agg in AGGS:
            for sumup in (False, True):
                for squeeze in (True, False):
                    run(f"{oname} | {sname} | {agg} | sumup={sumup} squeeze={squeeze}", lambda: magpy.getB(src, obs, pixel_agg=agg, sumup=sumup, squeeze=squeeze))
    print("   paths restored:", paths_state(ALL_OBJS) == state0)

print("==== aggregation equals manual aggregation of the unaggregated field (ragged, unrotated sensors)")
plain = [magpy.Sensor(pixel=np.linspace((0, 0, 0), (1, 1, 1), n), position=(0, 0, n)) for n in (1, 2, 5, 3)]
for fname in ("mean", "max", "sum"):
    agg = magpy.getH([s1, col], plain, pixel_agg=fname, squeeze=False)
    manual = np.stack([getattr(np, fname)(magpy.getH([s1, col], p, squeeze=False)[:, :, 0], axis=2) for p in plain], axis=2)
    print(f"   {fname}: shapes {agg.shape} {manual.shape} equal: {np.array_equal(agg[:, :, :, 0], manual)}")
tot = magpy.getH([s1, col, s2], plain, pixel_agg="mean", sumup=True, squeeze=False)
lst = magpy.getH([s1, col, s2], plain, pixel_agg="mean", squeeze=False)
print("   sumup == np.sum(list):", np.array_equal(tot[0], np.sum(lst, axis=0)))

print("==== other fields, dataframe, object methods")
for field in "HJM":
    fn = getattr(magpy, "get" + field)
    run(f"{field} ragged mean", lambda: fn([s1, col], OBSERVERS["ragged: all"], pixel_agg="mean"))
    run(f"{field} same none", lambda: fn([s1, col], OBSERVERS["same: grids"]))
run("dataframe same", lambda: magpy.getB([s1, col], OBSERVERS["same: p2+p2b"], output="dataframe"))
run("dataframe same agg", lambda: magpy.getB([s1, col], OBSERVERS["same: p2+p2b"], output="dataframe", pixel_agg="max"))
run("dataframe ragged agg", lambda: magpy.getB([s1, col], OBSERVERS["ragged: all"], output="dataframe", pixel_agg="mean", sumup=True))
run("sensor method", lambda: sens["grid"].getB(s1, col, pixel_agg="min"))
run("source method ragged", lambda: s1.getH(sens["p2"], sens["grid"], pixel_agg="mean"))
run("collection method", lambda: col.getB(sens["p5"], sens["none"], pixel_agg="std", squeeze=False))
run("sensor collection method", lambda: sens_col.getH(s1, s2, pixel_agg="median"))

print("==== error paths (paths must be restored afterwards)")
for name, kw in {
    "ragged without pixel_agg": dict(observers=OBSERVERS["ragged: all"]),
    "ragged dataframe without pixel_agg": dict(observers=OBSERVERS["ragged: p1+p2"], output="dataframe"),
    "pixel_agg unknown": dict(observers=OBSERVERS["ragged: all"], pixel_agg="bad_name"),
    "pixel_agg not reducing": dict(observers=OBSERVERS["ragged: all"], pixel_agg="cumsum"),
    "pixel_agg newaxis": dict(observers=OBSERVERS["same: grids"], pixel_agg="newaxis"),
    "pixel_agg int": dict(observers=OBSERVERS["same: grids"], pixel_agg=3),
    "pixel_agg size, same": dict(observers=OBSERVERS["same: grids"], pixel_agg="size"),
    "pixel_agg size, ragged": dict(observers=OBSERVERS["ragged: all"], pixel_agg="size"),
    "pixel_agg ndim, same": dict(observers=OBSERVERS["same: p2+p2b"], pixel_agg="ndim"),
    "pixel_agg ndim, ragged": dict(observers=OBSERVERS["ragged: p1+p2"], pixel_agg="ndim"),
    "pixel_agg argmax, same": dict(observers=OBSERVERS["same: grids"], pixel_agg="argmax"),
    "pixel_agg argmax, ragged": dict(observers=OBSERVERS["ragged: all"], pixel_agg="argmax"),
    "pixel_agg percentile": dict(observers=OBSERVERS["ragged: all"], pixel_agg="percentile"),
    "empty observers": dict(observers=[]),
    "bad observer in list": dict(observers=[sens["p2"], "x"], pixel_agg="mean"),
    "sources only collection as observer": dict(observers=[col], pixel_agg="mean"),
}.items():
    run(name, lambda: magpy.getB([s1, col, s2], **kw))
    print("   paths restored:", paths_state(ALL_OBJS) == state0)
