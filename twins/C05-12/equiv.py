import os, sys; sys.path.insert(0, os.getcwd())
import builtins
import hashlib
import re
import warnings

import numpy as np

import magpylib as magpy

warnings.simplefilter("ignore")
_print = builtins.print


def print(*args):  # deterministic: strip object ids / addresses
    txt = " ".join(str(a) for a in args)
    txt = re.sub(r"id=\d+", "id=#", txt)
    txt = re.sub(r"0x[0-9a-f]+", "0x#", txt)
    _print(txt)


def dig(name, arr):
    arr = np.asarray(arr)
    h = hashlib.sha256(np.ascontiguousarray(arr).tobytes()).hexdigest()[:16]
    print(name, arr.shape, h, np.round(arr.ravel()[:6], 12).tolist())


def lab(objs):
    return [o.style.label for o in objs]


def plab(obj):
    return None if obj.parent is None else obj.parent.style.label


obs = np.array([(5.5, 4.0, 3.0), (-2.0, 6.5, 2.0), (6.0, 0.0, -7.0)])


def world():
    """a fresh set of labelled objects: w['top'] is a collection with sources, sensors and
    sub-collections interleaved; w['other'] is a second tree; a few free objects"""
    w = {}
    w["s1"] = magpy.magnet.Cuboid(polarization=(0.1, 0.2, 0.3), dimension=(1, 2, 3), position=(1, 0, 0), style_label="s1")
    w["s2"] = magpy.current.Circle(current=3.0, diameter=2.0, position=(0, 1, 0), style_label="s2")
    w["s3"] = magpy.misc.Dipole(moment=(1, 2, 3), position=(0, 0, 1), style_label="s3")
    w["s4"] = magpy.magnet.Sphere(polarization=(0.3, -0.2, 0.1), diameter=1.5, position=(1, 1, 0), style_label="s4")
    w["s5"] = magpy.magnet.Cylinder(polarization=(0.3, 0.2, 0.1), dimension=(1, 1), position=(1, 1, 1), style_label="s5")
    w["s6"] = magpy.current.Polyline(current=1.5, vertices=[(0, 0, 0), (1, 1, 1), (2, 0, 1)], style_label="s6")
    w["x1"] = magpy.Sensor(position=(5, 5, 5), style_label="x1")
    w["x2"] = magpy.Sensor(position=(-5, 5, 5), pixel=[(0, 0, 0), (0.1, 0.2, 0.3)], style_label="x2")
    w["x3"] = magpy.Sensor(position=(5, -5, 5), style_label="x3")
    w["x4"] = magpy.Sensor(position=(5, 5, -5), style_label="x4")
    w["c1"] = magpy.Collection(w["s3"], w["x3"], style_label="c1")
    w["c2"] = magpy.Collection(style_label="c2")
    w["c3"] = magpy.Collection(w["s5"], style_label="c3")
    w["top"] = magpy.Collection(w["s1"], w["x1"], w["c1"], w["s2"], w["c2"], w["x2"], style_label="top")
    w["other"] = magpy.Collection(w["s4"], w["x4"], w["c3"], style_label="other")
    return w


def state(w):
    for key in ("top", "other", "c1", "c2", "c3"):
        c = w[key]
        print(
            f"   {key}: children={lab(c.children)} sources={lab(c.sources)} sensors={lab(c.sensors)}"
            f" collections={lab(c.collections)} all={lab(c.children_all)} parent={plab(c)}"
        )
        print(
            f"      identity: {[a is b for a, b in zip(c.sources, [o for o in c.children if isinstance(o, magpy._src.obj_classes.class_BaseExcitations.BaseSource)])]}"
            f" lists distinct: {c.sources is not c.children, c.sensors is not c.children, c.collections is not c.children}"
        )
    print("   parents:", {k: plab(v) for k, v in w.items() if k not in ("top", "other")})
    print("   tree:", w["top"].describe(format="label", return_string=True).replace("\n", " / "))
    for key in ("top", "other"):
        try:
            dig(f"   B({key})", magpy.getB(w[key], obs))
            dig(f"   H({key}) parts", magpy.getH(w[key].sources_all, obs, sumup=True))
        except Exception as e:  # pylint: disable=broad-except
            print(f"   B({key})", type(e).__name__, str(e).splitlines()[0][:80])


def run(name, fn):
    w = world()
    print("==", name)
    try:
        res = fn(w)
        print("   result:", res)
    except BaseException as e:  # pylint: disable=broad-except
        print("   raised:", type(e).__name__, "|", str(e)[:200].replace("\n", " / "))
    state(w)


def setter(attr, key, value_fn):
    def fn(w):
        old = getattr(w[key], attr)
        setattr(w[key], attr, value_fn(w))
        new = getattr(w[key], attr)
        return f"old list kept its content: {lab(old)}; new is old: {new is old}"

    return fn


print("#### baseline state")
state(world())

cases = {
    "sources = free list": ("sources", "top", lambda w: [w["s6"]]),
    "sources = single object": ("sources", "top", lambda w: w["s6"]),
    "sources = tuple with own child first": ("sources", "top", lambda w: (w["s2"], w["s6"], w["s1"])),
    "sources = objects with other parents": ("sources", "top", lambda w: [w["s4"], w["s5"], w["s3"]]),
    "sources = nested lists": ("sources", "top", lambda w: [[w["s6"]], (w["s4"], [w["s5"]])]),
    "sources = a collection (flattened)": ("sources", "top", lambda w: w["other"]),
    "sources = own sub-collection": ("sources", "top", lambda w: [w["c1"], w["s6"]]),
    "sources = mixed with sensors (filtered)": ("sources", "top", lambda w: [w["x4"], w["s6"], w["x1"]]),
    "sources = []": ("sources", "top", lambda w: []),
    "sources = own list object": ("sources", "top", lambda w: w["top"].sources),
    "sources = duplicates": ("sources", "top", lambda w: [w["s6"], w["s6"]]),
    "sources = 5": ("sources", "top", lambda w: 5),
    "sources = None": ("sources", "top", lambda w: None),
    "sources = 'abc'": ("sources", "top", lambda w: "abc"),
    "sources = [s6, 'x']": ("sources", "top", lambda w: [w["s6"], "x"]),
    "sources on empty collection": ("sources", "c2", lambda w: [w["s1"], w["s4"]]),
    "sensors = free list": ("sensors", "top", lambda w: [w["x4"]]),
    "sensors = single": ("sensors", "top", lambda w: w["x3"]),
    "sensors = reorder own": ("sensors", "top", lambda w: [w["x2"], w["x1"]]),
    "sensors = collection": ("sensors", "top", lambda w: w["other"]),
    "sensors = sources only (filtered)": ("sensors", "top", lambda w: [w["s6"]]),
    "sensors = []": ("sensors", "top", lambda w: ()),
    "sensors = duplicates": ("sensors", "top", lambda w: [w["x4"], w["x3"], w["x4"]]),
    "sensors = array": ("sensors", "top", lambda w: np.array([1, 2, 3])),
    "sensors = dict": ("sensors", "top", lambda w: {"a": 1}),
    "collections = free list": ("collections", "top", lambda w: [w["c3"]]),
    "collections = single": ("collections", "top", lambda w: w["other"]),
    "collections = reorder own": ("collections", "top", lambda w: [w["c2"], w["c1"]]),
    "collections = []": ("collections", "top", lambda w: []),
    "collections = [self]": ("collections", "top", lambda w: [w["top"]]),
    "collections = parent of self": ("collections", "c1", lambda w: [w["top"]]),
    "collections = sources (not flattened, filtered)": ("collections", "top", lambda w: [w["s6"], w["c3"]]),
    "collections = nested list": ("collections", "top", lambda w: [[w["c3"]], w["other"]]),
    "collections = 3.5": ("collections", "top", lambda w: 3.5),
    "collections = duplicates": ("collections", "top", lambda w: [w["c3"], w["c3"]]),
}
for name, (attr, key, vfn) in cases.items():
    run(name, setter(attr, key, vfn))

print("#### add / remove / children setter / + operator (all go through _update_src_and_sens)")
run("add several", lambda w: w["top"].add(w["s6"], w["x4"], w["c3"], override_parent=True))
run("add list", lambda w: w["c2"].add([w["s6"]]))
run("add with parent, no override", lambda w: w["top"].add(w["s6"], w["s4"]))
run("add twice", lambda w: w["top"].add(w["s6"], w["s6"]))
run("add self", lambda w: w["top"].add(w["top"]))
run("add bad type", lambda w: w["top"].add(w["s6"], 7))
run("remove top level", lambda w: w["top"].remove(w["s1"], w["x2"]))
run("remove nested", lambda w: w["top"].remove(w["s3"]))
run("remove nested non-recursive", lambda w: w["top"].remove(w["s3"], recursive=False))
run("remove missing ignore", lambda w: w["top"].remove(w["s4"], errors="ignore"))
run("remove collection", lambda w: w["top"].remove(w["c1"]))
run("children setter", lambda w: setattr(w["top"], "children", [w["x4"], w["s6"], w["c3"]]))
run("children setter empty", lambda w: setattr(w["top"], "children", []))
run("plus operator", lambda w: lab((w["s6"] + w["top"]).children))
run("parent setter", lambda w: setattr(w["s6"], "parent", w["c2"]))
run("parent setter None", lambda w: setattr(w["s1"], "parent", None))
run("copy of collection", lambda w: lab(w["top"].copy().sources))


class Both(magpy.Sensor, magpy.Collection):
    """pathological child that is a Sensor and a Collection at the same time"""

    def __init__(self):
        magpy.Sensor.__init__(self)
        magpy._src.obj_classes.class_Collection.BaseCollection.__init__(self)


def both(w):
    try:
        b = Both()
    except Exception as e:  # pylint: disable=broad-except
        return f"cannot build: {type(e).__name__}"
    b.style.label = "both"
    w["c2"].add(b)
    return (lab(w["c2"].sources), lab(w["c2"].sensors), lab(w["c2"].collections))


run("child that is Sensor and Collection", both)
