import os, sys; sys.path.insert(0, os.getcwd())
import hashlib
import re
import warnings

import numpy as np
from scipy.spatial.transform import Rotation as R

import magpylib as magpy

warnings.simplefilter("ignore")


def dig(name, val):
    """print a deterministic (bit-exact) digest of an array or exception"""
    if isinstance(val, BaseException):
        msg = re.sub(r"id=\d+|0x[0-9a-f]+", "#", str(val))
        mh = hashlib.sha256(msg.encode()).hexdigest()[:12]
        print(f"{name}: EXC {type(val).__name__}: msg-sha={mh} len={len(msg)} {msg[:60]!r}...{msg[-60:]!r}")
    elif val is None:
        print(f"{name}: None")
    else:
        a = np.asarray(val, dtype=float)
        h = hashlib.sha256(np.ascontiguousarray(a).tobytes()).hexdigest()[:16]
        print(f"{name}: shape={a.shape} sha={h} sum={np.sum(a):.12e}")


def run(name, func):
    try:
        dig(name, func())
    except Exception as err:  # pylint: disable=broad-except
        dig(name, err)


def state(objs):
    parts = []
    for o in objs:
        parts.append(o._position.tobytes())
        parts.append(o._orientation.as_quat().tobytes())
    return hashlib.sha256(b"".join(parts)).hexdigest()[:16]


import inspect
import itertools

rng = np.random.default_rng(3)


def build():
    """leaf with path, sensor, nested collection with children of different path length"""
    cub = magpy.magnet.Cuboid(
        polarization=(0.1, 0.2, 0.3), dimension=(1, 2, 3), position=[(0.1, 0.2, 0.3), (1, 1, 1), (2, 0, 1)]
    )
    sens = magpy.Sensor(pixel=[(0, 0, 0), (0.1, 0, 0.2)], position=(4, -4, 4), handedness="left")
    dip = magpy.misc.Dipole(moment=(1, 2, 3), position=(-3, 1, 1)).rotate_from_angax(30, "y")
    circ = magpy.current.Circle(current=2, diameter=1.5, position=[(0, 0, k) for k in range(2)])
    inner = magpy.Collection(dip, sens, position=(1, 0, 0))
    outer = magpy.Collection(inner, circ, position=[(0, 1, 0), (0, 2, 0)])
    empty = magpy.Collection()
    return {"cub": cub, "sens": sens, "dip": dip, "circ": circ, "inner": inner, "outer": outer, "empty": empty}


def full_state(objs):
    parts = []
    for o in objs.values():
        parts.append(repr(o._position.shape).encode())
        parts.append(o._position.tobytes())
        parts.append(o._orientation.as_quat().tobytes())
    return hashlib.sha256(b"".join(parts)).hexdigest()[:16]


def call(name, target, method, *args, **kwargs):
    objs = build()
    try:
        ret = getattr(objs[target], method)(*args, **kwargs)
        print(f"{name}: ret-is-self={ret is objs[target]} state={full_state(objs)} "
              f"len={len(objs[target]._position)}")
    except Exception as err:  # pylint: disable=broad-except
        dig(name, err)
        print(f"{name}: state-after-error={full_state(objs)}")


q1 = R.from_rotvec((0.3, -0.2, 0.5))
q3 = R.from_rotvec(rng.uniform(-1, 1, (3, 3)))
# (method, scalar input args, vector input args, extra keyword variants)
families = {
    "rotate_from_rotvec": (
        [((0.3, -0.2, 0.5),), (np.array((20.0, 10.0, -40.0)),)],
        [(rng.uniform(-50, 50, (3, 3)),), ([(0, 0, 10), (0, 0, 20)],)],
        [{}, {"degrees": False}, {"degrees": True}],
    ),
    "rotate_from_euler": (
        [(33, "z"), ((10, 20), "xy"), ((10, 20, 30), "ZYX")],
        [((10, 20, 30), "x"), ([[10], [20], [30]], "y"), ([(10, 20), (30, 40), (50, 60)], "yz"), (rng.uniform(-90, 90, (2, 3)), "xyz")],
        [{}, {"degrees": False}, {"degrees": True}],
    ),
    "rotate_from_matrix": (
        [(q1.as_matrix(),), ([(0, -1, 0), (1, 0, 0), (0, 0, 1)],)],
        [(q3.as_matrix(),), (q3[:1].as_matrix(),)],
        [{}],
    ),
    "rotate_from_mrp": (
        [((0, 0, 1),), (q1.as_mrp(),)],
        [(q3.as_mrp(),), ([(0.1, 0.2, 0.3)],)],
        [{}],
    ),
    "rotate_from_quat": (
        [((0, 0, 1, 1),), (q1.as_quat(),)],
        [(q3.as_quat(),), ([(0, 0, 0, 2), (1, 0, 0, -1)],)],
        [{}],
    ),
}
anchors = [None, 0, (1, 2, 3), [(1, 2, 3), (0, 0, 1)], [(1, 2, 3), (0, 0, 1), (1, 1, 1)]]
starts = ["auto", 0, 1, -1, -5, 4]
targets = ["cub", "sens", "inner", "outer", "empty"]

n = 0
for method, (scalars, vectors, kwvariants) in families.items():
    for kind, arglist in (("scalar", scalars), ("vector", vectors)):
        for ai, args in enumerate(arglist):
            for (an_i, anchor), start, kw, target in itertools.product(
                enumerate(anchors), starts, kwvariants, targets
            ):
                n += 1
                if n % 3:  # thin out the full product deterministically
                    continue
                call(
                    f"{method}/{kind}{ai}/anchor{an_i}/start={start}/{kw}/{target}",
                    target, method, *args, anchor=anchor, start=start, **kw,
                )

# calling conventions: positional and keyword names of the public signatures
call("conv/rotvec-positional", "outer", "rotate_from_rotvec", (0, 0, 45), (1, 1, 1), 1, False)
call("conv/rotvec-keywords", "outer", "rotate_from_rotvec", rotvec=(0, 0, 45), anchor=(1, 1, 1), start=1, degrees=False)
call("conv/euler-positional", "outer", "rotate_from_euler", (45, 10), "zx", 0, -1, True)
call("conv/euler-keywords", "outer", "rotate_from_euler", seq="zx", angle=(45, 10), degrees=True, start=-1, anchor=0)
call("conv/matrix-positional", "inner", "rotate_from_matrix", q1.as_matrix(), (1, 0, 0), 0)
call("conv/matrix-keywords", "inner", "rotate_from_matrix", matrix=q3.as_matrix(), anchor=(1, 0, 0), start=0)
call("conv/mrp-positional", "cub", "rotate_from_mrp", (0, 0, 1), None, "auto")
call("conv/mrp-keywords", "cub", "rotate_from_mrp", mrp=q3.as_mrp(), start=2)
call("conv/quat-positional", "sens", "rotate_from_quat", (0, 1, 0, 1), 0, 0)
call("conv/quat-keywords", "sens", "rotate_from_quat", quat=q3.as_quat(), anchor=[(0, 0, 0)] * 3)
for method in families:
    print(f"signature/{method}:", inspect.signature(getattr(magpy.Sensor, method)))

# error paths: bad rotation input, bad anchor / start, unexpected keywords
bad = {
    "rotate_from_rotvec": [((1, 2),), ("abc",), (None,), ((1, 2, 3, 4),), (np.ones((2, 2, 3)),)],
    "rotate_from_euler": [(10, "q"), ((10, 20), "z"), (10, "xyzx"), (10, "xY"), ("a", "z"), (None, "x"), (10, None)],
    "rotate_from_matrix": [(np.ones((2, 2)),), (np.zeros((3, 3)),), ("m",), (None,)],
    "rotate_from_mrp": [((1, 2),), ("abc",), (None,)],
    "rotate_from_quat": [((0, 0, 0, 0),), ((1, 2, 3),), ("q",), (None,)],
}
for method, arglist in bad.items():
    for i, args in enumerate(arglist):
        call(f"err/{method}/input{i}", "outer", method, *args)
        # a bad rotation input is reported before a bad anchor / start
        call(f"err/{method}/input{i}+bad-anchor", "outer", method, *args, anchor=(1, 2))
    good = families[method][0][0]
    call(f"err/{method}/bad-anchor", "outer", method, *good, anchor=(1, 2))
    call(f"err/{method}/bad-anchor-str", "cub", method, *good, anchor="x")
    call(f"err/{method}/bad-start", "outer", method, *good, start=1.5)
    call(f"err/{method}/bad-start-str", "sens", method, *good, start="first")
    call(f"err/{method}/unexpected-kw", "cub", method, *good, foo=1)
    call(f"err/{method}/missing", "cub", method)
    call(f"err/{method}/too-many", "cub", method, *good, None, 0, True, 5)
call("err/rotvec/bad-degrees", "cub", "rotate_from_rotvec", (0, 0, 1), degrees="yes")
call("err/euler/bad-degrees", "cub", "rotate_from_euler", 10, "z", degrees=None)
call("err/matrix/degrees", "cub", "rotate_from_matrix", q1.as_matrix(), degrees=True)
call("err/quat/degrees", "cub", "rotate_from_quat", (0, 0, 0, 1), degrees=True)


# a subclass that overrides `rotate` still receives the calls of the whole family
class Spy(magpy.Sensor):
    def rotate(self, rotation, anchor=None, start="auto"):
        print("  spy.rotate:", np.round(rotation.as_quat(), 12).tolist(), anchor, start)
        return super().rotate(rotation, anchor=anchor, start=start)


spy = Spy(position=(1, 2, 3))
for method, (scalars, _, kwvariants) in families.items():
    ret = getattr(spy, method)(*scalars[0], anchor=(0, 1, 0), start=0, **kwvariants[-1])
    print(f"spy/{method}: {ret is spy}", np.round(spy._position, 12).tolist())

# the inputs are not modified
arr = rng.uniform(-1, 1, (3, 3))
arr0 = arr.copy()
anc = np.array([(1.0, 2, 3)] * 3)
build()["outer"].rotate_from_rotvec(arr, anchor=anc, start=0)
print("inputs untouched:", bool(np.all(arr == arr0)), anc.tolist())

# field after the rotations, and the property itself via the rotate_from family
objs = build()
objs["outer"].rotate_from_euler([[10], [20], [30]], "x", anchor=0).rotate_from_quat((0, 1, 0, 3))
objs["cub"].rotate_from_mrp((0.1, 0.2, 0.3)).rotate_from_matrix(q1.as_matrix(), anchor=(1, 1, 1))
run("field", lambda: magpy.getB([objs["cub"], objs["outer"]], objs["sens"]))
glob = R.from_rotvec((0.3, -0.7, 0.2))
shift = np.array((0.3, -1.2, 2.2))
B0 = magpy.getB(objs["cub"], (3.0, 4.0, 5.0))
c1 = objs["cub"].copy().rotate_from_quat(glob.as_quat(), anchor=0).move(shift)
B1 = magpy.getB(c1, glob.apply((3.0, 4.0, 5.0)) + shift)
print("covariant:", bool(np.allclose(glob.apply(B0), B1, rtol=1e-10, atol=1e-16)))
