import os, sys; sys.path.insert(0, os.getcwd())
import hashlib
import re
import warnings

import numpy as np
from scipy.spatial.transform import Rotation as R

import magpylib as magpy

warnings.simplefilter("ignore")


def dig(name, val):
    """print a deterministic digest of an array or exception"""
    if isinstance(val, BaseException):
        msg = re.sub(r"id=\d+|0x[0-9a-f]+", "#", str(val))
        print(f"{name}: EXC {type(val).__name__}: {msg[:120]!r}")
    elif val is None:
        print(f"{name}: None")
    else:
        a = np.asarray(val, dtype=float)
        h = hashlib.sha256(np.ascontiguousarray(a).tobytes()).hexdigest()[:16]
        print(f"{name}: shape={a.shape} sha={h} sum={np.sum(a):.12e}")


def run(name, func):
    try:
        dig(name, func())
    except Exception as err:  # pylint: disable=broad-except
        dig(name, err)


def state(objs):
    """digest of the paths of all objects (must be restored after getBH)"""
    parts = []
    for o in objs:
        parts.append(o._position.tobytes())
        parts.append(o._orientation.as_quat().tobytes())
    return hashlib.sha256(b"".join(parts)).hexdigest()[:16]


rot3 = R.from_rotvec([[0.1, 0.2, 0.3], [0.5, -0.4, 0.3], [1.0, 2.0, -0.5]])

cub = magpy.magnet.Cuboid(
    polarization=(0.1, 0.2, 0.3), dimension=(1, 2, 3), position=(0.1, 0.2, 0.3)
).rotate_from_angax(33, (1, 2, 3))
circ = magpy.current.Circle(current=12.0, diameter=2.5, position=(0, 0, -2))
circ.rotate_from_angax([10, 20, 30, 40, 50], "x", anchor=0)
srcs = [cub, circ]

sensors = {
    "nopix": magpy.Sensor(position=(4, 4, 4)),
    "nopix-path": magpy.Sensor(position=[(4, 4, 4), (4, 5, 4), (4, 6, 5)]).rotate(
        rot3, start=0
    ),
    "pix3": magpy.Sensor(pixel=(0.1, 0.2, 0.3), position=(-4, 3, 2)).rotate_from_angax(
        70, (1, 0, 1)
    ),
    "pixn3": magpy.Sensor(
        pixel=[(0, 0, 0), (0.1, 0, 0), (0, 0.1, 0.2)], position=(4, 4, 4)
    ).rotate_from_angax([5, 10, 15, 20], (1, 1, 0), anchor=0, start=0),
    "pixgrid": magpy.Sensor(
        pixel=np.arange(24, dtype=float).reshape(2, 4, 3) / 10,
        position=(5, -3, 2),
        handedness="left",
    ).rotate(rot3, anchor=(1, 1, 1)),
    "pix-long": magpy.Sensor(pixel=[(0, 0, 0.1), (0.1, 0, 0)]).move(
        [(5, 0, k) for k in range(7)], start=0
    ),
}
allobjs = srcs + list(sensors.values())
print("state0", state(allobjs))

for name, sens in sensors.items():
    for fld in "BH":
        func = getattr(magpy, "get" + fld)
        run(f"{name} {fld}", lambda: func(srcs, sens))
        run(f"{name} {fld} nosqueeze", lambda: func(srcs, sens, squeeze=False))
    run(f"{name} via sens.getB", lambda: sens.getB(cub, circ, sumup=True))
    print("state", name, state(allobjs))

# several sensors of equal pixel shape, sensors in a collection, positions
run("two nopix", lambda: magpy.getB(srcs, [sensors["nopix"], sensors["nopix-path"]]))
run("nopix + pix3", lambda: magpy.getH(srcs, [sensors["nopix-path"], sensors["pix3"]]))
scol = magpy.Collection(sensors["pixn3"].copy(), sensors["pixn3"].copy(position=(9, 9, 9)))
scol.rotate_from_angax(40, "z", anchor=0)
run("sensor collection", lambda: magpy.getB(srcs, scol))
run("col.getB", lambda: magpy.Collection(cub.copy(), sensors["pix3"].copy()).getB())
run("positions (3,)", lambda: magpy.getB(srcs, (4, 4, 4)))
run("positions grid", lambda: magpy.getB(srcs, np.arange(36.0).reshape(2, 2, 3, 3) + 5))
run(
    "mixed list",
    lambda: magpy.getB(srcs, [sensors["pixn3"], [(1, 2, 3)] * 3, scol], sumup=True),
)
# different pixel shapes with aggregator
for agg in ("mean", "max"):
    run(
        f"agg {agg}",
        lambda agg=agg: magpy.getB(srcs, list(sensors.values()), pixel_agg=agg),
    )
print("state after", state(allobjs))

# error paths
run("err mixed shapes", lambda: magpy.getB(srcs, [sensors["pixn3"], sensors["pixgrid"]]))
print("state err1", state(allobjs))
# broken pixel attribute: reshape(-1, 3) fails inside the guarded block, paths must be reset
brk = magpy.Sensor(pixel=[(0, 0, 0), (0.1, 0, 0)], position=(1, 1, 8))
brk._pixel = np.arange(8.0).reshape(2, 4)
run("err broken pixel", lambda: magpy.getB(srcs, brk))
print("state err2", state(allobjs + [brk]))
brk2 = magpy.Sensor(pixel=[(0, 0, 0), (0.1, 0, 0)], position=(1, 1, 8))
brk2._pixel = "abc"
run("err str pixel", lambda: magpy.getB(srcs, [sensors["nopix-path"], brk2]))
print("state err3", state(allobjs + [brk2]))
run("err empty observers", lambda: magpy.getB(srcs, []))
run("err bad observers", lambda: magpy.getB(srcs, "x"))
