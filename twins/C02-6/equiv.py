import os, sys; sys.path.insert(0, os.getcwd())
import hashlib
import warnings

import numpy as np

import magpylib as magpy
from magpylib._src.fields.field_BH_cylinder import BHJM_magnet_cylinder

warnings.simplefilter("ignore")
np.seterr(all="ignore")


def digest(name, arr):
    arr = np.asarray(arr)
    h = hashlib.sha256(np.ascontiguousarray(arr).tobytes()).hexdigest()[:16]
    print(name, arr.shape, arr.dtype, h)
    with np.printoptions(precision=10, linewidth=200):
        print(np.round(arr, 12))


def attempt(name, fn):
    try:
        digest(name, fn())
    except Exception as e:  # noqa: BLE001
        print(name, type(e).__name__, str(e).replace("\n", " | ")[:160])


rng = np.random.default_rng(2)
n = 16
obs = rng.uniform(-2, 2, (n, 3))
dim = np.tile((2.0, 2.0), (n, 1))  # d=2 -> r0=1, h=2 -> z0=1
pol = rng.uniform(-1, 1, (n, 3))
obs[0] = (0, 0, 0)  # centre, on axis
obs[1] = (1, 0, 1)  # on edge
obs[2] = (0, -1, -1)  # on edge
obs[3] = (1, 0, 0.3)  # on hull
obs[4] = (0.2, 0.1, 1)  # on top base
obs[5] = (0, 0, 3)  # on axis outside
obs[6] = (np.nan, 0, 0)
obs[7] = (0.3, 0.3, 0.3)
pol[7] = 0  # zero polarization inside
pol[8] = (0, 0, 1)  # axial only
pol[9] = (1, -1, 0)  # transversal only
obs[9] = (0.1, 0.2, -0.3)
dim[10] = (0, 1)  # zero diameter
dim[11] = (1, 0)  # zero height
dim[12] = (3, 0.5)
obs[12] = (-1.5 / np.sqrt(2), 1.5 / np.sqrt(2), 0.25)  # near edge after scaling
obs[13] = (1e-300, -1e-300, 0.5)
obs[14] = (-0.0, 0.0, -0.0)

for field in "BHJM":
    attempt(f"core-{field}", lambda: BHJM_magnet_cylinder(field, obs, dim, pol))
    attempt(
        f"core-int-{field}",
        lambda: BHJM_magnet_cylinder(
            field,
            np.array([(0, 0, 0), (1, 2, 3), (1, 0, 1), (0, 0, 2)]),
            np.array([(2, 2)] * 4),
            np.array([(1, 2, 3)] * 4),
        ),
    )

# consistency B = mu0*H + J on the core function
B, H, J, M = (BHJM_magnet_cylinder(f, obs, dim, pol) for f in "BHJM")
ok = np.isfinite(B).all(axis=1) & np.isfinite(H).all(axis=1)
print("BHJ core", np.allclose(B[ok], magpy.mu_0 * H[ok] + J[ok], rtol=1e-10, atol=1e-14))
print("JM core", np.array_equal(J / magpy.mu_0, M))

# inputs must not be modified / outputs must not alias inputs
o2, d2, p2 = obs.copy(), dim.copy(), pol.copy()
for field in "BHJM":
    res = BHJM_magnet_cylinder(field, o2, d2, p2)
    print(field, "alias", np.shares_memory(res, p2), np.shares_memory(res, o2))
print(
    "inputs unchanged",
    np.array_equal(o2, obs, equal_nan=True),
    np.array_equal(d2, dim),
    np.array_equal(p2, pol),
)

# object interface, rotated + path, incl. CylinderSegment with full 360 deg (falls back)
cyl = magpy.magnet.Cylinder(dimension=(1.3, 0.7), polarization=(0.1, -0.2, 0.3))
cyl.rotate_from_angax([10, 33, 77], (1, 2, 3)).move((0.1, 0.2, -0.1))
pts = rng.uniform(-1, 1, (20, 3))
for f in "BHJM":
    digest(f"obj-{f}", getattr(cyl, f"get{f}")(pts))
seg = magpy.magnet.CylinderSegment(dimension=(0.2, 1, 1, 0, 360), magnetization=(1e5, 2e5, -3e5))
for f in "BHJM":
    digest(f"seg360-{f}", getattr(seg, f"get{f}")(pts))
print("BHJ obj", np.allclose(cyl.getB(pts), magpy.mu_0 * cyl.getH(pts) + cyl.getJ(pts), rtol=1e-10, atol=1e-14))

# error paths
for bad in ("X", "BH", "", 5, None):
    attempt(f"bad-{bad!r}", lambda: BHJM_magnet_cylinder(bad, obs, dim, pol))
for f in "BJ":
    attempt(f"shape-dim-{f}", lambda: BHJM_magnet_cylinder(f, obs, dim[:3], pol))
    attempt(f"shape-pol-{f}", lambda: BHJM_magnet_cylinder(f, obs, dim, pol[:3]))
    attempt(f"shape-pol1-{f}", lambda: BHJM_magnet_cylinder(f, obs, dim, pol[:1]))
    attempt(f"shape-obs-{f}", lambda: BHJM_magnet_cylinder(f, obs[:5], dim, pol))
    attempt(f"obs-1d-{f}", lambda: BHJM_magnet_cylinder(f, obs[0], dim, pol))
    attempt(f"obs-4col-{f}", lambda: BHJM_magnet_cylinder(f, np.ones((n, 4)), dim, pol))
    attempt(f"obs-list-{f}", lambda: BHJM_magnet_cylinder(f, obs.tolist(), dim, pol))
    attempt(f"empty-{f}", lambda: BHJM_magnet_cylinder(f, obs[:0], dim[:0], pol[:0]))
